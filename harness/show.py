"""python harness/show.py <ID> <replay.json> — print implementation and model outputs side by side for a replay input"""
import importlib
import json
import sys

sys.path.insert(0, "/verif/harness")
import core  # noqa: E402

pid, path = sys.argv[1], sys.argv[2]
mod = importlib.import_module(f"props.{pid.lower()}")
case = json.load(open(path))
case = case.get("input", case)
out = mod.impl(case)
print("IMPL :", core.sx(out)[:3000])
rc, txt = core.eval_coq(mod.COQ_HEADER, [f"{mod.COQ_MODEL} ({mod.coq_input(case)})"], name=f"show_{pid}")
print("MODEL:", " ".join(txt.split())[:3000])


def parse_sx(txt):
    import re
    t = txt
    if "=" in t[:5]:
        t = t.split("=", 1)[1]
    t = t.rsplit(": sx", 1)[0]
    t = re.sub(r"\bL\b", "", t)
    t = re.sub(r"\bI\b", "", t)
    t = t.replace(";", ",").replace("%Z", "")
    return eval(t)  # noqa: S307


def first_diff(a, b, path=()):
    if isinstance(a, list) and isinstance(b, list):
        for i, (x, y) in enumerate(zip(a, b)):
            d = first_diff(x, y, path + (i,))
            if d:
                return d
        if len(a) != len(b):
            return path, f"len {len(a)} vs {len(b)}", a[len(b):] if len(a) > len(b) else b[len(a):]
        return None
    return None if a == b else (path, a, b)


try:
    A = parse_sx(core.sx(out))
    B = parse_sx(" ".join(txt.split()))
    print("FIRST DIFF (path, impl, model):", str(first_diff(A, B))[:1500])
except Exception as e:  # noqa: BLE001
    print("diff failed", e)
