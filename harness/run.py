"""Driver: bin/check <ID> [--tier quick|thorough] [--replay FILE]"""
import argparse
import collections
import importlib
import json
import os
import random
import sys
import time
from pathlib import Path

sys.path.insert(0, str(Path(__file__).resolve().parent))
import core  # noqa: E402
import logging
logging.disable(logging.CRITICAL)


def main():
    ap = argparse.ArgumentParser()
    ap.add_argument("prop")
    ap.add_argument("--tier", default=os.environ.get("VERIF_TIER", "quick"), choices=["quick", "thorough"])
    ap.add_argument("--replay")
    args = ap.parse_args()
    pid = args.prop.upper()
    seed = int(os.environ.get("VERIF_SEED", "0"))
    mod = importlib.import_module(f"props.{pid.lower()}")
    t0 = time.time()
    violations = []   # (replay_path, suffix)
    known_lines = []
    notes = []
    table_broken = None

    # ---- 1. proofs: build, tamper scan, Print Assumptions
    ok, out, build_s = core.build_coq()
    hits = core.tamper_scan()
    if not ok or hits:
        p = core.write_replay(pid, {"property": pid, "kind": "broken-proof", "theorem": f"Props/{pid}.v (build)",
                                    "build_output": out[-2000:], "tamper_hits": hits})
        violations.append((p, " no-failing-input-found"))
        obligations, discharged, axioms, problems = len(core.theorems_of(pid)), 0, [], ["build failed"]
    else:
        obligations, discharged, axioms, problems = core.check_assumptions(pid)
        if problems or discharged != obligations:
            p = core.write_replay(pid, {"property": pid, "kind": "broken-proof", "problems": problems})
            violations.append((p, " no-failing-input-found"))
        elif args.tier == "thorough" and os.environ.get("VERIF_COQCHK", "1") != "0":
            # independent re-check of the compiled proofs and everything they depend on
            c_ok, c_axioms, c_msg = core.coqchk_props(pid)
            notes.append(c_msg)
            if not c_ok:
                p = core.write_replay(pid, {"property": pid, "kind": "broken-proof", "theorem": f"Props/{pid}.vo (coqchk)", "problems": [c_msg]})
                violations.append((p, " no-failing-input-found"))

    # ---- 2. generated tables (regenerated part of the model)
    if ok and hasattr(mod, "tables"):
        t_ok, t_msg = mod.tables()
        if not t_ok:
            notes.append("generated tables differ: " + t_msg[-500:])
            table_broken = t_msg[-800:]

    # ---- 3. cases
    rng = random.Random(seed)
    if args.replay:
        rp = json.loads(Path(args.replay).read_text())
        cases = [rp["input"]] if "input" in rp else []
    else:
        cases = []
        cdir = core.VERIF / "corpus" / pid
        if cdir.exists():
            for f in sorted(cdir.glob("*.json")):
                cases.append(json.loads(f.read_text()))
        cases += mod.gen(rng, args.tier)

    # ---- 4. implementation
    impl_outs = []
    t_impl = time.time()
    hangs = 0
    for i, c in enumerate(cases):
        o = mod.impl(c)
        impl_outs.append(o)
        if isinstance(o, core.Err) and o.kind == "Timeout":
            hangs += 1
            if hangs >= 5:
                # an implementation that stopped terminating: five hanging cases decide the run, the rest would only take hours
                notes.append(f"stopped after 5 cases on which the implementation did not terminate ({len(cases) - i - 1} cases not run)")
                cases = cases[:i + 1]
                break
    impl_s = time.time() - t_impl

    # ---- 5. model in the kernel
    bad, failures = ([], [])
    if ok and cases:
        coq_cases = [(mod.coq_input(c), core.sx(o)) for c, o in zip(cases, impl_outs)]
        bad, failures = core.run_shards(pid, mod.COQ_HEADER, mod.COQ_MODEL, mod.COQ_OK, mod.COQ_INPUT_TYPE, coq_cases,
                                        shard=getattr(mod, "SHARD", 300))
    if failures:
        p = core.write_replay(pid, {"property": pid, "kind": "broken-correspondence", "correspondence": f"corr_{pid}",
                                    "coqc_failures": failures[:3]})
        violations.append((p, " no-failing-input-found"))

    # ---- 6. extra implementation-vs-specification checks that do not go through Coq
    extra = {"evaluations": 0}
    if hasattr(mod, "extra") and not args.replay:
        extra = mod.extra(rng, args.tier)
        for v in extra.get("violations", []):
            bad.append(("extra", v))

    # ---- 7. verdicts
    known = [k for k in core.load_known() if k.get("property") == pid and k.get("status") == "open"]
    failing, divergent = [], []
    for item in bad:
        if item[0] == "extra":
            v = item[1]
            case, impl_o, is_fail = v["input"], v.get("impl"), True
        else:
            idx, agree, okk = item
            case, impl_o = cases[idx], impl_outs[idx]
            is_fail = not okk
        matched = None
        for k in known:
            if hasattr(mod, "kf_match") and mod.kf_match(k, case, impl_o):
                matched = k
                break
        if matched:
            line = f"KNOWN-FINDING: property={pid} {matched['what']}"
            if line not in known_lines:
                known_lines.append(line)
            continue
        (failing if is_fail else divergent).append((case, impl_o))

    _size = getattr(mod, "size", lambda c: len(json.dumps(c, default=str)))

    def size(c):
        try:
            return _size(c)
        except Exception:  # noqa: BLE001  (extra-check inputs have their own shape)
            return 0
    if failing:
        failing.sort(key=lambda ci: size(ci[0]))
        case, impl_o = failing[0]
        payload = {"property": pid, "kind": "failing-input", "seed": seed, "tier": args.tier, "input": case,
                   "impl": repr(impl_o), "n_failing": len(failing), "correspondence": f"corr_{pid}"}
        if hasattr(mod, "explain"):
            try:
                payload["expected"] = mod.explain(case)
            except Exception:  # noqa: BLE001
                pass
        violations.append((core.write_replay(pid, payload), ""))
    elif divergent:
        # model differs from the code although the executable statement still holds on these inputs:
        # search a widened neighbourhood for an input on which the statement fails
        found = None
        if hasattr(mod, "search"):
            found = mod.search(rng, [c for c, _ in divergent[:20]])
        if found:
            violations.append((core.write_replay(pid, {"property": pid, "kind": "failing-input", "seed": seed,
                                                        "tier": args.tier, "input": found[0], "impl": repr(found[1])}), ""))
        else:
            divergent.sort(key=lambda ci: size(ci[0]))
            p = core.write_replay(pid, {"property": pid, "kind": "broken-correspondence", "correspondence": f"corr_{pid}",
                                        "first_divergent_input": divergent[0][0], "impl": repr(divergent[0][1]),
                                        "n_divergent": len(divergent), "theorems": core.theorems_of(pid)})
            violations.append((p, " no-failing-input-found"))

    if table_broken and not any(sfx == "" for _, sfx in violations):
        p = core.write_replay(pid, {"property": pid, "kind": "broken-correspondence",
                                    "correspondence": f"Gen/TablesOk_{pid}.v (constants re-extracted from /repo no longer equal the model's)",
                                    "detail": table_broken})
        violations.append((p, " no-failing-input-found"))

    # ---- 8. evidence
    keyf = getattr(mod, "key", lambda c: json.dumps(c, sort_keys=True, default=str))
    keys = collections.Counter(keyf(c) for c in cases)
    hist = collections.Counter(getattr(mod, "branch", lambda c, o: "all")(c, o) for c, o in zip(cases, impl_outs))
    coverage = {
        "obligations": obligations, "discharged": discharged,
        "checker_cmd": f"make -C /verif/coq (coqc 8.16.1, full .vo build) + Print Assumptions on Props/{pid}.v + "
                       f"coqc Cases/{pid}_s*.v (vm_compute mismatches)",
        "trusted_base": core.TRUSTED_BASE + [f"axioms reported by Print Assumptions: {axioms or 'none (closed under the global context)'}"],
        "theorems": core.theorems_of(pid),
        "evaluations": len(cases) + extra.get("evaluations", 0),
        "distinct_nontrivial": len(keys),
        "rule": getattr(mod, "RULE", "distinct inputs"),
        "samples": [cases[i] for i in range(0, len(cases), max(1, len(cases) // 3))][:4] if cases else [],
        "traces_validated_against_impl": len(cases),
        "branch_histogram": dict(hist.most_common(40)),
        "model_impl_mismatches": len([b for b in bad if b[0] != "extra"]),
        "extra": {k: v for k, v in extra.items() if k != "violations"},
        "notes": notes, "build_s": round(build_s, 1), "impl_s": round(impl_s, 1),
    }
    if getattr(mod, "TIES", None):
        # functions regenerated from /repo's current source by harness/gen_fun.py in this run, with the committed theorems
        # (Gen/FunOk_*.v, compiled against the regenerated text) stating that they are the model's functions
        coverage["translator_ties"] = {"checked_this_run": table_broken is None, "functions": mod.TIES}
        coverage["trusted_base"] = coverage["trusted_base"] + [
            "translator harness/gen_fun.py (fail-closed Python AST -> Gallina) with the semantics Base/PyEval.v gives to the Python operations of the translated functions"]
    if not args.replay:       # a replay is a diagnostic run of one input: it leaves the evidence of the last full run alone
        core.write_evidence(pid, args.tier, seed, coverage, time.time() - t0, len(violations),
                            getattr(mod, "ASSUMPTIONS", []))
    for line in known_lines:
        print(line)
    for p, suffix in violations:
        print(f"VIOLATION property={pid} replay={p}{suffix}")
    if args.replay and cases:
        print(json.dumps({"input": cases[0], "impl": repr(impl_outs[0]), "mismatch": bad != []}, default=str)[:2000])
    print(f"{pid} {args.tier}: {len(cases)} cases, {obligations} theorems ({discharged} discharged), "
          f"{len(bad)} mismatches, {len(violations)} violations, {time.time() - t0:.1f}s")
    sys.exit(1 if violations else 0)


if __name__ == "__main__":
    try:
        main()
    except SystemExit:
        raise
    except BaseException as exc:  # noqa: BLE001 - a crash of the machinery must not look like a pass
        import traceback
        pid = sys.argv[1].upper() if len(sys.argv) > 1 else "C00"
        p = core.write_replay(pid, {"property": pid, "kind": "broken-correspondence", "correspondence": f"corr_{pid} (harness crashed)",
                                    "traceback": traceback.format_exc()[-3000:]})
        print(f"VIOLATION property={pid} replay={p} no-failing-input-found")
        sys.exit(1)
