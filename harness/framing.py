"""Helpers shared by C02 / C10 / C13 / C19: driving packets.ccsds_generator from the three source kinds."""
import io
import itertools
import socket

import core


class TrimUnavailable(Exception):
    pass


class ScriptedSocket(socket.socket):
    """A socket whose recv() returns a scripted sequence of chunks, then b'' (peer closed)."""

    def __init__(self, chunks):
        super().__init__(socket.AF_INET, socket.SOCK_STREAM)
        self._chunks = list(chunks)

    def recv(self, n, *a):
        if not self._chunks:
            return b""
        c = self._chunks.pop(0)
        assert len(c) <= n, "scripted chunk larger than recv size"
        return c


class ScriptedFile(io.BufferedIOBase):
    """A binary file object whose read(n) returns fewer bytes than asked for, following a script of sizes (a buffered reader over a
    pipe or a slow device may do that), then the rest in full reads, then b''.  seek/tell work on the whole stream."""

    def __init__(self, stream: bytes, sizes):
        self._s, self._pos, self._sizes = stream, 0, list(sizes)

    def readable(self):
        return True

    def seekable(self):
        return True

    def seek(self, off, whence=0):
        self._pos = {0: off, 1: self._pos + off, 2: len(self._s) + off}[whence]
        return self._pos

    def tell(self):
        return self._pos

    def read(self, n=-1):
        want = len(self._s) - self._pos if n is None or n < 0 else n
        if self._sizes:
            want = min(want, self._sizes.pop(0))
        out = self._s[self._pos:self._pos + want]
        self._pos += len(out)
        return out


def cut(stream: bytes, sizes):
    """Mirror of Model/Framer.v [cut]."""
    out, i = [], 0
    for s in sizes:
        if i >= len(stream):
            return out
        out.append(stream[i:i + s])
        i += s
    if i < len(stream):
        out.append(stream[i:])
    return out


def file_sizes(stream: bytes, r):
    """read(r) on a BytesIO: chunks of r bytes (r=None/-1: everything at once)."""
    if r is None or r < 0:
        return [len(stream)] if stream else []
    return [r] * ((len(stream) + r - 1) // r)


TRIM_LITERAL = 20_000_000
_trim_cache = {}


def generator_with_trim(T):
    """packets.ccsds_generator as it stands in the working tree, with the literal 20_000_000 (the buffer-trim threshold) of its
    code object replaced by T, so that the trim branch runs on small streams.  Nothing in the repository is edited: the function
    object is rebuilt from the imported function's own bytecode.  Returns None when the literal does not occur (then only the
    >20 MB streams of `extra` reach that branch)."""
    import types
    from space_packet_parser import packets
    fn = packets.ccsds_generator
    if T == TRIM_LITERAL:
        return fn
    key = (id(fn.__code__), T)
    if key not in _trim_cache:
        code = fn.__code__
        if not any(type(c) is int and c == TRIM_LITERAL for c in code.co_consts):
            _trim_cache[key] = None
        else:
            consts = tuple(T if (type(c) is int and c == TRIM_LITERAL) else c for c in code.co_consts)
            g = types.FunctionType(code.replace(co_consts=consts), fn.__globals__, fn.__name__, fn.__defaults__, fn.__closure__)
            g.__kwdefaults__ = fn.__kwdefaults__
            _trim_cache[key] = g
    return _trim_cache[key]


def run_generator(kind, k, stream: bytes, sizes, r=None, cap=None, trim=TRIM_LITERAL):
    """Returns list of packet bytes, or raises. kind 0 bytes, 1 file (read size r), 2 socket (scripted sizes)."""
    ccsds_generator = generator_with_trim(trim)
    if ccsds_generator is None:
        raise TrimUnavailable()
    if cap is None:
        cap = len(stream) // 7 + 3
    if kind == 0:
        gen = ccsds_generator(stream, skip_header_bytes=k)
    elif kind == 1 and r == "script":
        # a file object delivering short reads: the chunks are exactly cut(stream, sizes), every one non-empty
        gen = ccsds_generator(ScriptedFile(stream, sizes), skip_header_bytes=k, buffer_read_size_bytes=max(list(sizes) + [1]))
    elif kind == 1:
        gen = ccsds_generator(io.BytesIO(stream), skip_header_bytes=k, buffer_read_size_bytes=r)
    else:
        chunks = cut(stream, sizes)
        sock = ScriptedSocket(chunks)
        try:
            gen = ccsds_generator(sock, skip_header_bytes=k,
                                          buffer_read_size_bytes=max([len(c) for c in chunks] + [1]))
            items = list(itertools.islice(gen, cap + 1))
        finally:
            sock.close()
        if len(items) > cap:
            raise core.CaseTimeout()
        return [bytes(p) for p in items]
    items = list(itertools.islice(gen, cap + 1))
    if len(items) > cap:
        raise core.CaseTimeout()  # more items than the input can hold: the generator does not terminate
    return [bytes(p) for p in items]


def mk_packet(rng, ndata, apid=None, seqflags=3, seqcount=None, shflag=None, version=0, ptype=None, data=None):
    from_hdr = ((version & 7) << 45 | ((rng.randrange(2) if ptype is None else ptype) << 44)
                | ((rng.randrange(2) if shflag is None else shflag) << 43)
                | ((rng.randrange(2048) if apid is None else apid) << 32) | (seqflags << 30)
                | ((rng.randrange(16384) if seqcount is None else seqcount) << 16) | (ndata - 1))
    body = data if data is not None else rng.randbytes(ndata)
    return from_hdr.to_bytes(6, "big") + body
