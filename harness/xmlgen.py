"""Abstract documents (docs.py JSON form) -> XTCE XML text, in any namespace spelling, with optional decorations."""
from xml.sax.saxutils import escape, quoteattr

import core
import docs

XTCE_URI = "http://www.omg.org/space/xtce"


class W:
    """tiny XML writer; `ns` = ('prefix', name) | ('default',) | ('none',); `deco(rng)` may return comment/whitespace text"""

    def __init__(self, ns=("prefix", "xtce"), deco=None, omit_seed=None):
        self.ns, self.deco = ns, deco
        # with a seed, attributes whose value is the XTCE default are left out at random (the reader must supply the default)
        import random
        self._omit = random.Random(omit_seed) if omit_seed is not None else None

    def dflt(self, value, default):
        """the attribute value, or None (attribute omitted) when it equals the default and this writer omits defaults"""
        if self._omit is not None and value == default and self._omit.random() < 0.6:
            return None
        return value

    def tag(self, local):
        return f"{self.ns[1]}:{local}" if self.ns[0] == "prefix" else local

    def el(self, local, attrs=None, children=None, text=None):
        a = "".join(f" {k}={quoteattr(str(v))}" for k, v in (attrs or {}).items() if v is not None)
        t = self.tag(local)
        if not children and text is None:
            return f"<{t}{a}/>"
        inner = escape(text) if text is not None else ""
        if children:
            parts = []
            for c in children:
                if self.deco:
                    parts.append(self.deco())
                parts.append(c)
            if self.deco:
                parts.append(self.deco())
            inner += "".join(parts)
        return f"<{t}{a}>{inner}</{t}>"


def num_text(t):
    v = docs.num_py(t)
    return repr(v)


def comparison_xml(w, c):
    return w.el("Comparison", {"parameterRef": c["ref"], "value": c["lit"], "comparisonOperator": w.dflt(c["op"], "=="),
                               "useCalibratedValue": w.dflt("true" if c["cal"] else "false", "true")})


def condition_xml(w, d):
    kids = [w.el("ParameterInstanceRef", {"parameterRef": d["left"], "useCalibratedValue": w.dflt("true" if d["lcal"] else "false", "true")}),
            w.el("ComparisonOperator", text=d["op"])]
    if "rparam" in d:
        kids.append(w.el("ParameterInstanceRef", {"parameterRef": d["rparam"], "useCalibratedValue": w.dflt("true" if d["rcal"] else "false", "true")}))
    else:
        kids.append(w.el("Value", text=d["rvalue"]))
    return w.el("Condition", children=kids)


def bx_xml(w, t):
    kind, cs, subs = t
    return w.el("ANDedConditions" if kind == "and" else "ORedConditions",
                children=[condition_xml(w, c) for c in cs] + [bx_xml(w, s) for s in subs])


def bexpr_xml(w, b):
    return w.el("BooleanExpression", children=[condition_xml(w, b[1]) if b[0] == "cond" else bx_xml(w, b[1])])


def criteria_xml(w, ks):
    """a criteria list as XTCE allows it: one Comparison, a ComparisonList, or one BooleanExpression"""
    if len(ks) == 1 and ks[0][0] == "bool":
        return bexpr_xml(w, ks[0][1])
    assert all(k[0] == "cmp" for k in ks), "a list mixing comparisons and boolean expressions has no XML form"
    if len(ks) == 1:
        return comparison_xml(w, ks[0][1])
    return w.el("ComparisonList", children=[comparison_xml(w, k[1]) for k in ks])


def cal_xml(w, c):
    if c[0] == "poly":
        return w.el("PolynomialCalibrator", children=[w.el("Term", {"exponent": n, "coefficient": num_text(a)}) for a, n in c[1]])
    return w.el("SplineCalibrator", {"order": w.dflt(c[1], 0), "extrapolate": w.dflt("true" if c[2] else "false", "false")},
                children=[w.el("SplinePoint", {"raw": num_text(r), "calibrated": num_text(v)}) for r, v in c[3]])


def lookup_xml(w, e):
    ks, v = e
    return w.el("DiscreteLookup", {"value": repr(float(v))}, children=[criteria_xml(w, ks)])


def dynamic_xml(w, s):
    kids = [w.el("ParameterInstanceRef", {"parameterRef": s[1], "useCalibratedValue": w.dflt("true" if s[2] else "false", "true")})]
    if s[3] is not None:
        kids.append(w.el("LinearAdjustment", {"slope": s[3][0], "intercept": s[3][1]}))
    return w.el("DynamicValue", children=kids)


def enc_xml(w, e):
    if e["t"] == "num":
        kids = []
        if e.get("default") is not None:
            kids.append(w.el("DefaultCalibrator", children=[cal_xml(w, e["default"])]))
        if e.get("context") is not None:
            kids.append(w.el("ContextCalibratorList", children=[
                w.el("ContextCalibrator", children=[w.el("ContextMatch", children=[criteria_xml(w, cc["criteria"])]),
                                                    w.el("Calibrator", children=[cal_xml(w, cc["cal"])])]) for cc in e["context"]]))
        isfloat = e["kind"] in ("IEEE754", "IEEE754_1985", "MILSTD_1750A")
        return w.el("FloatDataEncoding" if isfloat else "IntegerDataEncoding",
                    {"sizeInBits": e["size"], "encoding": w.dflt(e["kind"], "IEEE754" if isfloat else "unsigned"),
                     "byteOrder": w.dflt("leastSignificantByteFirst" if e["order"] == "lsb" else "mostSignificantByteFirst", "mostSignificantByteFirst")},
                    children=kids)
    if e["t"] == "str":
        s = e["size"]
        extra = []
        if e.get("leading") is not None:
            extra.append(w.el("LeadingSize", {"sizeInBitsOfSizeTag": e["leading"]}))
        if e.get("term") is not None:
            extra.append(w.el("TerminationChar", text=e["term"]))
        if s[0] == "fixed":
            size = w.el("SizeInBits", children=[w.el("Fixed", children=[w.el("FixedValue", text=str(s[1]))])] + extra)
        elif s[0] == "dyn":
            size = w.el("Variable", children=[dynamic_xml(w, s)] + extra)
        else:
            size = w.el("Variable", children=[w.el("DiscreteLookupList", children=[lookup_xml(w, x) for x in s[1]])] + extra)
        return w.el("StringDataEncoding", {"encoding": e["charset"], "byteOrder": e.get("byte_order")}, children=[size])
    s = e["size"]
    if s[0] == "fixed":
        inner = w.el("FixedValue", text=str(s[1]))
    elif s[0] == "dyn":
        inner = dynamic_xml(w, s)
    else:
        inner = w.el("DiscreteLookupList", children=[lookup_xml(w, x) for x in s[1]])
    return w.el("BinaryDataEncoding", children=[w.el("SizeInBits", children=[inner])])


def ptype_xml(w, t):
    tag = docs.KIND_CLASS[t["kind"]]
    if t["kind"] in ("abstime", "reltime"):
        kids = [w.el("Encoding", {"units": t.get("unit"), "scale": t.get("scale"), "offset": t.get("offset")}, children=[enc_xml(w, t["enc"])])]
        ref = []
        if t.get("offset_from"):
            ref.append(w.el("OffsetFrom", {"parameterRef": t["offset_from"]}))
        if t.get("epoch"):
            ref.append(w.el("Epoch", text=t["epoch"]))
        if ref:
            kids.append(w.el("ReferenceTime", children=ref))
        return w.el(tag, {"name": t["name"]}, children=kids)
    kids = []
    if t.get("unit"):
        kids.append(w.el("UnitSet", children=[w.el("Unit", text=t["unit"])]))
    kids.append(enc_xml(w, t["enc"]))
    if t["kind"] == "enum":
        import vals
        kids.append(w.el("EnumerationList", children=[
            w.el("Enumeration", {"label": lbl, "value": (vals.pay_py(k).decode(t["enc"].get("charset", "utf-8")) if k[0] == "b" else vals.pay_py(k))})
            for k, lbl in t["labels"]]))
    return w.el(tag, {"name": t["name"]}, children=kids)


def document_xml(doc, ns=("prefix", "xtce"), deco=None, header=True, name="SPACE", omit_seed=None):
    w = W(ns, deco, omit_seed)
    types, seen = [], set()
    for p in doc["params"].values():
        if p["type"]["name"] not in seen:
            seen.add(p["type"]["name"])
            types.append(ptype_xml(w, p["type"]))
    params = []
    for p in doc["params"].values():
        kids = [w.el("LongDescription", text=p["long"])] if p.get("long") else None
        params.append(w.el("Parameter", {"name": p["name"], "parameterTypeRef": p["type"]["name"], "shortDescription": p.get("short")}, children=kids))
    conts = []
    for c in doc["containers"]:
        kids = []
        if c.get("long"):
            kids.append(w.el("LongDescription", text=c["long"]))
        kids.append(w.el("EntryList", children=[w.el("ParameterRefEntry", {"parameterRef": e[1]}) if e[0] == "p"
                                                else w.el("ContainerRefEntry", {"containerRef": e[1]}) for e in c["entries"]]) if c["entries"]
                    else f"<{w.tag('EntryList')}></{w.tag('EntryList')}>")
        if c.get("base"):
            rc = [w.el("RestrictionCriteria", children=[criteria_xml(w, c["criteria"])])] if c.get("criteria") else []
            kids.append(w.el("BaseContainer", {"containerRef": c["base"]}, children=rc))
        conts.append(w.el("SequenceContainer", {"name": c["name"], "abstract": "true" if c.get("abstract") else None,
                                                "shortDescription": c.get("short")}, children=kids))
    meta = w.el("TelemetryMetaData", children=[w.el("ParameterTypeSet", children=types), w.el("ParameterSet", children=params),
                                               w.el("ContainerSet", children=conts)])
    kids = ([w.el("Header", {"date": doc.get("date", "2024-01-01T00:00:00"), "version": "1.0", "validationStatus": "Unknown"})] if header else []) + [meta]
    root = w.el("SpaceSystem", {"name": name}, children=kids)
    if ns[0] == "prefix":
        root = root.replace(f"<{ns[1]}:SpaceSystem", f'<{ns[1]}:SpaceSystem xmlns:{ns[1]}="{XTCE_URI}"', 1)
    elif ns[0] == "default":
        root = root.replace("<SpaceSystem", f'<SpaceSystem xmlns="{XTCE_URI}"', 1)
    return '<?xml version="1.0" encoding="UTF-8"?>\n' + root


def load(xml_text, ns):
    """load through the library: from_xtce with the matching prefix argument"""
    import io
    from space_packet_parser.xtce import definitions
    prefix = ns[1] if ns[0] == "prefix" else None
    return definitions.XtcePacketDefinition.from_xtce(io.StringIO(xml_text) if False else io.BytesIO(xml_text.encode()), xtce_ns_prefix=prefix)


def to_xml_loadable(doc):
    """what the loader makes of the constants: polynomial coefficients / spline points / lookup values become floats"""
    import copy
    d = copy.deepcopy(doc)

    def fl(t):
        return ["f", core.float_bits(float(docs.num_py(t)))]

    def cal(c):
        if c is None:
            return None
        if c[0] == "poly":
            return ["poly", [[fl(a), n] for a, n in c[1]]]
        return ["spline", c[1], c[2], [[fl(r), fl(v)] for r, v in c[3]]]
    for p in d["params"].values():
        e = p["type"]["enc"]
        if e["t"] == "num":
            e["default"] = cal(e.get("default"))
            if e.get("context") is not None:
                for cc in e["context"]:
                    cc["cal"] = cal(cc["cal"])
    return d
