"""Shared runner for whole-definition cases (C01, C05, C11, C14): drives XtcePacketDefinition.packet_generator."""
import io
import re
import warnings

import core
import docs

COQ_HEADER = ("From SPP Require Import Base.Bytes Base.Sx Model.Values Model.Criteria Model.Doc Model.Generator Corr.C06 Corr.Decode Corr.Generator.\n"
              "From Coq Require Import ZArith List String. Import ListNotations.")
COQ_INPUT_TYPE = "definition * string * options * list (list (Z * Z))"

DEFAULT_OPTS = {"parse_bad_pkts": True, "yield_unrecognized": False, "headers_only": False, "combine": False, "sec": 0}
_MIS = re.compile(r"Number of bits parsed \((\d+)b\) did not match the length of data available \((\d+)b\)")


def opts_coq(o):
    return (f"{{| parse_bad_pkts := {core.cbool(o['parse_bad_pkts'])}; yield_unrecognized := {core.cbool(o['yield_unrecognized'])}; "
            f"headers_only := {core.cbool(o['headers_only'])}; combine_segmented := {core.cbool(o['combine'])}; "
            f"secondary_header_bytes := {o['sec']}%nat |}}")


def coq_input(case):
    return (f"({docs.definition_coq(case['doc'])}, {core.cstr(case['doc']['root'])}, {opts_coq(case['opts'])}, "
            f"{core.clist(core.cbytes(bytes.fromhex(p)) for p in case['packets'])})")


def views_ok(pkt):
    """the header view is the first seven items, the user-data view the rest (same keys, same value objects, same order)"""
    items = list(pkt.items())
    try:
        h, u = list(pkt.header.items()), list(pkt.user_data.items())
    except Exception:  # noqa: BLE001
        return False
    same = lambda a, b: len(a) == len(b) and all(ka == kb and va is vb for (ka, va), (kb, vb) in zip(a, b))  # noqa: E731
    return same(h, items[:7]) and same(u, items[7:])


def item_out(x, mismatches):
    from space_packet_parser import packets
    from space_packet_parser.exceptions import UnrecognizedPacketTypeError
    if isinstance(x, UnrecognizedPacketTypeError):
        pd = x.partial_data
        if not views_ok(pd):
            return [9, docs.env_out(pd), bytes(pd.raw_data)]       # an item kind the model never produces
        return [1, docs.env_out(pd), bytes(pd.raw_data)]
    if isinstance(x, packets.CCSDSPacket):
        if not views_ok(x):
            return [9, docs.env_out(x), bytes(x.raw_data)]
        pos, n = x.raw_data.pos, 8 * len(x.raw_data)
        warned = (pos, n) in mismatches
        return [0, docs.env_out(x), pos, warned, bytes(x.raw_data)]
    return [2, bytes(x)]


def run_generator(defn, stream, opts, cap):
    """returns [items, [errcode]|[]]"""
    gen = defn.packet_generator(io.BytesIO(stream), parse_bad_pkts=opts["parse_bad_pkts"],
                                yield_unrecognized_packet_errors=opts["yield_unrecognized"], ccsds_headers_only=opts["headers_only"],
                                combine_segmented_packets=opts["combine"], secondary_header_bytes=opts["sec"])
    items, err = [], []
    for _ in range(cap + 2):
        with warnings.catch_warnings(record=True) as w:
            warnings.simplefilter("always")
            out = core.guarded(next, gen, timeout_s=10)
        mism = set()
        for x in w:
            m = _MIS.search(str(x.message))
            if m:
                mism.add((int(m.group(1)), int(m.group(2))))
        if out[0] == "err":
            err = [] if out[1] == "Stop" else [core.ERR[out[1]]]
            break
        items.append(item_out(out[1], mism))
    else:
        err = [core.ERR["Timeout"]]
    return [items, err]


def impl(case):
    def run():
        if case.get("via") == "xml":      # the same definition obtained through the XML loader (the document is written by the harness)
            import xmlgen
            d = xmlgen.load(xmlgen.document_xml(case["doc"], ("prefix", "xtce")), ("prefix", "xtce"))
        else:
            d = docs.definition_py(case["doc"])
        stream = b"".join(bytes.fromhex(p) for p in case["packets"])
        return run_generator(d, stream, case["opts"], len(case["packets"]))
    out = core.guarded(run, timeout_s=30)
    return out[1] if out[0] == "ok" else core.Err(out[1])
