"""Regenerates /verif/MANIFEST.json from the table below (python3 harness/mk_manifest.py)."""
import json
from pathlib import Path

V = Path(__file__).resolve().parent.parent
ALL = [f"C{i:02d}" for i in range(1, 21)]

# id -> (technique, level text, level_note, design_ref)
CLAIMED = {
    "C03": ("Coq proof (bit-string slice = shift/mask model, all buffers/offsets/widths) + translator: packets._extract_bits, RawPacketData.read_as_int / read_as_bytes and the header accessors regenerated into Gallina from the current source and proved equal to the model (every buffer, cursor >= 0, width; exceptions included) on every run + kernel-evaluated correspondence with _extract_bits/read_as_int/read_as_bytes",
            "Theorems C03_read_int/C03_read_bytes/... prove, for every well-formed buffer and every in-range (p, n), that the Gallina "
            "transcription of the cursor reads returns the value of bits p..p+n-1 of the buffer's bit string, right-aligned bytes, cursor p+n, "
            "buffer unchanged. The model is tied to /repo on every run by evaluating it in Coq's VM on the same inputs as the implementation.",
            "Trusted: Coq kernel+VM, the hand model's fidelity as sampled by the correspondence (exhaustive small buffers, every p mod 8 x n mod 8) and, for _extract_bits / read_as_int / read_as_bytes / the header accessors, the translator harness/gen_fun.py with the Python operation semantics of Base/PyEval.v; CPython int/bytes primitives.",
            "DESIGN.md section 4 C03, 8.1"),
    "C02": ("Coq proof by induction over the packet list (loop invariant: unread buffer ++ pending reads = encoding of the remaining packets; any chunking, prefix k, trim threshold T, known/unknown total) + translator: the packet-length expressions of ccsds_generator regenerated into Gallina from the current source and proved equal to the model's plen_ccsds on every run + kernel-evaluated correspondence with ccsds_generator on bytes/file/socket sources, also with the buffer-trim literal of its code object replaced by small numbers (same number given to the model) + real >20 MB stream judged against the spec",
            "Theorems C02_bytes_source / C02_file_socket_source / C02_loop_exact / C02_trim_and_chunking_irrelevant: for every list of CCSDS packets each preceded by k foreign bytes and every cutting of the stream into non-empty read results, the framer model yields exactly the packets, for all three source kinds, all T. Model tied to packets.ccsds_generator each run.",
            "Trusted: Coq kernel+VM; reader contract (read/recv return the next bytes, b'' at end); correspondence sampling (small streams exhaustively chunked); the trim branch is reached by the real 21 MB runs and by rebuilding ccsds_generator's function object with the literal 20_000_000 replaced (harness/framing.py; skipped if the literal is absent).",
            "DESIGN.md section 4 C02, 8.3"),
    "C10": ("Coq proof by induction on fuel (termination measure = unread bytes; items complete, consecutive, remainder short) for arbitrary bytes, read sequences and trim thresholds + kernel-evaluated correspondence on every cut offset of valid streams and random byte strings (a quarter also with a small trim threshold)",
            "Theorems C10_terminates_complete_consecutive / C10_remainder_short / C10_item_length_field hold for every byte string, every sequence of read results and every source kind: the loop ends without running out of fuel |input|+1, each item has the length its header declares, items are consecutive slices, and the remainder is shorter than one complete packet. The property determines the output uniquely, so model = implementation on a case is the property on that case.",
            "Trusted: Coq kernel+VM; reader contract; a socket that neither sends nor closes blocks by design. Genuine defect F1/F2 found by this check and repaired by a fix: commit (known_findings.json).",
            "DESIGN.md section 4 C10, 8.3"),
    "C13": ("Coq proof (header word = disjoint lor = sum; accessors via the C03 window lemma; bit layout; rejection; re-framing by the C02 theorem) + translator: the whole of create_ccsds_packet regenerated into Gallina from the current source and proved equal to the model's create_packet (all integer fields, all byte strings, exceptions included) on every run + kernel-evaluated correspondence with create_ccsds_packet/header_values/ccsds_generator",
            "Theorems C13_constructs, C13_layout, C13_accessors_inverse, C13_reframe, C13_accessors_of_any_packet, C13_rejects hold for all field values and all data of 1..65536 bytes.",
            "Trusted: Coq kernel+VM; the translator harness/gen_fun.py with the Python operation semantics of Base/PyEval.v; correspondence sampling (each field over its range, boundary products, extreme lengths; thorough: all 2^16 values of both header words).",
            "DESIGN.md section 4 C13, 8.5"),
    "C12": ("Coq proof by invariant over histories (pointwise map invariant: open groups disjoint, emitted set duplicate-free) + per-APID projection + refinement to an Idle/Open automaton + kernel-evaluated correspondence through packet_generator(combine_segmented_packets=True)",
            "Theorems C12_at_most_once, C12_per_apid_independent, C12_group_semantics, C12_only_complete hold for every finite history over any APIDs. The automaton determines outputs and warnings uniquely, so model = implementation on a history is the property on that history.",
            "Trusted: Coq kernel+VM; framing of the concatenated valid packets (C02). Genuine defect F7 found by this check and repaired by a fix: commit.",
            "DESIGN.md section 4 C12, 8.2"),
    "C19": ("Coq proof (row selection = spec for every n; each packet once; index in range iff 0 <= i < n) + constants regenerated from cli.py each run + kernel-evaluated correspondence through click's CliRunner for n = 0..25, i = 0..n+1",
            "Theorems C19_rows, C19_each_once, C19_select hold for every n and index. Termination on any file is C10. partial: rich/click rendering is glue reached only by the correspondence (rows parsed back from the rendered table).",
            "Trusted: Coq kernel+VM; table parsing of rich output; MAX_ROWS/HEAD_ROWS re-extracted by ast each run (Gen/TablesOk_C19). Genuine defects F10, F11 found by this check and repaired by fix: commits.",
            "DESIGN.md section 4 C19"),
    "C20": ("Coq proof (construction default `is not None`, reduce/rebuild round trip for values and packets, method-resolution table by computation) + class table regenerated from the live classes each run + kernel-evaluated correspondence over values x raws incl. falsy, copy/deepcopy/pickle 2-5",
            "Theorems C20_raw_default, C20_raw_given, C20_copy_roundtrip, C20_packet_roundtrip, C20_only_new_and_bool_repr, C20_builtin_base. partial: semantics of the built-ins and of pickle are CPython's; they are observed (== / hash / order / format / arithmetic against the plain built-in) in the correspondence, not proved.",
            "Trusted: Coq kernel+VM; CPython built-ins and pickle; class table extracted by introspection each run (Gen/TablesOk_C20).",
            "DESIGN.md section 4 C20"),
    "C06": ("Coq proof (comparison/condition truth incl. falsy values and exact int-vs-float order; lists = conjunction; nested boolean trees = denotation by nested induction; first-match lookup) + operator table regenerated from comparisons.py + kernel-evaluated correspondence with Comparison/Condition/BooleanExpression.evaluate and the lookup consumers",
            "Twelve theorems (Props/C06.v) for all environments, literals, operators and trees of any depth. Literal text parsing (int()/float()) is glue done by the harness; consumers (inheritance, calibrator choice) are exercised under C05/C08.",
            "Trusted: Coq kernel+VM; Python's int()/float() literal parsing; correspondence sampling. Genuine defects F3, F4, F16 found by this check and repaired by fix: commits.",
            "DESIGN.md section 4 C06"),
    "C04": ("Coq proof (unsigned/two's-complement/byte-reversed integer value of the bit slice, cursor, class; float glue at every offset and order; all 65536 binary16 patterns by kernel computation against Flocq's binary16 decoder; the exact real value of every finite binary16/32/64 pattern as the standard defines it from the bit fields, infinities/NaN, and faithfulness of the 64-bit carrier) + translator: _twos_complement and IntegerDataEncoding._get_raw_value (read, byte reversal, sign; on top of the translated cursor methods) regenerated into Gallina from the current source and proved equal to the model on every run + kernel-evaluated correspondence with IntegerDataEncoding/FloatDataEncoding.parse_value, bit-exact against struct",
            "Theorems C04_uint, C04_sint, C04_signed_range, C04_lsb_uint, C04_lsb_sint, C04_float_glue, C04_half_exhaustive (bound 2^16 stated), C04_ieee_value, C04_ieee_special, C04_carrier_faithful. partial: that struct.unpack implements the IEEE meaning, and the MIL-1750A pattern, are tied by the bit-exact correspondence (class boundaries, NaNs, subnormals, random).",
            "Trusted: Coq kernel+VM; Flocq 4.1 (its definitions depend on the standard library's real-number axioms, listed by Print Assumptions); struct.unpack.",
            "DESIGN.md section 4 C04"),
    "C08": ("Coq proof (selection order context > default > raw; calibrated results are floats keeping the raw value; exact integer polynomials; step-spline segment choice, closed upper end, extrapolation rule; first-order spline segment choice and exactness at its points (Flocq); enumeration/boolean on raw only) + kernel-evaluated, bit-exact correspondence with calibrators and parse_value (Flocq binary64, CPython 3.12 compensated sum modelled)",
            "Sixteen theorems (Props/C08.v), including that a first-order spline returns, at each of its points, that point's calibrated value (real-valued statement over Flocq binary64, finite slope). partial: first-order spline values strictly inside a segment and float polynomials are tied to the code by bit-exact correspondence (every knot, both end points, midpoints, outside); float ** n (n >= 2) is libm and excluded.",
            "Trusted: Coq kernel+VM; Flocq 4.1 (+ standard-library real axioms); CPython float arithmetic and the built-in sum() algorithm as modelled. Genuine defect F5 found by this check and repaired by a fix: commit.",
            "DESIGN.md section 4 C08"),
    "C07": ("Coq proof (binary = left-padded bit slice; string raw buffer = bit slice right-padded with zeros, by bit-string lemmas; whole / first-terminator (searched on character boundaries) / leading-size text; cursor + computed length; codec and search fuel irrelevant above the input length; first-match lookup; linear adjustment exact below 2^53 via Flocq Bmult/Bplus/Btrunc correctness) + kernel-evaluated correspondence with String/BinaryDataEncoding.parse_value over 8 charsets",
            "Thirteen theorems (Props/C07.v). partial: text decoding is a modelled codec (ASCII, Latin-1, cp1252 subset, UTF-8, UTF-16/32 LE/BE without surrogates) tied to Python's codecs by correspondence.",
            "Trusted: Coq kernel+VM; Flocq 4.1 and the standard-library real axioms (length arithmetic); CPython codecs. Genuine defects F6 and F15 (terminator bytes across a character boundary) found by this check and repaired by fix: commits.",
            "DESIGN.md section 4 C07, 8.4"),
    "C05": ("Coq proof (entry lists = flattened parameter lists with nested containers expanded in place; candidates = filter of inheritors by criteria; unique child / abstract dead end / concrete stop / ambiguity; every outcome lies on a unique-child path whose flattened entries fill the packet in order; definitions compiled from a linked document are ranked and on ranked definitions the walk and nesting fuel is irrelevant) + kernel-evaluated correspondence through packet_generator on random container trees",
            "Eleven theorems (Props/C05.v) for every definition, packet and fuel; field decoding is the C04/C07/C08 model.",
            "Trusted: Coq kernel+VM; Flocq (+ real axioms) through the field decoders; the fuel bound is now a theorem (C17 rank carried through Model/Compile.v). Genuine defect F13 found by this check and repaired by a fix: commit.",
            "DESIGN.md section 4 C05"),
    "C11": ("Coq proof (generator = in-order flat map of per-packet results; prefix unaffected by a later raising packet; error objects in place; schedule independence of any number of generator states) + kernel-evaluated correspondence under all option combinations + interleaved real generators and definition snapshots on the implementation",
            "Four theorems (Props/C11.v). partial: hidden shared mutable state in Python objects cannot be exhibited by a functional model; it is covered only by the interleaving and snapshot runs and by the correspondence.",
            "Trusted: Coq kernel+VM; the per-packet model (C05/C04/C07/C08).",
            "DESIGN.md section 4 C11"),
    "C14": ("Coq proof (clean delivery iff cursor = 8*len; mismatch flagged or withheld; every read/field/walk advances the cursor by a non-negative width and leaves data untouched; an over-read persists; negative widths rejected) + kernel-evaluated property predicate on the implementation's own items (flag iff mismatch, clean only if the proved model consumes exactly all bits) + correspondence",
            "Eight theorems (Props/C14.v) for all definitions and packets.",
            "Trusted: Coq kernel+VM; warnings are attributed to items by the numbers in their text. Genuine defect F8 found by this check (a packet with a negative-length field delivered clean) and repaired by a fix: commit.",
            "DESIGN.md section 4 C14"),
    "C01": ("Coq proof by composition (C02 framing exactness + C11 flat map + C05 path/flattening, fields per C04/C07/C08; stated also for the definition obtained inside Coq from the parsed XML tree: load -> link -> compile) + kernel-evaluated end-to-end correspondence: generated documents rendered to XML, loaded with from_xtce, streams through the framer, every item compared on names, order, value, raw value and class against the whole model chain evaluated on the same XML text (Corr/E2E.v) and against the definition-level pipeline",
            "Theorems C01_stream_refines, C01_packet_refines, C01_from_document for every definition of the modelled subset (resp. every document that loads) and every stream of well-formed packets. The subset and its exclusions are listed in DESIGN.md.",
            "Trusted: Coq kernel+VM; Flocq (+ real axioms); int()/float() readings of comparison literals are passed to the model as a table (CPython number parsing modelled); correspondence sampling of documents.",
            "DESIGN.md section 4 C01"),
    "C18": ("Coq proof (per-packet accumulation step: other APIDs untouched, own APID appended at the end, columns only grow; field-set mismatch = ValueError; integer encodings of 1..64 bits fit their dtype; float64/inferred lossless; S/U lossless without trailing NUL, and a machine-checked refutation with witness for trailing NULs) + explicit numpy storage model + kernel-evaluated correspondence with create_dataset in raw and derived mode",
            "Seven theorems (Props/C18.v) incl. C18_trailing_nul_refuted (the full no-loss statement is false of the faithful model: numpy S/U dtypes strip trailing NULs; recorded as open known finding KF-C18-nul, matched structurally). partial: float32 exactness for binary32 fields is tied by correspondence.",
            "Trusted: Coq kernel+VM; Flocq; numpy's storage rule as modelled; xarray as a pass-through. Genuine defects F14a, F14c, F14d found by this check and repaired by fix: commits.",
            "DESIGN.md section 4 C18"),
    "C17": ("Coq proof (type/parameter tables duplicate-free and resolving; linked graph: base references resolve, caches hold the document's own definitions, inheritor lists exactly the containers naming the base, each once; duplicate type and dangling type reference rejected; containers: every name once, each the document's own element, every base/nested reference resolves to a container inserted earlier (rank), hence no reference cycle; dangling parameter entry / base / nested container, conflicting duplicate container and reference cycles of any length are rejected) + loader model (recursive base/nested resolution with fuel, dict assignment) + kernel-evaluated correspondence on documents and single-point corruptions, with object identity checked by the dumper",
            "Eighteen theorems (Props/C17.v). partial: Python object identity has no Gallina counterpart (names stand for objects; identity is checked by the dumper on the implementation); duplicate parameter names and deleted definitions are covered by the parameter/type theorems plus the correspondence on 15 corruption kinds.",
            "Trusted: Coq kernel+VM; lxml parsing; the harness' typed-attribute conversion table.",
            "DESIGN.md section 4 C17"),
    "C16": ("Coq proof (the element view the readers use is invariant under removal of comments and inter-element whitespace at any depth, by tree induction; the namespace state is overwritten before first use, so any history of loads is irrelevant; prefix name / default namespace irrelevant; re-labelling all tags into any other namespace, or none, and reading with that namespace gives the same document, proved reader by reader) + kernel-evaluated correspondence: 5 namespace spellings (incl. prefixes that begin element names) x decorations x load histories in one process vs the plain rendering",
            "Seven theorems (Props/C16.v). partial: XML text <-> tree (and the tag an XPath step is turned into) is lxml's and reached only by the correspondence.",
            "Trusted: Coq kernel+VM; lxml; the modelling decision that readers touch documents only through find/iterfind/attrib/text (checked by decorated-document correspondence). Genuine defect F9 found by this check and repaired by a fix: commit.",
            "DESIGN.md section 4 C16"),
    "C09": ("Coq proof of the write/read round trip at every level up to the whole document (read_doc (write_doc d) = d for every writer-normal-form document: containers, parameters, parameter types, numeric/string/binary encodings, dynamic sizes and lookups, criteria and boolean trees of any depth, calibrators and context calibrators) + full reader/writer/loader model + kernel-evaluated correspondence: implementation writer tree = model writer tree element by element, and the definition loaded back = the original (independent dumper incl. adjusters, identity), for definitions built both ways; identical decoding on packets",
            "Nineteen theorems (Props/C09.v), C09_roundtrip being the document-level statement. C09_wellformed_is_written: every well-formed document is written. Time parameter types are inside ptype_wf except a [scale; offset] polynomial in that term order (read back as [offset; scale]) and what the writer refuses (spline, non-numeric data encoding: modelled as time_writable). partial: XML text <-> tree is lxml's. That dumped definitions are in the writer normal form the theorem assumes is checked by the correspondence (model reader output = independent dump).",
            "Trusted: Coq kernel+VM; str()/int()/float() attribute conversions (typed attributes); lxml serialisation/parsing. Genuine defects F12a, F12b, F18, F19 found by this check and repaired by fix: commits.",
            "DESIGN.md section 4 C09"),
    "C15": ("Coq proof (every element of the written tree is in the definition's namespace, by induction over all writers; writer is a function of definition and date; C15_stable: what is read back from a written tree is written to exactly that tree again, so every further cycle reproduces it) + implementation runs: W(D)=W(D) bytes, G2=G3 bytes, lxml re-parse, namespace of every element, definition dump unchanged",
            "Four theorems (Props/C15.v). partial: byte-level serialisation is lxml's (tree equality is the theorem, byte equality G2 = G3 is observed on the implementation).",
            "Trusted: Coq kernel+VM; lxml serialisation.",
            "DESIGN.md section 4 C15"),
}
PENDING_REASON = "check not built yet in this round; design in DESIGN.md section 4 (no technique switch planned)"


def main():
    checks = []
    for pid, (tech, text, note, ref) in sorted(CLAIMED.items()):
        checks.append({
            "property_id": pid,
            "quick_cmd": f"bin/check {pid} --tier quick",
            "thorough_cmd": f"bin/check {pid} --tier thorough",
            "evidence_file": f"/verif/evidence/{pid}.json",
            "replay_cmd_template": f"bin/check {pid} --replay {{path}}",
            "engine": "coq-model-correspondence",
            "level_claimed": {"category": "proof", "text": text, "design_ref": ref},
            "level_note": note,
            "technique": tech,
        })
    m = {
        "version": 1,
        "setup_cmd": "cd /verif/coq && coq_makefile -f _CoqProject -o Makefile && timeout 3000 make -j16",
        "hooks": {
            "guard": "SPP_VERIF",
            "enable": "no source hooks are needed: every modelled function is reached through the public API; bin/check exports SPP_VERIF=1 for uniformity",
            "baseline_off_cmd": "cd /repo && /venv/bin/python -m pytest -ra -q -p no:cacheprovider --timeout=900 --continue-on-collection-errors",
            "source_commits": [],
            "add_only": True,
        },
        "engines": [{
            "name": "coq-model-correspondence", "path": "/verif/coq + /verif/harness",
            "serves_properties": sorted(CLAIMED),
            "kind_free_text": "Coq 8.16 development (Model/, Proofs/, Props/) + Python harness that runs /repo and evaluates the model in the kernel VM on the same inputs",
        }],
        "checks": checks,
        "not_applicable": [{"property_id": p, "reason": PENDING_REASON} for p in ALL if p not in CLAIMED],
        "notes": "All checks: exit 0 = held on everything explored; exit 1 + 'VIOLATION property=<id> replay=<path>' otherwise. See DESIGN.md.",
    }
    (V / "MANIFEST.json").write_text(json.dumps(m, indent=1) + "\n")


if __name__ == "__main__":
    main()
