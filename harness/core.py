"""Shared machinery of the correspondence check (see DESIGN.md section 2.4/2.5).

Runs under /venv/bin/python with PYTHONPATH=/repo so that `space_packet_parser` is /repo's working tree.
"""
import hashlib
import json
import os
import re
import signal
import subprocess
import sys
import time
from concurrent.futures import ThreadPoolExecutor
from pathlib import Path

VERIF = Path(__file__).resolve().parent.parent
COQ = VERIF / "coq"
CASES = COQ / "Cases"
EVID = VERIF / "evidence"
REPLAYS = EVID / "replays"
REPO = Path(os.environ.get("SPP_REPO", "/repo"))

# ---------------------------------------------------------------- error enum (mirrors Base/Sx.v err_code)
ERR = {"EValue": 1, "EType": 2, "EKey": 3, "EComparison": 4, "ECalibration": 5, "EUnrecognized": 6,
       "ENotImpl": 7, "EOverflow": 8, "EIndex": 9, "EAttr": 10, "EZeroDiv": 11, "EOther": 12,
       "Stop": 97, "Timeout": 98, "OutOfFuel": 99}


def classify_exception(e: BaseException) -> str:
    from space_packet_parser import exceptions as X
    if isinstance(e, X.ComparisonError):
        return "EComparison"
    if isinstance(e, X.CalibrationError):
        return "ECalibration"
    if isinstance(e, X.UnrecognizedPacketTypeError):
        return "EUnrecognized"
    if isinstance(e, CaseTimeout):
        return "Timeout"
    if isinstance(e, StopIteration):
        return "Stop"
    if isinstance(e, RecursionError):
        return "OutOfFuel"
    if isinstance(e, NotImplementedError):
        return "ENotImpl"
    if isinstance(e, OverflowError):
        return "EOverflow"
    if isinstance(e, ZeroDivisionError):
        return "EZeroDiv"
    if isinstance(e, KeyError):
        return "EKey"
    if isinstance(e, IndexError):
        return "EIndex"
    if isinstance(e, ValueError):  # includes UnicodeDecodeError
        return "EValue"
    if isinstance(e, TypeError):
        return "EType"
    if isinstance(e, AttributeError):
        return "EAttr"
    return "EOther"


class CaseTimeout(Exception):
    pass


def _alarm(signum, frame):
    raise CaseTimeout()


def guarded(fn, *args, timeout_s=5):
    """Run fn(*args); exceptions -> ('err', kind); a hang -> ('err', 'Timeout')."""
    signal.signal(signal.SIGALRM, _alarm)
    signal.alarm(timeout_s)
    try:
        return ("ok", fn(*args))
    except BaseException as e:  # noqa: BLE001 - every escape is an outcome
        if isinstance(e, (KeyboardInterrupt, SystemExit)) and not isinstance(e, CaseTimeout):
            raise
        return ("err", classify_exception(e))
    finally:
        signal.alarm(0)


# ---------------------------------------------------------------- Coq term printing
def cz(n: int) -> str:
    """Z literal; big numbers in hex (Coq parses long decimal literals in quadratic time)."""
    n = int(n)
    a = abs(n)
    body = hex(a) if a >= (1 << 60) else str(a)
    return f"(-{body})" if n < 0 else body


def cbool(b) -> str:
    return "true" if b else "false"


CHUNK_IN = 256    # bytes per chunk in input literals
CHUNK_OUT = 512   # must equal the chunk size of Base/Sx.v sx_b


def cbytes(b: bytes) -> str:
    """list of (length, big-endian integer) chunks — expanded on the Coq side with bytes_of"""
    b = bytes(b)
    return "[" + "; ".join(f"({len(b[i:i + CHUNK_IN])}, {cz(int.from_bytes(b[i:i + CHUNK_IN], 'big'))})"
                           for i in range(0, len(b), CHUNK_IN)) + "]"


def clist(items) -> str:
    return "[" + "; ".join(items) + "]"


def copt(x, f=str) -> str:
    return "None" if x is None else f"(Some {f(x)})"


def cstr(s: str) -> str:
    if all(32 <= ord(ch) < 127 or ch in '\n\t' for ch in s):
        return '"' + s.replace('"', '""') + '"%string'
    # anything else (it only arises from unexpected implementation output): the UTF-8 bytes, constructor by constructor
    t = "String.EmptyString"
    for b in reversed(s.encode("utf-8", "surrogatepass")):
        t = f"(String.String (Ascii.ascii_of_nat {b}) {t})"
    return t


def float_bits(x: float) -> int:
    """IEEE binary64 bit pattern with every NaN mapped to the canonical quiet NaN."""
    import math
    import struct
    if math.isnan(x):
        return 0x7FF8000000000000
    return int.from_bytes(struct.pack(">d", x), "big")


def bits_float(b: int) -> float:
    import struct
    return struct.unpack(">d", int(b).to_bytes(8, "big"))[0]


# canonical outputs -> sx terms
def sx(o) -> str:
    if isinstance(o, bool):
        return f"I {1 if o else 0}"
    if isinstance(o, int):
        return f"I {cz(o)}"
    if isinstance(o, (bytes, bytearray)):
        o = bytes(o)
        vals = [cz(int.from_bytes(o[i:i + CHUNK_OUT], "big")) for i in range(0, len(o), CHUNK_OUT)] or ["0"]
        return f"L [I {len(o)}; " + "; ".join("I " + v for v in vals) + "]"
    if isinstance(o, (list, tuple)):
        return "L [" + "; ".join(sx(x) for x in o) + "]"
    if isinstance(o, Err):
        return f"L [I (-1); I {ERR[o.kind]}]"
    if isinstance(o, float):
        return f"I {cz(float_bits(o))}"
    if o is None:
        return "L []"
    raise TypeError(f"no sx encoding for {type(o)}")


class Err:
    def __init__(self, kind):
        self.kind = kind

    def __repr__(self):
        return f"Err({self.kind})"

    def __eq__(self, other):
        return isinstance(other, Err) and other.kind == self.kind


def res_sx(outcome, f=lambda x: x):
    """('ok', v) -> [0, f(v)] ; ('err', k) -> Err(k)   (mirrors Base/Sx.v sx_res)"""
    tag, v = outcome
    if tag == "ok":
        return [0, f(v)]
    return Err(v)


# ---------------------------------------------------------------- Coq build & evaluation
def sh(cmd, timeout=600, cwd=None):
    p = subprocess.run(cmd, shell=True, cwd=cwd, capture_output=True, text=True, timeout=timeout)
    return p.returncode, p.stdout + p.stderr


def build_coq(timeout=1800):
    """Incremental full build of the development (no -vos). Serialised with flock."""
    t0 = time.time()
    rc, out = sh(f"flock {COQ}/.buildlock sh -c '[ -f Makefile ] || coq_makefile -f _CoqProject -o Makefile >/dev/null; "
                 f"timeout {timeout} make -j16 2>&1 | tail -40'", timeout=timeout + 60, cwd=COQ)
    ok = rc == 0 and "Error" not in out
    return ok, out, time.time() - t0


TAMPER_ANY = re.compile(r"\b(Admitted|admit|Unset Guard|bypass_check|type-in-type|impredicative-set|Admit Obligations)\b")
TAMPER_DECL = re.compile(r"^\s*(?:Local\s+|Global\s+|#\[[^\]]*\]\s*)*(Axiom|Axioms|Parameter|Parameters|Conjecture|Conjectures)\b")
SECTION_VAR = re.compile(r"^\s*(Variable|Variables|Hypothesis|Hypotheses|Context)\b")


def tamper_scan():
    """no Admitted/admit/Axiom/Parameter/Conjecture, no Variable/Hypothesis outside a Section, no disabled kernel checks"""
    hits = []
    for p in sorted(COQ.rglob("*.v")):
        if "Cases" in p.parts or p.name.startswith(("Tables_", "Run_")):
            continue
        txt = re.sub(r"\(\*.*?\*\)", "", p.read_text(), flags=re.S)
        txt = re.sub(r'"(?:[^"]|"")*"', '""', txt)          # string literals cannot declare anything
        for m in TAMPER_ANY.finditer(txt):
            hits.append(f"{p.relative_to(COQ)}: {m.group(0)}")
        depth = 0
        for line in txt.splitlines():
            if re.match(r"^\s*Section\b", line):
                depth += 1
            elif re.match(r"^\s*End\b", line) and depth > 0:
                depth -= 1
            m = TAMPER_DECL.match(line)
            if m:
                hits.append(f"{p.relative_to(COQ)}: {m.group(1)}")
            m = SECTION_VAR.match(line)
            if m and depth == 0:
                hits.append(f"{p.relative_to(COQ)}: {m.group(1)} outside a section")
    proj = (COQ / "_CoqProject").read_text()
    if "type-in-type" in proj or "impredicative" in proj:
        hits.append("_CoqProject: forbidden flag")
    return hits


ALLOWED_AXIOMS = {
    "ClassicalDedekindReals.sig_forall_dec", "ClassicalDedekindReals.sig_not_dec",
    "FunctionalExtensionality.functional_extensionality_dep", "Classical_Prop.classic",
}


def theorems_of(prop_id):
    f = COQ / "Props" / f"{prop_id}.v"
    if not f.exists():
        return []
    return re.findall(r"^\s*Theorem\s+(\w+)", f.read_text(), flags=re.M)


def check_assumptions(prop_id):
    """Re-run Print Assumptions for every theorem of Props/<id>.v against the compiled .vo files.
    Returns (obligations, discharged, axioms_used, problems)."""
    thms = theorems_of(prop_id)
    CASES.mkdir(exist_ok=True)
    f = CASES / f"{prop_id}_assum.v"
    body = [f"From SPP Require Import Props.{prop_id}."]
    for t in thms:
        body.append(f'Goal True. idtac "@@ {t}". exact I. Qed.')
        body.append(f"Print Assumptions {t}.")
    f.write_text("\n".join(body) + "\n")
    rc, out = sh(f"timeout 600 coqc -Q . SPP Cases/{f.name}", cwd=COQ, timeout=660)
    problems, axioms, discharged = [], set(), 0
    if rc != 0:
        problems.append("Print Assumptions run failed: " + out[-400:])
        return len(thms), 0, [], problems
    blocks = re.split(r"@@ (\w+)\n", out)
    # blocks = [pre, name1, text1, name2, text2, ...]
    for i in range(1, len(blocks), 2):
        name, txt = blocks[i], blocks[i + 1]
        if "Closed under the global context" in txt:
            discharged += 1
            continue
        used = set(re.findall(r"^([A-Za-z_][\w.]*)\s*(?::|$)", txt, flags=re.M)) - {"Axioms"}
        bad = used - ALLOWED_AXIOMS
        axioms |= used
        if bad:
            problems.append(f"{name}: assumptions outside the allow-list: {sorted(bad)}")
        else:
            discharged += 1
    return len(thms), discharged, sorted(axioms), problems


def coqchk_props(prop_id, timeout=2400):
    """Independent re-check (coqchk) of Props/<id>.vo and everything it depends on; returns (ok, axioms, message)."""
    rc, out = sh(f"timeout {timeout} coqchk -o -silent -Q . SPP SPP.Props.{prop_id}", cwd=COQ, timeout=timeout + 60)
    if rc != 0:
        return False, [], "coqchk failed: " + out[-600:]
    m = re.search(r"\* Axioms:(.*?)\n\s*\n\* Constants/Inductives relying on type-in-type:(.*?)\n\s*\n\* Constants/Inductives relying on unsafe \(co\)fixpoints:(.*?)\n\s*\n\* Inductives whose positivity is assumed:(.*?)(?:\n\s*\n|$)", out, flags=re.S)
    if not m:
        return False, [], "coqchk output not understood: " + out[-600:]
    axioms = [a.strip() for a in m.group(1).split("\n") if a.strip() and a.strip() != "<none>"]
    axioms = [a[4:] if a.startswith("Coq.") else a for a in axioms]
    relaxed = [x.strip() for g in (2, 3, 4) for x in m.group(g).split("\n") if x.strip() and x.strip() != "<none>"]
    short = {a.split(".", 1)[1] if a.split(".")[0] in ("Logic", "Reals") else a for a in axioms}
    bad = {a for a in short if a not in ALLOWED_AXIOMS}
    if bad or relaxed:
        return False, sorted(short), f"coqchk: axioms outside the allow-list {sorted(bad)}; relaxed checks {relaxed}"
    return True, sorted(short), "coqchk: context re-checked; axioms " + (", ".join(sorted(short)) or "none")


SHARD_BYTES = int(os.environ.get("VERIF_SHARD_BYTES", str(3 * 1024 * 1024)))


def run_shards(prop_id, header, model, ok, input_type, cases, shard=300, timeout=900):
    """cases: list of (coq_input, coq_sx).  Writes Cases/<id>_k.v, evaluates in the kernel VM,
    returns list of (index, agree, ok) for the cases where not (agree && ok).
    A shard holds at most `shard` cases and about SHARD_BYTES of literal text; a shard the evaluator does not finish
    (time or memory) is split in two and evaluated again, down to single cases, before it counts as a failure."""
    CASES.mkdir(exist_ok=True)
    for old in CASES.glob(f"{prop_id}_s*.v*"):
        old.unlink()
    counter = [0]
    written = []

    def write(base, chunk):
        f = CASES / f"{prop_id}_s{counter[0]}.v"
        counter[0] += 1
        lines = [header, "Open Scope Z_scope."]
        for j, (i, o) in enumerate(chunk):
            lines.append(f"Definition c{j} : ({input_type}) * sx := ({i}, {o}).")
        lines.append(f"Definition cases : list (({input_type}) * sx) := [" + "; ".join(f"c{j}" for j in range(len(chunk))) + "].")
        lines.append(f"Eval vm_compute in (mismatches {model} {ok} cases).")
        f.write_text("\n".join(lines) + "\n")
        written.append(f)
        return (base, f, chunk)

    files = []
    k = 0
    while k < len(cases):
        size, j = 0, k
        while j < len(cases) and j - k < shard and (j == k or size + len(cases[j][0]) + len(cases[j][1]) <= SHARD_BYTES):
            size += len(cases[j][0]) + len(cases[j][1])
            j += 1
        files.append(write(k, cases[k:j]))
        k = j

    def one(item):
        base, f, chunk = item
        rc, out = sh(f"ulimit -s unlimited; timeout {timeout} coqc -Q . SPP Cases/{f.name}", cwd=COQ, timeout=timeout + 30)
        return base, f, chunk, rc, out

    bad, failures = [], []
    jobs = int(os.environ.get("VERIF_JOBS", "16"))
    todo = files
    while todo:
        retry = []
        with ThreadPoolExecutor(max_workers=jobs) as ex:
            for base, f, chunk, rc, out in ex.map(one, todo):
                if rc != 0 or "= " not in out:
                    if len(chunk) > 1 and not out.strip():      # no diagnostic: the evaluator ran out of time or memory
                        h = len(chunk) // 2
                        retry.append(write(base, chunk[:h]))
                        retry.append(write(base + h, chunk[h:]))
                    else:
                        failures.append((f.name, out[-600:]))
                    continue
                flat = " ".join(out.split())
                for m in re.finditer(r"\((\d+)%nat, (true|false), (true|false)\)", flat):
                    bad.append((base + int(m.group(1)), m.group(2) == "true", m.group(3) == "true"))
        todo = retry
        jobs = max(2, jobs // 2)                                 # retried shards are the heavy ones: fewer at a time
    for f in written:
        for ext in (".vo", ".vok", ".vos", ".glob"):
            p = f.with_suffix(ext)
            if p.exists():
                p.unlink()
        aux = f.parent / ("." + f.stem + ".aux")
        if aux.exists():
            aux.unlink()
    return bad, failures


def eval_coq(header, exprs, timeout=300, name="eval"):
    """Evaluate a few expressions with vm_compute and return coqc's raw output (for replays)."""
    CASES.mkdir(exist_ok=True)
    f = CASES / f"{name}.v"
    f.write_text(header + "\nOpen Scope Z_scope.\n" + "\n".join(f"Eval vm_compute in ({e})." for e in exprs) + "\n")
    rc, out = sh(f"ulimit -s unlimited; timeout {timeout} coqc -Q . SPP Cases/{f.name}", cwd=COQ, timeout=timeout + 30)
    return rc, out


# ---------------------------------------------------------------- known findings
def load_known():
    p = VERIF / "known_findings.json"
    if not p.exists():
        return []
    return json.loads(p.read_text())


# ---------------------------------------------------------------- evidence / verdict
def write_replay(prop_id, payload):
    REPLAYS.mkdir(parents=True, exist_ok=True)
    h = hashlib.sha1(json.dumps(payload, sort_keys=True, default=str).encode()).hexdigest()[:12]
    p = REPLAYS / f"{prop_id}-{h}.json"
    payload = dict(payload)
    payload["how_to_run"] = f"bin/check {prop_id} --replay {p}"
    p.write_text(json.dumps(payload, indent=1, default=str))
    return p


def write_evidence(prop_id, tier, seed, coverage, wall_s, violations, assumptions):
    EVID.mkdir(exist_ok=True)
    ev = {"property_id": prop_id, "tier": tier, "seed": seed, "level": "proof", "coverage": coverage,
          "assumptions": assumptions, "wall_s": round(wall_s, 2), "violations": violations}
    (EVID / f"{prop_id}.json").write_text(json.dumps(ev, indent=1, default=str))


TRUSTED_BASE = [
    "Coq 8.16.1 kernel including its bytecode VM (vm_compute); no native_compute; no kernel check disabled",
    "hand-written Gallina model in /verif/coq/Model tied to /repo by this run's correspondence check "
    "(Python harness: generators, canonicalisation, Coq term printer; Base/Sx.v mismatches)",
    "CPython built-ins (int.from_bytes, slicing, struct, codecs, dict order), lxml, numpy, click/rich are modelled, not verified",
    "no extraction (no Extract directives); no Axiom/Parameter/Admitted in the development",
]
