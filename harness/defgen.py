"""Random XTCE definitions (abstract JSON form, see docs.py) and packet streams that steer into their branches."""
import core
import docs

# every spelling other than "unsigned" is a signed (two's complement) integer to the library
SIGNED_SPELLINGS = ["signed", "twosComplement", "twosCompliment", "signMagnitude", "onesComplement"]
# namespace prefixes, including ones that are the beginning of an XTCE element name (Unit, LongDescription, Term, Parameter, ...)
PREFIXES = ["xtce", "x", "Unit", "Long", "T", "P", "C", "S", "E", "H", "ns1", "Parameter"]


def rnd_prefix(rng):
    return ("prefix", rng.choice(PREFIXES))


HDR = [("VERSION", 3), ("TYPE", 1), ("SEC_HDR_FLG", 1), ("PKT_APID", 11), ("SEQ_FLGS", 2), ("SRC_SEQ_CTR", 14), ("PKT_LEN", 16)]


def int_type(name, size, kind="unsigned", default=None, context=None, order="msb", tkind="int", labels=None, unit=None):
    t = {"name": name + "_T", "kind": tkind, "enc": {"t": "num", "size": size, "kind": kind, "order": order, "default": default, "context": context}}
    if unit is not None:
        t["unit"] = unit
    if labels is not None:
        t["labels"] = labels
    return t


def rnd_user_param(rng, name, earlier_ints):
    """a user-data parameter; returns (param, is_small_int)"""
    r = rng.random()
    if r < 0.30:
        size = rng.choice([3, 5, 8, 8, 12, 16, 32])
        return {"name": name, "type": int_type(name, size, rng.choice(["unsigned", "unsigned"] + SIGNED_SPELLINGS),
                                               order=rng.choice(["msb", "lsb"]) if size % 8 == 0 else "msb",
                                               unit=rng.choice([None, None, "V", "deg C"]))}, size <= 16
    if r < 0.40:
        size, kind = rng.choice([(16, "IEEE754"), (32, "IEEE754"), (64, "IEEE754"), (32, "MILSTD_1750A"),
                                 (16, "IEEE754_1985"), (32, "IEEE754_1985"), (64, "IEEE754_1985")])
        return {"name": name, "type": {"name": name + "_T", "kind": "float",
                                       "enc": {"t": "num", "size": size, "kind": kind, "order": rng.choice(["msb", "lsb"]), "default": None, "context": None}}}, False
    # enumerations and booleans are derived from the RAW value also when their encoding carries a calibrator
    shift = ["poly", [[docs.fnum(1.0), 1], [docs.fnum(-1.0), 0]]]
    if r < 0.50:
        labels = [[["i", k], lbl] for k, lbl in ((0, "OFF"), (1, "ON"), (2, "IDLE"), (3, "ERR"))]
        return {"name": name, "type": int_type(name, 2, tkind="enum", labels=labels, default=shift if rng.random() < 0.3 else None)}, False
    if r < 0.57:
        return {"name": name, "type": int_type(name, rng.choice([1, 8]), tkind="bool", default=shift if rng.random() < 0.4 else None)}, False
    if r < 0.70:   # calibrated integer
        cal = rng.choice([["poly", [[docs.fnum(0.5), 1], [docs.fnum(-1.0), 0]]], ["poly", [[docs.fnum(2), 2], [docs.fnum(0.25), 0]]],
                          ["poly", [[docs.fnum(2.5), 0], [docs.fnum(0.5), 1], [docs.fnum(0.25), 1]]],     # two terms of one exponent
                          ["spline", 1, True, [[docs.fnum(0.0), docs.fnum(0.0)], [docs.fnum(10.0), docs.fnum(5.0)], [docs.fnum(255.0), docs.fnum(100.0)]]],
                          ["spline", 0, True, [[docs.fnum(0.0), docs.fnum(1.5)], [docs.fnum(128.0), docs.fnum(2.5)]]]])
        ctx = None
        if rng.random() < 0.6:
            # contexts over an earlier user integer or over header fields (always present), one or two of them, so that
            # "first match", "no match with a default" and "no match without a default" all occur
            pool = (earlier_ints or []) + ["SEQ_FLGS", "TYPE", "SEC_HDR_FLG"]
            ctx = []
            for _c in range(rng.choice([1, 1, 2])):
                ref = rng.choice(pool)
                crit = [["cmp", {"ref": ref, "op": rng.choice(["==", ">=", "<", "!="]), "lit": str(rng.choice([0, 1, 2, 3])), "cal": False}]]
                if rng.random() < 0.4:      # a comparison list: ALL of them must hold
                    crit.append(["cmp", {"ref": rng.choice(pool), "op": rng.choice(["<", ">=", "!="]), "lit": str(rng.choice([1, 2, 3])), "cal": False}])
                ctx.append({"criteria": crit,
                            "cal": rng.choice([["poly", [[docs.fnum(3.0), 1]]], ["poly", [[docs.fnum(0.5), 1], [docs.fnum(7.0), 0]]],
                                               ["spline", 0, False, [[docs.fnum(0.0), docs.fnum(-1.0)], [docs.fnum(64.0), docs.fnum(9.0)], [docs.fnum(255.0), docs.fnum(11.0)]]]])})
        tk = rng.choice(["int", "int", "abstime"])
        # a calibrated 8-bit integer may itself be referred to by later criteria and lengths (raw and calibrated differ)
        return {"name": name, "type": int_type(name, 8, default=cal if rng.random() < 0.8 else None, context=ctx, tkind=tk)}, tk == "int" and rng.random() < 0.5
    if r < 0.80:   # binary
        q = rng.random()
        if earlier_ints and q < 0.5:
            spec = ["dyn", rng.choice(earlier_ints), rng.random() < 0.5, rng.choice([None, [8, 0], [1, 8]])]
        elif q < 0.7:
            # discrete lookup on a header field: the first matching entry decides, also when its value is 0
            sel = rng.choice(["SEQ_FLGS", "TYPE", "SEC_HDR_FLG"])
            spec = ["lookup", [[[["cmp", {"ref": sel, "op": "==", "lit": "0", "cal": rng.random() < 0.5}]], rng.choice([0, 0, 8])],
                               [[["cmp", {"ref": sel, "op": "<=", "lit": "3", "cal": True}]], rng.choice([8, 16, 12])]]]
        else:
            spec = ["fixed", rng.choice([4, 8, 16, 24, 9])]
        return {"name": name, "type": {"name": name + "_T", "kind": "bin", "enc": {"t": "bin", "size": spec}}}, False
    # string (latin-1 never fails to decode)
    enc = {"t": "str", "charset": rng.choice(["ISO-8859-1", "ISO-8859-1", "US-ASCII", "UTF-8"])}
    if earlier_ints and rng.random() < 0.4:
        enc["size"] = ["dyn", rng.choice(earlier_ints), rng.random() < 0.4, rng.choice([[8, 0], [8, 0], [1, 0], [1, 8], [8, 8], None])]
    else:
        enc["size"] = ["fixed", rng.choice([8, 16, 24, 32])]
    d = rng.random()
    if d < 0.25:
        enc["term"] = "00"
    elif d < 0.4:
        enc["leading"] = 8
    return {"name": name, "type": {"name": name + "_T", "kind": "str", "enc": enc}}, False


def rnd_criteria(rng, refs, params=None):
    """criteria over small-valued integer parameters; parameters with a calibrator (raw != calibrated) are preferred"""
    calibrated = [r for r in refs if params and r in params and params[r]["type"]["enc"].get("t") == "num"
                  and (params[r]["type"]["enc"].get("default") or params[r]["type"]["enc"].get("context"))]
    if calibrated and rng.random() < 0.7:
        refs = calibrated + [rng.choice(refs)]
    ks = []
    for _ in range(rng.choice([1, 1, 2])):
        ref = rng.choice(refs)
        if rng.random() < 0.7:
            ks.append(["cmp", {"ref": ref, "op": rng.choice(["==", "==", "==", ">=", "<", "!="]), "lit": str(rng.choice([0, 1, 2, 3])),
                               "cal": rng.random() < 0.5}])
        else:
            other = rng.choice(refs)
            tree = [rng.choice(["and", "or"]),
                    [{"left": ref, "op": rng.choice(["==", ">", "<="]), "lcal": rng.random() < 0.5, "rvalue": str(rng.choice([0, 1, 2]))},
                     (lambda lc: {"left": ref, "op": rng.choice(["!=", "<=", "==", ">"]), "lcal": lc, "rparam": other,
                                  "rcal": (not lc) if rng.random() < 0.6 else lc})(rng.random() < 0.5)],
                    [] if rng.random() < 0.6 else [[("or" if True else "and"), [{"left": other, "op": ">=", "lcal": rng.random() < 0.5,
                                                                               "rparam": ref, "rcal": rng.random() < 0.5}], []]]]
            if tree[0] == "or" and tree[2]:
                tree[2][0][0] = "and"
            if tree[2] and rng.random() < 0.4:
                # a second group of the other kind beside the first (AND of two ORs / OR of two ANDs): every one of them counts
                lc2 = rng.random() < 0.5
                tree[2].append([tree[2][0][0], [{"left": other, "op": rng.choice(["==", "!=", "<", ">="]), "lcal": lc2, "rparam": ref, "rcal": not lc2},
                                                {"left": ref, "op": rng.choice(["==", ">"]), "lcal": rng.random() < 0.5, "rvalue": str(rng.choice([0, 1, 2]))}], []])
            if tree[2] and rng.random() < 0.5:
                # a third level (AND under OR under AND, or the other way round), its conditions decisive for some packets
                tree[2][0][2] = [[tree[0], [{"left": ref, "op": rng.choice(["==", "!="]), "lcal": False, "rvalue": str(rng.choice([0, 1, 2, 3]))},
                                            {"left": other, "op": rng.choice(["<", ">="]), "lcal": rng.random() < 0.5, "rvalue": str(rng.choice([1, 2]))}], []]]
            ks = [["bool", ["tree", tree]]]
            break
    return ks


def rnd_definition(rng, apid_name="PKT_APID"):
    params, containers = {}, []
    hdr_names = [n if n != "PKT_APID" else apid_name for n, _ in HDR]
    for (n, w), nm in zip(HDR, hdr_names):
        params[nm] = {"name": nm, "type": int_type(nm, w)}
    root = {"name": "CCSDSPacket", "entries": [["p", n] for n in hdr_names], "abstract": rng.random() < 0.8, "base": None,
            "criteria": [], "inheritors": []}
    containers.append(root)
    counter = [0]
    common = None
    if rng.random() < 0.6:   # a container meant to be nested in several parents
        cp = []
        for _ in range(rng.randrange(1, 3)):
            counter[0] += 1
            p, _s = rnd_user_param(rng, f"CM{counter[0]}", [])
            params[p["name"]] = p
            cp.append(["p", p["name"]])
        common = {"name": "COMMON", "entries": cp, "abstract": False, "base": None, "criteria": [], "inheritors": []}
        containers.append(common)

    def grow(parent, depth, small_ints):
        nkids = rng.choice([0, 1, 2, 2, 3]) if depth > 0 else rng.choice([1, 2, 3])
        if depth >= 3:
            nkids = 0
        for _ in range(nkids):
            counter[0] += 1
            name = f"C{counter[0]}"
            entries, ints = [], list(small_ints)
            for _j in range(rng.randrange(0, 4)):
                counter[0] += 1
                p, small = rnd_user_param(rng, f"P{counter[0]}", ints)
                params[p["name"]] = p
                entries.append(["p", p["name"]])
                if small:
                    ints.append(p["name"])
                if common is not None and rng.random() < 0.15:
                    entries.append(["c", "COMMON"])
            c = {"name": name, "entries": entries, "abstract": rng.random() < 0.3, "base": parent["name"],
                 # now and then an unconditional child: a BaseContainer without RestrictionCriteria (always a valid inheritor)
                 "criteria": [] if rng.random() < 0.12 else rnd_criteria(rng, [apid_name, "SEQ_FLGS", "TYPE"] + small_ints, params),
                 "inheritors": []}
            containers.append(c)
            parent["inheritors"].append(name)
            grow(c, depth + 1, ints)
    # the root gets a selector byte so that user-data criteria exist
    grow(root, 0, [])
    if rng.random() < 0.3:
        # a container that is the base of others, nested (ContainerRefEntry) in a container that is defined BEFORE it and
        # does not descend from it: one object reached both as a nested entry and as a base
        base_names = {c["base"] for c in containers if c["base"]}
        order = {c["name"]: i for i, c in enumerate(containers)}
        by = {c["name"]: c for c in containers}

        def ancestors(n):
            out = set()
            while by[n]["base"]:
                n = by[n]["base"]
                out.add(n)
            return out
        inner = [c for c in containers if c["name"] in base_names and c["name"] != "CCSDSPacket"]
        hosts = [c for c in containers if c["name"] not in ("CCSDSPacket", "COMMON")]
        def reaches(a, target):      # through base and nesting references
            seen, todo = set(), [a]
            while todo:
                x = todo.pop()
                if x == target:
                    return True
                if x not in seen:
                    seen.add(x)
                    todo.extend(([by[x]["base"]] if by[x]["base"] else []) + [e[1] for e in by[x]["entries"] if e[0] == "c"])
            return False
        pairs = [(h, b) for h in hosts for b in inner if order[h["name"]] < order[b["name"]] and h["name"] != b["name"]
                 and b["name"] not in ancestors(h["name"]) and not reaches(b["name"], h["name"])]
        if pairs:
            h, b = rng.choice(pairs)
            h["entries"].append(["c", b["name"]])
    return {"params": params, "containers": containers, "root": "CCSDSPacket"}


def rnd_packet(rng, ndata):
    hdr = ((rng.choice([0, 0, 1]) << 45) | (rng.randrange(2) << 44) | (rng.randrange(2) << 43) | (rng.choice([0, 1, 2, 3, 4]) << 32)
           | (rng.choice([0, 1, 2, 3]) << 30) | (rng.randrange(16384) << 16) | (ndata - 1))
    body = bytearray(rng.randbytes(ndata))
    for i in range(min(ndata, 6)):          # small values early in the user data (selectors, lengths)
        if rng.random() < 0.7:
            body[i] = rng.choice([0, 1, 2, 3, 4, 8])
    return hdr.to_bytes(6, "big") + bytes(body)


def try_build(doc):
    """the definition object, or None when the library refuses to build it (the case is kept: its implementation outcome is that
    error, which the model must then share)"""
    import docs as _docs
    try:
        return _docs.definition_py(doc)
    except Exception:  # noqa: BLE001
        return None


def fit_packet(definition_obj, pkt):
    """resize a packet so that its definition consumes exactly all of it (when it parses at all); returns variants"""
    from space_packet_parser import packets
    import warnings
    if definition_obj is None:
        return [pkt]
    long_pkt = pkt + bytes(64)
    try:
        with warnings.catch_warnings():
            warnings.simplefilter("ignore")
            p = definition_obj.parse_ccsds_packet(packets.CCSDSPacket(raw_data=long_pkt))
        pos = p.raw_data.pos
    except Exception as e:  # noqa: BLE001
        pd = getattr(e, "partial_data", None)
        if pd is None:
            return [pkt]
        pos = pd.raw_data.pos
    need = max(7, (pos + 7) // 8)
    out = []
    for n in (need, need - 1, need + 1):
        if n >= 7:
            body = (long_pkt[6:n])
            out.append(long_pkt[:4] + (len(body) - 1).to_bytes(2, "big") + body)
    return out
