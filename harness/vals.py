"""Rendering of parsed values, literals and match criteria three ways: JSON-able description,
library objects, Coq terms (Model/Values.v, Model/Criteria.v).  Shared by C05-C08, C14."""
import math

import core

# ---------------------------------------------------------------- payloads  ["i", n] ["f", bits] ["s", "text"] ["b", hex]


def pay_py(t):
    k, x = t
    if k == "i":
        return int(x)
    if k == "f":
        return core.bits_float(x)
    if k == "s":
        return x
    return bytes.fromhex(x)


def pay_of(v):
    if isinstance(v, bool):
        return ["i", int(v)]
    if isinstance(v, int):
        return ["i", int(v)]
    if isinstance(v, float):
        return ["f", core.float_bits(v)]
    if isinstance(v, str):
        return ["s", str(v)]
    return ["b", bytes(v).hex()]


def pay_coq(t):
    k, x = t
    if k == "i":
        return f"(PInt {core.cz(x)})"
    if k == "f":
        return f"(PFloat {core.cz(x)})"
    if k == "s":
        return f"(PStr {core.clist(str(ord(c)) for c in x)})"
    return f"(PBytes {core.clist(str(b) for b in bytes.fromhex(x))})"


def pay_sx(v):
    """canonical output of a payload (mirrors Corr sx_payload)"""
    k, x = pay_of(v)
    if k == "i":
        return [0, x]
    if k == "f":
        return [1, x]
    if k == "s":
        return [2, [ord(c) for c in x]]
    return [3, list(bytes.fromhex(x))]


CLS = {"CBinary": "BinaryParameter", "CBool": "BoolParameter", "CFloat": "FloatParameter", "CInt": "IntParameter", "CStr": "StrParameter"}


def pval_py(d):
    """{"cls":..., "v": payload, "raw": payload}"""
    from space_packet_parser import common
    cls = getattr(common, CLS[d["cls"]])
    return cls(pay_py(d["v"]), pay_py(d["raw"]))


def pval_coq(d):
    return f"{{| vcls := {d['cls']}; vval := {pay_coq(d['v'])}; vraw := {pay_coq(d['raw'])} |}}"


def env_coq(env):
    return core.clist(f"({core.cstr(n)}, {pval_coq(d)})" for n, d in env)


def env_py(env, raw=b"\x00" * 8):
    from space_packet_parser import packets
    p = packets.CCSDSPacket(raw_data=raw)
    for n, d in env:
        p[n] = pval_py(d)
    return p


# ---------------------------------------------------------------- literals
def lit_coq(s):
    try:
        i = f"(Some {core.cz(int(s))})"
    except ValueError:
        i = "None"
    try:
        f = f"(Some {core.cz(core.float_bits(float(s)))})"
    except (ValueError, OverflowError):
        f = "None"
    return f"{{| l_int := {i}; l_float := {f}; l_str := {core.clist(str(ord(c)) for c in s)} |}}"


# ---------------------------------------------------------------- criteria
def comparison_py(c):
    from space_packet_parser.xtce import comparisons
    return comparisons.Comparison(c["lit"], c["ref"], operator=c["op"], use_calibrated_value=c["cal"])


def comparison_coq(c):
    return (f"{{| c_ref := {core.cstr(c['ref'])}; c_op := op {core.cstr(c['op'])}; c_lit := {lit_coq(c['lit'])}; "
            f"c_cal := {core.cbool(c['cal'])} |}}")


def condition_py(d):
    from space_packet_parser.xtce import comparisons
    if "rparam" in d:
        return comparisons.Condition(d["left"], d["op"], right_param=d["rparam"], left_use_calibrated_value=d["lcal"],
                                     right_use_calibrated_value=d["rcal"])
    return comparisons.Condition(d["left"], d["op"], right_value=d["rvalue"], left_use_calibrated_value=d["lcal"],
                                 right_use_calibrated_value=False)


def condition_coq(d):
    right = (f"RParam {core.cstr(d['rparam'])} {core.cbool(d['rcal'])}" if "rparam" in d else f"RValue {lit_coq(d['rvalue'])}")
    return (f"{{| d_left := {core.cstr(d['left'])}; d_lcal := {core.cbool(d['lcal'])}; d_op := op {core.cstr(d['op'])}; "
            f"d_right := {right} |}}")


def bx_py(t):
    from space_packet_parser.xtce import comparisons
    kind, cs, subs = t
    conds = [condition_py(c) for c in cs]
    kids = [bx_py(s) for s in subs]
    return comparisons.Anded(conds, kids) if kind == "and" else comparisons.Ored(conds, kids)


def bx_coq(t):
    kind, cs, subs = t
    return (f"({'BAnd' if kind == 'and' else 'BOr'} {core.clist(condition_coq(c) for c in cs)} "
            f"{core.clist(bx_coq(s) for s in subs)})")


def bexpr_py(b):
    from space_packet_parser.xtce import comparisons
    if b[0] == "cond":
        return comparisons.BooleanExpression(condition_py(b[1]))
    return comparisons.BooleanExpression(bx_py(b[1]))


def bexpr_coq(b):
    if b[0] == "cond":
        return f"(BCond {condition_coq(b[1])})"
    return f"(BTree {bx_coq(b[1])})"


def criterion_py(k):
    return comparison_py(k[1]) if k[0] == "cmp" else bexpr_py(k[1])


def criterion_coq(k):
    return f"(KComparison {comparison_coq(k[1])})" if k[0] == "cmp" else f"(KBool {bexpr_coq(k[1])})"


def criteria_coq(ks):
    return core.clist(criterion_coq(k) for k in ks)


def lookup_py(entry):
    from space_packet_parser.xtce import comparisons
    ks, v = entry
    return comparisons.DiscreteLookup([criterion_py(k) for k in ks], float(v))


def lookup_coq(entry):
    ks, v = entry
    return f"({criteria_coq(ks)}, {core.cz(core.float_bits(float(v)))})"


def bool_out(outcome):
    """('ok', True/False) -> [0, b]; a non-bool result (e.g. NotImplemented) is an error outcome of its own"""
    tag, v = outcome
    if tag != "ok":
        return core.Err(v)
    if v is True or v is False:
        return [0, v]
    return core.Err("EOther")


# ---------------------------------------------------------------- generators
OPS = ["==", "eq", "!=", "neq", "&lt;", "lt", "<", "&gt;", "gt", ">", "&lt;=", "leq", "<=", "&gt;=", "geq", ">="]
INT_VALUES = [0, 1, -1, 2, 7, 255, 2 ** 40, -(2 ** 40), 2 ** 53 + 1]
FLOAT_VALUES = [0.0, -0.0, 2.5, -2.5, 1.0, 7.0, float("nan"), float("inf"), float("-inf"), 2.0 ** 53, 1e300, 5e-324]
LITS = ["0", "1", "-1", "2", "7", "2.5", "-2.5", "abc", "", "1e3", " 7 ", "nan", "inf", "0.0", "255", "1099511627776", "9007199254740993", "a"]


def rnd_pval(rng, kind=None):
    kind = kind or rng.choice(["int", "int", "float", "calint", "str", "bool", "bytes", "enum"])
    if kind == "int":
        v = rng.choice(INT_VALUES)
        return {"cls": "CInt", "v": ["i", v], "raw": ["i", v]}
    if kind == "float":
        v = rng.choice(FLOAT_VALUES)
        return {"cls": "CFloat", "v": ["f", core.float_bits(v)], "raw": ["f", core.float_bits(v)]}
    if kind == "calint":   # calibrated integer: float value, int raw
        return {"cls": "CFloat", "v": ["f", core.float_bits(rng.choice(FLOAT_VALUES))], "raw": ["i", rng.choice(INT_VALUES)]}
    if kind == "str":
        s = rng.choice(["", "a", "abc", "7", "b"])
        return {"cls": "CStr", "v": ["s", s], "raw": ["b", s.encode().hex()]}
    if kind == "enum":
        return {"cls": "CStr", "v": ["s", rng.choice(["ON", "OFF", ""])], "raw": ["i", rng.choice([0, 1, 2])]}
    if kind == "bool":
        r = rng.choice([0, 1, 2])
        return {"cls": "CBool", "v": ["i", int(bool(r))], "raw": ["i", r]}
    b = rng.choice([b"", b"\x00", b"ab"])
    return {"cls": "CBinary", "v": ["b", b.hex()], "raw": ["b", b.hex()]}


def rnd_env(rng, numeric_only=False):
    names = ["A", "B", "C"]
    kinds = ["int", "float", "calint"] if numeric_only else None
    return [(n, rnd_pval(rng, rng.choice(kinds) if kinds else None)) for n in names if rng.random() < 0.9]


def rnd_comparison(rng, refs=("A", "B", "C", "ZZ")):
    return {"ref": rng.choice(refs), "op": rng.choice(OPS), "lit": rng.choice(LITS), "cal": rng.random() < 0.6}


def rnd_condition(rng, refs=("A", "B", "C", "ZZ")):
    d = {"left": rng.choice(refs), "op": rng.choice(OPS), "lcal": rng.random() < 0.6}
    if rng.random() < 0.5:
        d["rparam"] = rng.choice(refs)
        d["rcal"] = rng.random() < 0.6
    else:
        d["rvalue"] = rng.choice([x for x in LITS if x != ""])
    return d


def rnd_bx(rng, depth, kind=None, refs=("A", "B", "C")):
    kind = kind or rng.choice(["and", "or"])
    ncs = rng.choice([0, 1, 1, 2, 3])
    nsubs = 0 if depth == 0 else rng.choice([0, 0, 1, 2])
    if ncs == 0 and nsubs == 0:
        ncs = 1
    return [kind, [rnd_condition(rng, refs) for _ in range(ncs)],
            [rnd_bx(rng, depth - 1, "or" if kind == "and" else "and", refs) for _ in range(nsubs)]]
