"""Abstract XTCE documents rendered as library objects and as Coq terms of Model/Doc.v (XML rendering: xmlgen.py)."""
import core
import vals


# ---------------------------------------------------------------- numbers ["i", n] | ["f", bits]
def num_py(t):
    return int(t[1]) if t[0] == "i" else core.bits_float(t[1])


def num_coq(t):
    return f"(NInt {core.cz(t[1])})" if t[0] == "i" else f"(NFloat {core.cz(t[1])})"


def fnum(x):
    """helper for generators: python number -> tagged"""
    return ["i", int(x)] if isinstance(x, int) and not isinstance(x, bool) else ["f", core.float_bits(float(x))]


# ---------------------------------------------------------------- calibrators
def cal_py(c):
    from space_packet_parser.xtce import calibrators
    if c[0] == "poly":
        return calibrators.PolynomialCalibrator([calibrators.PolynomialCoefficient(num_py(a), int(n)) for a, n in c[1]])
    return calibrators.SplineCalibrator([calibrators.SplinePoint(num_py(r), num_py(v)) for r, v in c[3]], order=c[1], extrapolate=c[2])


def cal_coq(c):
    if c[0] == "poly":
        return "(Poly " + core.clist(f"({num_coq(a)}, {core.cz(n)})" for a, n in c[1]) + ")"
    return f"(Spline {c[1]} {core.cbool(c[2])} " + core.clist(f"({num_coq(r)}, {num_coq(v)})" for r, v in c[3]) + ")"


def ctx_py(cc):
    from space_packet_parser.xtce import calibrators
    return calibrators.ContextCalibrator([vals.criterion_py(k) for k in cc["criteria"]], cal_py(cc["cal"]))


def ctx_coq(cc):
    return f"{{| cc_criteria := {vals.criteria_coq(cc['criteria'])}; cc_cal := {cal_coq(cc['cal'])} |}}"


# ---------------------------------------------------------------- size specs
def adjuster_py(slope, icpt):
    """the closure DataEncoding._get_linear_adjuster builds (obtained from the library itself through a tiny XML element)"""
    import lxml.etree as ET
    from space_packet_parser import common
    from space_packet_parser.xtce import encodings
    common.NamespaceAwareElement.set_ns_prefix(None)
    common.NamespaceAwareElement.set_nsmap({})
    parser = ET.XMLParser()
    parser.set_element_class_lookup(ET.ElementDefaultClassLookup(element=common.NamespaceAwareElement))
    el = ET.fromstring(f'<DynamicValue><LinearAdjustment slope="{slope}" intercept="{icpt}"/></DynamicValue>', parser)
    return encodings.DataEncoding._get_linear_adjuster(el)


def size_coq(s):
    if s[0] == "fixed":
        return f"(SFixed {core.cz(s[1])})"
    if s[0] == "dyn":
        adj = "None" if s[3] is None else f"(Some ({core.cz(s[3][0])}, {core.cz(s[3][1])}))"
        return f"(SDynamic {core.cstr(s[1])} {core.cbool(s[2])} {adj})"
    return "(SLookup " + core.clist(vals.lookup_coq(e) for e in s[1]) + ")"


CHARSETS = {"US-ASCII": "Ascii", "ISO-8859-1": "Latin1", "Windows-1252": "Cp1252", "UTF-8": "Utf8",
            "UTF-16LE": "(Utf16 (Some LSB))", "UTF-16BE": "(Utf16 (Some MSB))", "UTF-16": "(Utf16 None)",
            "UTF-32LE": "(Utf32 (Some LSB))", "UTF-32BE": "(Utf32 (Some MSB))", "UTF-32": "(Utf32 None)"}


# ---------------------------------------------------------------- encodings
def enc_py(e):
    from space_packet_parser.xtce import encodings
    if e["t"] == "num":
        kw = dict(byte_order="leastSignificantByteFirst" if e["order"] == "lsb" else "mostSignificantByteFirst",
                  default_calibrator=None if e.get("default") is None else cal_py(e["default"]),
                  context_calibrators=None if e.get("context") is None else [ctx_py(c) for c in e["context"]])
        if e["kind"] in ("IEEE754", "IEEE754_1985", "MILSTD_1750A"):
            return encodings.FloatDataEncoding(e["size"], encoding=e["kind"], **kw)
        return encodings.IntegerDataEncoding(e["size"], e["kind"], **kw)
    if e["t"] == "str":
        s = e["size"]
        kw = {"encoding": e["charset"], "termination_character": e.get("term"), "leading_length_size": e.get("leading")}
        if e.get("byte_order"):
            kw["byte_order"] = e["byte_order"]
        if s[0] == "fixed":
            kw["fixed_raw_length"] = s[1]
        elif s[0] == "dyn":
            kw.update(dynamic_length_reference=s[1], use_calibrated_value=s[2],
                      length_linear_adjuster=None if s[3] is None else adjuster_py(*s[3]))
        else:
            kw["discrete_lookup_length"] = [vals.lookup_py(x) for x in s[1]]
        return encodings.StringDataEncoding(**kw)
    s = e["size"]
    if s[0] == "fixed":
        return encodings.BinaryDataEncoding(fixed_size_in_bits=s[1])
    if s[0] == "dyn":
        return encodings.BinaryDataEncoding(size_reference_parameter=s[1], use_calibrated_value=s[2],
                                            linear_adjuster=None if s[3] is None else adjuster_py(*s[3]))
    return encodings.BinaryDataEncoding(size_discrete_lookup_list=[vals.lookup_py(x) for x in s[1]])


def enc_coq(e):
    if e["t"] == "num":
        if e["kind"] in ("IEEE754", "IEEE754_1985"):
            kind = "(KFloat IEEE)"
        elif e["kind"] == "MILSTD_1750A":
            kind = "(KFloat MIL1750A)"
        else:
            kind = f"(KInt {core.cbool(e['kind'] != 'unsigned')})"
        d = "None" if e.get("default") is None else f"(Some {cal_coq(e['default'])})"
        c = "None" if e.get("context") is None else "(Some " + core.clist(ctx_coq(x) for x in e["context"]) + ")"
        return (f"(ENum {{| ne_size := {core.cz(e['size'])}; ne_kind := {kind}; ne_order := {'LSB' if e['order'] == 'lsb' else 'MSB'}; "
                f"ne_default := {d}; ne_context := {c} |}})")
    if e["t"] == "str":
        term = "None" if e.get("term") is None else "(Some " + core.clist(str(b) for b in bytes.fromhex(e["term"])) + ")"
        lead = "None" if e.get("leading") is None else f"(Some {core.cz(e['leading'])})"
        return (f"(EStr {{| se_charset := {CHARSETS[e['charset']]}; se_size := {size_coq(e['size'])}; se_term := {term}; "
                f"se_leading := {lead} |}})")
    return f"(EBin {size_coq(e['size'])})"


# ---------------------------------------------------------------- parameter types
KIND_CLASS = {"int": "IntegerParameterType", "float": "FloatParameterType", "str": "StringParameterType", "bin": "BinaryParameterType",
              "bool": "BooleanParameterType", "abstime": "AbsoluteTimeParameterType", "reltime": "RelativeTimeParameterType",
              "enum": "EnumeratedParameterType"}
KIND_COQ = {"int": "TInteger", "float": "TFloat", "str": "TString", "bin": "TBinary", "bool": "TBoolean", "abstime": "TAbsTime",
            "reltime": "TRelTime"}


def ptype_py(t):
    import warnings
    from space_packet_parser.xtce import parameter_types
    cls = getattr(parameter_types, KIND_CLASS[t["kind"]])
    enc = enc_py(t["enc"])
    with warnings.catch_warnings():
        warnings.simplefilter("ignore")
        if t["kind"] == "enum":
            return cls(t["name"], enc, enumeration={vals.pay_py(k): lbl for k, lbl in t["labels"]}, unit=t.get("unit"))
        if t["kind"] in ("abstime", "reltime"):
            return cls(t["name"], enc, unit=t.get("unit"), epoch=t.get("epoch"), offset_from=t.get("offset_from"))
        return cls(t["name"], enc, unit=t.get("unit"))


def ptype_coq(t):
    if t["kind"] == "enum":
        kind = "(TEnum " + core.clist(f"({vals.pay_coq(k)}, {core.clist(str(ord(c)) for c in lbl)})" for k, lbl in t["labels"]) + ")"
    else:
        kind = KIND_COQ[t["kind"]]
    return f"{{| pt_name := {core.cstr(t['name'])}; pt_kind := {kind}; pt_enc := {enc_coq(t['enc'])} |}}"


def param_py(p, cache=None):
    from space_packet_parser.xtce import parameters
    if cache is not None and p["name"] in cache:
        return cache[p["name"]]
    o = parameters.Parameter(p["name"], ptype_py(p["type"]), short_description=p.get("short"), long_description=p.get("long"))
    if cache is not None:
        cache[p["name"]] = o
    return o


def param_coq(p):
    return f"{{| p_name := {core.cstr(p['name'])}; p_type := {ptype_coq(p['type'])} |}}"


# ---------------------------------------------------------------- canonical value output (mirrors Corr sx_pval)
CLS_CODE = {"BinaryParameter": 0, "BoolParameter": 1, "FloatParameter": 2, "IntParameter": 3, "StrParameter": 4}


def value_out(v):
    """parsed value -> [class code, payload(value), payload(raw)] with str values as code points"""
    name = type(v).__name__
    base = {0: bytes, 1: int, 2: float, 3: int, 4: str}[CLS_CODE[name]]
    raw = v.raw_value
    for b in (bytes, str, float, int):
        if isinstance(raw, b):
            raw = b(raw)      # strip value-class wrappers, keep the built-in kind
            break
    return [CLS_CODE[name], vals.pay_sx(base(v)), vals.pay_sx(raw)]


def ptype_from_xml(t):
    """the same parameter type obtained through the library's XML reader (ParameterType.from_xml)"""
    import lxml.etree as ET
    import xmlgen
    from space_packet_parser import common
    from space_packet_parser.xtce import definitions
    common.NamespaceAwareElement.set_ns_prefix(None)
    common.NamespaceAwareElement.set_nsmap({})
    parser = ET.XMLParser()
    parser.set_element_class_lookup(ET.ElementDefaultClassLookup(element=common.NamespaceAwareElement))
    el = ET.fromstring(xmlgen.ptype_xml(xmlgen.W(("none",)), t), parser)
    return definitions.TAG_NAME_TO_PARAMETER_TYPE_OBJECT[el.tag].from_xml(el)


def decode_one(case):
    """shared impl runner: {"env", "data" (hex), "pos", "type"} -> ['ok', [value, pos]] | Err"""
    import warnings
    pkt = vals.env_py(case["env"], raw=bytes.fromhex(case["data"]))
    pkt.raw_data.pos = case["pos"]

    def run():
        with warnings.catch_warnings():
            warnings.simplefilter("ignore")
            t = ptype_from_xml(case["type"]) if case.get("via") == "xml" else ptype_py(case["type"])
            v = t.parse_value(pkt)
        return [value_out(v), pkt.raw_data.pos]
    return core.res_sx(core.guarded(run))


def decode_coq(case):
    return f"({vals.env_coq(case['env'])}, {core.cbytes(bytes.fromhex(case['data']))}, {core.cz(case['pos'])}, {ptype_coq(case['type'])})"


# ---------------------------------------------------------------- containers / whole definitions
def container_coq(c, params):
    es = core.clist((f"EParam {param_coq(params[e[1]])}" if e[0] == "p" else f"EContainer {core.cstr(e[1])}") for e in c["entries"])
    base = "None" if c.get("base") is None else f"(Some {core.cstr(c['base'])})"
    return (f"{{| k_name := {core.cstr(c['name'])}; k_entries := {es}; k_abstract := {core.cbool(c.get('abstract', False))}; "
            f"k_base := {base}; k_criteria := {vals.criteria_coq(c.get('criteria', []))}; "
            f"k_inheritors := {core.clist(core.cstr(n) for n in c.get('inheritors', []))} |}}")


def definition_coq(doc):
    return core.clist(container_coq(c, doc["params"]) for c in doc["containers"])


def definition_py(doc):
    """XtcePacketDefinition built from objects; one object per name (parameters, containers)."""
    from space_packet_parser.xtce import containers, definitions
    pcache, ccache = {}, {}
    by_name = {c["name"]: c for c in doc["containers"]}

    def build(name):
        if name in ccache:
            return ccache[name]
        c = by_name[name]
        entries = [param_py(doc["params"][e[1]], pcache) if e[0] == "p" else build(e[1]) for e in c["entries"]]
        obj = containers.SequenceContainer(name=name, entry_list=entries, abstract=c.get("abstract", False),
                                           base_container_name=c.get("base"),
                                           restriction_criteria=[vals.criterion_py(k) for k in c.get("criteria", [])] or None,
                                           inheritors=list(c.get("inheritors", [])) or None,
                                           short_description=c.get("short"), long_description=c.get("long"))
        ccache[name] = obj
        return obj
    objs = [build(c["name"]) for c in doc["containers"]]
    return definitions.XtcePacketDefinition(objs, root_container_name=doc["root"])


def env_out(packet):
    return [[[ord(ch) for ch in k], value_out(v)] for k, v in packet.items()]
