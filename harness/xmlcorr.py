"""XML layer glue: lxml trees -> Coq `xml` terms / canonical element views; abstract documents -> Coq `xdoc` terms;
implementation definitions -> canonical abstract documents (an independent attribute dumper)."""
import core
import docs
import vals

XTCE_URI = "http://www.omg.org/space/xtce"

INT_ATTRS = {"sizeInBits", "exponent", "order", "slope", "intercept", "sizeInBitsOfSizeTag"}
FLOAT_ATTRS = {("Term", "coefficient"), ("SplinePoint", "raw"), ("SplinePoint", "calibrated"), ("DiscreteLookup", "value"),
               ("Encoding", "scale"), ("Encoding", "offset")}
BOOL_ATTRS = {"useCalibratedValue", "extrapolate", "abstract"}
INT_TEXT = {"FixedValue"}


def cs(s):
    return core.cstr(s)


def copt(o):
    return "None" if o is None else f"(Some {cs(o)})"


def aval_text(kind, text):
    """typed attribute value from XML text, the way the reader converts it (int()/float()/.lower()=='true')"""
    if kind == "z":
        try:
            return ("z", int(text))
        except ValueError:
            return ("s", text)
    if kind == "f":
        try:
            return ("f", core.float_bits(float(text)))
        except ValueError:
            return ("s", text)
    if kind == "b":
        return ("b", text.lower() == "true")
    return ("s", text)


def aval_coq(a):
    k, v = a
    if k == "z":
        return f"(AZ {core.cz(v)})"
    if k == "f":
        return f"(AF {core.cz(v)})"
    if k == "b":
        return f"(AB {core.cbool(v)})"
    return f"(AS {cs(v)})"


def aval_sx(a):
    k, v = a
    if k == "z":
        return [1, v]
    if k == "f":
        return [2, v]
    if k == "b":
        return [3, bool(v)]
    return [0, [ord(c) for c in v]]


def qn(el):
    import lxml.etree as ET
    q = ET.QName(el)
    return q.namespace, q.localname


def enum_value_kind(ptype_el):
    """how EnumerationList values are converted: by the first data encoding the reader finds (String, Integer, Float)"""
    names = [qn(e)[1] for e in ptype_el.iter() if isinstance(e.tag, str)]
    for n, k in (("StringDataEncoding", "s"), ("IntegerDataEncoding", "z"), ("FloatDataEncoding", "f")):
        if n in names:
            return k
    return "s"


def attr_kind(local, name, enum_kind):
    if local == "Enumeration" and name == "value":
        return enum_kind
    if name in INT_ATTRS:
        return "z"
    if (local, name) in FLOAT_ATTRS:
        return "f"
    if name in BOOL_ATTRS:
        return "b"
    return "s"


def tree_to_coq(el, enum_kind="s"):
    """raw lxml element (with comments and whitespace text) -> Coq `xml` term"""
    import lxml.etree as ET
    if isinstance(el, ET._Comment):
        return f"(Comment {cs('c')})"
    uri, local = qn(el)
    if local == "EnumeratedParameterType":
        enum_kind = enum_value_kind(el)
    attrs = core.clist(f"({cs(k)}, {aval_coq(aval_text(attr_kind(local, k, enum_kind), v))})" for k, v in el.attrib.items())
    kids = []
    if el.text is not None:
        kids.append(f"(Text {aval_coq(aval_text('z' if local in INT_TEXT else 's', el.text) if el.text.strip() else ('s', ' '))})")
    for c in el:
        if isinstance(c, ET._ProcessingInstruction):
            continue
        kids.append(tree_to_coq(c, enum_kind))
        if c.tail is not None and c.tail != "":
            kids.append(f"(Text (AS {cs(' ')}))")
    return f"(Elem ({copt(uri)}, {cs(local)}) {attrs} {core.clist(kids)})"


def parsed_coq(xml_text):
    import lxml.etree as ET
    root = ET.fromstring(xml_text.encode())
    nsmap = core.clist(f"({copt(k)}, {cs(v)})" for k, v in root.nsmap.items())
    return f"{{| pr_root := {tree_to_coq(root)}; pr_nsmap := {nsmap} |}}"


def tree_to_view_sx(el, enum_kind="s"):
    """the implementation writer's tree -> canonical element view (mirrors Corr/Xml.v sx_velem)"""
    uri, local = qn(el)
    if local == "EnumeratedParameterType":
        enum_kind = enum_value_kind(el)
    attrs = [[[ord(c) for c in k], aval_sx(aval_text(attr_kind(local, k, enum_kind), v))] for k, v in el.attrib.items()]
    text = [] if el.text is None else [aval_sx(aval_text("z" if local in INT_TEXT else "s", el.text))]
    u = [] if uri is None else [[ord(c) for c in uri]]
    return [u, [ord(c) for c in local], attrs, text, [tree_to_view_sx(c, enum_kind) for c in el if isinstance(c.tag, str)]]


# ---------------------------------------------------------------- abstract documents -> Coq xdoc
def xcmp(c):
    return f"{{| xc_ref := {cs(c['ref'])}; xc_value := {cs(c['lit'])}; xc_op := {cs(c['op'])}; xc_cal := {core.cbool(c['cal'])} |}}"


def xcond(d):
    right = f"XParam {cs(d['rparam'])} {core.cbool(d['rcal'])}" if "rparam" in d else f"XValue {cs(d['rvalue'])}"
    return f"{{| xd_left := {cs(d['left'])}; xd_lcal := {core.cbool(d['lcal'])}; xd_op := {cs(d['op'])}; xd_right := {right} |}}"


def xbx(t):
    kind, conds, subs = t
    return f"({'XAnd' if kind == 'and' else 'XOr'} {core.clist(xcond(c) for c in conds)} {core.clist(xbx(s) for s in subs)})"


def xcrit(k):
    if k[0] == "cmp":
        return f"(XCmp {xcmp(k[1])})"
    b = k[1]
    return f"(XBool (XCond {xcond(b[1])}))" if b[0] == "cond" else f"(XBool (XTree {xbx(b[1])}))"


def xcrits(ks):
    return core.clist(xcrit(k) for k in ks)


def fbits(t):
    return core.cz(core.float_bits(float(docs.num_py(t))))


def xcal(c):
    if c[0] == "poly":
        return "(XPoly " + core.clist(f"({fbits(a)}, {core.cz(n)})" for a, n in c[1]) + ")"
    return f"(XSpline {c[1]} {core.cbool(c[2])} " + core.clist(f"({fbits(r)}, {fbits(v)})" for r, v in c[3]) + ")"


def xsize(s):
    if s[0] == "fixed":
        return f"(XFixed {core.cz(s[1])})"
    if s[0] == "dyn":
        adj = "None" if s[3] is None else f"(Some ({core.cz(s[3][0])}, {core.cz(s[3][1])}))"
        return f"(XDynamic {cs(s[1])} {core.cbool(s[2])} {adj})"
    return "(XLookup " + core.clist(f"{{| xl_criteria := {xcrits(e[0])}; xl_value := {core.cz(core.float_bits(float(e[1])))} |}}" for e in s[1]) + ")"


ORDER = {"msb": "mostSignificantByteFirst", "lsb": "leastSignificantByteFirst"}


def xenc(e):
    if e["t"] == "num":
        d = "None" if e.get("default") is None else f"(Some {xcal(e['default'])})"
        c = "None" if e.get("context") is None else "(Some " + core.clist(
            f"{{| xx_criteria := {xcrits(x['criteria'])}; xx_cal := {xcal(x['cal'])} |}}" for x in e["context"]) + ")"
        isf = e["kind"] in ("IEEE754", "IEEE754_1985", "MILSTD_1750A")
        return (f"(XNum {{| xn_float := {core.cbool(isf)}; xn_size := {core.cz(e['size'])}; xn_encoding := {cs(e['kind'])}; "
                f"xn_order := {cs(ORDER[e['order']])}; xn_default := {d}; xn_context := {c} |}})")
    if e["t"] == "str":
        lead = "None" if e.get("leading") is None else f"(Some {core.cz(e['leading'])})"
        return (f"(XStr {{| xs_charset := {cs(e['charset'])}; xs_order := {copt(e.get('byte_order'))}; xs_size := {xsize(e['size'])}; "
                f"xs_term := {copt(e.get('term'))}; xs_leading := {lead} |}})")
    return f"(XBin {xsize(e['size'])})"


def xkind(t):
    k = t["kind"]
    if k == "enum":
        def av(p):
            if p[0] == "i":
                return f"(AZ {core.cz(p[1])})"
            if p[0] == "f":
                return f"(AF {core.cz(p[1])})"
            return f"(AS {cs(vals.pay_py(p).decode(t['enc'].get('charset', 'utf-8')))})"
        return "(XKEnum " + core.clist(f"({av(p)}, {cs(lbl)})" for p, lbl in t["labels"]) + ")"
    if k in ("abstime", "reltime"):
        return f"(XKTime {core.cbool(k == 'abstime')} {copt(t.get('epoch'))} {copt(t.get('offset_from'))})"
    return {"int": "XKInteger", "float": "XKFloat", "str": "XKString", "bin": "XKBinary", "bool": "XKBoolean"}[k]


def xptype(t):
    return f"{{| xt_name := {cs(t['name'])}; xt_kind := {xkind(t)}; xt_unit := {copt(t.get('unit'))}; xt_enc := {xenc(t['enc'])} |}}"


def xdoc_coq(doc, name=None, date=None, types=None):
    seen, tys = set(), []
    for p in doc["params"].values():
        if p["type"]["name"] not in seen:
            seen.add(p["type"]["name"])
            tys.append(p["type"])
    if types is not None:
        tys = types
    ps = core.clist(f"{{| xp_name := {cs(p['name'])}; xp_type := {cs(p['type']['name'])}; xp_short := {copt(p.get('short'))}; "
                    f"xp_long := {copt(p.get('long'))} |}}" for p in doc["params"].values())
    conts = core.clist(
        f"{{| xk_name := {cs(c['name'])}; xk_abstract := {core.cbool(c.get('abstract', False))}; xk_short := {copt(c.get('short'))}; "
        f"xk_long := {copt(c.get('long'))}; xk_entries := {core.clist(('XEP ' if e[0] == 'p' else 'XEC ') + cs(e[1]) for e in c['entries'])}; "
        f"xk_base := {copt(c.get('base'))}; xk_criteria := {xcrits(c.get('criteria', []))} |}}" for c in doc["containers"])
    return (f"{{| xd_types := {core.clist(xptype(t) for t in tys)}; xd_params := {ps}; xd_containers := {conts}; "
            f"xd_name := {copt(name)}; xd_date := {copt(date)} |}}")


# ---------------------------------------------------------------- independent dumper: implementation objects -> canonical xdoc
def S(s):
    return [ord(c) for c in s]


def OS(o):
    return [] if o is None else [S(o)]


def d_cmp(c):
    return [S(c.referenced_parameter), S(str(c.required_value)), S(c.operator), bool(c.use_calibrated_value)]


def d_cond(d):
    right = [0, S(d.right_param), bool(d.right_use_calibrated_value)] if d.right_param is not None else [1, S(str(d.right_value))]
    return [S(d.left_param), bool(d.left_use_calibrated_value), S(d.operator), right]


def d_bx(t):
    from space_packet_parser.xtce import comparisons
    if isinstance(t, comparisons.Anded):
        return [0, [d_cond(c) for c in t.conditions], [d_bx(s) for s in t.ors]]
    return [1, [d_cond(c) for c in t.conditions], [d_bx(s) for s in t.ands]]


def d_crit(k):
    from space_packet_parser.xtce import comparisons
    if isinstance(k, comparisons.Comparison):
        return [0, d_cmp(k)]
    e = k.expression
    return [1, d_cond(e)] if isinstance(e, comparisons.Condition) else [2, d_bx(e)]


def d_cal(c):
    from space_packet_parser.xtce import calibrators
    if isinstance(c, calibrators.PolynomialCalibrator):
        return [0, [[core.float_bits(float(t.coefficient)), int(t.exponent)] for t in c.coefficients]]
    return [1, int(c.order), bool(c.extrapolate), [[core.float_bits(float(p.raw)), core.float_bits(float(p.calibrated))] for p in c.points]]


def probe_adjuster(f):
    """a linear adjuster is a closure: recover (slope, intercept) by probing it at 0, 1 and check at 7"""
    if f is None:
        return []
    i = f(0)
    s = f(1) - i
    assert f(7) == 7 * s + i
    return [int(s), int(i)]


def d_lookup(l):
    return [[d_crit(k) for k in l.match_criteria], core.float_bits(float(l.lookup_value))]


def d_enc(e):
    from space_packet_parser.xtce import encodings
    if isinstance(e, encodings.NumericDataEncoding):
        return [0, isinstance(e, encodings.FloatDataEncoding), int(e.size_in_bits), S(e.encoding), S(e.byte_order),
                [] if e.default_calibrator is None else [d_cal(e.default_calibrator)],
                [] if e.context_calibrators is None else [[[[d_crit(k) for k in c.match_criteria], d_cal(c.calibrator)] for c in e.context_calibrators]]]
    if isinstance(e, encodings.StringDataEncoding):
        if e.fixed_length:
            size = [0, int(e.fixed_length)]
        elif e.dynamic_length_reference:
            size = [1, S(e.dynamic_length_reference), bool(e.use_calibrated_value), probe_adjuster(e.length_linear_adjuster)]
        else:
            size = [2, [d_lookup(l) for l in e.discrete_lookup_length]]
        term = e.termination_character
        return [1, S(e.encoding), OS(getattr(e, "byte_order", None)), size, [] if term is None else [S(term.hex())],
                [] if e.leading_length_size is None else [int(e.leading_length_size)]]
    if e.fixed_size_in_bits is not None:
        size = [0, int(e.fixed_size_in_bits)]
    elif e.size_reference_parameter is not None:
        size = [1, S(e.size_reference_parameter), bool(e.use_calibrated_value), probe_adjuster(e.linear_adjuster)]
    else:
        size = [2, [d_lookup(l) for l in e.size_discrete_lookup_list]]
    return [2, size]


def d_ptype(t):
    from space_packet_parser.xtce import encodings, parameter_types as PT
    if isinstance(t, PT.EnumeratedParameterType):
        def av(k):
            if isinstance(k, bytes):
                return [0, S(k.decode(t.encoding.encoding))]
            if isinstance(k, float):
                return [2, core.float_bits(k)]
            return [1, int(k)]
        kind = [5, [[av(k), S(lbl)] for k, lbl in t.enumeration.items()]]
    elif isinstance(t, PT.TimeParameterType):
        kind = [6, isinstance(t, PT.AbsoluteTimeParameterType), OS(t.epoch), OS(t.offset_from)]
    else:
        kind = [{PT.IntegerParameterType: 0, PT.FloatParameterType: 1, PT.StringParameterType: 2, PT.BinaryParameterType: 3,
                 PT.BooleanParameterType: 4}[type(t)]]
    return [S(t.name), kind, OS(t.unit), d_enc(t.encoding)]


def d_param(p):
    return [S(p.name), S(p.parameter_type.name), OS(p.short_description), OS(p.long_description)]


def d_cont(c):
    from space_packet_parser.xtce import containers
    entries = [[1, S(e.name)] if isinstance(e, containers.SequenceContainer) else [0, S(e.name)] for e in c.entry_list]
    return [S(c.name), bool(c.abstract), OS(c.short_description), OS(c.long_description), entries, OS(c.base_container_name),
            [d_crit(k) for k in c.restriction_criteria]]


def dump_definition(d):
    """[types, params, containers(with inheritors appended), name, date] in cache order; also checks object identity"""
    ids_ok = True
    for c in d.containers.values():
        for e in c.entry_list:
            from space_packet_parser.xtce import containers
            if isinstance(e, containers.SequenceContainer):
                ids_ok = ids_ok and d.containers.get(e.name) is e
            else:
                ids_ok = ids_ok and d.parameters.get(e.name) is e and d.parameter_types.get(e.parameter_type.name) is e.parameter_type
    return [[d_ptype(t) for t in d.parameter_types.values()], [d_param(p) for p in d.parameters.values()],
            [d_cont(c) + [[S(n) for n in c.inheritors]] for c in d.containers.values()], OS(d.space_system_name), OS(d.date), ids_ok]


# ---------------------------------------------------------------- canonical dump -> Coq xdoc (model input in cache order)
def _s(codes):
    return cs("".join(chr(c) for c in codes))


def _os(o):
    return "None" if not o else f"(Some {_s(o[0])})"


def _b(x):
    return core.cbool(bool(x))


def c_cmp(c):
    return f"{{| xc_ref := {_s(c[0])}; xc_value := {_s(c[1])}; xc_op := {_s(c[2])}; xc_cal := {_b(c[3])} |}}"


def c_cond(d):
    right = f"XParam {_s(d[3][1])} {_b(d[3][2])}" if d[3][0] == 0 else f"XValue {_s(d[3][1])}"
    return f"{{| xd_left := {_s(d[0])}; xd_lcal := {_b(d[1])}; xd_op := {_s(d[2])}; xd_right := {right} |}}"


def c_bx(t):
    return f"({'XAnd' if t[0] == 0 else 'XOr'} {core.clist(c_cond(c) for c in t[1])} {core.clist(c_bx(s) for s in t[2])})"


def c_crit(k):
    if k[0] == 0:
        return f"(XCmp {c_cmp(k[1])})"
    return f"(XBool (XCond {c_cond(k[1])}))" if k[0] == 1 else f"(XBool (XTree {c_bx(k[1])}))"


def c_cal(c):
    if c[0] == 0:
        return "(XPoly " + core.clist(f"({core.cz(a)}, {core.cz(n)})" for a, n in c[1]) + ")"
    return f"(XSpline {core.cz(c[1])} {_b(c[2])} " + core.clist(f"({core.cz(r)}, {core.cz(v)})" for r, v in c[3]) + ")"


def c_size(s):
    if s[0] == 0:
        return f"(XFixed {core.cz(s[1])})"
    if s[0] == 1:
        adj = "None" if not s[3] else f"(Some ({core.cz(s[3][0])}, {core.cz(s[3][1])}))"
        return f"(XDynamic {_s(s[1])} {_b(s[2])} {adj})"
    return "(XLookup " + core.clist(f"{{| xl_criteria := {core.clist(c_crit(k) for k in l[0])}; xl_value := {core.cz(l[1])} |}}" for l in s[1]) + ")"


def c_enc(e):
    if e[0] == 0:
        d = "None" if not e[5] else f"(Some {c_cal(e[5][0])})"
        c = "None" if not e[6] else "(Some " + core.clist(
            f"{{| xx_criteria := {core.clist(c_crit(k) for k in x[0])}; xx_cal := {c_cal(x[1])} |}}" for x in e[6][0]) + ")"
        return (f"(XNum {{| xn_float := {_b(e[1])}; xn_size := {core.cz(e[2])}; xn_encoding := {_s(e[3])}; xn_order := {_s(e[4])}; "
                f"xn_default := {d}; xn_context := {c} |}})")
    if e[0] == 1:
        lead = "None" if not e[5] else f"(Some {core.cz(e[5][0])})"
        return (f"(XStr {{| xs_charset := {_s(e[1])}; xs_order := {_os(e[2])}; xs_size := {c_size(e[3])}; xs_term := {_os(e[4])}; "
                f"xs_leading := {lead} |}})")
    return f"(XBin {c_size(e[1])})"


def c_aval(a):
    if a[0] == 0:
        return f"(AS {_s(a[1])})"
    if a[0] == 1:
        return f"(AZ {core.cz(a[1])})"
    if a[0] == 2:
        return f"(AF {core.cz(a[1])})"
    return f"(AB {_b(a[1])})"


def c_kind(k):
    if k[0] == 5:
        return "(XKEnum " + core.clist(f"({c_aval(v)}, {_s(l)})" for v, l in k[1]) + ")"
    if k[0] == 6:
        return f"(XKTime {_b(k[1])} {_os(k[2])} {_os(k[3])})"
    return ["XKInteger", "XKFloat", "XKString", "XKBinary", "XKBoolean"][k[0]]


def dump_to_xdoc_coq(dump):
    types, params, conts, name, date = dump[:5]
    ts = core.clist(f"{{| xt_name := {_s(t[0])}; xt_kind := {c_kind(t[1])}; xt_unit := {_os(t[2])}; xt_enc := {c_enc(t[3])} |}}" for t in types)
    ps = core.clist(f"{{| xp_name := {_s(p[0])}; xp_type := {_s(p[1])}; xp_short := {_os(p[2])}; xp_long := {_os(p[3])} |}}" for p in params)
    cc = core.clist(
        f"{{| xk_name := {_s(c[0])}; xk_abstract := {_b(c[1])}; xk_short := {_os(c[2])}; xk_long := {_os(c[3])}; "
        f"xk_entries := {core.clist(('XEP ' if e[0] == 0 else 'XEC ') + _s(e[1]) for e in c[4])}; xk_base := {_os(c[5])}; "
        f"xk_criteria := {core.clist(c_crit(k) for k in c[6])} |}}" for c in conts)
    return f"{{| xd_types := {ts}; xd_params := {ps}; xd_containers := {cc}; xd_name := {_os(name)}; xd_date := {_os(date)} |}}"
