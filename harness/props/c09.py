"""C09 — writing a definition to XTCE XML and loading it back preserves its meaning."""
import copy
import io
import warnings

import core
import defgen
import docs
import genrun
import xmlcorr
import xmlgen

COQ_HEADER = "From SPP Require Import Base.Sx Model.Xml Model.Loader Corr.Xml.\nFrom Coq Require Import ZArith List String. Import ListNotations."
COQ_MODEL = "run_c09"
COQ_OK = "c09_ok"
COQ_INPUT_TYPE = "option string * string * xdoc"
SHARD = 8
RULE = ("generated definitions built BOTH ways (assembled from objects; loaded from XML) -> to_xml_tree -> (a) the written tree compared "
        "element by element with the model writer, (b) the tree serialised and loaded back, dumped by an independent attribute dumper "
        "(adjusters probed at 0, 1, 7; object identity) and compared with the dump of the original; extra: identical decoding of packets "
        "reaching every container by the original and the reloaded definition; distinct = distinct (definition, build path)")
ASSUMPTIONS = ["str()/int()/float() conversions of attribute text are Python's (attributes are carried typed in the model)",
               "serialisation and parsing of the written tree are lxml's"]
DATE = "2024-02-03T04:05:06"


def _long(t, k=0):
    """a float that needs all 17 significant digits to be written (tagged number in, tagged number out)"""
    x = core.bits_float(t[1]) if t[0] == "f" else float(t[1])
    return ["f", core.float_bits(x * 1.0000001234567891 + k * 0.000123456789)]


def long_digits(rng, cal):
    """calibrator with coefficients / spline points that do not survive a short decimal rendering"""
    if cal is None or rng.random() < 0.5:
        return cal
    if cal[0] == "poly":
        return ["poly", [[_long(a), n] for a, n in cal[1]]]
    return ["spline", cal[1], cal[2], [[_long(r, i), _long(c)] for i, (r, c) in enumerate(cal[3])]]


def decorate(rng, doc):
    """descriptions, units, time types with epoch / offsetFrom, multi-byte strings, many-digit calibrator numbers"""
    d = copy.deepcopy(doc)
    for p in d["params"].values():
        e = p["type"]["enc"]
        if e["t"] == "num":
            e["default"] = long_digits(rng, e.get("default"))
            if e.get("context"):
                for cx in e["context"]:
                    cx["cal"] = long_digits(rng, cx["cal"])
        if rng.random() < 0.3:
            p["short"] = rng.choice(["short text", "a & b < c", "x"])
        if rng.random() < 0.2:
            p["long"] = rng.choice(["a long description\nwith two lines", "x < 3 & y > 4", "&lt;already escaped&gt;"])
        t = p["type"]
        if rng.random() < 0.3 and t["kind"] not in ("abstime", "reltime"):
            t["unit"] = rng.choice(["V", "deg C", "s"])
        if t["kind"] == "abstime":
            # time types express a first-order calibration as Encoding scale/offset; polynomials that are not [scale] or
            # [offset, scale] (a constant, higher orders) must survive as well (the writer refuses splines)
            t["enc"]["context"] = None
            t["enc"]["default"] = rng.choice([None, ["poly", [[docs.fnum(-2.5), 0], [docs.fnum(0.001), 1]]], ["poly", [[docs.fnum(1e-6), 1]]],
                                              ["poly", [[docs.fnum(100.0), 0], [docs.fnum(1.0), 1]]],
                                              ["poly", [[docs.fnum(5.0), 0]]], ["poly", [[docs.fnum(-0.5), 0]]], ["poly", [[docs.fnum(0.25), 2]]],
                                              ["poly", [[docs.fnum(1.0), 0], [docs.fnum(2.0), 1], [docs.fnum(0.5), 2]]],
                                              ["poly", [[docs.fnum(3.0), 1], [docs.fnum(0.125), 3]]]])
            t.update(kind=rng.choice(["abstime", "reltime"]), unit=rng.choice([None, "s", "ms"]), epoch=rng.choice([None, "TAI", "2000-01-01T00:00:00"]),
                     offset_from=rng.choice([None, "SRC_SEQ_CTR"]))
            r = rng.random()
            if r < 0.06:      # the writer refuses a time type with a spline (ValueError): the model's writer must refuse as well
                t["enc"]["default"] = ["spline", 1, True, [[docs.fnum(0.0), docs.fnum(0.0)], [docs.fnum(255.0), docs.fnum(25.5)]]]
            elif r < 0.10:    # ... and a time type whose data encoding is not numeric
                t["enc"] = {"t": "str", "charset": "US-ASCII", "size": ["fixed", 8]}
        if t["kind"] == "enum" and rng.random() < 0.3:
            # an enumeration over a STRING field: the keys are the encoded texts
            cs_ = rng.choice(["UTF-8", "ISO-8859-1", "UTF-16BE", "UTF-16LE", "UTF-16", "UTF-16"])
            codec = {"UTF-8": "utf-8", "ISO-8859-1": "latin-1", "UTF-16BE": "utf-16-be", "UTF-16LE": "utf-16-le", "UTF-16": "utf-16"}[cs_]
            texts = ["SF", "ON", "ZZ"]
            keys = [s.encode(codec) for s in texts]
            t["enc"] = {"t": "str", "charset": cs_, "size": ["fixed", 8 * len(keys[0])]}
            if cs_ == "UTF-16":
                t["enc"]["byte_order"] = rng.choice(["mostSignificantByteFirst", "leastSignificantByteFirst"])
            t["labels"] = [[["b", k.hex()], lbl] for k, lbl in zip(keys, ["SAFE", "ON", "OTHER"])]
        if t["kind"] == "str" and rng.random() < 0.3:
            t["enc"].update(charset=rng.choice(["UTF-16BE", "UTF-16LE", "UTF-16"]))
            if t["enc"]["charset"] == "UTF-16":
                t["enc"]["byte_order"] = rng.choice(["mostSignificantByteFirst", "leastSignificantByteFirst"])
            if t["enc"].get("term"):
                t["enc"]["term"] = "0058" if t["enc"]["charset"] != "UTF-16LE" else "5800"
    for c in d["containers"]:
        if rng.random() < 0.3:
            c["short"] = "container " + c["name"]
        if rng.random() < 0.2:
            c["long"] = rng.choice(["long container text", "limits: a < b & b > c", "two\nlines &amp; an entity-like text"])
    if rng.random() < 0.5:
        # any order of the container set: derived containers before their bases, nested containers after their users
        rng.shuffle(d["containers"])
    return d


def writer_supports(doc):
    """False for the definitions the writer declares unsupported (ValueError): a time type whose data encoding is not numeric or whose
    default calibrator is a spline (Model/Xml.v: time_writable)"""
    for p in doc["params"].values():
        t = p["type"]
        if t["kind"] in ("abstime", "reltime"):
            if t["enc"]["t"] != "num" or (t["enc"].get("default") or [None])[0] == "spline":
                return False
    return True


def gen(rng, tier):
    cases = []
    n = 30 if tier == "quick" else 700
    for i in range(n):
        doc = decorate(rng, defgen.rnd_definition(rng))
        cases.append({"doc": doc, "build": "objects" if i % 2 == 0 else "xml", "ns": rng.choice(["xtce", "x", rng.choice(defgen.PREFIXES)])})
    return cases


def build(case):
    doc = case["doc"]
    if case["build"] == "objects":
        d = docs.definition_py(doc)
        d.date = DATE
        d.space_system_name = "SPACE"
        if case["ns"] != "xtce":
            d.ns = {case["ns"]: xmlcorr.XTCE_URI}
            d.xtce_ns_prefix = case["ns"]
            d.xtce_schema_uri = xmlcorr.XTCE_URI
        return d
    ns = ("prefix", case["ns"])
    x = xmlgen.document_xml(dict(xmlgen.to_xml_loadable(doc), date=DATE), ns)
    return xmlgen.load(x, ns)


def impl(case):
    import lxml.etree as ET

    def run():
        with warnings.catch_warnings():
            warnings.simplefilter("ignore")
            d = build(case)
            tree = d.to_xml_tree()
            view = xmlcorr.tree_to_view_sx(tree.getroot())
            data = ET.tostring(tree, xml_declaration=True, encoding="utf-8")
            try:
                d2 = type(d).from_xtce(io.BytesIO(data), xtce_ns_prefix=d.xtce_ns_prefix)
                back = [0, xmlcorr.dump_definition(d2)]
            except Exception as e:  # noqa: BLE001
                back = core.Err(core.classify_exception(e))
        return [view, back]
    return core.res_sx(core.guarded(run, timeout_s=60))


def coq_input(case):
    with warnings.catch_warnings():
        warnings.simplefilter("ignore")
        try:
            d = build(case)
        except Exception:  # noqa: BLE001  (the XML build path failed to load: the implementation outcome of the case is that error;
            d = build(dict(case, build="objects"))     #  the model is still given the definition, built from objects)
    dump = xmlcorr.dump_definition(d)
    return f"({xmlcorr.copt(d.xtce_schema_uri)}, {core.cstr(DATE)}, {xmlcorr.dump_to_xdoc_coq(dump)})"


def key(case):
    import json
    return json.dumps([case["doc"]["containers"], sorted(case["doc"]["params"]), case["build"], case["ns"]], sort_keys=True, default=str)


def branch(case, out):
    if isinstance(out, core.Err):
        return f"{case['build']}:write-{out.kind}"
    back = out[1][1]
    return f"{case['build']}:" + ("reload-" + back.kind if isinstance(back, core.Err) else "roundtrip")


def size(case):
    return 40 * len(case["doc"]["params"]) + 100 * len(case["doc"]["containers"])


def extra(rng, tier):
    """identical decoding: the original and the written-then-loaded definition yield the same items on packets reaching every container"""
    import lxml.etree as ET
    res = {"evaluations": 0, "violations": [], "decode_comparisons": 0}
    for i in range(10 if tier == "quick" else 200):
        doc = decorate(rng, defgen.rnd_definition(rng))
        case = {"doc": doc, "build": "objects" if i % 2 else "xml", "ns": "xtce"}
        try:
            with warnings.catch_warnings():
                warnings.simplefilter("ignore")
                d = build(case)
                data = ET.tostring(d.to_xml_tree(), xml_declaration=True, encoding="utf-8")
                d2 = type(d).from_xtce(io.BytesIO(data))
        except Exception:  # noqa: BLE001   (round-trip failures are reported by the main check)
            continue
        pkts = []
        for _ in range(6):
            pkts += defgen.fit_packet(d, defgen.rnd_packet(rng, rng.randrange(1, 30)))[:1]
        stream = b"".join(pkts)
        opts = dict(genrun.DEFAULT_OPTS, yield_unrecognized=True)
        a = genrun.run_generator(d, stream, opts, len(pkts))
        b = genrun.run_generator(d2, stream, opts, len(pkts))
        res["evaluations"] += 1
        res["decode_comparisons"] += len(pkts)
        if a != b:
            res["violations"].append({"input": {"decode_differs": True, "doc": doc, "build": case["build"], "stream": stream.hex()},
                                      "impl": "original and reloaded definitions decode differently"})
    return res
