"""C18 — the xarray dataset holds every parsed value, per APID, in order, without loss."""
import io
import tempfile
import warnings
from pathlib import Path

import core
import defgen
import docs
import genrun
import vals

COQ_HEADER = ("From SPP Require Import Base.Bytes Base.Sx Model.Values Model.Criteria Model.Doc Model.Generator Corr.C06 Corr.Decode Corr.Generator Corr.C18.\n"
              "From Coq Require Import ZArith List String. Import ListNotations.")
COQ_MODEL = "run_c18"
COQ_OK = "(ok_spec spec_c18)"
COQ_INPUT_TYPE = "definition * string * bool * list (list (list (Z * Z)))"
SHARD = 12
RULE = ("definitions with one fixed layout per APID covering every parameter type and encoding (ints 1..64 bits signed/unsigned, "
        "IEEE 16/32/64, MIL-1750A, enum, boolean, binary, strings, calibrated) x value extremes of each encoding x 1-3 files x "
        "interleaved APIDs x raw/derived mode; a stream whose packets of one APID differ in field set; cells compared with the "
        "generator's items; distinct = distinct (definition, files, mode)")
ASSUMPTIONS = ["numpy is trusted to implement the modelled storage rule (integer ranges, float32 rounding, S/U trailing-NUL stripping); xarray is a pass-through"]

_TMP = None


def layout_param(rng, name, kind):
    if kind == "uint":
        n = rng.choice([1, 7, 8, 9, 16, 17, 32, 33, 64])
        return {"name": name, "type": defgen.int_type(name, n, "unsigned")}, n
    if kind == "sint":
        n = rng.choice([2, 8, 12, 16, 32, 64])
        return {"name": name, "type": defgen.int_type(name, n, rng.choice(defgen.SIGNED_SPELLINGS))}, n
    if kind == "f16":
        return {"name": name, "type": {"name": name + "_T", "kind": "float", "enc": {"t": "num", "size": 16, "kind": "IEEE754", "order": "msb", "default": None, "context": None}}}, 16
    if kind == "f32":
        return {"name": name, "type": {"name": name + "_T", "kind": "float", "enc": {"t": "num", "size": 32, "kind": "IEEE754", "order": "msb", "default": None, "context": None}}}, 32
    if kind == "f64":
        return {"name": name, "type": {"name": name + "_T", "kind": "float", "enc": {"t": "num", "size": 64, "kind": "IEEE754", "order": "msb", "default": None, "context": None}}}, 64
    if kind == "mil":
        return {"name": name, "type": {"name": name + "_T", "kind": "float", "enc": {"t": "num", "size": 32, "kind": "MILSTD_1750A", "order": "msb", "default": None, "context": None}}}, 32
    if kind == "enum":
        labels = [[["i", k], lbl] for k, lbl in ((0, "OFF"), (1, "ON"), (2, "IDLE"), (3, "ERROR"))]
        return {"name": name, "type": defgen.int_type(name, 2, tkind="enum", labels=labels)}, 2
    if kind == "bool":
        return {"name": name, "type": defgen.int_type(name, 8, tkind="bool")}, 8
    if kind == "cal":
        return {"name": name, "type": defgen.int_type(name, 8, default=["poly", [[docs.fnum(0.1), 1], [docs.fnum(-3.0), 0]]])}, 8
    if kind == "ctxcal":   # calibrated only through a context calibrator (no default): derived values are floats
        ctx = [{"criteria": [["cmp", {"ref": "SEQ_FLGS", "op": "==", "lit": "3", "cal": True}]],
                "cal": ["poly", [[docs.fnum(0.25), 1], [docs.fnum(0.5), 0]]]}]
        return {"name": name, "type": defgen.int_type(name, 8, context=ctx)}, 8
    if kind == "bin":
        n = rng.choice([8, 16, 24])
        return {"name": name, "type": {"name": name + "_T", "kind": "bin", "enc": {"t": "bin", "size": ["fixed", n]}}}, n
    n = rng.choice([8, 16, 32])
    return {"name": name, "type": {"name": name + "_T", "kind": "str", "enc": {"t": "str", "charset": "ISO-8859-1", "size": ["fixed", n]}}}, n


KINDS = ["uint", "sint", "f16", "f32", "f64", "mil", "enum", "bool", "cal", "ctxcal", "bin", "str"]


def rnd_doc(rng):
    params, containers = {}, []
    for (n, w) in defgen.HDR:
        params[n] = {"name": n, "type": defgen.int_type(n, w)}
    root = {"name": "CCSDSPacket", "entries": [["p", n] for n, _ in defgen.HDR], "abstract": True, "base": None, "criteria": [], "inheritors": []}
    containers.append(root)
    layouts = {}
    for apid in rng.sample([1, 2, 3, 700, 2047], rng.randrange(1, 4)):
        entries, widths = [], []
        for j, kind in enumerate(rng.sample(KINDS, rng.randrange(1, 6))):
            p, w = layout_param(rng, f"A{apid}_{j}_{kind}", kind)
            params[p["name"]] = p
            entries.append(["p", p["name"]])
            widths.append((kind, w))
        tot = sum(w for _, w in widths)
        if tot % 8:
            p = {"name": f"A{apid}_pad", "type": defgen.int_type(f"A{apid}_pad", 8 - tot % 8)}
            params[p["name"]] = p
            entries.append(["p", p["name"]])
            widths.append(("uint", 8 - tot % 8))
        c = {"name": f"C{apid}", "entries": entries, "abstract": False, "base": "CCSDSPacket",
             "criteria": [["cmp", {"ref": "PKT_APID", "op": "==", "lit": str(apid), "cal": True}]], "inheritors": []}
        containers.append(c)
        root["inheritors"].append(c["name"])
        layouts[apid] = widths
    return {"params": params, "containers": containers, "root": "CCSDSPacket"}, layouts


def field_bits(rng, kind, w):
    if kind in ("uint", "sint", "cal", "ctxcal", "bool"):
        return rng.choice([0, 1, (1 << w) - 1, 1 << (w - 1), rng.getrandbits(w)])
    if kind == "enum":
        return rng.randrange(4)
    if kind == "f16":
        return rng.choice([0x3C00, 0x0001, 0x7BFF, 0xFC00, 0x8000, rng.getrandbits(16)])
    if kind == "f32":
        return rng.choice([0x3FC00000, 0x00000001, 0x7F7FFFFF, 0x80000000, 0x3DCCCCCD, rng.getrandbits(32)])
    if kind == "f64":
        return rng.choice([0x3FF8000000000000, 1, 0x7FEFFFFFFFFFFFFF, 0x3FB999999999999A, rng.getrandbits(64)])
    if kind == "mil":
        return rng.choice([0x40000000, 0x40000080, 0x7FFFFF7F, 0x400000FF, 0x80000000, 0xFFFFFF85, rng.getrandbits(32)])
    nbytes = w // 8
    if kind == "bin":
        b = rng.choice([bytes(nbytes), b"\x01" * nbytes, b"\xff" * (nbytes - 1) + b"\x00", rng.randbytes(nbytes)])
    else:
        b = rng.choice([b"A" * nbytes, (b"ab\x00\x00\x00")[:nbytes].ljust(nbytes, b"\x00"), bytes([rng.randrange(32, 127) for _ in range(nbytes)]),
                        bytes([rng.randrange(32, 256) for _ in range(nbytes)])])
    return int.from_bytes(b, "big")


def mk_packet(rng, apid, widths, seq):
    body, nbits = 0, 0
    for kind, w in widths:
        body = (body << w) | field_bits(rng, kind, w)
        nbits += w
    data = body.to_bytes(nbits // 8, "big")
    hdr = (apid << 32) | (3 << 30) | (seq << 16) | (len(data) - 1)
    return hdr.to_bytes(6, "big") + data


def gen(rng, tier):
    cases = []
    n = 100 if tier == "quick" else 900
    for i in range(n):
        doc, layouts = rnd_doc(rng)
        files = []
        seq = 0
        for _f in range(rng.randrange(1, 4)):
            pk = []
            for _p in range(rng.choice([0, 1, 2, 3, 4, 5]) if _f < 2 else rng.randrange(1, 6)):      # also files with no packet at all
                apid = rng.choice(list(layouts))
                pk.append(mk_packet(rng, apid, layouts[apid], seq).hex())
                seq += 1
            files.append(pk)
        if i % 13 == 0 and len(layouts) >= 1:   # a packet of a known APID with another field set: reuse another layout's container
            apids = list(layouts)
            a = apids[0]
            extra = {"name": f"C{a}_ALT", "entries": doc["containers"][1]["entries"][:-1] or doc["containers"][1]["entries"], "abstract": False,
                     "base": "CCSDSPacket", "criteria": [["cmp", {"ref": "SEQ_FLGS", "op": "==", "lit": "0", "cal": True}]], "inheritors": []}
            # (kept out of the definition unless it changes the field set; the simple way to get a mismatch is a second
            #  container for the same APID selected by the sequence flags)
        cases.append({"doc": doc, "raw": rng.random() < 0.5, "files": files})
    return cases


def cell_out(x):
    import numpy as np
    if isinstance(x, (bytes, np.bytes_)):
        return [3, list(bytes(x))]
    if isinstance(x, (str, np.str_)):
        return [2, [ord(c) for c in str(x)]]
    if isinstance(x, (bool, np.bool_)):
        return [0, int(x)]
    if isinstance(x, (int, np.integer)):
        return [0, int(x)]
    if isinstance(x, (float, np.floating)):
        return [1, core.float_bits(float(x))]
    raise TypeError(f"cell of type {type(x)}")


def impl(case):
    global _TMP
    from space_packet_parser import xarr
    if _TMP is None:
        _TMP = Path(tempfile.mkdtemp(prefix="c18_"))
        import atexit
        import shutil
        atexit.register(shutil.rmtree, _TMP, True)

    def run():
        d = docs.definition_py(case["doc"])
        paths = []
        for i, f in enumerate(case["files"]):
            p = _TMP / f"pass_{chr(ord('z') - i)}_{i}.bin"      # given order != sorted order
            p.write_bytes(b"".join(bytes.fromhex(x) for x in f))
            paths.append(p)
        with warnings.catch_warnings():
            warnings.simplefilter("ignore")
            ds = xarr.create_dataset(paths, d, use_raw_values=case["raw"])
        out = []
        for apid, dset in ds.items():
            cols = []
            for k in dset.data_vars:
                cols.append([[ord(c) for c in k], [cell_out(v) for v in dset[k].values.tolist()]])
            out.append([int(apid), cols])
        return out
    return core.res_sx(core.guarded(run, timeout_s=60))


def coq_input(case):
    files = core.clist(core.clist(core.cbytes(bytes.fromhex(p)) for p in f) for f in case["files"])
    return f"({docs.definition_coq(case['doc'])}, {core.cstr(case['doc']['root'])}, {core.cbool(case['raw'])}, {files})"


def key(case):
    import json
    return json.dumps([case["doc"]["containers"], case["files"], case["raw"]], sort_keys=True)


def branch(case, out):
    kinds = sorted(set(k.split("_")[-1] for k in case["doc"]["params"] if k.startswith("A")))
    return ("raw" if case["raw"] else "derived") + ":" + ("err:" + out.kind if isinstance(out, core.Err) else "ok") + ":" + "+".join(kinds)


def size(case):
    return sum(len(p) for f in case["files"] for p in f) + 40 * len(case["doc"]["params"])


def expected_table(case):
    """the lossless table computed from the implementation's own generator (for known-finding classification)"""
    d = docs.definition_py(case["doc"])
    tb = {}
    for f in case["files"]:
        with warnings.catch_warnings():
            warnings.simplefilter("ignore")
            for pkt in d.packet_generator(io.BytesIO(b"".join(bytes.fromhex(x) for x in f))):
                cols = tb.setdefault(pkt.raw_data.apid, {})
                for k, v in pkt.items():
                    cols.setdefault(k, []).append(vals.pay_sx(v.raw_value if case["raw"] else v)[:])
    return tb


def kf_match(entry, case, impl_out):
    """every differing cell must be explained by the entry's class"""
    if isinstance(impl_out, core.Err) or "files" not in case:
        return False
    try:
        exp = expected_table(case)
    except Exception:  # noqa: BLE001
        return False
    diffs = []
    for apid, cols in impl_out[1]:
        for kname, cells in cols:
            k = "".join(chr(c) for c in kname)
            want = exp.get(apid, {}).get(k)
            if want is None or len(want) != len(cells):
                return False
            diffs += [(w, c) for w, c in zip(want, cells) if w != c]
    if not diffs:
        return False
    m = entry["match"]
    if m["kind"] == "trailing-nul":
        return all(w[0] in (2, 3) and w[0] == c[0] and w[1] and w[1][-1] == 0 and c[1] == strip(w[1]) for w, c in diffs)
    return False


def strip(l):
    l = list(l)
    while l and l[-1] == 0:
        l.pop()
    return l
