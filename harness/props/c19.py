"""C19 — CLI listings: each packet once, in order; --packet index handling; no traceback, no hang."""
import re
import tempfile
from pathlib import Path

import core
import framing
import gen_tables
import xdefs

COQ_HEADER = "From SPP Require Import Base.Sx Corr.C19.\nFrom Coq Require Import ZArith List. Import ListNotations."
COQ_MODEL = "run_c19"
COQ_OK = "(ok_spec run_c19)"    # C19_rows / C19_select determine the rows and the selection uniquely
COQ_INPUT_TYPE = "Z * Z * Z"
RULE = "files of n = 0..25 packets through click's CliRunner: describe-packets for every n; parse --packet i for i = 0..n+1; distinct = distinct (command, n, i)"
ASSUMPTIONS = ["rich/click rendering is glue: rows are parsed back from the rendered table by their SEQCNT column",
               "negative --packet values are outside the property's quantifier (0..n+1)"]

_TMP = None
_DEF = None


def tables():
    return gen_tables.check("TablesOk_C19")


def _setup():
    global _TMP, _DEF
    if _TMP is None:
        _TMP = Path(tempfile.mkdtemp(prefix="c19_"))
        import atexit
        import shutil
        atexit.register(shutil.rmtree, _TMP, True)
        d = xdefs.header_only_definition()
        _DEF = _TMP / "def.xml"
        d.write_xml(_DEF)
    return _TMP


def _file(n):
    import random
    tmp = _setup()
    p = tmp / f"pk_{n}.bin"
    if not p.exists():
        rng = random.Random(n)
        p.write_bytes(b"".join(framing.mk_packet(rng, 1 + i % 3, apid=100 + (i % 5), seqcount=i) for i in range(n)))
    return p


def gen(rng, tier):
    cases = []
    N = 25 if tier == "quick" else 60
    for n in range(0, N + 1):
        cases.append({"cmd": 0, "n": n, "idx": 0})
    for n in range(0, 13 if tier == "quick" else 30):
        for i in range(0, n + 2):
            cases.append({"cmd": 1, "n": n, "idx": i})
    return cases


def impl(case):
    from click.testing import CliRunner
    from space_packet_parser import cli
    n = case["n"]

    def run():
        runner = CliRunner()
        if case["cmd"] == 0:
            r = runner.invoke(cli.spp, ["-q", "describe-packets", str(_file(n))])
            if r.exception is not None and not isinstance(r.exception, SystemExit):
                raise r.exception
            if r.exit_code != 0:
                raise RuntimeError(f"exit {r.exit_code}")
            rows = []
            for line in r.output.splitlines():
                cells = [c.strip() for c in re.split(r"[│┃|]", line)]
                cells = [c for c in cells if c != ""]
                if len(cells) == 7:
                    if all(c in ("...", "…") for c in cells):
                        rows.append(-1)
                    elif cells[5].isdigit():
                        rows.append(int(cells[5]))
            if n == 0:
                assert "No packets found" in r.output
            return rows
        r = runner.invoke(cli.spp, ["-q", "parse", str(_file(n)), str(_DEF), "--packet", str(case["idx"])])
        if r.exception is not None and not isinstance(r.exception, SystemExit):
            raise r.exception
        if r.exit_code != 0:
            raise RuntimeError(f"exit {r.exit_code}")
        if "out of range" in r.output:
            return [2]
        m = re.findall(r"'SRC_SEQ_CTR': (\d+)", r.output)
        assert len(m) == 1, r.output[:300]
        return [1, int(m[0])]
    out = core.guarded(run, timeout_s=20)
    return out[1] if out[0] == "ok" else core.Err(out[1])


def coq_input(case):
    return f"({case['cmd']}, {case['n']}, {case['idx']})"


def key(case):
    return (case["cmd"], case["n"], case["idx"])


def branch(case, out):
    if isinstance(out, core.Err):
        return f"cmd{case['cmd']}:{out.kind}"
    if case["cmd"] == 0:
        return "list:elided" if -1 in out else "list:all"
    return "parse:shown" if out[0] == 1 else "parse:out-of-range"


def size(case):
    return case["n"] + case["idx"]
