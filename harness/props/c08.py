"""C08 — calibration (context/default/none, polynomial, spline order 0/1), enumeration, boolean; raw value kept."""
import core
import docs
import vals

COQ_HEADER = ("From SPP Require Import Base.Bytes Base.Sx Model.Values Model.Criteria Model.Doc Corr.C06 Corr.Decode.\n"
              "From Coq Require Import ZArith List String. Import ListNotations.")
COQ_MODEL = "run_dec"
COQ_OK = "(ok_spec run_dec)"   # selection order, segment choice and end-point rules determine the result uniquely (Props/C08.v)
COQ_INPUT_TYPE = "dec_input"
SHARD = 120
RULE = ("splines: 2-8 strictly increasing knots (integers, dyadic and decimal fractions), queried at EVERY knot, both end points, "
        "midpoints and just outside, orders 0/1, both extrapolate flags, int and float queries; polynomials: 0-5 terms, exponents "
        "0..5 on integer raws (float raws with exponents <= 1); fields with 0-3 context calibrators (criteria on other parameters "
        "or the own raw value) and optional default, 30% of them with the type loaded through the XML reader; enumerations with listed/unlisted raws; booleans over int/float raws; "
        "distinct = distinct (kind, calibrator shape, query class, selection outcome)")
ASSUMPTIONS = ["float ** n with n >= 2 on float raws (libm pow) is outside the model and not generated",
               "results compared as IEEE bit patterns"]


def rnd_knots(rng):
    n = rng.randrange(2, 9)
    style = rng.choice(["int", "dyadic", "decimal"])
    xs, x = [], rng.choice([-50, -3, 0, 1, 10])
    for _ in range(n):
        xs.append(x)
        x += rng.choice([1, 2, 5, 10]) if style == "int" else rng.choice([0.5, 0.25, 1.5, 3.0]) if style == "dyadic" else rng.choice([0.1, 0.3, 1.7, 2.2])
    ys = [rng.choice([-10.0, -1.5, 0.0, 0.1, 1.0, 2.5, 100.0, 1e-3, rng.uniform(-5, 5)]) for _ in xs]
    return xs, ys


def spline_cases(rng, tier):
    cases = []
    nsp = 25 if tier == "quick" else 800
    for _ in range(nsp):
        xs, ys = rnd_knots(rng)
        as_float = rng.random() < 0.8
        pts = [[docs.fnum(float(x) if as_float else x), docs.fnum(float(y) if as_float or not float(y).is_integer() else int(y))] for x, y in zip(xs, ys)]
        rng.shuffle(pts) if rng.random() < 0.3 else None
        qs = list(xs)
        qs += [(a + b) / 2 for a, b in zip(xs, xs[1:])]
        qs += [xs[0] - 1, xs[-1] + 1, xs[0] - 0.001, xs[-1] + 0.001, float("nan")]
        for order in (0, 1):
            for ex in (False, True):
                for q in qs:
                    if rng.random() < (0.5 if tier == "quick" else 1.0) or q in (xs[0], xs[-1]):
                        qq = int(q) if (isinstance(q, int) or (float(q).is_integer() and rng.random() < 0.5)) else float(q)
                        cases.append({"kind": "cal", "cal": ["spline", order, ex, pts], "x": docs.fnum(qq)})
    return cases


COEFS = [0.0, 1.0, -1.0, 0.5, 2.0, 0.1, 3.14159, -2.5e-3, 1e10, 1, 2, -3]


def rnd_poly(rng, maxexp=5):
    n = rng.randrange(0, 6)
    return ["poly", [[docs.fnum(rng.choice(COEFS)), rng.randrange(0, maxexp + 1)] for _ in range(n)]]


def poly_cases(rng, tier):
    cases = []
    for _ in range(120 if tier == "quick" else 4000):
        if rng.random() < 0.7:
            cases.append({"kind": "cal", "cal": rnd_poly(rng), "x": ["i", rng.choice([0, 1, -1, 2, 7, 255, 65535, -300, 2 ** 20])]})
        else:
            cases.append({"kind": "cal", "cal": rnd_poly(rng, 1), "x": docs.fnum(rng.choice([0.0, -0.0, 2.5, 1e-3, 1e300, float("inf")]))})
    return cases


def rnd_cal(rng, maxexp=3):
    if rng.random() < 0.5:
        return rnd_poly(rng, maxexp)
    xs, ys = rnd_knots(rng)
    return ["spline", rng.choice([0, 1]), rng.random() < 0.5, [[docs.fnum(float(x)), docs.fnum(float(y))] for x, y in zip(xs, ys)]]


def field_cases(rng, tier):
    cases = []
    for _ in range(250 if tier == "quick" else 6000):
        size = rng.choice([3, 8, 12, 16])
        raw = rng.choice([0, 1, 2, 5, (1 << size) - 1, rng.getrandbits(size)])
        env = vals.rnd_env(rng, numeric_only=True)
        ctx = None
        kind = rng.choice(["int", "int", "enum", "bool", "float"])
        maxexp = 1 if kind == "float" else 3      # float ** n for n >= 2 is libm pow: outside the model
        if rng.random() < 0.7:
            ctx = []
            for _j in range(rng.randrange(0, 4)):
                if rng.random() < 0.5:   # criteria on the parameter's own raw value (not in the packet yet)
                    ks = [["cmp", {"ref": "SELF", "op": rng.choice(vals.OPS), "lit": str(rng.choice([0, 1, 2, 5, raw])), "cal": False}]]
                else:
                    ks = [["cmp", vals.rnd_comparison(rng, ("A", "B", "C"))] for _k in range(rng.randrange(1, 3))]
                ctx.append({"criteria": ks, "cal": rnd_cal(rng, maxexp)})
        default = rnd_cal(rng, maxexp) if rng.random() < 0.5 else None
        enc = {"t": "num", "size": size, "kind": rng.choice(["unsigned", "signed", "twosComplement", "signMagnitude", "onesComplement"]), "order": "msb", "default": default, "context": ctx}
        t = {"name": "T", "kind": kind, "enc": enc}
        if kind == "float":
            enc.update(size=32, kind="IEEE754")
            size = 32
            raw = rng.choice([0x3F800000, 0x40200000, 0x00000000, 0xC0000000, 0x7FC00000])
        if kind == "enum":
            t["labels"] = [[["i", k], lbl] for k, lbl in ((0, "OFF"), (1, "ON"), (2, "STANDBY"), (-1, "NEG"))][:rng.randrange(1, 5)]
        off = rng.randrange(0, 8)
        nbytes = (off + size + 7) // 8
        buf = (raw & ((1 << size) - 1)) << (nbytes * 8 - off - size)
        case = {"kind": "field", "env": env, "data": buf.to_bytes(nbytes, "big").hex(), "pos": off, "type": t}
        if rng.random() < 0.3:
            # the same field with its type obtained through the XML reader (Term lists with repeated exponents, spline points in
            # document order, ...): what the loader makes of the constants (coefficients and points become floats) is in the case
            import xmlgen
            case["type"] = xmlgen.to_xml_loadable({"params": {"T": {"type": t}}})["params"]["T"]["type"]
            case["via"] = "xml"
        cases.append(case)
    return cases


def gen(rng, tier):
    return spline_cases(rng, tier) + poly_cases(rng, tier) + field_cases(rng, tier)


def impl(case):
    if case["kind"] == "cal":
        def run():
            r = docs.cal_py(case["cal"]).calibrate(docs.num_py(case["x"]))
            if isinstance(r, bool) or not isinstance(r, (int, float)):
                raise TypeError(f"calibrate returned {type(r)}")
            return [0, int(r)] if isinstance(r, int) else [1, core.float_bits(r)]
        return core.res_sx(core.guarded(run))
    return docs.decode_one(case)


def coq_input(case):
    if case["kind"] == "cal":
        return f"InCal {docs.cal_coq(case['cal'])} {docs.num_coq(case['x'])}"
    return (f"InField {vals.env_coq(case['env'])} {core.cbytes(bytes.fromhex(case['data']))} {core.cz(case['pos'])} "
            f"{docs.ptype_coq(case['type'])}")


def key(case):
    import json
    return json.dumps(case, sort_keys=True)


def branch(case, out):
    o = out.kind if isinstance(out, core.Err) else "ok"
    if case["kind"] == "cal":
        c = case["cal"]
        return f"{c[0]}{c[1] if c[0] == 'spline' else ''}:{o}"
    e = case["type"]["enc"]
    return f"field:{case['type']['kind']}:ctx{0 if not e['context'] else len(e['context'])}:{'def' if e['default'] else 'nodef'}:{o}"


def size(case):
    import json
    return len(json.dumps(case))
