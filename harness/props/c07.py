"""C07 — string and binary fields, including computed lengths."""
import core
import docs
import vals

COQ_HEADER = ("From SPP Require Import Base.Bytes Base.Sx Model.Values Model.Criteria Model.Doc Corr.C06 Corr.Decode.\n"
              "From Coq Require Import ZArith List String. Import ListNotations.")
COQ_MODEL = "run_dec"
COQ_OK = "(ok_spec run_dec)"     # Props/C07.v determine buffer, text and cursor uniquely
COQ_INPUT_TYPE = "dec_input"
SHARD = 120
RULE = ("string/binary fields x lengths 0..80 bits and multi-KiB x bit offsets 0..7 x {whole, terminated, leading size} x "
        "{fixed, discrete lookup, dynamic reference raw/calibrated with/without linear adjustment} x charsets "
        "{US-ASCII, ISO-8859-1, Windows-1252, UTF-8, UTF-16LE/BE, UTF-32LE/BE}; missing terminator, tag larger than buffer, "
        "non-integral adjusted length, negative lengths; distinct = distinct (type, length spec, delimiter, charset, offset, length class, outcome)")
ASSUMPTIONS = ["codecs are CPython's; the model decodes the supported charsets itself (surrogate pairs and undefined cp1252 bytes are not generated)",
               "the terminator of a multi-byte charset is searched on character boundaries (F15: the bytewise search was a genuine defect, repaired)"]

TEXTS = {
    "US-ASCII": ["", "A", "hello", "X-term", "0123456789abcdef"],
    "ISO-8859-1": ["", "é", "naïve", "ÿþ"],
    "Windows-1252": ["", "abc", "é ü", "plain"],
    "UTF-8": ["", "a", "é", "堀X", "mixed é 堀 😀", "plain ascii"],
    # the last two texts of each multi-byte charset contain the bytes of the terminator "X" ACROSS a character boundary
    # (e.g. UTF-16BE 41 00 | 58 41 holds 00 58 at byte offset 1): a terminator must be found on character boundaries only
    "UTF-16LE": ["", "A", "Ā堀", "xy", "\u5841\u4100", "a\u5841\u4100b"], "UTF-16BE": ["", "A", "Ā堀", "xy", "\u4100\u5841", "a\u4100\u5841b"],
    "UTF-32LE": ["", "A", "堀😀", "\u5841\u4100", "a\u5841\u4100"], "UTF-32BE": ["", "A", "堀😀", "\u4100\u5841", "a\u4100\u5841"],
}
CODEC = {"US-ASCII": "ascii", "ISO-8859-1": "latin-1", "Windows-1252": "cp1252", "UTF-8": "utf-8", "UTF-16LE": "utf-16-le",
         "UTF-16BE": "utf-16-be", "UTF-32LE": "utf-32-le", "UTF-32BE": "utf-32-be"}


def place(rng, field_bits, nbits, off, tail_bytes=None):
    """put an nbits-wide field value at bit offset off of a fresh buffer"""
    tail = rng.randrange(0, 3) if tail_bytes is None else tail_bytes
    nbytes = (off + nbits + 7) // 8 + tail
    buf = int.from_bytes(rng.randbytes(nbytes), "big") if nbytes else 0
    shift = nbytes * 8 - off - nbits
    if nbits:
        mask = ((1 << nbits) - 1) << shift
        buf = (buf & ~mask) | ((field_bits & ((1 << nbits) - 1)) << shift)
    return buf.to_bytes(nbytes, "big").hex()


def size_spec(rng, nbits):
    """returns (spec, env) such that the spec evaluates to nbits"""
    r = rng.random()
    if r < 0.35 and nbits > 0:
        return ["fixed", nbits], []
    if r < 0.55:
        # lookup list: some non-matching entries, then the matching one
        ls = []
        for _ in range(rng.randrange(0, 3)):
            ls.append([[["cmp", {"ref": "SEL", "op": "==", "lit": str(rng.randrange(10, 20)), "cal": True}]], rng.choice([8, 16, 0])])
        if rng.random() < 0.5:
            # an entry whose comparison LIST holds only in part must not match (all of its comparisons are required)
            ls.append([[["cmp", {"ref": "SEL", "op": "==", "lit": "3", "cal": True}], ["cmp", {"ref": "SEL", "op": ">", "lit": "5", "cal": True}]],
                       rng.choice([8, 24, 0])])
        ls.append([[["cmp", {"ref": "SEL", "op": rng.choice(["==", "<=", "geq"]), "lit": "3", "cal": rng.random() < 0.5}]], nbits])
        ls.append([[["cmp", {"ref": "SEL", "op": "!=", "lit": "99", "cal": True}]], nbits + 8])
        return ["lookup", ls], [("SEL", {"cls": "CInt", "v": ["i", 3], "raw": ["i", 3]})]
    # dynamic reference
    cal = rng.random() < 0.5
    if rng.random() < 0.5:
        slope = rng.choice([1, 8, 2, -1, 3])
        for _ in range(20):
            icpt = rng.choice([0, -8, 16, 1, -3, nbits % abs(slope)])
            if (nbits - icpt) % slope == 0:
                x = (nbits - icpt) // slope
                break
        else:
            slope, icpt, x = 1, 0, nbits
        adj = [slope, icpt]
    else:
        adj, x = None, nbits
    if cal and rng.random() < 0.5:   # calibrated (float) reference value
        pv = {"cls": "CFloat", "v": ["f", core.float_bits(float(x))], "raw": ["i", 77]}
    elif cal:
        pv = {"cls": "CInt", "v": ["i", x], "raw": ["i", x]}
    else:
        pv = {"cls": "CFloat", "v": ["f", core.float_bits(1.5)], "raw": ["i", x]}
    return ["dyn", "LEN", cal, adj], [("LEN", pv)]


def gen(rng, tier):
    cases = []
    N = 450 if tier == "quick" else 12000
    for i in range(N):
        off = rng.randrange(0, 8)
        if rng.random() < 0.4:   # ---------------- binary
            nbits = rng.choice([0, 1, 7, 8, 9, 15, 16, 24, 31, 64, 80, rng.randrange(0, 81), 8 * rng.choice([300, 1500]) if i % 40 == 0 else 12])
            spec, env = size_spec(rng, nbits)
            t = {"name": "T", "kind": "bin", "enc": {"t": "bin", "size": spec}}
            short = rng.random() < 0.06
            data = place(rng, rng.getrandbits(nbits) if nbits else 0, nbits, off)
            if short and len(data) >= 4:
                data = data[:-4]      # field extends past the end of the packet
            cases.append({"kind": "field", "env": env, "data": data, "pos": off, "type": t})
            continue
        # ---------------- string
        charset = rng.choice(list(TEXTS))
        text = rng.choice(TEXTS[charset])
        body = text.encode(CODEC[charset])
        delim = rng.choice(["whole", "term", "leading"])
        enc = {"t": "str", "charset": charset}
        if delim == "term":
            term_char = rng.choice(["X", "\x00", "~"]) if charset in ("US-ASCII", "UTF-8", "ISO-8859-1", "Windows-1252") else "X"
            term = term_char.encode(CODEC[charset])
            body_t = text.replace(term_char, "").encode(CODEC[charset])
            mode = rng.random()
            if mode < 0.1:
                buf = body_t                      # terminator missing
            else:
                buf = body_t + term + rng.choice([b"", term, b"zz" * (len(term)), bytes(len(term) * 2)])
            enc["term"] = term.hex()
            nbits = 8 * len(buf)
            field = int.from_bytes(buf, "big") if buf else 0
        elif delim == "leading":
            tag = rng.choice([8, 16, 4, 12, 32])
            declared = 8 * len(body)
            if rng.random() < 0.08:
                declared += rng.choice([1, 4, 8, 800])    # not a multiple of 8 / larger than the buffer
            if declared >= (1 << tag):
                declared = 8 * (((1 << tag) - 1) // 8)
                body = body[:declared // 8]
            extra = rng.choice([0, 0, 8, 3])
            nbits = tag + 8 * len(body) + extra
            field = ((declared << (8 * len(body))) | (int.from_bytes(body, "big") if body else 0)) << extra
            enc["leading"] = tag
        else:
            nbits = 8 * len(body) - (0 if charset != "US-ASCII" or not body or rng.random() < 0.7 else 0)
            field = int.from_bytes(body, "big") if body else 0
            if charset in ("US-ASCII", "ISO-8859-1") and body and rng.random() < 0.3:
                # a buffer that is not a whole number of bytes: drop the last k bits (they are zero-padded back)
                k = rng.randrange(1, 8)
                if body[-1] % (1 << k) == 0:
                    nbits -= k
                    field >>= k
        spec, env = size_spec(rng, nbits)
        if spec[0] == "fixed" and nbits == 0:
            spec, env = ["dyn", "LEN", True, None], [("LEN", {"cls": "CInt", "v": ["i", 0], "raw": ["i", 0]})]
        enc["size"] = spec
        t = {"name": "T", "kind": "str", "enc": enc}
        cases.append({"kind": "field", "env": env, "data": place(rng, field, nbits, off), "pos": off, "type": t})
    # lengths that are rejected: non-integral adjustment, negative length, missing reference
    for _ in range(40 if tier == "quick" else 600):
        kindt = rng.choice(["bin", "str"])
        bad = rng.choice(["nonint", "missing", "nolookup"])   # negative lengths are C14's domain (the property quantifies lengths >= 0)
        env = [("LEN", {"cls": "CFloat", "v": ["f", core.float_bits(2.5)], "raw": ["i", 5]})]
        if bad == "nonint":
            spec = ["dyn", "LEN", True, [3, 0]]
        elif bad == "negative":
            spec = ["dyn", "LEN", False, [rng.choice([-1, -8]), rng.choice([0, 2])]]
        elif bad == "missing":
            spec = ["dyn", "NOPE", True, None]
        else:
            spec = ["lookup", [[[["cmp", {"ref": "LEN", "op": "==", "lit": "99", "cal": False}]], 8]]]
        enc = {"t": "bin", "size": spec} if kindt == "bin" else {"t": "str", "charset": "UTF-8", "size": spec}
        cases.append({"kind": "field", "env": env, "data": rng.randbytes(6).hex(), "pos": rng.randrange(0, 16),
                      "type": {"name": "T", "kind": kindt, "enc": enc}})
    return cases


def impl(case):
    return docs.decode_one(case)


def coq_input(case):
    return (f"InField {vals.env_coq(case['env'])} {core.cbytes(bytes.fromhex(case['data']))} {core.cz(case['pos'])} "
            f"{docs.ptype_coq(case['type'])}")


def key(case):
    import json
    return json.dumps(case, sort_keys=True)


def branch(case, out):
    e = case["type"]["enc"]
    o = out.kind if isinstance(out, core.Err) else "ok"
    d = "bin" if e["t"] == "bin" else ("leading" if e.get("leading") else "term" if e.get("term") else "whole")
    return f"{d}:{e['size'][0]}:{e.get('charset', '-')}:{o}"


def size(case):
    return len(case["data"]) + len(str(case["type"]))
