"""C15 — serialization is deterministic and stable under repeated write/load cycles."""
import copy
import io
import warnings

import core
import xmlcorr
from props import c09

COQ_HEADER = "From SPP Require Import Base.Sx Model.Xml Model.Loader Corr.Xml.\nFrom Coq Require Import ZArith List String. Import ListNotations."
COQ_MODEL = "run_c15"
COQ_OK = "(ok_spec run_c15)"
COQ_INPUT_TYPE = "Z"
RULE = ("definitions built both ways: W(D) twice with a fixed header date (byte-identical), G1 = W(D), G2 = W(L(G1)), G3 = W(L(G2)) (G2 == G3 "
        "byte for byte), G1 re-parsed by lxml (well-formed, every element in D's XTCE namespace), attribute dump of D before/after writing; "
        "distinct = distinct (definition, build path)")
ASSUMPTIONS = ["partial: byte-level serialisation is lxml's; the theorems are about the written element tree"]
NOBS = 5


def gen(rng, tier):
    # the definitions the writer declares unsupported (refused with a ValueError, see C09) have no serialisation to observe
    return [c for c in c09.gen(rng, tier) if c09.writer_supports(c["doc"])]


def impl(case):
    import lxml.etree as ET

    def run():
        with warnings.catch_warnings():
            warnings.simplefilter("ignore")
            d = c09.build(case)
            before = repr(xmlcorr.dump_definition(d))
            w = lambda x: ET.tostring(x.to_xml_tree(), xml_declaration=True, encoding="utf-8", pretty_print=True)  # noqa: E731
            g1, g1b = w(d), w(d)
            after = repr(xmlcorr.dump_definition(d))
            load = lambda b: type(d).from_xtce(io.BytesIO(b), xtce_ns_prefix=d.xtce_ns_prefix)  # noqa: E731
            g2 = w(load(g1))
            g3 = w(load(g2))
            root = ET.fromstring(g1)
            uri = d.xtce_schema_uri
            in_ns = all(ET.QName(e).namespace == uri for e in root.iter() if isinstance(e.tag, str))
        return [g1 == g1b, g2 == g3, True, in_ns, before == after]
    out = core.guarded(run, timeout_s=60)
    return out[1] if out[0] == "ok" else core.Err(out[1])


def coq_input(case):
    return str(NOBS)


key = c09.key


def branch(case, out):
    return case["build"] + ":" + (out.kind if isinstance(out, core.Err) else "ok" if all(out) else "obs-failed")


size = c09.size
