"""C02 — stream framing exact, independent of source kind and chunking."""
import core
import framing

COQ_HEADER = "From SPP Require Import Base.Bytes Base.Sx Corr.Framer.\nFrom Coq Require Import ZArith List. Import ListNotations."
COQ_MODEL = "run_c02"
COQ_OK = "(ok_spec spec_c02)"
COQ_INPUT_TYPE = "Z * Z * Z * list (list (Z * Z) * list (Z * Z)) * list Z"
SHARD = 60
RULE = ("packet lists of 0-6 packets, data sizes from {1,2,5,6,7,255,4096,65535,65536}, prefix k in {0,1,4,13}, "
        "kinds bytes/file(read sizes)/socket(cuts inside header, on boundaries, byte-at-a-time); every third stream also with the "
        "buffer-trim literal of the code object replaced by a small number (0,1,6,7,20,100,300) and the same number given to the model; "
        "distinct = distinct (kind, k, #packets, size classes, chunking class)")
ASSUMPTIONS = ["file read(n)/socket recv(n) return the next min(n, remaining) bytes (reader contract)",
               "the buffer-trim branch is reached two ways: >20 MB streams judged against the spec directly (extra), and small streams "
               "with the literal 20_000_000 of ccsds_generator's code object replaced by a small number (same number in the model)"]


def gen_stream(rng, small):
    k = rng.choice([0, 0, 1, 4, 13])
    if small:
        n = rng.choice([0, 1, 1, 2, 2, 3, 4, 6])
        pool = [1, 2, 5, 6, 7, 8, 255]
    else:
        n = rng.choice([1, 2, 3])
        pool = [1, 256, 4096, 65535, 65536]
    return k, [(rng.randbytes(k), framing.mk_packet(rng, rng.choice(pool))) for _ in range(n)]


TIES = ["packet length in ccsds_generator (n_bytes_data, n_bytes_packet) = Model/Framer.v plen_ccsds (gen_packet_length_is_model)"]


def tables():
    """the translated part of the model: the two expressions by which ccsds_generator computes a packet's length from its header are
    turned into Gallina from the current source (with _extract_bits, Gen/Fun_C03.v) and proved equal to Model/Framer.v's plen_ccsds
    (Gen/FunOk_C02.v) on every run"""
    import gen_fun
    from props import c03
    ok, msg = gen_fun.check("C03", c03.fun_items(), "FunOk_C03")
    if not ok:
        return ok, msg
    pk = "space_packet_parser/packets.py"
    return gen_fun.check("C02", [("expr", pk, "ccsds_generator", "n_bytes_data", "gen_n_bytes_data", ["header_bytes"], {"_extract_bits": "gen_extract_bits"}),
                                 ("expr", pk, "ccsds_generator", "n_bytes_packet", "gen_n_bytes_packet", ["n_bytes_data"], None, ("RawPacketData",))],
                         "FunOk_C02", imports="From SPP Require Import Gen.Fun_C03.\n")


def gen(rng, tier):
    cases = []
    N = 150 if tier == "quick" else 3000
    for i in range(N):
        small = i % 25 != 0
        k, pps = gen_stream(rng, small)
        stream = b"".join(a + b for a, b in pps)
        base = {"k": k, "pps": [[a.hex(), b.hex()] for a, b in pps]}
        cases.append(dict(base, kind=0, sizes=[], r=None))
        rs = rng.sample([None, 1, 2, 5, 6, 7, 8, 13, 4096], 3) if small else [None, rng.choice([4096, 65536, 100000])]
        for r in rs:
            cases.append(dict(base, kind=1, sizes=framing.file_sizes(stream, r), r=r))
        # socket fragmentations
        L = len(stream)
        frs = []
        if L:
            frs.append([1] * L if small else [4096] * (L // 4096 + 1))
            # cut inside every header of the stream / exactly on packet boundaries
            bounds, pos = [], 0
            for a, b in pps:
                bounds.append(pos + len(a) + rng.randrange(1, 6))
                pos += len(a) + len(b)
                bounds.append(pos)
            cuts = sorted(set(b for b in bounds if 0 < b < L))
            frs.append([y - x for x, y in zip([0] + cuts, cuts + [L])])
            if small:
                cuts = sorted(set(rng.randrange(1, L) for _ in range(rng.randrange(1, 6)))) if L > 1 else []
                frs.append([y - x for x, y in zip([0] + cuts, cuts + [L])])
        else:
            frs.append([])
        for sizes in frs:
            cases.append(dict(base, kind=2, sizes=sizes, r=None))
        if frs and frs[-1] and L:
            # the same fragmentation delivered by a FILE object whose read() returns fewer bytes than asked for
            cases.append(dict(base, kind=1, sizes=[len(c) for c in framing.cut(stream, rng.choice(frs))], r="script"))
        if i % 3 == 0:
            start = len(cases) - (1 + len(rs) + len(frs) + (1 if frs and frs[-1] and L else 0))
            T = rng.choice([0, 1, 6, 7, 20, 100, 300])
            for c in cases[start:]:
                cases.append(dict(c, T=T))
    for c in cases:
        c.setdefault("T", framing.TRIM_LITERAL)
    return cases


def _stream(case):
    return b"".join(bytes.fromhex(a) + bytes.fromhex(b) for a, b in case["pps"])


def impl(case):
    stream = _stream(case)
    case.setdefault("T", framing.TRIM_LITERAL)
    if framing.generator_with_trim(case["T"]) is None:      # the literal is gone from the code: run the case unmodified
        case["T"] = framing.TRIM_LITERAL
    out = core.guarded(framing.run_generator, case["kind"], case["k"], stream, case["sizes"], case["r"],
                       len(case["pps"]) + 3, case["T"], timeout_s=20)
    return core.res_sx(out)


def coq_input(case):
    pps = core.clist(f"({core.cbytes(bytes.fromhex(a))}, {core.cbytes(bytes.fromhex(b))})" for a, b in case["pps"])
    return f"({case.get('T', framing.TRIM_LITERAL)}, {case['kind']}, {case['k']}, {pps}, {core.clist(str(s) for s in case['sizes'])})"


def key(case):
    szs = tuple(sorted(set(min(len(b) // 2, 70000) for _, b in case["pps"])))
    ch = "none" if not case["sizes"] else ("one" if len(case["sizes"]) == 1 else ("bytewise" if max(case["sizes"]) == 1 else f"{min(len(case['sizes']), 6)}"))
    return (case["kind"], case["k"], len(case["pps"]), szs, ch, case.get("T", framing.TRIM_LITERAL) != framing.TRIM_LITERAL)


def branch(case, out):
    t = "" if case.get("T", framing.TRIM_LITERAL) == framing.TRIM_LITERAL else ":trim"
    return f"kind{case['kind']}:k{case['k']}{t}:{'err' if isinstance(out, core.Err) else 'ok'}"


def size(case):
    return sum(len(b) for _, b in case["pps"]) + len(case["sizes"])


def explain(case):
    return {"expected_items": [b[:40] for _, b in case["pps"]]}


def extra(rng, tier):
    """The > 20 MB buffer-trim branch, run for real on the implementation and judged against the
    specification (yielded == the packet sequence)."""
    import io
    from space_packet_parser import packets
    res = {"evaluations": 0, "violations": [], "trim_branch_streams": 0}
    for kind, k in ((1, 0), (0, 3)) if tier == "quick" else ((1, 0), (0, 3), (1, 5), (2, 0)):
        n = 335
        pkts = [framing.mk_packet(rng, 65536 if i % 23 else rng.choice([1, 2, 4096, 65535])) for i in range(n)]
        pres = [rng.randbytes(k) for _ in range(n)]
        stream = b"".join(a + b for a, b in zip(pres, pkts))
        assert len(stream) > 20_000_000
        if kind == 0:
            src, kw = stream, {}
        elif kind == 1:
            src, kw = io.BytesIO(stream), {"buffer_read_size_bytes": rng.choice([None, 1 << 16, 1000003])}
        else:
            src = framing.ScriptedSocket(framing.cut(stream, [4096] * (len(stream) // 4096 + 1)))
            kw = {"buffer_read_size_bytes": 4096}
        import itertools
        out = core.guarded(lambda: [bytes(p) for p in itertools.islice(packets.ccsds_generator(src, skip_header_bytes=k, **kw), n + 3)],
                           timeout_s=120)
        if kind == 2:
            src.close()
        res["evaluations"] += 1
        res["trim_branch_streams"] += 1
        if out != ("ok", pkts):
            got = out[1] if out[0] == "err" else f"{len(out[1])} items, first difference at index " + str(
                next((i for i, (x, y) in enumerate(zip(out[1], pkts)) if x != y), min(len(out[1]), len(pkts))))
            res["violations"].append({"input": {"trim_stream": True, "kind": kind, "k": k, "n_packets": n,
                                                "total_bytes": len(stream), "seed_note": "regenerate with the run seed"},
                                      "impl": got})
    return res
