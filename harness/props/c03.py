"""C03 — bit-cursor reads.  Domain: buffers B, 0 <= p, 0 <= n, p+n <= 8*len(B) (the property's own quantifier)."""
import itertools

import core

COQ_HEADER = "From SPP Require Import Base.Bytes Base.Sx Corr.C03.\nFrom Coq Require Import ZArith List. Import ListNotations."
COQ_MODEL = "run_c03"
COQ_OK = "(ok_spec spec_c03)"
COQ_INPUT_TYPE = "Z * list (Z * Z) * Z * Z"
RULE = ("generated: exhaustive buffers of 0-2 bytes over an 8-value alphabet x every (p, n) in range; random buffers up to "
        "64 KiB with every (p mod 8, n mod 8); the header-field positions/widths on arbitrary buffers; distinct = distinct (kind, p mod 8, n mod 8, aligned-path, len class, boundary)")
ASSUMPTIONS = ["int.from_bytes / bytes slicing / int.to_bytes are CPython's"]


PK = "space_packet_parser/packets.py"
CALLEES = {"_extract_bits": "gen_extract_bits"}
ACCESSORS = ["version_number", "type", "secondary_header_flag", "apid", "sequence_flags", "sequence_count", "data_length"]


def fun_items():
    """what the translator regenerates from packets.py: _extract_bits, the two cursor methods, the header accessors"""
    items = [(PK, "_extract_bits", "gen_extract_bits"),
             ("method", PK, "RawPacketData", "read_as_int", "gen_read_as_int", CALLEES),
             ("method", PK, "RawPacketData", "read_as_bytes", "gen_read_as_bytes", CALLEES)]
    props = {}
    for n in ACCESSORS:
        items.append(("property", PK, "RawPacketData", n, "gen_" + n, CALLEES, dict(props)))
        props[n] = "gen_" + n
    items.append(("property", PK, "RawPacketData", "header_values", "gen_header_values", CALLEES, dict(props)))
    return items


TIES = ["packets._extract_bits = Model/Cursor.v extract_bits (gen_extract_bits_is_model)",
        "RawPacketData.read_as_int = read_as_int (gen_read_as_int_is_model; generated_read_as_int_meets_C03, generated_reads_compose_C03)",
        "RawPacketData.read_as_bytes = read_as_bytes (gen_read_as_bytes_is_model; generated_read_as_bytes_meets_C03, generated_read_as_bytes_aligned_C03)",
        "RawPacketData header accessors and header_values = Model/Header.v header_values (gen_header_values_is_model, gen_header_values_total)"]


def tables():
    """the translated part of the model: packets._extract_bits, RawPacketData.read_as_int / read_as_bytes and the header accessors
    are turned into Gallina from the current source and proved equal to Model/Cursor.v's extract_bits / read_as_int /
    read_as_bytes and Model/Header.v's header_values (Gen/FunOk_C03.v) on every run"""
    import gen_fun
    return gen_fun.check("C03", fun_items(), "FunOk_C03")


def gen(rng, tier):
    cases = []
    alpha = [0x00, 0xFF, 0x80, 0x01, 0x35, 0xCA, 0x55, 0xAA]
    # exhaustive small buffers
    for ln in (0, 1, 2):
        bufs = list(itertools.product(alpha, repeat=ln))
        if tier == "quick" and ln == 2:
            bufs = rng.sample(bufs, 12)
        for buf in bufs:
            B = bytes(buf)
            for p in range(0, 8 * ln + 1):
                for n in range(0, 8 * ln - p + 1):
                    for kind in (0, 1):
                        cases.append({"kind": kind, "B": B.hex(), "p": p, "n": n})
    # random buffers, every residue pair, boundary reads
    nrand = 6 if tier == "quick" else 120
    for _ in range(nrand):
        ln = rng.choice([3, 4, 7, 8, 9, 16, 33, 64, 255, 1024, 65536 if tier == "thorough" else 4096])
        B = rng.randbytes(ln)
        pairs = [(pm, nm) for pm in range(8) for nm in range(8)]
        if ln > 4096:                      # very large buffers: a sample of the residue pairs keeps the literal volume bounded
            pairs = rng.sample(pairs, 6)
        for pm, nm in pairs:
            if True:
                base_p = 8 * rng.randrange(0, max(1, ln - 1))
                p = base_p + pm
                maxn = 8 * ln - p
                if maxn < 0:
                    continue
                choices = [nm, nm + 8, nm + 8 * rng.randrange(0, 11), maxn - ((maxn - nm) % 8), maxn]
                n = rng.choice([c for c in choices if 0 <= c <= maxn] or [0])
                for kind in (0, 1):
                    cases.append({"kind": kind, "B": B.hex(), "p": p, "n": n})
    # the positions and widths of the CCSDS primary header fields (and their neighbours), on buffers that are not valid packets
    for _ in range(4 if tier == "quick" else 60):
        ln = rng.choice([6, 7, 8, 12, 40])
        B = rng.randbytes(ln)
        for p, n in ((0, 3), (3, 1), (4, 1), (5, 11), (16, 2), (18, 14), (32, 16), (0, 16), (16, 16), (0, 48), (32, 15), (33, 16), (31, 16), (32, 8)):
            if p + n <= 8 * ln:
                for kind in (0, 1):
                    cases.append({"kind": kind, "B": B.hex(), "p": p, "n": n})
    if tier == "thorough":
        for _ in range(20000):
            ln = rng.randrange(1, 40)
            B = rng.randbytes(ln)
            p = rng.randrange(0, 8 * ln + 1)
            n = rng.randrange(0, 8 * ln - p + 1)
            cases.append({"kind": rng.randrange(2), "B": B.hex(), "p": p, "n": n})
    return cases


def impl(case):
    from space_packet_parser import packets
    B = bytes.fromhex(case["B"])

    def run():
        r = packets.RawPacketData(B)
        r.pos = case["p"]
        v = r.read_as_int(case["n"]) if case["kind"] == 0 else r.read_as_bytes(case["n"])
        if case["kind"] == 0:
            assert type(v) is int
        else:
            assert isinstance(v, bytes)
            v = bytes(v)
        return [v, r.pos, bytes(r)]
    return core.res_sx(core.guarded(run))


def coq_input(case):
    return f"({case['kind']}, {core.cbytes(bytes.fromhex(case['B']))}, {core.cz(case['p'])}, {core.cz(case['n'])})"


def key(case):
    ln = len(case["B"]) // 2
    p, n = case["p"], case["n"]
    return (case["kind"], p % 8, n % 8, min(ln, 3), p + n == 8 * ln, min(n // 8, 3))


def branch(case, out):
    p, n = case["p"], case["n"]
    return f"kind{case['kind']}:{'aligned' if p % 8 == 0 and n % 8 == 0 else 'shifted'}:{'err' if isinstance(out, core.Err) else 'ok'}"


def size(case):
    return len(case["B"]) + case["n"]


def explain(case):
    B = bytes.fromhex(case["B"])
    bits = "".join(f"{b:08b}" for b in B)
    s = bits[case["p"]:case["p"] + case["n"]]
    return {"bits": s[:200], "value": int(s, 2) if s else 0, "cursor": case["p"] + case["n"]}
