"""C04 — integer and float fields decode correctly at every size, offset and byte order."""
import struct

import core
import docs

COQ_HEADER = ("From SPP Require Import Base.Bytes Base.Sx Model.Values Model.Criteria Model.Doc Corr.C06 Corr.Decode.\n"
              "From Coq Require Import ZArith List String. Import ListNotations.")
COQ_MODEL = "run_decode"
COQ_OK = "(ok_spec spec_c04)"
COQ_INPUT_TYPE = "env * list (Z * Z) * Z * ptype"
SHARD = 150
RULE = ("integers: widths 1..72 x {unsigned, signed, twosComplement, twosCompliment, signMagnitude, onesComplement} x {MSB, LSB on whole bytes} x bit offsets 0..7 x patterns "
        "{0, 1, all ones, sign bit only, 0x55.., random}; floats: IEEE 16/32/64 and MIL-1750A x both byte orders x offsets 0..7 x "
        "class boundaries (+-0, min/max subnormal, min/max normal, +-inf, quiet/signalling NaN) and random patterns; thorough: all "
        "2^16 half patterns; distinct = distinct (type, width, encoding, order, offset, pattern class)")
ASSUMPTIONS = ["struct.unpack is CPython's C code: implementation outputs are compared as bit patterns (NaNs canonicalised)"]


def field_case(rng, size, kind, order, off, pattern, tkind):
    total_bits = off + size
    nbytes = (total_bits + 7) // 8 + rng.randrange(0, 2)
    buf = int.from_bytes(rng.randbytes(nbytes), "big") if nbytes else 0
    shift = nbytes * 8 - off - size
    mask = ((1 << size) - 1) << shift
    buf = (buf & ~mask) | ((pattern & ((1 << size) - 1)) << shift)
    enc = {"t": "num", "size": size, "kind": kind, "order": order, "default": None, "context": None}
    return {"env": [], "data": buf.to_bytes(nbytes, "big").hex(), "pos": off, "type": {"name": "T", "kind": tkind, "enc": enc},
            "pattern": pattern, "size": size, "via": "xml" if rng.random() < 0.3 else "objects"}


def int_patterns(rng, w):
    return [0, 1, (1 << w) - 1, 1 << (w - 1), int("55" * 12, 16) & ((1 << w) - 1), rng.getrandbits(w), (1 << (w - 1)) - 1]


F16 = [0x0000, 0x8000, 0x0001, 0x03FF, 0x0400, 0x7BFF, 0x7C00, 0xFC00, 0x7E00, 0x7D00, 0x3C00, 0xC000]
F32 = [0x00000000, 0x80000000, 0x00000001, 0x007FFFFF, 0x00800000, 0x7F7FFFFF, 0x7F800000, 0xFF800000, 0x7FC00000, 0x7FA00000,
       0x3F800000, 0xC0490FDB, 0x3EAAAAAB]
F64 = [0x0, 1 << 63, 1, (1 << 52) - 1, 1 << 52, 0x7FEFFFFFFFFFFFFF, 0x7FF0000000000000, 0xFFF0000000000000, 0x7FF8000000000000,
       0x7FF4000000000000, 0x3FF0000000000000, 0x400921FB54442D18]
MIL = [0x00000000, 0x40000000, 0x7FFFFF7F, 0x80000000, 0x40000080, 0x7FFFFF80, 0xFFFFFF00, 0x400000FF, 0x80000081, 0x00000100,
       0x4000007F, 0xC0000001]


TIES = ["NumericDataEncoding._twos_complement = Model/Decode.v twos_complement (gen_twos_complement_is_model; generated_twos_complement_inverse)",
        "IntegerDataEncoding._get_raw_value = raw_numeric on integer encodings (gen_int_raw_is_model; generated_int_raw_meets_C04, generated_int_raw_lsb_meets_C04)"]


def tables():
    """the translated part of the model: NumericDataEncoding._twos_complement and IntegerDataEncoding._get_raw_value are turned into
    Gallina from the current source (on top of the cursor methods of packets.py, Gen/Fun_C03.v) and proved equal to Model/Decode.v's
    twos_complement and to raw_numeric on integer encodings (Gen/FunOk_C04.v) on every run"""
    import gen_fun
    from props import c03
    ok, msg = gen_fun.check("C03", c03.fun_items(), "FunOk_C03")
    if not ok:
        return ok, msg
    enc = "space_packet_parser/xtce/encodings.py"
    return gen_fun.check("C04", [(enc, "_twos_complement", "gen_twos_complement"),
                                 ("objmethod", enc, "IntegerDataEncoding", "_get_raw_value", "gen_int_raw", {"size_in_bits": "size_in_bits"},
                                  {("byte_order", "leastSignificantByteFirst"): "is_lsb", ("encoding", "unsigned"): "is_unsigned"},
                                  {"read_as_int": "gen_read_as_int", "read_as_bytes": "gen_read_as_bytes"},
                                  {"_twos_complement": "gen_twos_complement"})],
                         "FunOk_C04", imports="From SPP Require Import Gen.Fun_C03.\n")


def gen(rng, tier):
    cases = []
    widths = list(range(1, 73))
    for w in widths:
        for kind in ("unsigned", "signed", "twosComplement", "twosCompliment", "signMagnitude", "onesComplement"):
            offs = range(8) if (tier == "thorough" or w in (1, 7, 8, 9, 16, 31, 32, 33, 64, 65)) else [rng.randrange(8)]
            for off in offs:
                pats = int_patterns(rng, w)
                if tier == "quick":
                    pats = rng.sample(pats, 3)
                for pat in pats:
                    cases.append(field_case(rng, w, kind, "msb", off, pat, "int"))
                    if w % 8 == 0:
                        cases.append(field_case(rng, w, kind, "lsb", off, pat, "int"))
    for size, kind, pool in ((16, "IEEE754", F16), (32, "IEEE754", F32), (64, "IEEE754_1985", F64), (32, "MILSTD_1750A", MIL)):
        extra = [rng.getrandbits(size) for _ in range(12 if tier == "quick" else 400)]
        for pat in pool + extra:
            for order in ("msb", "lsb"):
                for off in (range(8) if tier == "thorough" else [0, rng.randrange(1, 8)]):
                    cases.append(field_case(rng, size, kind, order, off, pat, "float"))
    if tier == "thorough":
        for pat in range(1 << 16):
            cases.append(field_case(rng, 16, "IEEE754", "msb", pat % 8, pat, "float"))
    return cases


def impl(case):
    return docs.decode_one(case)


def coq_input(case):
    return docs.decode_coq(case)


def key(case):
    e = case["type"]["enc"]
    w = case["size"]
    pat = case["pattern"]
    pc = "zero" if pat == 0 else "ones" if pat == (1 << w) - 1 else "sign" if pat == 1 << (w - 1) else "other"
    return (case["type"]["kind"], w, e["kind"], e["order"], case["pos"], pc if case["type"]["kind"] == "int" else pat, case.get("via"))


def branch(case, out):
    e = case["type"]["enc"]
    return f"{e['kind']}:{e['order']}:{case.get('via')}:{'err' if isinstance(out, core.Err) else 'ok'}"


def size(case):
    return case["size"]


def explain(case):
    e = case["type"]["enc"]
    w, pat = case["size"], case["pattern"]
    if case["type"]["kind"] == "int":
        if e["order"] == "lsb":
            pat = int.from_bytes(pat.to_bytes((w + 7) // 8, "little"), "big")
        v = pat if e["kind"] == "unsigned" or pat < (1 << (w - 1)) else pat - (1 << w)
        return {"value": v, "cursor": case["pos"] + w}
    return {"pattern": hex(pat), "cursor": case["pos"] + w}
