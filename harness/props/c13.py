"""C13 — primary-header construction and accessors are exact inverses; re-framing; rejection."""
import itertools

import core
import framing
import gen_tables

COQ_HEADER = "From SPP Require Import Base.Bytes Base.Sx Corr.C13.\nFrom Coq Require Import ZArith List. Import ListNotations."
COQ_MODEL = "run_c13"
COQ_OK = "(ok_spec spec_c13)"
COQ_INPUT_TYPE = "Z * Z * Z * Z * Z * Z * list (Z * Z) * (Z * Z)"
SHARD = 40
RULE = ("each field swept over its full range with the others random; all pairwise boundary combinations; data lengths "
        "{1,2,255,256,65535,65536} and 0/65537; out-of-range on each side; thorough: all 2^16 values of each 16-bit header word; "
        "every constructed packet re-framed from bytes and from a file read in blocks of 4096 and 1000; distinct = distinct (field values, data length class)")
ASSUMPTIONS = ["data bytes for lengths > 64 come from a 31-bit LCG evaluated identically in Coq and Python"]

FIELDS = [("v", 7), ("t", 1), ("s", 1), ("a", 2047), ("f", 3), ("c", 16383)]


def lcg(seed, n):
    x, out = seed, bytearray()
    for _ in range(n):
        x = (x * 1103515245 + 12345) % 2147483648
        out.append((x // 65536) % 256)
    return bytes(out)


def rnd_fields(rng):
    return {n: rng.randrange(hi + 1) for n, hi in FIELDS}


def mk(rng, fields, ndata=None):
    if ndata is None:
        ndata = rng.choice([1, 1, 2, 3, 7, 16, 64])
    if ndata <= 64:
        return dict(fields, lit=rng.randbytes(ndata).hex(), seed=0, n=0)
    return dict(fields, lit="", seed=rng.randrange(1 << 31), n=ndata)


def gen(rng, tier):
    cases = []
    # every field over its full range (apid, count sampled densely in quick)
    for name, hi in FIELDS:
        vals = range(hi + 1)
        if tier == "quick" and hi > 100:
            vals = sorted(set(list(range(0, 40)) + list(range(hi - 40, hi + 1)) + [rng.randrange(hi + 1) for _ in range(150)]
                              + [1 << b for b in range(hi.bit_length())] + [(1 << b) - 1 for b in range(hi.bit_length() + 1)]))
        for x in vals:
            f = rnd_fields(rng)
            f[name] = x
            cases.append(mk(rng, f))
    # pairwise boundary combinations
    bnd = {n: [0, hi] for n, hi in FIELDS}
    for combo in itertools.product(*[bnd[n] for n, _ in FIELDS]):
        cases.append(mk(rng, dict(zip([n for n, _ in FIELDS], combo)), rng.choice([1, 2, 255, 256])))
    # data lengths
    for nd in [1, 2, 255, 256, 4096, 65535, 65536]:
        cases.insert(7 * nd % 97, mk(rng, rnd_fields(rng), nd))
    # the length field's carries and sign bit, each with all-ones / all-zeros / odd / even neighbours in the other fields
    for nd in [127, 128, 129, 32767, 32768, 32769, 65535, 65536]:
        combos = ((16383, 3), (0, 0), (rng.randrange(8192) * 2 + 1, 1), (rng.randrange(8192) * 2, 2))
        for c, f in (combos if nd < 1000 or tier == "thorough" else (combos[0], combos[2])):
            fs = rnd_fields(rng)
            fs.update(c=c, f=f)
            cases.append(mk(rng, fs, nd))
    # rejections: each field just outside on both sides, empty and oversized data
    for name, hi in FIELDS:
        for x in (-1, hi + 1, -(1 << 40), hi + 2, 1 << 20):
            f = rnd_fields(rng)
            f[name] = x
            cases.append(mk(rng, f))
    cases.append(mk(rng, rnd_fields(rng), 0))
    cases.append(mk(rng, rnd_fields(rng), 65537))
    if tier == "thorough":
        for w in range(1 << 16):   # all values of header word 0 and word 1 (word 2 is the length: covered by lengths)
            f = {"v": w >> 13, "t": (w >> 12) & 1, "s": (w >> 11) & 1, "a": w & 2047, "f": rng.randrange(4), "c": rng.randrange(16384)}
            cases.append(mk(rng, f, 1))
            f = {"v": rng.randrange(8), "t": rng.randrange(2), "s": rng.randrange(2), "a": rng.randrange(2048), "f": w >> 14, "c": w & 16383}
            cases.append(mk(rng, f, 1))
        for nd in range(1, 600):
            cases.append(mk(rng, rnd_fields(rng), nd))
    return cases


def _data(case):
    return bytes.fromhex(case["lit"]) if case["n"] == 0 else lcg(case["seed"], case["n"])


def impl(case):
    from space_packet_parser import packets

    def run():
        p = packets.create_ccsds_packet(_data(case), version_number=case["v"], type=case["t"], secondary_header_flag=case["s"],
                                        apid=case["a"], sequence_flags=case["f"], sequence_count=case["c"])
        assert isinstance(p, packets.RawPacketData)
        hv = [int(x) for x in p.header_values]
        items = framing.run_generator(0, 0, bytes(p), [], None, cap=4)
        # the constructed packet is re-framed from a bytes object and from a file object read in blocks (several reads for a large
        # packet) and in one short block
        again = all(framing.run_generator(1, 0, bytes(p), [], r, cap=4) == [bytes(p)] for r in (4096, 1000))
        return [bytes(p), hv, [len(items), items == [bytes(p)] and again]]
    return core.res_sx(core.guarded(run, timeout_s=10))


def coq_input(case):
    return (f"({core.cz(case['v'])}, {core.cz(case['t'])}, {core.cz(case['s'])}, {core.cz(case['a'])}, {core.cz(case['f'])}, "
            f"{core.cz(case['c'])}, {core.cbytes(bytes.fromhex(case['lit']))}, ({case['seed']}, {case['n']}))")


def key(case):
    nd = case["n"] or len(case["lit"]) // 2
    return (case["v"], case["t"], case["s"], case["a"], case["f"], case["c"], min(nd, 300) if nd < 60000 else nd)


def branch(case, out):
    return "rejected" if isinstance(out, core.Err) else "constructed"


def size(case):
    return (case["n"] or len(case["lit"])) + sum(abs(case[n]) for n, _ in FIELDS)


TIES = ["header word of create_ccsds_packet = Model/Header.v header_word (gen_header_word_is_model)",
        "create_ccsds_packet, whole = create_packet (gen_create_packet_is_model; generated_create_packet_meets_C13, generated_create_packet_rejects)"]


def tables():
    ok, msg = gen_tables.check("TablesOk_C13")
    if not ok:
        return ok, msg
    # the translated part of the model: the header word expression of create_ccsds_packet, regenerated and proved equal to
    # Model/Header.v's header_word (Gen/FunOk_C13.v)
    import gen_fun
    # ... and the whole function (the seven range checks, the six header bytes, the data appended) = Model/Header.v's create_packet
    return gen_fun.check("C13", [("expr", "space_packet_parser/packets.py", "create_ccsds_packet", "header", "gen_header_word",
                                  ["version_number", "type", "secondary_header_flag", "apid", "sequence_flags", "sequence_count", "data"]),
                                 ("full", "space_packet_parser/packets.py", "create_ccsds_packet", "gen_create_packet", ["RawPacketData"], {"RawPacketData"})],
                         "FunOk_C13")
