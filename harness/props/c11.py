"""C11 — packets are parsed independently; generators and definitions do not interfere."""
import copy
import io
import itertools
import warnings

import core
import defgen
import docs
import genrun

COQ_HEADER = genrun.COQ_HEADER
COQ_MODEL = "run_generator"
COQ_OK = "c11_ok"
COQ_INPUT_TYPE = genrun.COQ_INPUT_TYPE
SHARD = 25
RULE = ("streams mixing recognizable / unrecognizable / wrong-length packets of several APIDs under all 2^3 option combinations "
        "(skip bad, report unrecognized, headers only), judged against per-packet parsing (model: generator = flat map of parse_one); "
        "extra: 2-4 generators over one definition advanced under random and adversarial schedules, each compared with its solo "
        "output; definition snapshot (XML bytes + deep attribute dump) before/after; distinct = distinct (definition, stream, options)")
ASSUMPTIONS = ["partial: hidden shared mutable state cannot be exhibited by the functional model; it is detected only by the "
               "interleaving/snapshot runs on the implementation (extra) and by the correspondence"]
coq_input = genrun.coq_input
impl = genrun.impl


def gen(rng, tier):
    cases = []
    ndefs = 28 if tier == "quick" else 400
    for _ in range(ndefs):
        doc = defgen.rnd_definition(rng)
        dobj = defgen.try_build(doc)
        pkts = []
        for _j in range(8):
            pkts += defgen.fit_packet(dobj, defgen.rnd_packet(rng, rng.randrange(1, 30)))[:rng.choice([1, 2])]
        rng.shuffle(pkts)
        pkts = pkts[:8]
        for bad, unrec, hdr in itertools.product([True, False], repeat=3):
            if tier == "quick" and rng.random() < 0.4:
                continue
            opts = dict(genrun.DEFAULT_OPTS, parse_bad_pkts=bad, yield_unrecognized=unrec, headers_only=hdr)
            cases.append({"doc": doc, "opts": opts, "packets": [p.hex() for p in pkts]})
    # one calibrated field decoded packet after packet through the SAME definition objects, its raw value moving between the
    # knots of a step spline and their neighbours (inside an interval, then exactly on the next knot, and back): anything an
    # encoding / calibrator object remembers from the previous packet would show
    import docs
    for _ in range(6 if tier == "quick" else 150):
        knots = sorted(rng.sample(range(2, 250), rng.choice([3, 4])))
        pts = [[docs.fnum(float(x)), docs.fnum(float(10 * i) + 0.5)] for i, x in enumerate(knots)]
        order = rng.choice([0, 0, 1])
        spline = ["spline", order, rng.random() < 0.7, pts]
        ctx = None
        if rng.random() < 0.5:
            ctx = [{"criteria": [["cmp", {"ref": "SEQ_FLGS", "op": "==", "lit": str(rng.randrange(4)), "cal": False}]],
                    "cal": ["spline", 0, True, [[docs.fnum(float(x)), docs.fnum(float(-i) - 0.25)] for i, x in enumerate(knots)]]}]
        params = {}
        for n, w in defgen.HDR:
            params[n] = {"name": n, "type": defgen.int_type(n, w)}
        params["K"] = {"name": "K", "type": defgen.int_type("K", 8, default=spline, context=ctx)}
        doc = {"params": params, "root": "CCSDSPacket",
               "containers": [{"name": "CCSDSPacket", "entries": [["p", n] for n, _ in defgen.HDR] + [["p", "K"]], "abstract": False, "base": None,
                               "criteria": [], "inheritors": []}]}
        raws = []
        for _j in range(rng.randrange(5, 10)):
            i = rng.randrange(len(knots))
            raws.append(min(255, max(0, knots[i] + rng.choice([-1, 0, 0, 1]))))
        # make sure "inside an interval, then exactly the next knot" occurs
        i = rng.randrange(len(knots) - 1)
        raws += [knots[i] + 1 if knots[i] + 1 < knots[i + 1] else knots[i], knots[i + 1], knots[i]]
        pkts = []
        for j, v in enumerate(raws):
            hdr = (rng.randrange(4) << 30) | ((j & 0x3FFF) << 16) | 0
            pkts.append(hdr.to_bytes(6, "big") + bytes([v]))
        cases.append({"doc": doc, "opts": dict(genrun.DEFAULT_OPTS), "packets": [p.hex() for p in pkts]})
    return cases


def key(case):
    import json
    return json.dumps([case["doc"]["containers"], case["packets"], case["opts"]], sort_keys=True)


def branch(case, out):
    o = case["opts"]
    tag = f"bad={int(o['parse_bad_pkts'])},unrec={int(o['yield_unrecognized'])},hdr={int(o['headers_only'])}"
    if isinstance(out, core.Err):
        return tag + ":" + out.kind
    return tag + f":items{min(len(out[0]), 5)}" + ("|fatal" if out[1] else "")


def size(case):
    return sum(len(p) for p in case["packets"]) + 50 * len(case["doc"]["containers"])


def snapshot(d):
    """deep attribute dump of a definition (names, entry lists, criteria reprs, encodings' attributes)"""
    import lxml.etree as ET
    d2 = copy.copy(d)
    d2.date = "2000-01-01"
    try:
        xml = ET.tostring(d2.to_xml_tree())
    except Exception as e:  # noqa: BLE001  (writer limitations are C09's subject; the attribute dump below still applies)
        xml = f"unwritable:{type(e).__name__}"
    dump = []
    for name, c in d.containers.items():
        dump.append((name, [getattr(e, "name", None) for e in c.entry_list], list(c.inheritors), repr(c.restriction_criteria), c.abstract,
                     c.base_container_name))
    for name, p in d.parameters.items():
        enc = p.parameter_type.encoding
        dump.append((name, p.parameter_type.name, type(enc).__name__,
                     sorted((k, repr(v)) for k, v in vars(enc).items() if not callable(v))))
    return xml, repr(dump), getattr(d, "root_container_name", None)


def extra(rng, tier):
    """interleaved generators sharing one definition + definition unchanged by parsing"""
    res = {"evaluations": 0, "violations": [], "interleavings": 0, "snapshots": 0}
    n = 6 if tier == "quick" else 150
    for _ in range(n):
        doc = defgen.rnd_definition(rng)
        try:
            d = docs.definition_py(doc)
        except Exception:  # noqa: BLE001
            continue
        streams = []
        for _g in range(rng.randrange(2, 5)):
            pkts = []
            for _j in range(5):
                pkts += defgen.fit_packet(d, defgen.rnd_packet(rng, rng.randrange(1, 30)))[:1]
            if pkts and rng.random() < 0.4:
                # a packet cut short inside its fields (length field adjusted, so it is framed): its decoding may raise and end THIS
                # generator; the others, and generators made afterwards, must not notice
                j = rng.randrange(len(pkts))
                body = pkts[j][6:]
                if len(body) > 1:
                    body = body[:rng.randrange(1, len(body))]
                    pkts[j] = pkts[j][:4] + (len(body) - 1).to_bytes(2, "big") + body
            streams.append(b"".join(pkts))
        opts = dict(parse_bad_pkts=rng.random() < 0.5, yield_unrecognized_packet_errors=rng.random() < 0.7)
        before = snapshot(d)
        # every generator may be given its own root container (None = the definition's default)
        names = [c["name"] for c in doc["containers"]]
        roots = [rng.choice(names) if rng.random() < 0.4 else None for _ in streams]

        def solo(s, root):
            # the reference run uses a definition object of its own: nothing can leak into it
            dref = docs.definition_py(doc)
            out = []
            with warnings.catch_warnings():
                warnings.simplefilter("ignore")
                try:
                    for x in itertools.islice(dref.packet_generator(io.BytesIO(s), root_container_name=root, **opts), 50):
                        out.append(genrun.item_out(x, set()))
                except Exception as e:  # noqa: BLE001  (a fatal decoding error ends this generator, here and in the shared run alike)
                    out.append(["raised", type(e).__name__])
            return out
        solos = [solo(s, r) for s, r in zip(streams, roots)]
        gens = [d.packet_generator(io.BytesIO(s), root_container_name=r, **opts) for s, r in zip(streams, roots)]
        got = [[] for _ in streams]
        alive = list(range(len(streams)))
        sched = []
        with warnings.catch_warnings():
            warnings.simplefilter("ignore")
            while alive:
                i = rng.choice(alive) if rng.random() < 0.8 else alive[0]
                sched.append(i)
                try:
                    got[i].append(genrun.item_out(next(gens[i]), set()))
                except StopIteration:
                    alive.remove(i)
                except Exception as e:  # noqa: BLE001  (the solo run did not raise: this is a difference)
                    got[i].append(["raised", type(e).__name__])
                    alive.remove(i)
        # ... and a generator made from the same definition after all that behaves like one on a fresh definition
        if streams:
            late = []
            with warnings.catch_warnings():
                warnings.simplefilter("ignore")
                try:
                    for x in itertools.islice(d.packet_generator(io.BytesIO(streams[0]), root_container_name=roots[0], **opts), 50):
                        late.append(genrun.item_out(x, set()))
                except Exception as e:  # noqa: BLE001
                    late.append(["raised", type(e).__name__])
            got.append(late)
            solos.append(solo(streams[0], roots[0]))
        res["evaluations"] += 1
        res["interleavings"] += 1
        after = snapshot(d)
        res["snapshots"] += 1
        for it in solos:
            for x in it:
                if x[0] == 0:
                    x[3] = False     # the warning flag is not observed in this run
        if got != solos:
            res["violations"].append({"input": {"interleaving": True, "doc": doc, "streams": [s.hex() for s in streams], "schedule": sched, "roots": roots},
                                      "impl": "interleaved outputs differ from solo outputs"})
        if before != after:
            res["violations"].append({"input": {"definition_modified": True, "doc": doc, "streams": [s.hex() for s in streams]},
                                      "impl": "definition snapshot changed by parsing"})
    return res
