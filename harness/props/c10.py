"""C10 — framing terminates on every finite source and yields only complete packets.
Domain: arbitrary byte strings; valid streams cut at every byte offset; three source kinds."""
import core
import framing

COQ_HEADER = "From SPP Require Import Base.Bytes Base.Sx Corr.Framer.\nFrom Coq Require Import ZArith List. Import ListNotations."
COQ_MODEL = "run_frame"
COQ_OK = "(ok_spec run_frame)"   # the property determines the output uniquely (greedy complete packets), see DESIGN C10
COQ_INPUT_TYPE = "Z * Z * Z * list (Z * Z) * list Z"
RULE = ("valid streams of 1-4 small packets cut at EVERY byte offset x {bytes, file r in {None,1,5,7}, socket bytewise/random}; "
        "packets with 256/512/513 (thorough: up to 65536) data bytes cut near their end; empty input; random byte strings; distinct = distinct (kind, k, cut position class, chunking class, #items)")
ASSUMPTIONS = ["a socket that neither sends nor closes blocks by design (outside the property)",
               "file read(n)/socket recv(n) return the next min(n, remaining) bytes, b'' when exhausted"]


TIES = ["packet length in ccsds_generator (n_bytes_data, n_bytes_packet) = Model/Framer.v plen_ccsds (gen_packet_length_is_model)"]


def tables():
    """the translated part of the model: the two expressions by which ccsds_generator computes a packet's length from its header are
    turned into Gallina from the current source (with _extract_bits, Gen/Fun_C03.v) and proved equal to Model/Framer.v's plen_ccsds
    (Gen/FunOk_C02.v) on every run"""
    import gen_fun
    from props import c03
    ok, msg = gen_fun.check("C03", c03.fun_items(), "FunOk_C03")
    if not ok:
        return ok, msg
    pk = "space_packet_parser/packets.py"
    return gen_fun.check("C02", [("expr", pk, "ccsds_generator", "n_bytes_data", "gen_n_bytes_data", ["header_bytes"], {"_extract_bits": "gen_extract_bits"}),
                                 ("expr", pk, "ccsds_generator", "n_bytes_packet", "gen_n_bytes_packet", ["n_bytes_data"], None, ("RawPacketData",))],
                         "FunOk_C02", imports="From SPP Require Import Gen.Fun_C03.\n")


def gen(rng, tier):
    cases = []
    nstreams = 5 if tier == "quick" else 60
    for _ in range(nstreams):
        k = rng.choice([0, 0, 1, 4])
        n = rng.choice([1, 2, 3, 4])
        pps = [(rng.randbytes(k), framing.mk_packet(rng, rng.choice([1, 2, 3, 6, 9, 20]))) for _ in range(n)]
        stream = b"".join(a + b for a, b in pps)
        for cutpos in range(0, len(stream) + 1):
            s = stream[:cutpos]
            cases.append({"kind": 0, "k": k, "stream": s.hex(), "sizes": [], "r": None})
            r = rng.choice([None, 1, 5, 7])
            cases.append({"kind": 1, "k": k, "stream": s.hex(), "sizes": framing.file_sizes(s, r), "r": r})
            if rng.random() < 0.5 or not s:
                sizes = [1] * len(s)
            else:
                cuts = sorted(set(rng.randrange(1, len(s)) for _ in range(rng.randrange(0, 4)))) if len(s) > 1 else []
                sizes = [y - x for x, y in zip([0] + cuts, cuts + [len(s)])]
            cases.append({"kind": 2, "k": k, "stream": s.hex(), "sizes": sizes, "r": None})
            if len(s) > 1:      # a file object whose reads come back short, at cuts of their own (inside headers, inside bodies)
                cuts = sorted(set(rng.randrange(1, len(s)) for _ in range(rng.randrange(1, 5))))
                fsizes = [y - x for x, y in zip([0] + cuts, cuts + [len(s)])]
                cases.append({"kind": 1, "k": k, "stream": s.hex(), "sizes": fsizes, "r": "script"})
    # packets whose length count sits at a byte boundary of the 16-bit field (0x00FF/0x0100, 0x01FF/0x0200, 0x03FF ...), between two
    # small packets, complete and cut near the end and inside the large packet
    for nd in ([256, 512, 513] if tier == "quick" else [255, 256, 257, 511, 512, 513, 1024, 1536, 4096, 32768, 32769, 65536]):
        stream = framing.mk_packet(rng, 3) + framing.mk_packet(rng, nd) + framing.mk_packet(rng, 2)
        for cutpos in sorted({len(stream), len(stream) - 1, len(stream) - 8, 9 + 6 + nd, 9 + 6 + nd - 1, 9 + 6 + nd - 256, 9 + 6 + nd // 2}):
            if cutpos < 0:
                continue
            st = stream[:cutpos]
            cases.append({"kind": 0, "k": 0, "stream": st.hex(), "sizes": [], "r": None})
            cases.append({"kind": 1, "k": 0, "stream": st.hex(), "sizes": framing.file_sizes(st, 4096), "r": 4096})
            cases.append({"kind": 2, "k": 0, "stream": st.hex(), "sizes": [len(c) for c in framing.cut(st, [300] * (len(st) // 300 + 1))], "r": None})
    # arbitrary byte strings (length fields are arbitrary, so keep them short enough to matter)
    nrand = 150 if tier == "quick" else 6000
    for _ in range(nrand):
        ln = rng.choice([0, 1, 5, 6, 7, 8, 13, 20, 40, 80, 300])
        s = bytearray(rng.randbytes(ln))
        # bias the length fields towards small values so that several packets fit
        for off in range(4, ln - 1, rng.choice([7, 9, 11])):
            if rng.random() < 0.8:
                s[off] = 0
                s[off + 1] = rng.randrange(0, 12)
        s = bytes(s)
        kind = rng.randrange(3)
        k = rng.choice([0, 0, 1, 3])
        r = rng.choice([None, 1, 4, 4096]) if kind == 1 else None
        sizes = framing.file_sizes(s, r) if kind == 1 else ([] if kind == 0 else [rng.randrange(1, 9) for _ in range(ln)])
        if kind == 2:
            sizes = [len(c) for c in framing.cut(s, sizes)]
        cases.append({"kind": kind, "k": k, "stream": s.hex(), "sizes": sizes, "r": r})
    # every fourth case also with the buffer-trim literal of the code object replaced by a small number
    for c in list(cases[::4]):
        cases.append(dict(c, T=rng.choice([0, 1, 6, 7, 20, 100])))
    for c in cases:
        c.setdefault("T", framing.TRIM_LITERAL)
    return cases


def impl(case):
    s = bytes.fromhex(case["stream"])
    case.setdefault("T", framing.TRIM_LITERAL)
    if framing.generator_with_trim(case["T"]) is None:
        case["T"] = framing.TRIM_LITERAL
    return core.res_sx(core.guarded(framing.run_generator, case["kind"], case["k"], s, case["sizes"], case["r"], None, case["T"], timeout_s=5))


def coq_input(case):
    return f"({case.get('T', framing.TRIM_LITERAL)}, {case['kind']}, {case['k']}, {core.cbytes(bytes.fromhex(case['stream']))}, {core.clist(str(s) for s in case['sizes'])})"


def key(case):
    ln = len(case["stream"]) // 2
    ch = "none" if not case["sizes"] else ("one" if len(case["sizes"]) == 1 else ("bytewise" if max(case["sizes"]) == 1 else "multi"))
    return (case["kind"], case["k"], min(ln, 40), ch, case.get("T", framing.TRIM_LITERAL) != framing.TRIM_LITERAL)


def branch(case, out):
    if isinstance(out, core.Err):
        return f"kind{case['kind']}:{out.kind}"
    return f"kind{case['kind']}:items{min(len(out[1]), 4)}"


def size(case):
    return len(case["stream"]) + len(case["sizes"])


def explain(case):
    s = bytes.fromhex(case["stream"])
    k, pos, items = case["k"], 0, []
    while len(s) - pos >= k + 6:
        n = 7 + int.from_bytes(s[pos + k + 4:pos + k + 6], "big")
        if len(s) - pos - k < n:
            break
        items.append(s[pos + k:pos + k + n].hex())
        pos += k + n
    return {"expected_items": items, "unconsumed": len(s) - pos}
