"""C01 — end-to-end: load the XTCE document (XML), iterate its packet generator over a byte stream."""
import core
import defgen
import docs
import genrun
import xmlgen

COQ_HEADER = genrun.COQ_HEADER
COQ_MODEL = "run_pipeline"
COQ_OK = "(ok_spec run_pipeline)"   # C01_stream_refines: the pipeline equals the in-order per-packet reference
COQ_INPUT_TYPE = genrun.COQ_INPUT_TYPE
SHARD = 20
RULE = ("generated documents (every parameter type x encoding x calibrator x criteria form x inheritance/nesting x dynamic lengths, "
        "combined: unaligned fields after dynamic-length fields inside inherited containers, calibrated references used as lengths) "
        "rendered to XML in a random namespace spelling, loaded with from_xtce, fed streams of 1-12 packets sized exactly / short / long; "
        "every item compared on names, order, value, raw value and Python class; distinct = distinct (document, stream, options)")
ASSUMPTIONS = ["supported subset: DESIGN.md section 4 C01; Array/Aggregate types, MathOperationCalibrator, CustomAlgorithm, NextContainer, "
               "spline order >= 2, DEC/IBM/TI floats are outside it", "the XML loader is tied to the document model under C09/C16/C17"]
coq_input = genrun.coq_input


def gen(rng, tier):
    cases = []
    ndefs = 200 if tier == "quick" else 1500
    for i in range(ndefs):
        doc = xmlgen.to_xml_loadable(defgen.rnd_definition(rng, apid_name="PKT_APID" if i % 5 else "APID"))
        ns = rng.choice([("prefix", "xtce"), defgen.rnd_prefix(rng), ("default",), ("none",)])
        try:
            dobj = xmlgen.load(xmlgen.document_xml(doc, ns), ns)
        except Exception:  # noqa: BLE001
            dobj = None       # the case is kept: a generated document that does not load is itself a disagreement with the model
        pkts = []
        for _j in range(rng.randrange(1, 7)):
            pk = defgen.rnd_packet(rng, rng.randrange(1, 30))
            pkts += (defgen.fit_packet(dobj, pk) if dobj is not None else [pk])[:rng.choice([1, 1, 2, 3])]
        rng.shuffle(pkts)
        opts = dict(genrun.DEFAULT_OPTS, parse_bad_pkts=rng.random() < 0.7, yield_unrecognized=rng.random() < 0.5)
        cases.append({"doc": doc, "ns": list(ns), "opts": opts, "packets": [p.hex() for p in pkts[:12]]})
    return cases


def impl(case):
    def run():
        ns = tuple(case["ns"])
        d = xmlgen.load(xmlgen.document_xml(case["doc"], ns), ns)
        stream = b"".join(bytes.fromhex(p) for p in case["packets"])
        return genrun.run_generator(d, stream, case["opts"], len(case["packets"]))
    out = core.guarded(run, timeout_s=30)
    return out[1] if out[0] == "ok" else core.Err(out[1])


def key(case):
    import json
    return json.dumps([case["doc"]["containers"], case["packets"], case["opts"], case["ns"]], sort_keys=True)


def branch(case, out):
    if isinstance(out, core.Err):
        return out.kind
    kinds = sorted(set({0: "parsed", 1: "unrecognized", 2: "raw"}[it[0]] + ("-warned" if it[0] == 0 and it[3] else "") for it in out[0]))
    types = sorted(set(p["type"]["kind"] for p in case["doc"]["params"].values()))
    return ",".join(kinds or ["none"]) + ("|fatal" if out[1] else "") + "|" + "+".join(types)


def size(case):
    return sum(len(p) for p in case["packets"]) + 50 * len(case["doc"]["containers"])
