"""C01 — end-to-end: load the XTCE document (XML), iterate its packet generator over a byte stream."""
import core
import defgen
import docs
import genrun
import xmlgen

COQ_HEADER = ("From SPP Require Import Model.Xml.\n" + genrun.COQ_HEADER + "\nFrom SPP Require Model.Loader Model.Compile Corr.E2E.\n"
              "Definition e2e_of (i : (list (string * lit) * (option string * Model.Xml.parsed) * string * options * list (list (Z * Z))) * definition) := "
              "Corr.E2E.run_e2e (fst i).\n"
              "Definition pipeline_of (i : (list (string * lit) * (option string * Model.Xml.parsed) * string * options * list (list (Z * Z))) * definition) := "
              "let '((_, _, root, o, pkts), d) := i in run_pipeline (d, root, o, pkts).")
# model = the whole chain on the XML document itself (load -> link -> compile -> frame -> decode);
# ok    = the definition-level pipeline (C01_stream_refines: equal to the in-order per-packet reference) on the definition the
#         harness derives from the same abstract document: both must equal the implementation's output
COQ_MODEL = "e2e_of"
COQ_OK = "(ok_spec pipeline_of)"
COQ_INPUT_TYPE = "(list (string * lit) * (option string * Model.Xml.parsed) * string * options * list (list (Z * Z))) * definition"
SHARD = 20
RULE = ("generated documents (every parameter type x encoding x calibrator x criteria form x inheritance/nesting x dynamic lengths, "
        "combined: unaligned fields after dynamic-length fields inside inherited containers, calibrated references used as lengths) "
        "rendered to XML in a random namespace spelling, loaded with from_xtce, fed streams of 1-12 packets sized exactly / short / long; "
        "every item compared on names, order, value, raw value and Python class; distinct = distinct (document, stream, options)")
ASSUMPTIONS = ["supported subset: DESIGN.md section 4 C01; Array/Aggregate types, MathOperationCalibrator, CustomAlgorithm, NextContainer, "
               "spline order >= 2, DEC/IBM/TI floats are outside it", "the XML loader is tied to the document model under C09/C16/C17"]


def literals(xml_text):
    """every comparison literal of the document with its int()/float()/str readings (CPython number parsing is modelled)"""
    import lxml.etree as ET
    import vals
    root = ET.fromstring(xml_text.encode())
    found = []
    for el in root.iter():
        if not isinstance(el.tag, str):
            continue
        local = ET.QName(el).localname
        s = el.get("value") if local == "Comparison" else (el.text if local == "Value" else None)
        if s is not None and s not in found:
            found.append(s)
    return core.clist(f"({core.cstr(s)}, {vals.lit_coq(s)})" for s in found)


def coq_input(case):
    import xmlcorr
    ns = tuple(case["ns"])
    x = xmlgen.document_xml(case["doc"], ns, omit_seed=case.get("omit"))
    prefix = ns[1] if ns[0] == "prefix" else None
    return (f"(({literals(x)}, ({xmlcorr.copt(prefix)}, {xmlcorr.parsed_coq(x)}), {core.cstr(case['doc']['root'])}, "
            f"{genrun.opts_coq(case['opts'])}, {core.clist(core.cbytes(bytes.fromhex(pk)) for pk in case['packets'])}), "
            f"{docs.definition_coq(case['doc'])})")


def gen(rng, tier):
    cases = []
    ndefs = 320 if tier == "quick" else 1500
    for i in range(ndefs):
        doc = xmlgen.to_xml_loadable(defgen.rnd_definition(rng, apid_name="PKT_APID" if i % 5 else "APID"))
        for prm in doc["params"].values():        # spline points need not be listed in ascending order
            e = prm["type"]["enc"]
            cals = ([e.get("default")] if e.get("t") == "num" else []) + ([cx["cal"] for cx in (e.get("context") or [])] if e.get("t") == "num" else [])
            for cal in cals:
                if cal and cal[0] == "spline" and rng.random() < 0.8:
                    rng.shuffle(cal[3])
        ns = rng.choice([("prefix", "xtce"), defgen.rnd_prefix(rng), ("default",), ("none",)])
        try:
            omit = rng.choice([None, rng.randrange(1 << 30)])
            dobj = xmlgen.load(xmlgen.document_xml(doc, ns, omit_seed=omit), ns)
        except Exception:  # noqa: BLE001
            dobj = None       # the case is kept: a generated document that does not load is itself a disagreement with the model
        pkts = []
        for _j in range(rng.randrange(1, 7)):
            pk = defgen.rnd_packet(rng, rng.randrange(1, 30))
            pkts += (defgen.fit_packet(dobj, pk) if dobj is not None else [pk])[:rng.choice([1, 1, 2, 3])]
        rng.shuffle(pkts)
        opts = dict(genrun.DEFAULT_OPTS, parse_bad_pkts=rng.random() < 0.7, yield_unrecognized=rng.random() < 0.5)
        cases.append({"doc": doc, "ns": list(ns), "opts": opts, "packets": [p.hex() for p in pkts[:12]], "omit": omit})
    return cases


def impl(case):
    def run():
        ns = tuple(case["ns"])
        d = xmlgen.load(xmlgen.document_xml(case["doc"], ns, omit_seed=case.get("omit")), ns)
        stream = b"".join(bytes.fromhex(p) for p in case["packets"])
        return genrun.run_generator(d, stream, case["opts"], len(case["packets"]))
    out = core.guarded(run, timeout_s=30)
    return out[1] if out[0] == "ok" else core.Err(out[1])


def key(case):
    import json
    return json.dumps([case["doc"]["containers"], case["packets"], case["opts"], case["ns"]], sort_keys=True)


def branch(case, out):
    if isinstance(out, core.Err):
        return out.kind
    kinds = sorted(set({0: "parsed", 1: "unrecognized", 2: "raw"}.get(it[0], "bad-views") + ("-warned" if it[0] == 0 and it[3] else "") for it in out[0]))
    types = sorted(set(p["type"]["kind"] for p in case["doc"]["params"].values()))
    return ",".join(kinds or ["none"]) + ("|fatal" if out[1] else "") + "|" + "+".join(types)


def size(case):
    return sum(len(p) for p in case["packets"]) + 50 * len(case["doc"]["containers"])
