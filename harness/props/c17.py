"""C17 — a loaded definition is a consistent object graph; broken documents fail at load."""
import copy

import core
import defgen
import xmlcorr
import xmlgen

COQ_HEADER = "From SPP Require Import Base.Sx Model.Xml Model.Loader Corr.Xml.\nFrom Coq Require Import ZArith List String. Import ListNotations."
COQ_MODEL = "run_c17"
COQ_OK = "c17_ok"
COQ_INPUT_TYPE = "bool * option string * parsed"
SHARD = 10
RULE = ("generated documents and single-point corruptions of them: a structural reference renamed (entry, type, base, nested), a definition "
        "duplicated with/without a change (type, parameter, container), a definition deleted, a base or nesting cycle introduced; the "
        "loaded graph is dumped with object-identity checks (id() of every entry/type against the lookup tables) and inheritor lists; "
        "distinct = distinct (document, corruption)")
ASSUMPTIONS = ["Gallina has no object identity: names stand for objects; identity is checked by the dumper on the implementation only",
               "references made from criteria and length specifications are resolved at decode time and are not part of this claim"]

NS = ("prefix", "xtce")


def q(local):
    return "{%s}%s" % (xmlcorr.XTCE_URI, local)


def corrupt(rng, xml_text):
    """returns (kind, must_reject, xml_text') or None when the corruption is not applicable"""
    import lxml.etree as ET
    root = ET.fromstring(xml_text.encode())
    meta = root.find(q("TelemetryMetaData"))
    tset, pset, cset = meta.find(q("ParameterTypeSet")), meta.find(q("ParameterSet")), meta.find(q("ContainerSet"))
    conts = list(cset)
    kind = rng.choice(["dup_type", "dup_type_changed", "dup_type_other_kind", "dup_param", "dup_container_same", "dup_container_changed", "dangling_entry",
                       "dangling_container_entry", "dangling_type", "dangling_base", "base_cycle", "nesting_cycle", "delete_param",
                       "delete_type", "delete_base", "self_base"])
    must = True
    if kind in ("dup_type", "dup_type_changed"):
        t = copy.deepcopy(rng.choice(list(tset)))
        if kind == "dup_type_changed":
            t.set("extra", "1")
        tset.append(t)
    elif kind == "dup_type_other_kind":
        # the same name defined a second time by another kind of type element (integer <-> float)
        cands = [t for t in tset if ET.QName(t).localname in ("IntegerParameterType", "FloatParameterType")]
        if not cands:
            return None
        t = copy.deepcopy(rng.choice(cands))
        t.tag = q("FloatParameterType" if ET.QName(t).localname == "IntegerParameterType" else "IntegerParameterType")
        tset.append(t)
    elif kind == "dup_param":
        pset.insert(rng.randrange(len(pset) + 1), copy.deepcopy(rng.choice(list(pset))))
    elif kind == "dup_container_same":
        c = rng.choice(conts)
        cset.append(copy.deepcopy(c))
        # the library tolerates an identical duplicate unless the container is looked up by name (base / nested): then 2 matches
        # the library tolerates an identical duplicate; a reference to the name is only a problem (two matches) when it is
        # resolved through the document, i.e. before the container is in the lookup — that depends on the order, so no
        # outcome is demanded here beyond model = implementation
        must = False
    elif kind == "dup_container_changed":
        c = copy.deepcopy(rng.choice(conts))
        c.set("abstract", "false" if c.get("abstract") == "true" else "true")
        cset.append(c)
    elif kind == "dangling_entry":
        es = list(cset.iter(q("ParameterRefEntry")))
        if not es:
            return None
        rng.choice(es).set("parameterRef", "NO_SUCH_PARAMETER")
    elif kind == "dangling_container_entry":
        c = rng.choice(conts)
        el = c.find(q("EntryList"))
        e = ET.SubElement(el, q("ContainerRefEntry"))
        e.set("containerRef", "NO_SUCH_CONTAINER")
    elif kind == "dangling_type":
        rng.choice(list(pset)).set("parameterTypeRef", "NO_SUCH_TYPE")
    elif kind == "dangling_base":
        bs = list(cset.iter(q("BaseContainer")))
        if not bs:
            return None
        rng.choice(bs).set("containerRef", "NO_SUCH_BASE")
    elif kind in ("base_cycle", "self_base"):
        roots = [c for c in conts if c.find(q("BaseContainer")) is None]
        kids = [c for c in conts if c.find(q("BaseContainer")) is not None]
        if not roots or (kind == "base_cycle" and not kids):
            return None
        r = roots[0]
        target = r.get("name")
        if kind == "base_cycle":
            # a cycle needs a container that (transitively) inherits from the chosen root
            base_of = {c.get("name"): c.find(q("BaseContainer")).get("containerRef") for c in kids}

            def descends(name, root_name):
                seen = set()
                while name in base_of and name not in seen:
                    seen.add(name)
                    name = base_of[name]
                    if name == root_name:
                        return True
                return False
            pairs = [(rt, c) for rt in roots for c in kids if descends(c.get("name"), rt.get("name"))]
            if not pairs:
                return None
            r, kid = rng.choice(pairs)
            target = kid.get("name")
        b = ET.SubElement(r, q("BaseContainer"))
        b.set("containerRef", target)
        rc = ET.SubElement(b, q("RestrictionCriteria"))
        cmp_ = ET.SubElement(rc, q("Comparison"))
        cmp_.set("parameterRef", "PKT_APID")
        cmp_.set("value", "1")
    elif kind == "nesting_cycle":
        c = rng.choice(conts)
        e = ET.SubElement(c.find(q("EntryList")), q("ContainerRefEntry"))
        e.set("containerRef", c.get("name"))
    elif kind == "delete_param":
        used = [e.get("parameterRef") for e in cset.iter(q("ParameterRefEntry"))]
        ps = [p for p in pset if p.get("name") in used]
        if not ps:
            return None
        pset.remove(rng.choice(ps))
    elif kind == "delete_type":
        tset.remove(rng.choice(list(tset)))
    elif kind == "delete_base":
        names = [b.get("containerRef") for b in cset.iter(q("BaseContainer"))]
        bs = [c for c in conts if c.get("name") in names]
        if not bs:
            return None
        cset.remove(rng.choice(bs))
    return kind, must, ET.tostring(root).decode()


def reorder(rng, xml_text):
    """shuffle the SequenceContainer elements (forward base / nesting references) and sometimes nest a base container in a sibling"""
    import lxml.etree as ET
    root = ET.fromstring(xml_text.encode())
    cset = root.find(q("TelemetryMetaData")).find(q("ContainerSet"))
    conts = list(cset)
    if rng.random() < 0.5:
        # make some container that is used as a base also a nested entry of an unrelated leaf container
        bases = {b.get("containerRef") for b in cset.iter(q("BaseContainer"))}
        leaves = [c for c in conts if c.get("name") not in bases and c.get("name") != "CCSDSPacket"]
        inner = [c for c in conts if c.get("name") in bases and c.get("name") != "CCSDSPacket"]
        if leaves and inner:
            leaf, b = rng.choice(leaves), rng.choice(inner)
            # only when it does not create a cycle: b must not reach the leaf through base or nesting references
            refs = {c.get("name"): {r.get("containerRef") for r in c.iter(q("BaseContainer"), q("ContainerRefEntry"))} for c in conts}
            seen, todo = set(), [b.get("name")]
            while todo:
                x = todo.pop()
                if x not in seen:
                    seen.add(x)
                    todo.extend(refs.get(x, ()))
            if leaf.get("name") not in seen:
                e = ET.SubElement(leaf.find(q("EntryList")), q("ContainerRefEntry"))
                e.set("containerRef", b.get("name"))
    for c in conts:
        cset.remove(c)
    rng.shuffle(conts)
    for c in conts:
        cset.append(c)
    return ET.tostring(root).decode()


def gen(rng, tier):
    cases = []
    n = 50 if tier == "quick" else 600
    for i in range(n):
        doc = xmlgen.to_xml_loadable(defgen.rnd_definition(rng))
        if rng.random() < 0.4:     # a parameter (with a type of its own) that no container uses
            doc["params"]["UNUSED"] = {"name": "UNUSED", "type": defgen.int_type("UNUSED", rng.choice([8, 16]))}
        xml = xmlgen.document_xml(doc, NS, omit_seed=rng.choice([None, rng.randrange(1 << 30)]))
        if i % 2:
            xml = reorder(rng, xml)
        cases.append({"xml": xml, "kind": "valid", "must_reject": False})
        for _j in range(3 if tier == "quick" else 6):
            c = corrupt(rng, xml)
            if c:
                cases.append({"xml": c[2], "kind": c[0], "must_reject": c[1]})
    return cases


def impl(case):
    def run():
        d = xmlgen.load(case["xml"], NS)
        return xmlcorr.dump_definition(d)
    return core.res_sx(core.guarded(run, timeout_s=30))


def coq_input(case):
    return f"({core.cbool(case['must_reject'])}, Some {core.cstr('xtce')}, {xmlcorr.parsed_coq(case['xml'])})"


def key(case):
    return (case["kind"], hash(case["xml"]))


def branch(case, out):
    return f"{case['kind']}:{out.kind if isinstance(out, core.Err) else 'loaded'}"


def size(case):
    return len(case["xml"])
