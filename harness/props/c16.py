"""C16 — loading is independent of lexical spelling (namespace convention, comments, whitespace) and of earlier loads."""
import core
import defgen
import xmlcorr
import xmlgen

COQ_HEADER = "From SPP Require Import Base.Sx Model.Xml Model.Loader Corr.Xml.\nFrom Coq Require Import ZArith List String. Import ListNotations."
COQ_MODEL = "run_c16"
COQ_OK = "(ok_spec spec_c16)"
COQ_INPUT_TYPE = "list (option string * parsed) * (option string * parsed) * (option string * parsed)"
SHARD = 6
RULE = ("each document in 5 namespace spellings (prefix xtce, prefix x, default namespace, none, and a prefix drawn from a pool that includes beginnings of XTCE element names: Unit, Long, T, P, C, S, E, H) x comment / whitespace placements "
        "between the children of EVERY element, loaded after random sequences of other renderings (other namespace conventions), "
        "documents that fail after parsing and malformed XML, in one process; compared with the plain rendering loaded first; "
        "distinct = distinct (document, spelling, decoration, history)")
ASSUMPTIONS = ["the model reads through the element view (find/iterfind/attrib/text): what lxml exposes of comments and whitespace",
               "XML text <-> tree is lxml's; the namespace prefix argument of from_xtce matches the document's convention"]

SPELLINGS = [("prefix", "xtce"), ("prefix", "x"), ("default",), ("none",)]


def prefix_of(ns):
    return ns[1] if ns[0] == "prefix" else None


def mk_deco(rng, mode):
    if mode == "none":
        return None

    def deco():
        r = rng.random()
        if mode == "ws":
            return rng.choice(["\n  ", " ", "\n\t\n", ""])
        if r < 0.4:
            return "<!-- c -->"
        if r < 0.7:
            return "\n  "
        if r < 0.8:
            return "\n<!-- a --><!-- b -->\n"
        return ""
    return deco


def gen(rng, tier):
    cases = []
    n = 14 if tier == "quick" else 400
    docs_ = [xmlgen.to_xml_loadable(defgen.rnd_definition(rng)) for _ in range(n)]
    for k, dd in enumerate(docs_):
        if k % 2:       # every other document with its container set in a random order (forward base / nesting references:
            dd["containers"] = list(dd["containers"])          # these are resolved through the document, not the lookup)
            rng.shuffle(dd["containers"])
    for i, doc in enumerate(docs_):
        plain_ns = ("prefix", "xtce")
        plain = xmlgen.document_xml(doc, plain_ns)
        for ns in SPELLINGS + [defgen.rnd_prefix(rng)]:
            mode = rng.choice(["none", "ws", "comments", "comments"])
            variant = xmlgen.document_xml(doc, ns, deco=mk_deco(rng, mode), omit_seed=rng.choice([None, rng.randrange(1 << 30)]))
            hist = []
            for _h in range(rng.choice([0, 1, 2, 3])):
                r = rng.random()
                other = rng.choice(docs_)
                ons = rng.choice(SPELLINGS + [defgen.rnd_prefix(rng)])
                if r < 0.6:
                    hist.append({"xml": xmlgen.document_xml(other, ons), "prefix": prefix_of(ons)})
                elif r < 0.7:   # fails after parsing (dangling type reference)
                    hist.append({"xml": xmlgen.document_xml(other, ons).replace('parameterTypeRef="', 'parameterTypeRef="NOPE_', 1), "prefix": prefix_of(ons)})
                elif r < 0.9:   # fails INSIDE the container set, part-way through (state left behind by a half-finished container parse)
                    ox = xmlgen.document_xml(rng.choice([other, doc]), ons)
                    kind = rng.choice(["entry", "base", "nested"])
                    if kind == "entry":         # the LAST parameter entry of the document names no parameter
                        k = ox.rfind('ParameterRefEntry parameterRef="')
                        ox = ox[:k] + ox[k:].replace('parameterRef="', 'parameterRef="NOPE_', 1) if k >= 0 else ox
                    elif kind == "base" and 'BaseContainer containerRef="' in ox:
                        k = ox.rfind('BaseContainer containerRef="')
                        ox = ox[:k] + ox[k:].replace('containerRef="', 'containerRef="NOPE_', 1)
                    elif 'ContainerRefEntry containerRef="' in ox:
                        k = ox.rfind('ContainerRefEntry containerRef="')
                        ox = ox[:k] + ox[k:].replace('containerRef="', 'containerRef="NOPE_', 1)
                    hist.append({"xml": ox, "prefix": prefix_of(ons)})
                else:           # malformed XML: fails before anything is stored
                    hist.append({"xml": "<xtce:SpaceSystem><unclosed>", "prefix": "xtce"})
            cases.append({"plain": plain, "variant": variant, "vprefix": prefix_of(ns), "history": hist, "mode": mode, "ns": ns[0] + (ns[1] if len(ns) > 1 else "")})
    return cases


def impl(case):
    import io
    from space_packet_parser.xtce import definitions

    def run():
        for h in case["history"]:
            try:
                definitions.XtcePacketDefinition.from_xtce(io.BytesIO(h["xml"].encode()), xtce_ns_prefix=h["prefix"])
            except Exception:  # noqa: BLE001, S110  (failed earlier loads are part of the history)
                pass
        d = definitions.XtcePacketDefinition.from_xtce(io.BytesIO(case["variant"].encode()), xtce_ns_prefix=case["vprefix"])
        return xmlcorr.dump_definition(d)
    return core.res_sx(core.guarded(run, timeout_s=30))


def _wellformed(x):
    import lxml.etree as ET
    try:
        ET.fromstring(x.encode())
        return True
    except ET.XMLSyntaxError:
        return False


def coq_input(case):
    hist = core.clist(f"({xmlcorr.copt(h['prefix'])}, {xmlcorr.parsed_coq(h['xml'])})" for h in case["history"] if _wellformed(h["xml"]))
    return (f"({hist}, ({xmlcorr.copt(case['vprefix'])}, {xmlcorr.parsed_coq(case['variant'])}), "
            f"(Some {core.cstr('xtce')}, {xmlcorr.parsed_coq(case['plain'])}))")


def key(case):
    return (hash(case["plain"]), case["ns"], case["mode"], len(case["history"]), hash(case["variant"]))


def branch(case, out):
    return f"{case['ns']}:{case['mode']}:hist{len(case['history'])}:{out.kind if isinstance(out, core.Err) else 'loaded'}"


def size(case):
    return len(case["variant"]) + sum(len(h["xml"]) for h in case["history"])
