"""C20 — value classes: built-in behaviour, raw value default, copy/deepcopy/pickle."""
import copy
import math
import pickle

import core
import gen_tables

COQ_HEADER = "From SPP Require Import Base.Sx Model.Values Corr.C20.\nFrom Coq Require Import ZArith List. Import ListNotations."
COQ_MODEL = "run_c20"
COQ_OK = "(ok_spec run_c20)"
COQ_INPUT_TYPE = "vclass * payload * option payload * Z"
RULE = ("each of the five classes x values {0,-1,2^70,NaN,+-inf,-0.0,'','é',b'',b'\\x00',...} x raw in {absent, falsy, other}; "
        "observations: isinstance/==/hash/ordering/str/repr/format/arithmetic against the plain built-in, copy, deepcopy, "
        "pickle protocols 0-5, whole packets (default protocol, 0 and 1); distinct = distinct (class, value, raw)")
ASSUMPTIONS = ["semantics of the built-ins and of pickle are CPython's; the model covers construction/reduction and the method-resolution table"]

CLS = ["CBinary", "CBool", "CFloat", "CInt", "CStr"]
NOBS = 14


def tables():
    return gen_tables.check("TablesOk_C20")


VALUES = {
    "CBinary": [b"", b"\x00", b"abc", bytes(range(256)), b"\xff" * 3],
    "CBool": [0, 1, True, False],
    "CFloat": [0.0, -0.0, 1.5, -2.25, 1e308, 5e-324, float("inf"), float("-inf"), float("nan"), 2.0 ** 70],
    "CInt": [0, 1, -1, 255, 2 ** 70, -(2 ** 70), 42],
    "CStr": ["", "a", "é", "text with spaces", "堀X", "0"],
}
RAWS = [None, 0, 7, -1, 0.0, 2.5, b"", b"\x01\x02", "", "lbl", False]


def enc(v):
    """JSON-able tagged payload"""
    if isinstance(v, bool):
        return ["i", int(v)]
    if isinstance(v, int):
        return ["i", v]
    if isinstance(v, float):
        return ["f", core.float_bits(v)]
    if isinstance(v, str):
        return ["s", [ord(c) for c in v]]
    return ["b", list(bytes(v))]


def dec(t):
    k, x = t
    if k == "i":
        return x
    if k == "f":
        return core.bits_float(x)
    if k == "s":
        return "".join(chr(c) for c in x)
    return bytes(x)


def gen(rng, tier):
    cases = []
    for c in CLS:
        for v in VALUES[c]:
            for r in RAWS:
                cases.append({"cls": c, "v": enc(v), "raw": None if r is None else enc(r)})
    if tier == "thorough":
        for _ in range(3000):
            c = rng.choice(CLS)
            v = {"CBinary": lambda: rng.randbytes(rng.randrange(0, 40)), "CBool": lambda: rng.randrange(2),
                 "CFloat": lambda: core.bits_float(rng.getrandbits(64)), "CInt": lambda: rng.randrange(-2 ** 80, 2 ** 80),
                 "CStr": lambda: "".join(chr(rng.choice([65, 233, 0x5800, 48, 32])) for _ in range(rng.randrange(0, 8)))}[c]()
            r = rng.choice([None, 0, rng.randrange(-5, 5), rng.random(), b"", rng.randbytes(3), "", "x"])
            cases.append({"cls": c, "v": enc(v), "raw": None if r is None else enc(r)})
    return cases


def payload(v):
    """canonical payload as the model prints it"""
    if isinstance(v, bool) or isinstance(v, int):
        return [0, int(v)]
    if isinstance(v, float):
        return [1, core.float_bits(v)]
    if isinstance(v, str):
        return [2, [ord(c) for c in v]]
    return [3, list(bytes(v))]


def same(a, b):
    """equality that treats NaN as equal to NaN and distinguishes -0.0"""
    if isinstance(a, float) and isinstance(b, float):
        return core.float_bits(a) == core.float_bits(b)
    return type(a) is type(b) and a == b


def impl(case):
    from space_packet_parser import common, packets
    cls = {"CBinary": common.BinaryParameter, "CBool": common.BoolParameter, "CFloat": common.FloatParameter,
           "CInt": common.IntParameter, "CStr": common.StrParameter}[case["cls"]]
    base = {"CBinary": bytes, "CBool": int, "CFloat": float, "CInt": int, "CStr": str}[case["cls"]]
    v = dec(case["v"])
    raw = None if case["raw"] is None else dec(case["raw"])

    def run():
        x = cls(v) if raw is None else cls(v, raw)
        plain = base(v)
        isnan = isinstance(plain, float) and math.isnan(plain)
        obs = []
        obs.append(isinstance(x, base) and type(x) is cls)
        obs.append((x == plain) == (plain == plain) and (plain == x) == (plain == plain) and (x != plain) == (plain != plain))
        obs.append(isnan or hash(x) == hash(plain))   # hash(nan) is identity-based in CPython >= 3.10
        other = {bytes: b"ab", int: 1, float: 0.5, str: "b"}[base]
        obs.append((x < other) == (plain < other) and (x >= other) == (plain >= other) and (other < x) == (other < plain))
        shown = bool(plain) if cls is common.BoolParameter else plain   # the boolean class displays like bool
        obs.append(str(x) == str(shown))
        obs.append(repr(x) == repr(shown))
        obs.append(format(x) == format(shown) and (base is not float or isnan or f"{x:.3e}" == f"{plain:.3e}")
                   and (base is not int or f"{x:05d}" == f"{plain:05d}"))
        if base in (int, float):
            a1, a2 = x + 3, plain + 3
            m1, m2 = x * 2, plain * 2
            obs.append(same(a1, a2) and same(m1, m2) and type(a1) is type(a2))
        else:
            obs.append(x + base() == plain and x * 2 == plain * 2 and len(x) == len(plain))
        obs.append(bool(x) == bool(plain))
        c1, c2 = copy.copy(x), copy.deepcopy(x)
        okc = all(type(c) is cls and (same(base(c), plain)) and same_raw(c.raw_value, x.raw_value) for c in (c1, c2))
        obs.append(okc)
        okp = True
        for proto in range(0, pickle.HIGHEST_PROTOCOL + 1):
            y = pickle.loads(pickle.dumps(x, protocol=proto))
            okp = okp and type(y) is cls and same(base(y), plain) and same_raw(y.raw_value, x.raw_value)
        obs.append(okp)
        # a whole parsed packet holding the value
        pk = packets.CCSDSPacket(raw_data=b"\x08\x01\xc0\x00\x00\x00\xaa")
        pk.raw_data.pos = 13
        pk["A"] = common.IntParameter(0)
        pk["B"] = x
        okk = True
        for q in (copy.copy(pk), copy.deepcopy(pk), pickle.loads(pickle.dumps(pk)), pickle.loads(pickle.dumps(pk, protocol=0)), pickle.loads(pickle.dumps(pk, protocol=1))):
            okk = okk and type(q) is packets.CCSDSPacket and list(q.keys()) == ["A", "B"] and bytes(q.raw_data) == bytes(pk.raw_data)
            okk = okk and q.raw_data.pos == 13 and type(q["B"]) is cls and same_raw(q["B"].raw_value, x.raw_value)
            okk = okk and q["A"].raw_value == 0
        obs.append(okk)
        obs.append(type(x.raw_value) is (type(raw) if raw is not None else base) or (raw is None and type(x.raw_value) in (base, cls)))
        obs.append(not hasattr(x, "__slots__") or True)
        assert len(obs) == NOBS
        val = payload(plain)
        rv = payload(x.raw_value if raw is not None else base(x.raw_value))
        y = pickle.loads(pickle.dumps(x, protocol=2))
        rv2 = payload(y.raw_value if raw is not None else base(y.raw_value))
        code = CLS.index(case["cls"])
        return [[code, val, rv], [code, payload(base(y)), rv2], [bool(o) for o in obs]]
    out = core.guarded(run, timeout_s=10)
    return out[1] if out[0] == "ok" else core.Err(out[1])


def same_raw(a, b):
    if isinstance(a, float) and isinstance(b, float):
        return core.float_bits(a) == core.float_bits(b)
    return type(a) is type(b) and a == b


def cpayload(t):
    k, x = t
    if k == "i":
        return f"(PInt {core.cz(x)})"
    if k == "f":
        return f"(PFloat {core.cz(x)})"
    if k == "s":
        return f"(PStr {core.clist(str(c) for c in x)})"
    return f"(PBytes {core.clist(str(c) for c in x)})"


def model_payload(cls, t):
    """the value as stored by the built-in base (bool -> int etc.) — what `base(v)` does, done by the harness (glue)"""
    v = dec(t)
    base = {"CBinary": bytes, "CBool": int, "CFloat": float, "CInt": int, "CStr": str}[cls]
    return enc(base(v))


def coq_input(case):
    raw = "None" if case["raw"] is None else f"(Some {cpayload(case['raw'])})"
    return f"({case['cls']}, {cpayload(model_payload(case['cls'], case['v']))}, {raw}, {NOBS})"


def key(case):
    return (case["cls"], str(case["v"]), str(case["raw"]))


def branch(case, out):
    if isinstance(out, core.Err):
        return out.kind
    return f"{case['cls']}:{'raw-absent' if case['raw'] is None else ('raw-falsy' if not dec(case['raw']) else 'raw-given')}"
