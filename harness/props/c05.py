"""C05 — container inheritance selects the unique matching structure, in order."""
import core
import defgen
import docs
import genrun

COQ_HEADER = genrun.COQ_HEADER
COQ_MODEL = "run_generator"
COQ_OK = "(ok_spec run_generator)"     # Props/C05.v: the path, the item order and the three outcomes are determined uniquely
COQ_INPUT_TYPE = genrun.COQ_INPUT_TYPE
SHARD = 25
RULE = ("random container trees (depth <= 3, fan-out <= 3, abstract flags, a shared nested container, restriction criteria of every "
        "form on header and user-data fields) x packets with APID/selector values drawn from the values the criteria mention "
        "(every branch, dead end and ambiguity is reachable) sized exactly / one byte short / one byte long; unrecognized packets "
        "reported with their partial data; an APID parameter with another name; every third definition loaded from an XML document; distinct = distinct (definition, packet)")
ASSUMPTIONS = ["field decoding is the C04/C07/C08 model; the header / user_data views of every yielded packet and of every error's partial data are compared with the first seven / remaining items on the implementation (a difference is an item kind the model never produces)"]
coq_input = genrun.coq_input
impl = genrun.impl


def gen(rng, tier):
    cases = []
    ndefs = 60 if tier == "quick" else 700
    for i in range(ndefs):
        doc = defgen.rnd_definition(rng, apid_name="PKT_APID" if i % 4 else "APPLICATION_ID")
        via = "xml" if i % 3 == 2 else "objects"
        if via == "xml":
            # every third definition reaches the decoder through the XML loader (back-filled inheritors, containers parsed on first
            # reference, duplicate handling): what the loader makes of the constants is in the case
            import xmlgen
            doc = xmlgen.to_xml_loadable(doc)
            try:
                dobj = xmlgen.load(xmlgen.document_xml(doc, ("prefix", "xtce")), ("prefix", "xtce"))
            except Exception:  # noqa: BLE001  (kept: a generated document that does not load disagrees with the model)
                dobj = None
        else:
            dobj = defgen.try_build(doc)
        pkts = []
        for _ in range(6):
            pkts += defgen.fit_packet(dobj, defgen.rnd_packet(rng, rng.randrange(1, 30)))[:rng.choice([1, 1, 3])]
        rng.shuffle(pkts)
        for j in range(0, len(pkts), 4):
            opts = dict(genrun.DEFAULT_OPTS, yield_unrecognized=True, parse_bad_pkts=rng.random() < 0.8)
            cases.append({"doc": doc, "opts": opts, "packets": [p.hex() for p in pkts[j:j + 4]], "via": via})
    return cases


def key(case):
    import json
    return json.dumps([case["doc"]["containers"], case["packets"], case["opts"], case.get("via")], sort_keys=True)


def branch(case, out):
    if isinstance(out, core.Err):
        return out.kind
    kinds = sorted(set({0: "parsed", 1: "unrecognized", 2: "raw"}.get(it[0], "bad-views") + ("-warned" if it[0] == 0 and it[3] else "") for it in out[0]))
    return ",".join(kinds) + ("|fatal" if out[1] else "")


def size(case):
    return sum(len(p) for p in case["packets"]) + 50 * len(case["doc"]["containers"])
