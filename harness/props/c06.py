"""C06 — match criteria: Comparison, Condition, BooleanExpression, lists, discrete lookups."""
import core
import gen_tables
import vals

COQ_HEADER = ("From SPP Require Import Base.Sx Model.Values Model.Criteria Corr.C06.\n"
              "From Coq Require Import ZArith List String. Import ListNotations.")
COQ_MODEL = "run_c06"
COQ_OK = "(ok_spec run_c06)"
COQ_INPUT_TYPE = "c06_input"
SHARD = 150
RULE = ("comparisons over every operator spelling x value kinds {int,float,calibrated,str,enum,bool,bytes} incl. 0/-0.0/NaN/''/False x "
        "literal pool incl. uncoercible text x both selectors x {in packet, current value, absent}; conditions with literal or "
        "second-parameter operands (int vs float); boolean trees to depth 3 (quick) / 5; lookup lists through the binary and "
        "string size consumers; distinct = distinct (kind, operator relation, operand kinds, selector, outcome class)")
ASSUMPTIONS = ["int()/float() parsing of literal text is Python's: literals reach the model pre-parsed (l_int/l_float/l_str)"]


def tables():
    return gen_tables.check("TablesOk_C06")


def gen(rng, tier):
    cases = []
    n1 = 1500 if tier == "quick" else 20000
    # systematic: every operator spelling on int/float/zero values
    for op in vals.OPS:
        for v in (0, 1, -1):
            for lit in ("0", "1", "2.5", "x"):
                env = [("A", {"cls": "CInt", "v": ["i", v], "raw": ["i", v]})]
                cases.append({"kind": "cmp", "env": env, "cur": None, "c": {"ref": "A", "op": op, "lit": lit, "cal": True}})
        for v in (0.0, 2.5, float("nan")):
            env = [("A", {"cls": "CFloat", "v": ["f", core.float_bits(v)], "raw": ["i", 3]})]
            cases.append({"kind": "cmp", "env": env, "cur": None, "c": {"ref": "A", "op": op, "lit": "2.5", "cal": True}})
        # int vs float conditions, both directions
        env = [("A", {"cls": "CInt", "v": ["i", 3], "raw": ["i", 3]}),
               ("B", {"cls": "CFloat", "v": ["f", core.float_bits(2.5)], "raw": ["f", core.float_bits(2.5)]}),
               ("C", {"cls": "CInt", "v": ["i", 2 ** 53 + 1], "raw": ["i", 2 ** 53 + 1]}),
               ("D", {"cls": "CFloat", "v": ["f", core.float_bits(2.0 ** 53)], "raw": ["f", core.float_bits(2.0 ** 53)]})]
        for l, r in (("A", "B"), ("B", "A"), ("C", "D"), ("D", "C"), ("A", "A"), ("B", "B")):
            cases.append({"kind": "cond", "env": env, "d": {"left": l, "op": op, "lcal": True, "rparam": r, "rcal": True}})
    for _ in range(n1):
        env = vals.rnd_env(rng)
        cur = rng.choice([None, None, ["i", rng.choice(vals.INT_VALUES)], ["f", core.float_bits(rng.choice(vals.FLOAT_VALUES))]])
        cases.append({"kind": "cmp", "env": env, "cur": cur, "c": vals.rnd_comparison(rng)})
    for _ in range(n1):
        cases.append({"kind": "cond", "env": vals.rnd_env(rng), "d": vals.rnd_condition(rng)})
    n2 = 1500 if tier == "quick" else 15000
    for _ in range(n2):
        env = vals.rnd_env(rng, numeric_only=rng.random() < 0.7)
        depth = rng.choice([0, 1, 2, 3] if tier == "quick" else [0, 1, 2, 3, 4, 5])
        b = ["cond", vals.rnd_condition(rng, ("A", "B", "C"))] if rng.random() < 0.15 else ["tree", vals.rnd_bx(rng, depth)]
        cases.append({"kind": "bexpr", "env": env, "b": b})
    n3 = 600 if tier == "quick" else 6000
    for _ in range(n3):
        env = vals.rnd_env(rng, numeric_only=True)
        entries = []
        for _j in range(rng.randrange(1, 5)):
            ks = [["cmp", vals.rnd_comparison(rng, ("A", "B", "C"))] for _k in range(rng.randrange(1, 3))]
            if rng.random() < 0.2:
                ks = [["bool", ["tree", vals.rnd_bx(rng, 1)]]]
            entries.append([ks, rng.choice([0, 8, 16, 24, 32])])
        cases.append({"kind": "lookup", "env": env, "ls": entries, "consumer": rng.choice(["binary", "string"])})
    return cases


def impl(case):
    from space_packet_parser.xtce import encodings
    pkt = vals.env_py(case["env"])
    if case["kind"] == "cmp":
        c = vals.comparison_py(case["c"])
        cur = None if case["cur"] is None else vals.pay_py(case["cur"])
        return vals.bool_out(core.guarded(lambda: c.evaluate(pkt, cur)))
    if case["kind"] == "cond":
        def mk():
            return vals.condition_py(case["d"]).evaluate(pkt)
        return vals.bool_out(core.guarded(mk))
    if case["kind"] == "bexpr":
        return vals.bool_out(core.guarded(lambda: vals.bexpr_py(case["b"]).evaluate(pkt)))
    # lookup list through its consumers (_calculate_size): first entry whose criteria all hold; none -> ValueError
    def run():
        ls = [vals.lookup_py(e) for e in case["ls"]]
        if case["consumer"] == "binary":
            enc = encodings.BinaryDataEncoding(size_discrete_lookup_list=ls)
        else:
            enc = encodings.StringDataEncoding(discrete_lookup_length=ls)
        n = enc._calculate_size(pkt)
        return [core.float_bits(float(n))]
    out = core.guarded(run)
    if out[0] == "ok":
        return [0, out[1]]
    # "no entry matched" is a ValueError raised by the consumer; the model's lookup_first returns None for it
    return core.Err(out[1])


def coq_input(case):
    env = vals.env_coq(case["env"])
    if case["kind"] == "cmp":
        cur = "None" if case["cur"] is None else f"(Some {vals.pay_coq(case['cur'])})"
        return f"InComparison {env} {cur} {vals.comparison_coq(case['c'])}"
    if case["kind"] == "cond":
        return f"InCondition {env} {vals.condition_coq(case['d'])}"
    if case["kind"] == "bexpr":
        return f"InBexpr {env} {vals.bexpr_coq(case['b'])}"
    return f"InLookupC {env} {core.clist(vals.lookup_coq(e) for e in case['ls'])}"


def key(case):
    import json
    return json.dumps([case["kind"], case.get("c"), case.get("d"), case.get("b"), case.get("ls"),
                       [(n, d["cls"], d["v"], d["raw"]) for n, d in case["env"]], case.get("cur")], sort_keys=True)


def branch(case, out):
    o = out.kind if isinstance(out, core.Err) else ("true" if out[1] in (True, [0]) else "value")
    if not isinstance(out, core.Err) and out[1] is False:
        o = "false"
    return f"{case['kind']}:{o}"


def size(case):
    import json
    return len(json.dumps(case))
