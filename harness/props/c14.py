"""C14 — bit consumption accounted for; over-reads and negative lengths never delivered as clean data."""
import core
import defgen
import docs
import genrun

COQ_HEADER = genrun.COQ_HEADER
COQ_MODEL = "run_generator"
COQ_OK = "c14_ok"
COQ_INPUT_TYPE = genrun.COQ_INPUT_TYPE
SHARD = 25
RULE = ("fixed and length-dependent layouts x packets shorter than / equal to / longer than what the definition consumes, at byte and "
        "bit granularity, and referenced lengths that make a computed size negative by 1 bit .. several bytes; both parse_bad_pkts "
        "settings; observed: items, length warnings, withheld packets, escaping exception kind; distinct = distinct (layout, packet, options)")
ASSUMPTIONS = ["a warning is attributed to an item by the (bits parsed, bits available) pair in its text"]
coq_input = genrun.coq_input
impl = genrun.impl


def layout(rng):
    """definitions whose consumption depends on packet contents, incl. a length that can go negative"""
    params, entries = {}, []
    for (n, w) in defgen.HDR:
        params[n] = {"name": n, "type": defgen.int_type(n, w)}
        entries.append(["p", n])
    kind = rng.choice(["fixed", "bin_from_len", "bin_from_field", "str_from_field", "bits"])
    if kind == "fixed":
        for i in range(rng.randrange(1, 4)):
            nm = f"F{i}"
            params[nm] = {"name": nm, "type": defgen.int_type(nm, rng.choice([3, 8, 13, 16, 32]))}
            entries.append(["p", nm])
    elif kind == "bin_from_len":
        # binary of 8*PKT_LEN + icpt bits: with icpt = -16 the size is negative for PKT_LEN = 1 (F8)
        icpt = rng.choice([-16, -8, 8, 0, -24])
        params["B"] = {"name": "B", "type": {"name": "B_T", "kind": "bin", "enc": {"t": "bin", "size": ["dyn", "PKT_LEN", True, [8, icpt]]}}}
        entries.append(["p", "B"])
        if rng.random() < 0.8:
            # 8 - icpt bits make the total come out exact whatever PKT_LEN is -- also when 8*PKT_LEN + icpt is negative
            params["TAIL"] = {"name": "TAIL", "type": defgen.int_type("TAIL", rng.choice([8 - icpt, 8 - icpt, 8, 16]))}
            entries.append(["p", "TAIL"])
    elif kind == "bin_from_field":
        params["N"] = {"name": "N", "type": defgen.int_type("N", 8, rng.choice(["unsigned"] + defgen.SIGNED_SPELLINGS))}
        params["B"] = {"name": "B", "type": {"name": "B_T", "kind": "bin", "enc": {"t": "bin", "size": ["dyn", "N", rng.random() < 0.5, rng.choice([None, [8, 0], [1, -3], [-1, 4]])]}}}
        entries += [["p", "N"], ["p", "B"]]
    elif kind == "str_from_field":
        params["N"] = {"name": "N", "type": defgen.int_type("N", 8, rng.choice(["unsigned"] + defgen.SIGNED_SPELLINGS))}
        params["S"] = {"name": "S", "type": {"name": "S_T", "kind": "str", "enc": {"t": "str", "charset": "ISO-8859-1", "size": ["dyn", "N", False, rng.choice([[8, 0], [1, 0], [8, -8]])]}}}
        entries += [["p", "N"], ["p", "S"]]
    else:
        for i in range(rng.randrange(1, 5)):
            nm = f"F{i}"
            params[nm] = {"name": nm, "type": defgen.int_type(nm, rng.choice([1, 3, 5, 7, 11]))}
            entries.append(["p", nm])
    root = {"name": "CCSDSPacket", "entries": entries, "abstract": False, "base": None, "criteria": [], "inheritors": []}
    return {"params": params, "containers": [root], "root": "CCSDSPacket"}


def gen(rng, tier):
    cases = []
    n = 120 if tier == "quick" else 1500
    for _ in range(n):
        doc = layout(rng)
        pkts = []
        for _j in range(4):
            nd = rng.choice([1, 2, 2, 3, 4, 5, 8, 12])
            p = bytearray(defgen.rnd_packet(rng, nd))
            if nd >= 1 and rng.random() < 0.6:
                p[6] = rng.choice([0, 1, 2, 3, 8, 16, 255, 254])     # the length/selector byte
            pkts.append(bytes(p))
        for bad in (True, False):
            cases.append({"doc": doc, "opts": dict(genrun.DEFAULT_OPTS, parse_bad_pkts=bad), "packets": [p.hex() for p in pkts]})
    # the whole-tree generator of C05, with wrong-length packets
    for _ in range(20 if tier == "quick" else 200):
        doc = defgen.rnd_definition(rng)
        dobj = defgen.try_build(doc)
        pkts = []
        for _j in range(3):
            pkts += defgen.fit_packet(dobj, defgen.rnd_packet(rng, rng.randrange(1, 30)))
        cases.append({"doc": doc, "opts": dict(genrun.DEFAULT_OPTS, parse_bad_pkts=rng.random() < 0.5), "packets": [p.hex() for p in pkts[:6]]})
    return cases


def key(case):
    import json
    return json.dumps([case["doc"]["containers"], case["packets"], case["opts"]], sort_keys=True)


def branch(case, out):
    if isinstance(out, core.Err):
        return out.kind
    kinds = sorted(set(("clean" if not it[3] else "warned") for it in out[0] if it[0] == 0))
    return ",".join(kinds or ["none"]) + (f"|fatal{out[1][0]}" if out[1] else "") + f"|bad={case['opts']['parse_bad_pkts']}"


def size(case):
    return sum(len(p) for p in case["packets"]) + 50 * len(case["doc"]["params"])
