"""C12 — segmented packets reassembled per APID exactly once and only when complete."""
import io
import itertools
import warnings

import core
import framing
import xdefs

COQ_HEADER = "From SPP Require Import Base.Bytes Base.Sx Corr.C12.\nFrom Coq Require Import ZArith List. Import ListNotations."
COQ_MODEL = "run_c12"
COQ_OK = "(ok_spec run_c12)"   # the per-APID automaton determines outputs and warnings uniquely (C12_group_semantics)
COQ_INPUT_TYPE = "Z * list (list (Z * Z))"
RULE = ("all histories of length <= 4 (quick) / <= 5 (thorough) over {FIRST,CONT,LAST,UNSEG} x 2 APIDs with sequence-count "
        "patterns {in-sequence, gap, wrap 16383->0}; random histories to length 40; secondary header 0/1/4 bytes, with segments whose "
        "data field is exactly or not even the secondary header; "
        "distinct = distinct (flags/APID word, count pattern, sec)")
ASSUMPTIONS = ["each raw packet's data field carries a unique tag so contributing packets are identified from output bytes"]

FLAGS = {"C": 0, "F": 1, "L": 2, "U": 3}


def build(hist, sec, start, pattern, rng_tag=0, rng=None):
    """hist: list of (flag letter, apid); returns list of packet bytes with per-APID sequence counts."""
    counts = {}
    pk = []
    for i, (fl, apid) in enumerate(hist):
        c = counts.get(apid, start)
        # pattern: 'seq' consecutive; 'gap' skips one at the 2nd packet of an apid; 'dup' repeats
        step = 1
        if pattern == "gap" and i == len(hist) - 1:
            step = 2
        counts[apid] = (c + step) % 16384
        data = bytes([0xA0 + (i % 16)] * sec) + bytes([0xEE, i & 0xFF])
        if rng is not None and sec:
            # segments that carry nothing but their secondary header, or not even all of it
            r = rng.random()
            if r < 0.15:
                data = data[:sec]
            elif r < 0.25 and sec >= 2:
                data = data[:sec - 1]
        hdr = (0 << 45) | (0 << 44) | ((1 if sec else 0) << 43) | (apid << 32) | (FLAGS[fl] << 30) | (c << 16) | (len(data) - 1)
        pk.append(hdr.to_bytes(6, "big") + data)
    return pk


def gen(rng, tier):
    cases = []
    maxlen = 4 if tier == "quick" else 5
    alphabet = [(f, a) for f in "FCLU" for a in (5, 9)]
    for n in range(1, maxlen + 1):
        for hist in itertools.product(alphabet, repeat=n):
            if tier == "quick" and n == 4 and rng.random() < 0.6:
                continue
            if tier == "thorough" and n == 5 and rng.random() < 0.5:
                continue
            pattern = rng.choice(["seq", "seq", "gap"])
            start = rng.choice([0, 7, 16382, 16383])
            sec = rng.choice([0, 1, 4])
            cases.append({"sec": sec, "packets": [p.hex() for p in build(hist, sec, start, pattern, rng=rng if n >= 2 else None)],
                          "hist": "".join(f"{f}{a}" for f, a in hist), "pattern": pattern, "start": start})
    nrand = 60 if tier == "quick" else 2000
    for _ in range(nrand):
        n = rng.randrange(5, 41)
        apids = rng.sample(range(2048), rng.randrange(1, 4))
        hist = []
        for _i in range(n):
            hist.append((rng.choice("FCCLLU"), rng.choice(apids)))
        sec = rng.choice([0, 1, 4])
        pk = build(hist, sec, rng.choice([0, 16380]), "seq", rng=rng)
        # random extra gaps: perturb some sequence counts
        for j in range(len(pk)):
            if rng.random() < 0.1:
                b = bytearray(pk[j])
                w = int.from_bytes(b[2:4], "big")
                w = (w & 0xC000) | ((w + rng.randrange(1, 5)) & 0x3FFF)
                b[2:4] = w.to_bytes(2, "big")
                pk[j] = bytes(b)
        cases.append({"sec": sec, "packets": [p.hex() for p in pk], "hist": "".join(f"{f}{a}," for f, a in hist),
                      "pattern": "random", "start": -1})
    return cases


_DEF = None


def impl(case):
    global _DEF
    if _DEF is None:
        _DEF = xdefs.header_only_definition()
    stream = b"".join(bytes.fromhex(p) for p in case["packets"])

    def run():
        with warnings.catch_warnings(record=True) as w:
            warnings.simplefilter("always")
            gen = _DEF.packet_generator(io.BytesIO(stream), combine_segmented_packets=True,
                                        secondary_header_bytes=case["sec"])
            items = list(itertools.islice(gen, len(case["packets"]) + 3))
        outs = [bytes(p.raw_data) for p in items]
        kinds = []
        for x in w:
            m = str(x.message)
            if "without declaring the start" in m:
                kinds.append(1)
            elif "are not in sequence" in m:
                kinds.append(2)
        return [outs, kinds]
    r = core.guarded(run, timeout_s=10)
    return r[1] if r[0] == "ok" else core.Err(r[1])


def coq_input(case):
    return f"({case['sec']}, {core.clist(core.cbytes(bytes.fromhex(p)) for p in case['packets'])})"


def key(case):
    return (case["hist"], case["pattern"], case["sec"], case["start"] in (16382, 16383))


def branch(case, out):
    if isinstance(out, core.Err):
        return out.kind
    return f"emits{min(len(out[0]), 3)}:warn{min(len(out[1]), 3)}"


def size(case):
    return len(case["packets"])
