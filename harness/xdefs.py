"""XTCE definitions built from library objects for the correspondence checks."""

HEADER_FIELDS = [("VERSION", 3), ("TYPE", 1), ("SEC_HDR_FLG", 1), ("PKT_APID", 11), ("SEQ_FLGS", 2), ("SRC_SEQ_CTR", 14), ("PKT_LEN", 16)]


def header_params(names=None):
    from space_packet_parser.xtce import encodings, parameter_types, parameters
    out = []
    for i, (n, w) in enumerate(HEADER_FIELDS):
        nm = names[i] if names else n
        t = parameter_types.IntegerParameterType(f"{nm}_Type", encodings.IntegerDataEncoding(w, "unsigned"))
        out.append(parameters.Parameter(nm, t))
    return out


def header_only_definition():
    from space_packet_parser.xtce import containers, definitions
    root = containers.SequenceContainer("CCSDSPacket", header_params())
    return definitions.XtcePacketDefinition([root])
