"""Translator: small pure functions of /repo's current source -> Gallina (the regenerated part of the model, besides the
constant tables of gen_tables.py).  Python AST in, Coq text out; fail-closed: any construct outside the fragment below raises
FunError, which the check reports as a broken tie.

Fragment: a function whose body is a docstring followed by  name = expr  statements,  if test: return expr  statements
(no else) and a final  return expr (methods of the cursor class: see TrM).  Expressions: names, integer literals, + - * // % ** >> << & |, ==, !=, `and`, slicing
x[a:b], len(x), int.from_bytes(x, byteorder="big").  Evaluation order is Python's (left to right), every operation is the
checked operation of Base/PyEval.v, so the exceptions are those Python raises."""
import ast

import core


class FunError(Exception):
    pass


BINOPS = {ast.Add: "py_add", ast.Sub: "py_sub", ast.Mult: "py_mul", ast.FloorDiv: "py_floordiv", ast.Mod: "py_mod", ast.Pow: "py_pow",
          ast.RShift: "py_rshift", ast.LShift: "py_lshift", ast.BitAnd: "py_bitand", ast.BitOr: "py_bitor"}


class Tr:
    def __init__(self):
        self.n = 0

    def fresh(self):
        self.n += 1
        return f"t{self.n}"

    def expr(self, e, k):
        """emit Coq text evaluating e, then continuing with k(name_of_value)"""
        if isinstance(e, ast.Name):
            return k(e.id)
        if isinstance(e, ast.Constant) and isinstance(e.value, int) and not isinstance(e.value, bool):
            v = self.fresh()
            return f"let {v} := VInt ({e.value}) in {k(v)}"
        if isinstance(e, ast.BinOp) and type(e.op) in BINOPS:
            if isinstance(e.op, ast.Pow) and not (isinstance(e.left, ast.Constant) and isinstance(e.left.value, int) and e.left.value != 0):
                raise FunError("** is only translated for a non-zero literal base")
            v = self.fresh()
            return self.expr(e.left, lambda a: self.expr(e.right, lambda b: f"{v} <- {BINOPS[type(e.op)]} {a} {b} ;; {k(v)}"))
        if isinstance(e, ast.Compare) and len(e.ops) == 1 and isinstance(e.ops[0], (ast.Eq, ast.NotEq)):
            v = self.fresh()
            op = "py_eq" if isinstance(e.ops[0], ast.Eq) else "py_ne"
            return self.expr(e.left, lambda a: self.expr(e.comparators[0], lambda b: f"{v} <- {op} {a} {b} ;; {k(v)}"))
        if isinstance(e, ast.BoolOp) and isinstance(e.op, ast.And) and len(e.values) == 2:
            # a and b: b is evaluated only when a is true; the value is a's when it is falsy
            v = self.fresh()
            return self.expr(e.values[0], lambda a: f"{v} <- (if truthy {a} then {self.expr(e.values[1], lambda b: f'Ok {b}')} else Ok {a}) ;; {k(v)}")
        if isinstance(e, ast.Subscript) and isinstance(e.slice, ast.Slice) and e.slice.step is None and e.slice.lower is not None and e.slice.upper is not None:
            v = self.fresh()
            return self.expr(e.value, lambda x: self.expr(e.slice.lower, lambda a: self.expr(e.slice.upper, lambda b: f"{v} <- py_slice {x} {a} {b} ;; {k(v)}")))
        if isinstance(e, ast.Call) and isinstance(e.func, ast.Name) and e.func.id == "len" and len(e.args) == 1 and not e.keywords:
            v = self.fresh()
            return self.expr(e.args[0], lambda x: f"{v} <- py_len {x} ;; {k(v)}")
        if (isinstance(e, ast.Call) and isinstance(e.func, ast.Attribute) and e.func.attr == "from_bytes" and isinstance(e.func.value, ast.Name)
                and e.func.value.id == "int" and len(e.args) == 1 and len(e.keywords) == 1 and e.keywords[0].arg == "byteorder"
                and isinstance(e.keywords[0].value, ast.Constant) and e.keywords[0].value.value == "big"):
            v = self.fresh()
            return self.expr(e.args[0], lambda x: f"{v} <- py_from_bytes_big {x} ;; {k(v)}")
        raise FunError(f"expression outside the translated fragment: {ast.dump(e)[:120]}")

    def body(self, stmts):
        if not stmts:
            raise FunError("function body ends without a return")
        s, rest = stmts[0], stmts[1:]
        if isinstance(s, ast.Expr) and isinstance(s.value, ast.Constant) and isinstance(s.value.value, str):
            return self.body(rest)                               # docstring
        if isinstance(s, ast.Assign) and len(s.targets) == 1 and isinstance(s.targets[0], ast.Name):
            name = s.targets[0].id
            return self.expr(s.value, lambda v: f"let {name} := {v} in\n  {self.body(rest)}")
        if isinstance(s, ast.If) and not s.orelse and len(s.body) == 1 and isinstance(s.body[0], ast.Return) and s.body[0].value is not None:
            return self.expr(s.test, lambda t: f"if truthy {t} then ({self.expr(s.body[0].value, lambda v: f'Ok {v}')})\n  else {self.body(rest)}")
        if isinstance(s, ast.Return) and s.value is not None and not rest:
            return self.expr(s.value, lambda v: f"Ok {v}")
        raise FunError(f"statement outside the translated fragment: {ast.dump(s)[:120]}")


CMPS = {ast.Eq: "py_eq", ast.NotEq: "py_ne", ast.Lt: "py_lt", ast.Gt: "py_gt"}
RAISES = {"ValueError": "EValue", "TypeError": "EType", "IndexError": "EIndex", "KeyError": "EKey", "OverflowError": "EOverflow"}


class TrM(Tr):
    """methods of a bytes subclass carrying a bit cursor (RawPacketData): `self` is the buffer, `self.pos` the cursor, threaded
    through as the variable pos; the function returns (value, new cursor).  On top of Tr: self.pos, self.pos += e,
    if test: raise E(...), if-bodies of several statements ending in return, <, >, calls of already translated module
    functions, int.to_bytes(x, n, "big")."""

    def __init__(self, callees):
        super().__init__()
        self.callees = callees

    def expr(self, e, k):
        if isinstance(e, ast.Attribute) and isinstance(e.value, ast.Name) and e.value.id == "self" and e.attr == "pos":
            return k("pos")
        if isinstance(e, ast.Attribute):
            raise FunError(f"attribute outside the translated fragment: {ast.dump(e)[:80]}")
        if isinstance(e, ast.Compare) and len(e.ops) == 1 and type(e.ops[0]) in CMPS:
            v = self.fresh()
            return self.expr(e.left, lambda a: self.expr(e.comparators[0], lambda b: f"{v} <- {CMPS[type(e.ops[0])]} {a} {b} ;; {k(v)}"))
        if isinstance(e, ast.Call) and isinstance(e.func, ast.Name) and e.func.id in self.callees and not e.keywords:
            v = self.fresh()

            def args(i, acc):
                if i == len(e.args):
                    return f"{v} <- {self.callees[e.func.id]} {' '.join(acc)} ;; {k(v)}"
                return self.expr(e.args[i], lambda a: args(i + 1, acc + [a]))
            return args(0, [])
        if (isinstance(e, ast.Call) and isinstance(e.func, ast.Attribute) and e.func.attr == "to_bytes" and isinstance(e.func.value, ast.Name)
                and e.func.value.id == "int" and len(e.args) == 3 and not e.keywords and isinstance(e.args[2], ast.Constant)
                and e.args[2].value == "big"):
            v = self.fresh()
            return self.expr(e.args[0], lambda x: self.expr(e.args[1], lambda n: f"{v} <- py_to_bytes_big {x} {n} ;; {k(v)}"))
        return super().expr(e, k)

    def body(self, stmts):
        if not stmts:
            raise FunError("method body ends without a return")
        s, rest = stmts[0], stmts[1:]
        if isinstance(s, ast.Expr) and isinstance(s.value, ast.Constant) and isinstance(s.value.value, str):
            return self.body(rest)
        if isinstance(s, ast.Assign) and len(s.targets) == 1 and isinstance(s.targets[0], ast.Name):
            name = s.targets[0].id
            if name in ("pos", "self"):
                raise FunError("a local named pos/self would capture the cursor")
            return self.expr(s.value, lambda v: f"let {name} := {v} in\n  {self.body(rest)}")
        if (isinstance(s, ast.AugAssign) and isinstance(s.op, ast.Add) and isinstance(s.target, ast.Attribute)
                and isinstance(s.target.value, ast.Name) and s.target.value.id == "self" and s.target.attr == "pos"):
            return self.expr(s.value, lambda v: f"pos <- py_add pos {v} ;;\n  {self.body(rest)}")
        if (isinstance(s, ast.If) and not s.orelse and len(s.body) == 1 and isinstance(s.body[0], ast.Raise) and s.body[0].cause is None
                and isinstance(s.body[0].exc, ast.Call) and isinstance(s.body[0].exc.func, ast.Name) and s.body[0].exc.func.id in RAISES):
            # the message (an f-string over the arguments) is not evaluated for effects: only names and constants may occur in it
            for n in ast.walk(s.body[0].exc):
                if isinstance(n, (ast.Call, ast.Attribute, ast.Subscript)) and n is not s.body[0].exc:
                    raise FunError("exception message with a call/attribute/subscript")
            return self.expr(s.test, lambda t: f"if truthy {t} then Err {RAISES[s.body[0].exc.func.id]}\n  else {self.body(rest)}")
        if isinstance(s, ast.If) and not s.orelse and s.body and isinstance(s.body[-1], ast.Return):
            return self.expr(s.test, lambda t: f"if truthy {t} then ({self.body(s.body)})\n  else {self.body(rest)}")
        if isinstance(s, ast.Return) and s.value is not None and not rest:
            return self.expr(s.value, lambda v: f"Ok ({v}, pos)")
        raise FunError(f"statement outside the translated fragment: {ast.dump(s)[:120]}")


def translate_method(path, cname, fname, coq_name, callees):
    mod = ast.parse((core.REPO / path).read_text())
    classes = [n for n in mod.body if isinstance(n, ast.ClassDef) and n.name == cname]
    if len(classes) != 1:
        raise FunError(f"class {cname} not found exactly once in {path}")
    fns = [n for n in classes[0].body if isinstance(n, ast.FunctionDef) and n.name == fname]
    if len(fns) != 1:
        raise FunError(f"method {cname}.{fname} not found exactly once")
    fn = fns[0]
    if fn.decorator_list:
        raise FunError("decorated methods are not translated")
    a = fn.args
    if a.vararg or a.kwarg or a.kwonlyargs or a.defaults or a.posonlyargs or not a.args or a.args[0].arg != "self":
        raise FunError("only plain positional parameters after self are translated")
    params = [x.arg for x in a.args[1:]]
    if "pos" in params:
        raise FunError("a parameter named pos would capture the cursor")
    text = TrM(callees).body(fn.body)
    args = " ".join(f"({p} : pv)" for p in ["self", "pos"] + params)
    return f"Definition {coq_name} {args} : res (pv * pv) :=\n  {text}.\n"


class TrP(Tr):
    """read-only (cached) properties of the bytes subclass: `self` is the buffer; on top of Tr: calls of already translated module
    functions, self.<already translated property>, <Class>.<integer class constant>, and a tuple as the returned value"""

    def __init__(self, callees, props, consts):
        super().__init__()
        self.callees, self.props, self.consts = callees, props, consts

    def expr(self, e, k):
        if isinstance(e, ast.Attribute) and isinstance(e.value, ast.Name) and e.value.id == "self" and e.attr in self.props:
            v = self.fresh()
            return f"{v} <- {self.props[e.attr]} self ;; {k(v)}"
        if isinstance(e, ast.Attribute) and isinstance(e.value, ast.Name) and (e.value.id, e.attr) in self.consts:
            v = self.fresh()
            return f"let {v} := VInt ({self.consts[(e.value.id, e.attr)]}) in {k(v)}"
        if isinstance(e, ast.Attribute):
            raise FunError(f"attribute outside the translated fragment: {ast.dump(e)[:80]}")
        if isinstance(e, ast.Call) and isinstance(e.func, ast.Name) and e.func.id in self.callees and not e.keywords:
            v = self.fresh()

            def args(i, acc):
                if i == len(e.args):
                    return f"{v} <- {self.callees[e.func.id]} {' '.join(acc)} ;; {k(v)}"
                return self.expr(e.args[i], lambda a: args(i + 1, acc + [a]))
            return args(0, [])
        return super().expr(e, k)


def translate_property(path, cname, fname, coq_name, callees, props):
    mod = ast.parse((core.REPO / path).read_text())
    classes = [n for n in mod.body if isinstance(n, ast.ClassDef) and n.name == cname]
    if len(classes) != 1:
        raise FunError(f"class {cname} not found exactly once in {path}")
    consts = {}
    for n in classes[0].body:
        if (isinstance(n, ast.Assign) and len(n.targets) == 1 and isinstance(n.targets[0], ast.Name) and isinstance(n.value, ast.Constant)
                and isinstance(n.value.value, int) and not isinstance(n.value.value, bool)):
            consts[(cname, n.targets[0].id)] = n.value.value
    fns = [n for n in classes[0].body if isinstance(n, ast.FunctionDef) and n.name == fname]
    if len(fns) != 1:
        raise FunError(f"property {cname}.{fname} not found exactly once")
    fn = fns[0]
    if [ast.dump(d) for d in fn.decorator_list] not in ([ast.dump(ast.Name("cached_property", ast.Load()))], [ast.dump(ast.Name("property", ast.Load()))]):
        raise FunError("expected exactly the decorator @cached_property or @property")
    a = fn.args
    if a.vararg or a.kwarg or a.kwonlyargs or a.defaults or a.posonlyargs or [x.arg for x in a.args] != ["self"]:
        raise FunError("a property takes self only")
    body = [s_ for s_ in fn.body if not (isinstance(s_, ast.Expr) and isinstance(s_.value, ast.Constant) and isinstance(s_.value.value, str))]
    if len(body) != 1 or not isinstance(body[0], ast.Return) or body[0].value is None:
        raise FunError("a property body is a single return")
    tr = TrP(callees, props, consts)
    val = body[0].value
    if isinstance(val, ast.Tuple):
        def elts(i, acc):
            if i == len(val.elts):
                return "Ok [" + "; ".join(acc) + "]"
            return tr.expr(val.elts[i], lambda x: elts(i + 1, acc + [x]))
        return f"Definition {coq_name} (self : pv) : res (list pv) :=\n  {elts(0, [])}.\n"
    return f"Definition {coq_name} (self : pv) : res pv :=\n  {tr.expr(val, lambda v: f'Ok {v}')}.\n"


class TrO(Tr):
    """a decoding method of an encoding object: _get_raw_value(self, packet).  The object's integer attributes named in `fields`
    become parameters, a test  self.<attr> == '<literal>'  listed in `tests` becomes a boolean parameter, the packet's buffer and
    cursor are the parameters data / pos (threaded through packet.raw_data.read_as_int / read_as_bytes, already translated), and
    the method returns (value, new cursor).  On top of Tr:  if test: name = expr  (conditional rebinding),
    x.to_bytes(length=n, byteorder="little"), self.<method>(...) for already translated static methods."""

    def __init__(self, fields, tests, reads, methods):
        super().__init__()
        self.fields, self.tests, self.reads, self.methods = fields, tests, reads, methods

    def expr(self, e, k):
        if (isinstance(e, ast.Compare) and len(e.ops) == 1 and isinstance(e.ops[0], ast.Eq) and isinstance(e.left, ast.Attribute)
                and isinstance(e.left.value, ast.Name) and e.left.value.id == "self" and isinstance(e.comparators[0], ast.Constant)
                and isinstance(e.comparators[0].value, str)):
            key = (e.left.attr, e.comparators[0].value)
            if key not in self.tests:
                raise FunError(f"string test {key} is not among the declared ones")
            return k(self.tests[key])
        if isinstance(e, ast.Attribute) and isinstance(e.value, ast.Name) and e.value.id == "self" and e.attr in self.fields:
            return k(self.fields[e.attr])
        if (isinstance(e, ast.Call) and isinstance(e.func, ast.Attribute) and e.func.attr in self.reads and isinstance(e.func.value, ast.Attribute)
                and e.func.value.attr == "raw_data" and isinstance(e.func.value.value, ast.Name) and e.func.value.value.id == "packet"
                and len(e.args) == 1 and not e.keywords):
            v = self.fresh()
            return self.expr(e.args[0], lambda n: f"'({v}, pos) <- {self.reads[e.func.attr]} data pos {n} ;; {k(v)}")
        if (isinstance(e, ast.Call) and isinstance(e.func, ast.Attribute) and e.func.attr in self.methods and isinstance(e.func.value, ast.Name)
                and e.func.value.id == "self" and not e.keywords):
            v = self.fresh()

            def args(i, acc):
                if i == len(e.args):
                    return f"{v} <- {self.methods[e.func.attr]} {' '.join(acc)} ;; {k(v)}"
                return self.expr(e.args[i], lambda a: args(i + 1, acc + [a]))
            return args(0, [])
        if (isinstance(e, ast.Call) and isinstance(e.func, ast.Attribute) and e.func.attr == "to_bytes" and isinstance(e.func.value, ast.Name)
                and e.func.value.id not in ("int", "self", "packet") and not e.args and sorted(kw.arg for kw in e.keywords) == ["byteorder", "length"]):
            kws = {kw.arg: kw.value for kw in e.keywords}
            if not (isinstance(kws["byteorder"], ast.Constant) and kws["byteorder"].value == "little"):
                raise FunError("to_bytes is translated for byteorder=\"little\" only")
            v = self.fresh()
            return self.expr(e.func.value, lambda x: self.expr(kws["length"], lambda n: f"{v} <- py_to_bytes_little {x} {n} ;; {k(v)}"))
        if isinstance(e, ast.Attribute):
            raise FunError(f"attribute outside the translated fragment: {ast.dump(e)[:80]}")
        return super().expr(e, k)

    def body(self, stmts):
        if not stmts:
            raise FunError("method body ends without a return")
        s, rest = stmts[0], stmts[1:]
        if isinstance(s, ast.Expr) and isinstance(s.value, ast.Constant) and isinstance(s.value.value, str):
            return self.body(rest)
        reserved = set(self.fields.values()) | set(self.tests.values()) | {"data", "pos", "self", "packet"}
        if isinstance(s, ast.Assign) and len(s.targets) == 1 and isinstance(s.targets[0], ast.Name):
            if s.targets[0].id in reserved:
                raise FunError("a local would capture a parameter")
            return self.expr(s.value, lambda v: f"let {s.targets[0].id} := {v} in\n  {self.body(rest)}")
        if (isinstance(s, ast.If) and not s.orelse and len(s.body) == 1 and isinstance(s.body[0], ast.Assign) and len(s.body[0].targets) == 1
                and isinstance(s.body[0].targets[0], ast.Name) and s.body[0].targets[0].id not in reserved):
            name = s.body[0].targets[0].id
            for n in ast.walk(s.body[0].value):      # the cursor must not move inside a branch (it is threaded outside only)
                if isinstance(n, ast.Attribute) and n.attr == "raw_data":
                    raise FunError("packet read inside a conditional assignment")
            return self.expr(s.test, lambda t: f"{name} <- (if truthy {t} then ({self.expr(s.body[0].value, lambda v: f'Ok {v}')}) else Ok {name}) ;;\n  {self.body(rest)}")
        if isinstance(s, ast.If) and not s.orelse and len(s.body) == 1 and isinstance(s.body[0], ast.Return) and s.body[0].value is not None:
            return self.expr(s.test, lambda t: f"if truthy {t} then ({self.expr(s.body[0].value, lambda v: f'Ok ({v}, pos)')})\n  else {self.body(rest)}")
        if isinstance(s, ast.Return) and s.value is not None and not rest:
            return self.expr(s.value, lambda v: f"Ok ({v}, pos)")
        raise FunError(f"statement outside the translated fragment: {ast.dump(s)[:120]}")


def translate_obj_method(path, cname, fname, coq_name, fields, tests, reads, methods):
    mod = ast.parse((core.REPO / path).read_text())
    classes = [n for n in mod.body if isinstance(n, ast.ClassDef) and n.name == cname]
    if len(classes) != 1:
        raise FunError(f"class {cname} not found exactly once in {path}")
    fns = [n for n in classes[0].body if isinstance(n, ast.FunctionDef) and n.name == fname]
    if len(fns) != 1:
        raise FunError(f"method {cname}.{fname} not found exactly once")
    fn = fns[0]
    a = fn.args
    if fn.decorator_list or a.vararg or a.kwarg or a.kwonlyargs or a.defaults or a.posonlyargs or [x.arg for x in a.args] != ["self", "packet"]:
        raise FunError("expected an undecorated method (self, packet)")
    text = TrO(fields, tests, reads, methods).body(fn.body)
    params = ["data", "pos"] + list(fields.values()) + list(tests.values())
    args = " ".join(f"({p} : pv)" for p in params)
    return f"Definition {coq_name} {args} : res (pv * pv) :=\n  {text}.\n"


class TrF(Tr):
    """a whole module-level function with validation: on top of Tr  a or b, <, >,  if test: raise E(...),  x.to_bytes(n, "big"),
    <Class>.<integer class constant>, calls of a wrapper class (bytes subclass: the identity on the model's values), and
    try: <body> except E as e: raise E(...) from e  (re-raising the class that was caught: the identity on exception kinds)."""

    def __init__(self, consts, wrappers):
        super().__init__()
        self.consts, self.wrappers = consts, wrappers

    def expr(self, e, k):
        if isinstance(e, ast.BoolOp) and isinstance(e.op, ast.Or) and len(e.values) == 2:
            v = self.fresh()
            return self.expr(e.values[0], lambda a: f"{v} <- (if truthy {a} then Ok {a} else {self.expr(e.values[1], lambda b: f'Ok {b}')}) ;; {k(v)}")
        if isinstance(e, ast.Compare) and len(e.ops) == 1 and type(e.ops[0]) in CMPS:
            v = self.fresh()
            return self.expr(e.left, lambda a: self.expr(e.comparators[0], lambda b: f"{v} <- {CMPS[type(e.ops[0])]} {a} {b} ;; {k(v)}"))
        if isinstance(e, ast.Attribute) and isinstance(e.value, ast.Name) and (e.value.id, e.attr) in self.consts:
            v = self.fresh()
            return f"let {v} := VInt ({self.consts[(e.value.id, e.attr)]}) in {k(v)}"
        if (isinstance(e, ast.Call) and isinstance(e.func, ast.Attribute) and e.func.attr == "to_bytes" and isinstance(e.func.value, ast.Name)
                and len(e.args) == 2 and not e.keywords and isinstance(e.args[1], ast.Constant) and e.args[1].value == "big"):
            v = self.fresh()
            return self.expr(e.func.value, lambda x: self.expr(e.args[0], lambda n: f"{v} <- py_to_bytes_big {x} {n} ;; {k(v)}"))
        if isinstance(e, ast.Call) and isinstance(e.func, ast.Name) and e.func.id in self.wrappers and len(e.args) == 1 and not e.keywords:
            return self.expr(e.args[0], k)
        if isinstance(e, ast.Attribute):
            raise FunError(f"attribute outside the translated fragment: {ast.dump(e)[:80]}")
        return super().expr(e, k)

    def body(self, stmts):
        if not stmts:
            raise FunError("function body ends without a return")
        s, rest = stmts[0], stmts[1:]
        if (isinstance(s, ast.If) and not s.orelse and len(s.body) == 1 and isinstance(s.body[0], ast.Raise) and s.body[0].cause is None
                and isinstance(s.body[0].exc, ast.Call) and isinstance(s.body[0].exc.func, ast.Name) and s.body[0].exc.func.id in RAISES
                and all(isinstance(a, ast.Constant) for a in s.body[0].exc.args)):
            return self.expr(s.test, lambda t: f"if truthy {t} then Err {RAISES[s.body[0].exc.func.id]}\n  else {self.body(rest)}")
        if isinstance(s, ast.Try) and not s.orelse and not s.finalbody and len(s.handlers) == 1:
            h = s.handlers[0]
            if not (isinstance(h.type, ast.Name) and h.type.id in RAISES and len(h.body) == 1 and isinstance(h.body[0], ast.Raise)
                    and isinstance(h.body[0].exc, ast.Call) and isinstance(h.body[0].exc.func, ast.Name) and h.body[0].exc.func.id == h.type.id
                    and all(isinstance(a, ast.Constant) for a in h.body[0].exc.args)):
                raise FunError("only  except E as e: raise E(<constants>) from e  is translated")
            return self.body(list(s.body) + list(rest))
        return super().body(stmts) if not rest or not isinstance(s, (ast.Assign,)) else self.expr(
            s.value, lambda v: f"let {s.targets[0].id} := {v} in\n  {self.body(rest)}") if (len(s.targets) == 1 and isinstance(s.targets[0], ast.Name)) else super().body(stmts)


def translate_full(path, fname, coq_name, const_classes, wrappers):
    mod = ast.parse((core.REPO / path).read_text())
    fns = [n for n in mod.body if isinstance(n, ast.FunctionDef) and n.name == fname]
    if len(fns) != 1:
        raise FunError(f"function {fname} not found exactly once in {path}")
    consts = {}
    for cn in const_classes:
        classes = [n for n in mod.body if isinstance(n, ast.ClassDef) and n.name == cn]
        if len(classes) != 1:
            raise FunError(f"class {cn} not found exactly once")
        for n in classes[0].body:
            if (isinstance(n, ast.Assign) and len(n.targets) == 1 and isinstance(n.targets[0], ast.Name) and isinstance(n.value, ast.Constant)
                    and isinstance(n.value.value, int) and not isinstance(n.value.value, bool)):
                consts[(cn, n.targets[0].id)] = n.value.value
    fn = fns[0]
    a = fn.args
    if fn.decorator_list or a.vararg or a.kwarg or a.posonlyargs:
        raise FunError("decorators, *args and **kwargs are not translated")
    params = [x.arg for x in a.args] + [x.arg for x in a.kwonlyargs]      # defaults are not modelled: every argument is given
    text = TrF(consts, wrappers).body(fn.body)
    args = " ".join(f"({p_} : pv)" for p_ in params)
    return f"Definition {coq_name} {args} : res pv :=\n  {text}.\n"


def translate(path, fname, coq_name):
    mod = ast.parse((core.REPO / path).read_text())
    fns = [n for n in ast.walk(mod) if isinstance(n, ast.FunctionDef) and n.name == fname]        # functions and (static) methods
    if len(fns) != 1:
        raise FunError(f"function {fname} not found exactly once in {path}")
    fn = fns[0]
    a = fn.args
    if a.vararg or a.kwarg or a.kwonlyargs or a.defaults or a.posonlyargs:
        raise FunError("only plain positional parameters are translated")
    params = [x.arg for x in a.args]
    text = Tr().body(fn.body)
    args = " ".join(f"({p} : pv)" for p in params)
    return f"Definition {coq_name} {args} : res pv :=\n  {text}.\n"


def translate_assigned_expr(path, fname, target, coq_name, params, callees=None, const_classes=()):
    """the expression assigned to `target` (exactly one such assignment) inside function `fname`, as a function of `params`;
    with `callees` / `const_classes` the expression may call already translated module functions and read integer class constants"""
    mod = ast.parse((core.REPO / path).read_text())
    fns = [n for n in ast.walk(mod) if isinstance(n, ast.FunctionDef) and n.name == fname]
    if len(fns) != 1:
        raise FunError(f"function {fname} not found exactly once in {path}")
    assigns = [n for n in ast.walk(fns[0]) if isinstance(n, ast.Assign) and len(n.targets) == 1 and isinstance(n.targets[0], ast.Name)
               and n.targets[0].id == target]
    if len(assigns) != 1:
        raise FunError(f"assignment to {target} not found exactly once in {fname}")
    consts = {}
    for cn in const_classes:
        classes = [n for n in mod.body if isinstance(n, ast.ClassDef) and n.name == cn]
        if len(classes) != 1:
            raise FunError(f"class {cn} not found exactly once")
        for n in classes[0].body:
            if (isinstance(n, ast.Assign) and len(n.targets) == 1 and isinstance(n.targets[0], ast.Name) and isinstance(n.value, ast.Constant)
                    and isinstance(n.value.value, int) and not isinstance(n.value.value, bool)):
                consts[(cn, n.targets[0].id)] = n.value.value
    free = {n.id for n in ast.walk(assigns[0].value) if isinstance(n, ast.Name)} - {"len", "int"} - set(callees or {}) - set(const_classes)
    if not free <= set(params):
        raise FunError(f"expression for {target} uses names outside {params}: {sorted(free - set(params))}")
    tr = TrP(callees or {}, {}, consts) if (callees or const_classes) else Tr()
    text = tr.expr(assigns[0].value, lambda v: f"Ok {v}")
    args = " ".join(f"({p} : pv)" for p in params)
    return f"Definition {coq_name} {args} : res pv :=\n  {text}.\n"


HEADER = ("(* GENERATED by harness/gen_fun.py from /repo's current source on every run — do not edit *)\n"
          "From Coq Require Import ZArith List Bool.\nFrom SPP Require Import Base.Bytes Base.Sx Base.PyEval.\nImport ListNotations.\nOpen Scope Z_scope.\n\n")


def check(tag, items, ok_file, imports=""):
    """items: [(path, python name, coq name)].  Regenerates Gen/Fun_<tag>.v and compiles Gen/<ok_file>.v (the committed proofs that
    the generated functions equal the hand-written model) against it.  Returns (ok, message)."""
    gen = core.COQ / "Gen"
    gen.mkdir(exist_ok=True)
    try:
        txt = HEADER + imports + "\n".join((translate_assigned_expr(*it[1:]) if it[0] == "expr" else translate_method(*it[1:]) if it[0] == "method"
                                  else translate_property(*it[1:]) if it[0] == "property"
                                  else translate_obj_method(*it[1:]) if it[0] == "objmethod"
                                  else translate_full(*it[1:]) if it[0] == "full"
                                  else translate(*it)) for it in items)
    except FunError as e:
        return False, f"translation failed (source outside the translated fragment): {e}"
    except Exception as e:  # noqa: BLE001
        return False, f"translator crashed: {type(e).__name__}: {e}"
    (gen / f"Fun_{tag}.v").write_text(txt)
    rc, out = core.sh(f"timeout 300 coqc -Q . SPP Gen/Fun_{tag}.v && timeout 600 coqc -Q . SPP Gen/{ok_file}.v", cwd=core.COQ, timeout=1000)
    if rc != 0:
        return False, out[-800:]
    # the Print Assumptions lines under the tie theorems: nothing outside the allow-list of standard-library axioms
    import re
    used = set()
    for blk in re.split(r"(?m)^Axioms:\s*$", out)[1:]:
        used |= set(re.findall(r"(?m)^([A-Za-z_][\w.]*)\s*(?::|$)", blk.split("Closed under the global context")[0]))
    bad = used - core.ALLOWED_AXIOMS
    if bad:
        return False, f"tie theorems of Gen/{ok_file}.v depend on assumptions outside the allow-list: {sorted(bad)}"
    return True, out[-800:]


if __name__ == "__main__":
    print(HEADER + translate("space_packet_parser/packets.py", "_extract_bits", "gen_extract_bits"))
