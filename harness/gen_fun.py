"""Translator: small pure functions of /repo's current source -> Gallina (the regenerated part of the model, besides the
constant tables of gen_tables.py).  Python AST in, Coq text out; fail-closed: any construct outside the fragment below raises
FunError, which the check reports as a broken tie.

Fragment: a function whose body is a docstring followed by  name = expr  statements,  if test: return expr  statements
(no else) and a final  return expr.  Expressions: names, integer literals, + - * // % ** >> << & |, ==, !=, `and`, slicing
x[a:b], len(x), int.from_bytes(x, byteorder="big").  Evaluation order is Python's (left to right), every operation is the
checked operation of Base/PyEval.v, so the exceptions are those Python raises."""
import ast

import core


class FunError(Exception):
    pass


BINOPS = {ast.Add: "py_add", ast.Sub: "py_sub", ast.Mult: "py_mul", ast.FloorDiv: "py_floordiv", ast.Mod: "py_mod", ast.Pow: "py_pow",
          ast.RShift: "py_rshift", ast.LShift: "py_lshift", ast.BitAnd: "py_bitand", ast.BitOr: "py_bitor"}


class Tr:
    def __init__(self):
        self.n = 0

    def fresh(self):
        self.n += 1
        return f"t{self.n}"

    def expr(self, e, k):
        """emit Coq text evaluating e, then continuing with k(name_of_value)"""
        if isinstance(e, ast.Name):
            return k(e.id)
        if isinstance(e, ast.Constant) and isinstance(e.value, int) and not isinstance(e.value, bool):
            v = self.fresh()
            return f"let {v} := VInt ({e.value}) in {k(v)}"
        if isinstance(e, ast.BinOp) and type(e.op) in BINOPS:
            if isinstance(e.op, ast.Pow) and not (isinstance(e.left, ast.Constant) and isinstance(e.left.value, int) and e.left.value != 0):
                raise FunError("** is only translated for a non-zero literal base")
            v = self.fresh()
            return self.expr(e.left, lambda a: self.expr(e.right, lambda b: f"{v} <- {BINOPS[type(e.op)]} {a} {b} ;; {k(v)}"))
        if isinstance(e, ast.Compare) and len(e.ops) == 1 and isinstance(e.ops[0], (ast.Eq, ast.NotEq)):
            v = self.fresh()
            op = "py_eq" if isinstance(e.ops[0], ast.Eq) else "py_ne"
            return self.expr(e.left, lambda a: self.expr(e.comparators[0], lambda b: f"{v} <- {op} {a} {b} ;; {k(v)}"))
        if isinstance(e, ast.BoolOp) and isinstance(e.op, ast.And) and len(e.values) == 2:
            # a and b: b is evaluated only when a is true; the value is a's when it is falsy
            v = self.fresh()
            return self.expr(e.values[0], lambda a: f"{v} <- (if truthy {a} then {self.expr(e.values[1], lambda b: f'Ok {b}')} else Ok {a}) ;; {k(v)}")
        if isinstance(e, ast.Subscript) and isinstance(e.slice, ast.Slice) and e.slice.step is None and e.slice.lower is not None and e.slice.upper is not None:
            v = self.fresh()
            return self.expr(e.value, lambda x: self.expr(e.slice.lower, lambda a: self.expr(e.slice.upper, lambda b: f"{v} <- py_slice {x} {a} {b} ;; {k(v)}")))
        if isinstance(e, ast.Call) and isinstance(e.func, ast.Name) and e.func.id == "len" and len(e.args) == 1 and not e.keywords:
            v = self.fresh()
            return self.expr(e.args[0], lambda x: f"{v} <- py_len {x} ;; {k(v)}")
        if (isinstance(e, ast.Call) and isinstance(e.func, ast.Attribute) and e.func.attr == "from_bytes" and isinstance(e.func.value, ast.Name)
                and e.func.value.id == "int" and len(e.args) == 1 and len(e.keywords) == 1 and e.keywords[0].arg == "byteorder"
                and isinstance(e.keywords[0].value, ast.Constant) and e.keywords[0].value.value == "big"):
            v = self.fresh()
            return self.expr(e.args[0], lambda x: f"{v} <- py_from_bytes_big {x} ;; {k(v)}")
        raise FunError(f"expression outside the translated fragment: {ast.dump(e)[:120]}")

    def body(self, stmts):
        if not stmts:
            raise FunError("function body ends without a return")
        s, rest = stmts[0], stmts[1:]
        if isinstance(s, ast.Expr) and isinstance(s.value, ast.Constant) and isinstance(s.value.value, str):
            return self.body(rest)                               # docstring
        if isinstance(s, ast.Assign) and len(s.targets) == 1 and isinstance(s.targets[0], ast.Name):
            name = s.targets[0].id
            return self.expr(s.value, lambda v: f"let {name} := {v} in\n  {self.body(rest)}")
        if isinstance(s, ast.If) and not s.orelse and len(s.body) == 1 and isinstance(s.body[0], ast.Return) and s.body[0].value is not None:
            return self.expr(s.test, lambda t: f"if truthy {t} then ({self.expr(s.body[0].value, lambda v: f'Ok {v}')})\n  else {self.body(rest)}")
        if isinstance(s, ast.Return) and s.value is not None and not rest:
            return self.expr(s.value, lambda v: f"Ok {v}")
        raise FunError(f"statement outside the translated fragment: {ast.dump(s)[:120]}")


def translate(path, fname, coq_name):
    mod = ast.parse((core.REPO / path).read_text())
    fns = [n for n in ast.walk(mod) if isinstance(n, ast.FunctionDef) and n.name == fname]        # functions and (static) methods
    if len(fns) != 1:
        raise FunError(f"function {fname} not found exactly once in {path}")
    fn = fns[0]
    a = fn.args
    if a.vararg or a.kwarg or a.kwonlyargs or a.defaults or a.posonlyargs:
        raise FunError("only plain positional parameters are translated")
    params = [x.arg for x in a.args]
    text = Tr().body(fn.body)
    args = " ".join(f"({p} : pv)" for p in params)
    return f"Definition {coq_name} {args} : res pv :=\n  {text}.\n"


def translate_assigned_expr(path, fname, target, coq_name, params):
    """the expression assigned to `target` (exactly one such assignment) inside function `fname`, as a function of `params`"""
    mod = ast.parse((core.REPO / path).read_text())
    fns = [n for n in ast.walk(mod) if isinstance(n, ast.FunctionDef) and n.name == fname]
    if len(fns) != 1:
        raise FunError(f"function {fname} not found exactly once in {path}")
    assigns = [n for n in ast.walk(fns[0]) if isinstance(n, ast.Assign) and len(n.targets) == 1 and isinstance(n.targets[0], ast.Name)
               and n.targets[0].id == target]
    if len(assigns) != 1:
        raise FunError(f"assignment to {target} not found exactly once in {fname}")
    free = {n.id for n in ast.walk(assigns[0].value) if isinstance(n, ast.Name)} - {"len", "int"}
    if not free <= set(params):
        raise FunError(f"expression for {target} uses names outside {params}: {sorted(free - set(params))}")
    text = Tr().expr(assigns[0].value, lambda v: f"Ok {v}")
    args = " ".join(f"({p} : pv)" for p in params)
    return f"Definition {coq_name} {args} : res pv :=\n  {text}.\n"


HEADER = ("(* GENERATED by harness/gen_fun.py from /repo's current source on every run — do not edit *)\n"
          "From Coq Require Import ZArith List Bool.\nFrom SPP Require Import Base.Bytes Base.Sx Base.PyEval.\nImport ListNotations.\nOpen Scope Z_scope.\n\n")


def check(tag, items, ok_file):
    """items: [(path, python name, coq name)].  Regenerates Gen/Fun_<tag>.v and compiles Gen/<ok_file>.v (the committed proofs that
    the generated functions equal the hand-written model) against it.  Returns (ok, message)."""
    gen = core.COQ / "Gen"
    gen.mkdir(exist_ok=True)
    try:
        txt = HEADER + "\n".join((translate_assigned_expr(*it[1:]) if it[0] == "expr" else translate(*it)) for it in items)
    except FunError as e:
        return False, f"translation failed (source outside the translated fragment): {e}"
    except Exception as e:  # noqa: BLE001
        return False, f"translator crashed: {type(e).__name__}: {e}"
    (gen / f"Fun_{tag}.v").write_text(txt)
    rc, out = core.sh(f"timeout 300 coqc -Q . SPP Gen/Fun_{tag}.v && timeout 600 coqc -Q . SPP Gen/{ok_file}.v", cwd=core.COQ, timeout=1000)
    return rc == 0, out[-800:]


if __name__ == "__main__":
    print(HEADER + translate("space_packet_parser/packets.py", "_extract_bits", "gen_extract_bits"))
