"""Prints the prompt for a seeding sub-agent: python3 seed_prompt.py C03 /tmp/wt_c03 [variant-hint]"""
import json
import sys

pid, wt = sys.argv[1], sys.argv[2]
hint = sys.argv[3] if len(sys.argv) > 3 else ""
p = next(json.loads(l) for l in open("/verif/properties.jsonl") if json.loads(l)["id"] == pid)
print(f"""You are helping test a verification tool by mutation seeding. You work ONLY inside the git worktree {wt}
(a checkout of the Python library space_packet_parser: a CCSDS space-packet framer and XTCE-driven telemetry decoder).
Do not read or touch /verif or /repo; do not look for other checkers. Everything you need is in {wt}.

The property under test:

  Title: {p['title']}
  Statement: {p['statement']}
  Quantifier: {p['quantifier']['text']}
  Relevant files: {', '.join(p['anchors']['files'])}

Task: make ONE small, realistic source change to the library (under {wt}/space_packet_parser/) that BREAKS this property,
while the package still imports and the EXISTING test suite still passes completely. The change should look like a plausible
bug a maintainer could introduce (an off-by-one, a wrong operator, a dropped or reordered step, a cache or state that is not
reset, two sites that each look fine alone ...). It must need something SPECIFIC to manifest - an unusual input, a particular
boundary value, a multi-step sequence, a particular size/offset/alignment, a rarely-taken branch - not something that ordinary
use or the first call would expose at once. {hint}

Run the existing tests with:
  cd {wt} && PYTHONPATH={wt} /venv/bin/python -m pytest -q -p no:cacheprovider --timeout=900 -x
(all 275 must pass with your change; `PYTHONPATH={wt}` makes Python import the worktree's copy; check with
 `PYTHONPATH={wt} /venv/bin/python -c "import space_packet_parser; print(space_packet_parser.__file__)"`).

Deliver, in the directory {wt}/_seed/ (create it):
  1. patch.diff  - output of `git -C {wt} diff -- space_packet_parser` (your change only; do not commit).
  2. demo.py     - a small standalone program, run as `PYTHONPATH=<tree> /venv/bin/python demo.py`, that exits 0 on the
                   ORIGINAL code and exits non-zero (assertion failure) on the CHANGED code, demonstrating the property violation
                   through the library's public behaviour.
  3. meta.json   - {{"property": "{pid}", "summary": "<what you changed>", "needs": "<what specific input/sequence makes it manifest>"}}
Verify both directions yourself (with the change: tests pass and demo fails; `git stash` the change: demo passes; then `git stash pop`).
Leave the change applied in the worktree when you finish. Reply with a 3-line summary.""")
