"""Regenerates coq/Gen/Tables.v from /repo's current source (DESIGN 2.6) — the translated part of the model.
Fail-closed: an AST shape that is not recognised raises TableError (reported as a broken tie)."""
import ast
from pathlib import Path

import core


class TableError(Exception):
    pass


def _module(path):
    return ast.parse((core.REPO / path).read_text())


def _const_assign(mod, name, cls=None):
    body = mod.body
    if cls:
        body = next((n.body for n in mod.body if isinstance(n, ast.ClassDef) and n.name == cls), None)
        if body is None:
            raise TableError(f"class {cls} not found")
    for n in body:
        if isinstance(n, ast.Assign) and len(n.targets) == 1 and isinstance(n.targets[0], ast.Name) and n.targets[0].id == name:
            return n.value
        if isinstance(n, ast.AnnAssign) and isinstance(n.target, ast.Name) and n.target.id == name:
            return n.value
    raise TableError(f"assignment {name} not found")


def _lit(node):
    try:
        return ast.literal_eval(node)
    except Exception as e:  # noqa: BLE001
        raise TableError(f"not a literal: {ast.dump(node)[:80]}") from e


def _func(mod, name):
    for n in ast.walk(mod):
        if isinstance(n, ast.FunctionDef) and n.name == name:
            return n
    raise TableError(f"function {name} not found")


def gather():
    t = {}
    cli = _module("space_packet_parser/cli.py")
    t["MAX_ROWS"] = _lit(_const_assign(cli, "MAX_ROWS"))
    t["HEAD_ROWS"] = _lit(_const_assign(cli, "HEAD_ROWS"))
    pk = _module("space_packet_parser/packets.py")
    t["HEADER_LENGTH_BYTES"] = _lit(_const_assign(pk, "HEADER_LENGTH_BYTES", "RawPacketData"))
    # trim threshold: the constant compared with current_pos
    gen = _func(pk, "ccsds_generator")
    trims = [n for n in ast.walk(gen) if isinstance(n, ast.Compare) and isinstance(n.left, ast.Name) and n.left.id == "current_pos"
             and len(n.ops) == 1 and isinstance(n.ops[0], ast.Gt) and isinstance(n.comparators[0], ast.Constant)]
    if len(trims) != 1:
        raise TableError("trim comparison `current_pos > <const>` not found exactly once")
    t["TRIM"] = trims[0].comparators[0].value
    # length field position
    calls = [n for n in ast.walk(gen) if isinstance(n, ast.Call) and isinstance(n.func, ast.Name) and n.func.id == "_extract_bits"]
    if len(calls) != 1 or not all(isinstance(a, ast.Constant) for a in calls[0].args[1:]):
        raise TableError("_extract_bits(header, <const>, <const>) not found exactly once in ccsds_generator")
    t["LEN_FIELD"] = [a.value for a in calls[0].args[1:]]
    # header accessor bit positions
    acc = {}
    cls = next(n for n in pk.body if isinstance(n, ast.ClassDef) and n.name == "RawPacketData")
    for f in cls.body:
        if isinstance(f, ast.FunctionDef):
            for n in ast.walk(f):
                if isinstance(n, ast.Return) and isinstance(n.value, ast.Call) and getattr(n.value.func, "id", "") == "_extract_bits":
                    a = n.value.args
                    if isinstance(a[1], ast.Constant) and isinstance(a[2], ast.Constant):
                        acc[f.name] = (a[1].value, a[2].value)
    t["ACCESSORS"] = [acc.get(k) for k in ("version_number", "type", "secondary_header_flag", "apid", "sequence_flags", "sequence_count")]
    if None in t["ACCESSORS"]:
        raise TableError("header accessor with non-constant bit position")
    # create_ccsds_packet: range limits (name, lo, hi) from `if x < lo or x > hi: raise ValueError`
    cr = _func(pk, "create_ccsds_packet")
    lims = []
    for n in cr.body:
        if isinstance(n, ast.If) and isinstance(n.test, ast.BoolOp) and isinstance(n.test.op, ast.Or) and len(n.test.values) == 2:
            a, b = n.test.values
            if (isinstance(a, ast.Compare) and isinstance(b, ast.Compare) and isinstance(a.ops[0], ast.Lt) and isinstance(b.ops[0], ast.Gt)
                    and isinstance(a.comparators[0], ast.Constant) and isinstance(b.comparators[0], ast.Constant)
                    and isinstance(n.body[0], ast.Raise)):
                lims.append((a.comparators[0].value, b.comparators[0].value))
    t["LIMITS"] = lims
    # shifts: header = (x << 48 - k | ... | len(data) - 1)
    shifts = []
    for n in ast.walk(cr):
        if isinstance(n, ast.BinOp) and isinstance(n.op, ast.LShift) and isinstance(n.left, ast.Name):
            try:
                shifts.append((n.left.id, eval(compile(ast.Expression(n.right), "<shift>", "eval"), {"__builtins__": {}})))  # noqa: S307
            except Exception as e:  # noqa: BLE001
                raise TableError("non-constant shift amount") from e
    order = ["version_number", "type", "secondary_header_flag", "apid", "sequence_flags", "sequence_count"]
    d = dict(shifts)
    if sorted(d) != sorted(order):
        raise TableError(f"unexpected shift operands {sorted(d)}")
    t["SHIFTS"] = [d[k] for k in order]
    cmpm = _module("space_packet_parser/xtce/comparisons.py")
    ops = _lit(_const_assign(cmpm, "_valid_operators", "MatchCriteria"))
    t["OPERATORS"] = sorted(ops.items())
    enc = _module("space_packet_parser/xtce/encodings.py")
    t["STRING_ENCODINGS"] = list(_lit(_const_assign(enc, "_supported_encodings", "StringDataEncoding")))
    seqf = next(n for n in pk.body if isinstance(n, ast.ClassDef) and n.name == "SequenceFlags")
    t["SEQFLAGS"] = [(n.targets[0].id, _lit(n.value)) for n in seqf.body if isinstance(n, ast.Assign)]
    # live class table for the five value classes (C20): MRO and the special names each library class defines itself
    from space_packet_parser import common
    skip = {"__module__", "__doc__", "__dict__", "__weakref__", "__qualname__", "__firstlineno__", "__static_attributes__",
            "__annotations__", "__abstractmethods__", "__orig_bases__", "__parameters__", "__slots__"}
    classes = [common._Parameter, common.BinaryParameter, common.BoolParameter, common.FloatParameter, common.IntParameter,
               common.StrParameter]
    t["CLASS_MRO"] = [(c.__name__, [k.__name__ for k in c.__mro__]) for c in classes]
    t["CLASS_OWNED"] = [(c.__name__, sorted(n for n in c.__dict__ if n.startswith("__") and n not in skip)) for c in classes]
    return t


def _s(x):
    return '"' + str(x).replace('"', '""') + '"'


def emit(t):
    lines = ["(* GENERATED by harness/gen_tables.py from /repo on every run — do not edit *)",
             "From Coq Require Import ZArith List String.", "Import ListNotations.", "Open Scope Z_scope.", "Open Scope string_scope."]
    lines.append(f"Definition g_MAX_ROWS : nat := {t['MAX_ROWS']}%nat.")
    lines.append(f"Definition g_HEAD_ROWS : nat := {t['HEAD_ROWS']}%nat.")
    lines.append(f"Definition g_HEADER_LENGTH_BYTES : Z := {t['HEADER_LENGTH_BYTES']}.")
    lines.append(f"Definition g_TRIM : Z := {t['TRIM']}.")
    lines.append(f"Definition g_LEN_FIELD : list Z := [{'; '.join(map(str, t['LEN_FIELD']))}].")
    lines.append("Definition g_ACCESSORS : list (Z * Z) := [" + "; ".join(f"({a}, {b})" for a, b in t["ACCESSORS"]) + "].")
    lines.append("Definition g_LIMITS : list (Z * Z) := [" + "; ".join(f"({a}, {b})" for a, b in t["LIMITS"]) + "].")
    lines.append("Definition g_SHIFTS : list Z := [" + "; ".join(map(str, t["SHIFTS"])) + "].")
    lines.append("Definition g_OPERATORS : list (string * string) := [" + "; ".join(f"({_s(a)}, {_s(b)})" for a, b in t["OPERATORS"]) + "].")
    lines.append("Definition g_STRING_ENCODINGS : list string := [" + "; ".join(_s(a) for a in t["STRING_ENCODINGS"]) + "].")
    lines.append("Definition g_SEQFLAGS : list (string * Z) := [" + "; ".join(f"({_s(a)}, {b})" for a, b in t["SEQFLAGS"]) + "].")
    lines.append("Definition g_CLASS_MRO : list (string * list string) := [" + "; ".join(
        f"({_s(c)}, [" + "; ".join(_s(k) for k in m) + "])" for c, m in t["CLASS_MRO"]) + "].")
    lines.append("Definition g_CLASS_OWNED : list (string * list string) := [" + "; ".join(
        f"({_s(c)}, [" + "; ".join(_s(k) for k in m) + "])" for c, m in t["CLASS_OWNED"]) + "].")
    return "\n".join(lines) + "\n"


def check(ok_file):
    """Regenerate Gen/Tables.v and compile Gen/<ok_file>.v against it.  Returns (ok, message)."""
    gen = core.COQ / "Gen"
    gen.mkdir(exist_ok=True)
    try:
        txt = emit(gather())
    except TableError as e:
        return False, f"table extraction failed (source shape changed): {e}"
    except Exception as e:  # noqa: BLE001
        return False, f"table extraction crashed: {type(e).__name__}: {e}"
    # per-check copy so that concurrent checks do not race
    tag = ok_file
    (gen / f"Tables_{tag}.v").write_text(txt)
    body = (gen / f"{ok_file}.v").read_text().replace("Gen.Tables.", f"Gen.Tables_{tag}.").replace("Gen.Tables ", f"Gen.Tables_{tag} ")
    (gen / f"Run_{tag}.v").write_text(body.replace("Require Import Gen.Tables.", f"Require Import Gen.Tables_{tag}."))
    rc, out = core.sh(f"timeout 300 coqc -Q . SPP Gen/Tables_{tag}.v && timeout 300 coqc -Q . SPP Gen/Run_{tag}.v", cwd=core.COQ, timeout=700)
    for p in gen.glob(f"*_{tag}.*"):
        if p.suffix != ".v" or p.name.startswith(("Tables_", "Run_")):
            p.unlink()
    for p in gen.glob(f".*_{tag}.aux"):
        p.unlink()
    return rc == 0, out[-800:]
