(* Base/Floats.v — Python floats as Flocq's IEEE-754 binary64 with a single NaN.
   A float is carried through the models as its 64-bit pattern (Z), with every NaN mapped to the
   canonical quiet NaN — exactly the canonicalisation the harness applies to implementation outputs. *)
From Coq Require Import ZArith List Bool.
From Flocq Require Import Core.Core IEEE754.BinarySingleNaN IEEE754.Bits.
From SPP Require Import Base.Sx.
Open Scope Z_scope.

Notation b64 := (binary_float 53 1024).
#[global] Instance P53 : Prec_gt_0 53 := eq_refl.
#[global] Instance P53lt : Prec_lt_emax 53 1024 := eq_refl.

Definition NAN_BITS : Z := 9221120237041090560.   (* 0x7FF8000000000000 *)

(* ---- bit patterns <-> b64 ---- *)
Definition of_parts (s : bool) (efield mfield : Z) (ew mw : Z) : b64 :=
  (* generic IEEE interchange format with exponent width ew, mantissa width mw -> binary64 (exact) *)
  let emax_f := 2 ^ ew - 1 in
  let bias := 2 ^ (ew - 1) - 1 in
  if efield =? emax_f then (if mfield =? 0 then B754_infinity s else B754_nan)
  else if (efield =? 0) && (mfield =? 0) then B754_zero s
  else
    let m := if efield =? 0 then mfield else 2 ^ mw + mfield in
    let e := (if efield =? 0 then 1 else efield) - bias - mw in
    binary_normalize 53 1024 P53 P53lt mode_NE (if s then - m else m) e s.

(* struct.unpack of an IEEE binary16/32/64 pattern, widened to a Python float *)
Definition dec_ieee (ew mw : Z) (bits : Z) : b64 :=
  let mfield := Z.land bits (2 ^ mw - 1) in
  let efield := Z.land (Z.shiftr bits mw) (2 ^ ew - 1) in
  let s := Z.testbit bits (ew + mw) in
  of_parts s efield mfield ew mw.
Definition of_bits64 (bits : Z) : b64 := dec_ieee 11 52 bits.

Definition to_bits64 (x : b64) : Z :=
  match x with
  | B754_zero s => if s then 9223372036854775808 else 0
  | B754_infinity s => (if s then 9223372036854775808 else 0) + 9218868437227405312
  | B754_nan => NAN_BITS
  | B754_finite s m e _ =>
      (if s then 9223372036854775808 else 0) +
      (if Z.pos m <? 4503599627370496 then Z.pos m
       else (e + 1075) * 4503599627370496 + (Z.pos m - 4503599627370496))
  end.

(* ---- arithmetic as Python performs it (bit patterns in, bit patterns out) ---- *)
Definition lift2 (f : b64 -> b64 -> b64) (a b : Z) : Z := to_bits64 (f (of_bits64 a) (of_bits64 b)).
Definition fadd : Z -> Z -> Z := lift2 (Bplus mode_NE).
Definition fsub : Z -> Z -> Z := lift2 (Bminus mode_NE).
Definition fmul : Z -> Z -> Z := lift2 (Bmult mode_NE).
Definition fdiv_raw : Z -> Z -> Z := lift2 (Bdiv mode_NE).
Definition f_is_zero (a : Z) : bool := (Z.land a 9223372036854775807 =? 0).
(* float division: ZeroDivisionError on a zero divisor *)
Definition fdiv (a b : Z) : res Z := if f_is_zero b then Err EZeroDiv else Ok (fdiv_raw a b).

(* float(int): correctly rounded; OverflowError when the result is not finite *)
Definition of_Z (n : Z) : res Z :=
  let x := binary_normalize 53 1024 P53 P53lt mode_NE n 0 false in
  match x with B754_infinity _ => Err EOverflow | _ => Ok (to_bits64 x) end.
(* int(float) / float.is_integer *)
Definition f_trunc (a : Z) : Z := Btrunc (of_bits64 a).
Definition f_is_finite (a : Z) : bool := negb (Z.land (Z.shiftr a 52) 2047 =? 2047).
Definition f_is_integer (a : Z) : bool :=
  f_is_finite a && match of_Z (f_trunc a) with Ok b => (b =? a) || (f_is_zero a && f_is_zero b) | Err _ => false end.

(* MIL-STD-1750A 32-bit: mantissa (24-bit two's complement) * 2.0 ** (exponent (8-bit two's complement) - 23) *)
Definition dec_mil1750a (bits : Z) : Z :=
  let ex := Z.land bits 255 in
  let ma := Z.land (Z.shiftr bits 8) 16777215 in
  let ex := if Z.testbit ex 7 then ex - 256 else ex in
  let ma := if Z.testbit ma 23 then ma - 16777216 else ma in
  to_bits64 (binary_normalize 53 1024 P53 P53lt mode_NE ma (ex - 23) false).
