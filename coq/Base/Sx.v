(* Base/Sx.v — results, the generic canonical output type used by the correspondence check,
   and the comparison driver evaluated inside the kernel by the generated case files. *)
From Coq Require Import ZArith List Bool.
Import ListNotations.
Open Scope Z_scope.

Inductive err := EValue | EType | EKey | EComparison | ECalibration | EUnrecognized | ENotImpl
               | EOverflow | EIndex | EAttr | EZeroDiv | EOther | OutOfFuel.
Inductive res (A : Type) := Ok (a : A) | Err (e : err).
Arguments Ok {A} a. Arguments Err {A} e.
Definition bind {A B} (r : res A) (f : A -> res B) : res B :=
  match r with Ok a => f a | Err e => Err e end.
Notation "x <- r ;; k" := (bind r (fun x => k)) (at level 61, r at next level, right associativity).
Notation "' p <- r ;; k" := (bind r (fun x => match x with p => k end))
  (at level 61, p pattern, r at next level, right associativity).

Definition err_code (e : err) : Z :=
  match e with EValue => 1 | EType => 2 | EKey => 3 | EComparison => 4 | ECalibration => 5
  | EUnrecognized => 6 | ENotImpl => 7 | EOverflow => 8 | EIndex => 9 | EAttr => 10 | EZeroDiv => 11
  | EOther => 12 | OutOfFuel => 99 end.

(* canonical outputs: integers and nested lists *)
Inductive sx := I (z : Z) | L (l : list sx).
Fixpoint sx_eqb (a b : sx) : bool :=
  match a, b with
  | I x, I y => x =? y
  | L xs, L ys =>
      (fix go (xs ys : list sx) : bool :=
         match xs, ys with
         | [], [] => true
         | x :: xs', y :: ys' => sx_eqb x y && go xs' ys'
         | _, _ => false
         end) xs ys
  | _, _ => false
  end.
Definition sx_err (e : err) : sx := L [I (-1); I (err_code e)].
Definition sx_res {A} (f : A -> sx) (r : res A) : sx := match r with Ok a => L [I 0; f a] | Err e => sx_err e end.
Definition sx_list {A} (f : A -> sx) (l : list A) : sx := L (map f l).
Definition sx_bytes (l : list Z) : sx := L (map I l).
Definition sx_bool (b : bool) : sx := I (if b then 1 else 0).
Definition sx_opt {A} (f : A -> sx) (o : option A) : sx := match o with Some a => L [f a] | None => L [] end.

(* The driver: for every case (input, implementation output) report
   (index, model agrees with impl, impl output satisfies the property's executable statement). *)
Fixpoint mism_go {A} (model : A -> sx) (ok : A -> sx -> bool) (i : nat) (cs : list (A * sx))
  : list (nat * bool * bool) :=
  match cs with
  | [] => []
  | (a, o) :: t =>
      let ag := sx_eqb (model a) o in
      let k := ok a o in
      if ag && k then mism_go model ok (S i) t else (i, ag, k) :: mism_go model ok (S i) t
  end.
Definition mismatches {A} (model : A -> sx) (ok : A -> sx -> bool) (cs : list (A * sx)) :=
  mism_go model ok 0%nat cs.
(* when the specification is a function too *)
Definition ok_spec {A} (spec : A -> sx) : A -> sx -> bool := fun a o => sx_eqb (spec a) o.

(* compact byte strings: [length; v1; v2; ...] with vi the big-endian values of successive 512-byte
   chunks (what the harness prints for bytes; an empty string is [0; 0]) *)
Definition be_val (l : list Z) : Z := fold_left (fun acc b => 256 * acc + b) l 0.
Fixpoint chunk_vals (fuel : nat) (l : list Z) : list sx :=
  match fuel with
  | O => []
  | S f => match l with [] => [] | _ => I (be_val (firstn 512 l)) :: chunk_vals f (skipn 512 l) end
  end.
Definition sx_b (l : list Z) : sx :=
  L (I (Z.of_nat (length l)) :: match l with [] => [I 0] | _ => chunk_vals (S (length l / 512)) l end).
