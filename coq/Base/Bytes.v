(* Base/Bytes.v — byte strings as [list Z], big-endian values, Python slices, bit strings.
   Definitions are executable (used by the models under vm_compute); the lemmas below them are
   the shared arithmetic core of C03/C04/C07/C13. *)
From Coq Require Import ZArith List Lia Bool.
Import ListNotations.
Open Scope Z_scope.

Definition zlen {A} (l : list A) : Z := Z.of_nat (length l).
Definition wf (l : list Z) : Prop := Forall (fun b => 0 <= b < 256) l.
Definition wfb (l : list Z) : bool := forallb (fun b => (0 <=? b) && (b <? 256)) l.

(* int.from_bytes(l, "big"); left fold so that it runs in linear time *)
Definition from_be (l : list Z) : Z := fold_left (fun acc b => 256 * acc + b) l 0.

(* int.to_bytes(n, "big") of h mod 256^n; accumulator form so that it runs in linear time *)
Fixpoint to_be_acc (n : nat) (h : Z) (acc : list Z) : list Z :=
  match n with O => acc | S k => to_be_acc k (Z.shiftr h 8) (Z.land h 255 :: acc) end.
Definition to_be (n : nat) (h : Z) : list Z := to_be_acc n h [].

(* Python's l[a:b] for 0 <= a, 0 <= b (clamping at the end of the list) *)
Definition slice (a b : Z) (l : list Z) : list Z :=
  firstn (Z.to_nat (b - a)) (skipn (Z.to_nat a) l).

(* harness literals: a byte string is written as a list of chunks (length, big-endian integer);
   chunks keep numerals short (Coq parses long numerals in super-linear time) *)
Definition bytes_of (cs : list (Z * Z)) : list Z :=
  concat (map (fun p => to_be (Z.to_nat (fst p)) (snd p)) cs).

(* ---------- bit strings (MSB first) ---------- *)
Fixpoint bits (k : nat) (v : Z) : list bool :=
  match k with O => [] | S k' => bits k' (Z.div2 v) ++ [Z.odd v] end.
Definition bits_of_bytes (l : list Z) : list bool := concat (map (bits 8) l).
Definition val_of_bits (l : list bool) : Z :=
  fold_left (fun acc (b : bool) => 2 * acc + (if b then 1 else 0)) l 0.
(* pack a bit string (length a multiple of 8 expected) into bytes *)
Fixpoint bytes_of_bits (fuel : nat) (l : list bool) : list Z :=
  match fuel with
  | O => []
  | S f => match l with [] => [] | _ => val_of_bits (firstn 8 l) :: bytes_of_bits f (skipn 8 l) end
  end.

(* ================= lemmas ================= *)

Lemma from_be_fold l : forall acc, fold_left (fun acc b => 256 * acc + b) l acc
  = acc * 2 ^ (8 * Z.of_nat (length l)) + fold_left (fun acc b => 256 * acc + b) l 0.
Proof.
  induction l as [|b t IH]; intro acc; cbn [fold_left length].
  - cbn. lia.
  - rewrite (IH (256 * acc + b)), (IH (256 * 0 + b)). rewrite Nat2Z.inj_succ.
    replace (8 * Z.succ (Z.of_nat (length t))) with (8 + 8 * Z.of_nat (length t)) by lia.
    rewrite Z.pow_add_r by lia. change (2 ^ 8) with 256. ring.
Qed.
Lemma from_be_nil : from_be [] = 0. Proof. reflexivity. Qed.
Lemma from_be_cons b t : from_be (b :: t) = b * 2 ^ (8 * Z.of_nat (length t)) + from_be t.
Proof. unfold from_be. cbn [fold_left]. rewrite from_be_fold. lia. Qed.
Global Opaque from_be.

Lemma wfb_wf l : wfb l = true <-> wf l.
Proof.
  unfold wfb, wf. rewrite forallb_forall, Forall_forall. split; intros H x Hx; specialize (H x Hx).
  - apply andb_prop in H as [H1 H2]. apply Z.leb_le in H1. apply Z.ltb_lt in H2. lia.
  - apply andb_true_intro. split; [apply Z.leb_le|apply Z.ltb_lt]; lia.
Qed.

Lemma from_be_bound l : wf l -> 0 <= from_be l < 2 ^ (8 * zlen l).
Proof.
  unfold zlen. induction 1 as [|b t Hb Ht IH]; [rewrite from_be_nil|rewrite from_be_cons]; cbn [length].
  - simpl. lia.
  - rewrite Nat2Z.inj_succ.
    replace (8 * Z.succ (Z.of_nat (length t))) with (8 + 8 * Z.of_nat (length t)) by lia.
    rewrite Z.pow_add_r by lia. change (2^8) with 256.
    set (P := 2 ^ (8 * Z.of_nat (length t))) in *.
    assert (0 < P) by (apply Z.pow_pos_nonneg; lia). nia.
Qed.

Lemma from_be_app l1 l2 : from_be (l1 ++ l2) = from_be l1 * 2 ^ (8 * zlen l2) + from_be l2.
Proof.
  unfold zlen. induction l1 as [|b t IH]; cbn [app length]; [rewrite from_be_nil; lia|].
  rewrite !from_be_cons, IH, app_length, Nat2Z.inj_add.
  replace (8 * (Z.of_nat (length t) + Z.of_nat (length l2))) with (8 * Z.of_nat (length t) + 8 * Z.of_nat (length l2)) by lia.
  rewrite Z.pow_add_r by lia. ring.
Qed.

Lemma slice_length a b l : 0 <= a <= b -> b <= zlen l -> zlen (slice a b l) = b - a.
Proof. intros. unfold zlen, slice in *. rewrite firstn_length, skipn_length. lia. Qed.

Lemma wf_app l1 l2 : wf (l1 ++ l2) <-> wf l1 /\ wf l2.
Proof. unfold wf. apply Forall_app. Qed.

Lemma wf_firstn n l : wf l -> wf (firstn n l).
Proof. intro H. rewrite <- (firstn_skipn n l) in H. apply wf_app in H. tauto. Qed.
Lemma wf_skipn n l : wf l -> wf (skipn n l).
Proof. intro H. rewrite <- (firstn_skipn n l) in H. apply wf_app in H. tauto. Qed.
Lemma wf_slice a b l : wf l -> wf (slice a b l).
Proof. intro. unfold slice. now apply wf_firstn, wf_skipn. Qed.

Lemma from_be_slice data a b : wf data -> 0 <= a <= b -> b <= zlen data ->
  from_be (slice a b data) = (from_be data / 2 ^ (8 * (zlen data - b))) mod 2 ^ (8 * (b - a)).
Proof.
  intros Hwf Hab Hb. unfold slice.
  set (na := Z.to_nat a). set (nl := Z.to_nat (b - a)).
  assert (E : data = firstn na data ++ (firstn nl (skipn na data) ++ skipn nl (skipn na data))).
  { now rewrite !firstn_skipn. }
  set (A := firstn na data) in *. set (M := firstn nl (skipn na data)) in *. set (R := skipn nl (skipn na data)) in *.
  assert (HlenM : zlen M = b - a).
  { unfold zlen, M. rewrite firstn_length, skipn_length. unfold zlen in Hb. lia. }
  assert (HlenR : zlen R = zlen data - b).
  { unfold zlen, R. rewrite !skipn_length. unfold zlen in Hb. lia. }
  assert (HwfMR : wf M /\ wf R).
  { unfold wf in *. rewrite E in Hwf. apply Forall_app in Hwf as [_ Hwf]. apply Forall_app in Hwf. exact Hwf. }
  destruct HwfMR as [HwfM HwfR].
  replace (from_be data) with (from_be (A ++ (M ++ R))) by (now rewrite <- E).
  rewrite !from_be_app, HlenR.
  pose proof (from_be_bound M HwfM) as BM. pose proof (from_be_bound R HwfR) as BR.
  rewrite HlenM in BM. rewrite HlenR in BR.
  replace (8 * zlen (M ++ R)) with (8 * (b - a) + 8 * (zlen data - b)).
  2:{ unfold zlen in *. rewrite app_length. lia. }
  rewrite Z.pow_add_r by lia.
  set (PR := 2 ^ (8 * (zlen data - b))) in *. set (PM := 2 ^ (8 * (b - a))) in *.
  assert (0 < PR) by (apply Z.pow_pos_nonneg; lia).
  assert (0 < PM) by (apply Z.pow_pos_nonneg; lia).
  replace (from_be A * (PM * PR) + (from_be M * PR + from_be R)) with ((from_be A * PM + from_be M) * PR + from_be R) by ring.
  rewrite Z.div_add_l by lia. rewrite (Z.div_small (from_be R)) by lia. rewrite Z.add_0_r.
  rewrite Z.add_comm, Z.mod_add by lia. rewrite Z.mod_small; lia.
Qed.

Lemma div_mod_window V a b c n : 0 <= a -> 0 <= c -> 0 <= n -> n + c <= b ->
  ((V / 2 ^ a) mod 2 ^ b) / 2 ^ c mod 2 ^ n = (V / 2 ^ (a + c)) mod 2 ^ n.
Proof.
  intros. rewrite Z.pow_add_r by lia. rewrite <- Z.div_div by (try apply Z.pow_pos_nonneg; lia || (apply Z.pow_nonzero; lia)).
  set (W := V / 2 ^ a).
  replace b with (c + (b - c)) by lia. rewrite Z.pow_add_r by lia.
  rewrite Z.rem_mul_r by (apply Z.pow_nonzero || apply Z.pow_pos_nonneg; lia).
  rewrite Z.mul_comm, Z.div_add by (apply Z.pow_nonzero; lia).
  rewrite (Z.div_small (W mod 2 ^ c)) by (apply Z.mod_pos_bound, Z.pow_pos_nonneg; lia).
  rewrite Z.add_0_l.
  replace (b - c) with (n + (b - c - n)) by lia. rewrite Z.pow_add_r by lia.
  rewrite Z.rem_mul_r by (apply Z.pow_nonzero || apply Z.pow_pos_nonneg; lia).
  rewrite Z.mul_comm, Z.mod_add by (apply Z.pow_nonzero; lia).
  apply Z.mod_mod. apply Z.pow_nonzero; lia.
Qed.

(* ---------- to_be ---------- *)
Lemma to_be_acc_app n : forall h acc, to_be_acc n h acc = to_be_acc n h [] ++ acc.
Proof.
  induction n as [|k IH]; intros h acc; [reflexivity|].
  cbn [to_be_acc]. rewrite (IH _ (Z.land h 255 :: acc)), (IH _ [Z.land h 255]). now rewrite <- app_assoc.
Qed.
Lemma to_be_S k h : to_be (S k) h = to_be k (h / 256) ++ [h mod 256].
Proof.
  unfold to_be. cbn [to_be_acc]. rewrite to_be_acc_app.
  rewrite Z.shiftr_div_pow2 by lia. change 255 with (Z.ones 8). rewrite Z.land_ones by lia. reflexivity.
Qed.
Lemma to_be_0 h : to_be 0 h = [].
Proof. reflexivity. Qed.
Global Opaque to_be.
Lemma to_be_length n h : length (to_be n h) = n.
Proof. revert h; induction n; intro h; [reflexivity|]. rewrite to_be_S, app_length, IHn. cbn. lia. Qed.

Lemma to_be_wf n h : wf (to_be n h).
Proof. revert h; induction n as [|k IH]; intro h; [rewrite to_be_0; constructor|rewrite to_be_S]. unfold wf. apply Forall_app; split; [apply IH|].
  constructor; [|constructor]. apply Z.mod_pos_bound. lia. Qed.

Lemma from_be_snoc t b : from_be (t ++ [b]) = from_be t * 256 + b.
Proof. rewrite from_be_app. unfold zlen. rewrite from_be_cons, from_be_nil. cbn. lia. Qed.

Lemma from_be_to_be_mod n h : from_be (to_be n h) = h mod 2 ^ (8 * Z.of_nat n).
Proof.
  revert h; induction n as [|k IH]; intros h.
  - rewrite to_be_0, from_be_nil. cbn. now rewrite Z.mod_1_r.
  - rewrite to_be_S. rewrite from_be_snoc, IH.
    replace (8 * Z.of_nat (S k)) with (8 + 8 * Z.of_nat k) by lia.
    rewrite Z.pow_add_r by lia. change (2 ^ 8) with 256.
    rewrite Z.rem_mul_r by (try (apply Z.pow_pos_nonneg); lia). lia.
Qed.

Lemma from_be_to_be n h : 0 <= h < 2 ^ (8 * Z.of_nat n) -> from_be (to_be n h) = h.
Proof. intro H. rewrite from_be_to_be_mod. now apply Z.mod_small. Qed.

Lemma to_be_from_be l : wf l -> to_be (length l) (from_be l) = l.
Proof.
  induction l as [|b t IH] using rev_ind; intro H; [reflexivity|].
  apply wf_app in H as [Ht Hb]. inversion Hb as [|? ? Hb0 _]; subst.
  rewrite app_length. cbn [length]. rewrite Nat.add_1_r. rewrite to_be_S.
  rewrite from_be_snoc.
  rewrite Z.div_add_l by lia. rewrite (Z.div_small b) by lia. rewrite Z.add_0_r, IH by assumption.
  rewrite Z.add_comm, Z.mod_add by lia. now rewrite Z.mod_small by lia.
Qed.

(* ---------- bit strings ---------- *)
Lemma bits_S k v : bits (S k) v = bits k (v / 2) ++ [Z.odd v].
Proof. cbn [bits]. now rewrite Z.div2_div. Qed.
Lemma bits_length k v : length (bits k v) = k.
Proof. revert v; induction k; intro v; [reflexivity|]. rewrite bits_S, app_length, IHk. cbn. lia. Qed.

Lemma bits_app a b v : bits (a + b) v = bits a (v / 2 ^ Z.of_nat b) ++ bits b v.
Proof.
  revert v. induction b as [|b IH]; intro v.
  - rewrite Nat.add_0_r. cbn. now rewrite Z.div_1_r, app_nil_r.
  - rewrite Nat.add_succ_r. rewrite !bits_S. rewrite IH, app_assoc. f_equal. f_equal. f_equal.
    rewrite Nat2Z.inj_succ, Z.pow_succ_r by lia. rewrite Z.div_div by (try apply Z.pow_pos_nonneg; lia). reflexivity.
Qed.

Lemma val_of_bits_app l1 l2 : val_of_bits (l1 ++ l2) = val_of_bits l1 * 2 ^ zlen l2 + val_of_bits l2.
Proof.
  unfold val_of_bits, zlen. rewrite fold_left_app. generalize (fold_left (fun acc (b:bool) => 2 * acc + (if b then 1 else 0)) l1 0).
  induction l2 as [|b t IH] using rev_ind; intro z.
  - cbn. lia.
  - rewrite !fold_left_app. cbn [fold_left]. rewrite IH. rewrite app_length. cbn [length].
    rewrite Nat2Z.inj_add. rewrite Z.pow_add_r by lia. change (2 ^ Z.of_nat 1) with 2. ring.
Qed.

Lemma val_of_bits_bits k v : val_of_bits (bits k v) = v mod 2 ^ Z.of_nat k.
Proof.
  revert v. induction k as [|k IH]; intro v.
  - cbn. now rewrite Z.mod_1_r.
  - rewrite bits_S. rewrite val_of_bits_app, IH. unfold zlen. cbn [length].
    change (2 ^ Z.of_nat 1) with 2. unfold val_of_bits at 1. cbn [fold_left].
    rewrite Nat2Z.inj_succ, Z.pow_succ_r by lia.
    rewrite Z.rem_mul_r by (try apply Z.pow_pos_nonneg; lia).
    rewrite Zmod_odd. destruct (Z.odd v); lia.
Qed.

Lemma bits_mod k v : bits k (v mod 2 ^ Z.of_nat k) = bits k v.
Proof.
  revert v. induction k as [|k IH]; intro v; [reflexivity|].
  rewrite !bits_S. rewrite Nat2Z.inj_succ, Z.pow_succ_r by lia.
  assert (P : 0 < 2 ^ Z.of_nat k) by (apply Z.pow_pos_nonneg; lia).
  assert (E : v mod (2 * 2 ^ Z.of_nat k) = v mod 2 + 2 * ((v / 2) mod 2 ^ Z.of_nat k)) by (apply Z.rem_mul_r; lia).
  f_equal.
  - rewrite E. rewrite (Z.mul_comm 2), Z.div_add by lia.
    rewrite (Z.div_small (v mod 2)) by (apply Z.mod_pos_bound; lia). rewrite Z.add_0_l. apply IH.
  - f_equal. rewrite E. rewrite Z.odd_add_mul_2. rewrite !Zodd_mod. now rewrite Z.mod_mod by lia.
Qed.

Lemma bits_of_bytes_from_be l : wf l -> bits_of_bytes l = bits (8 * length l) (from_be l).
Proof.
  induction 1 as [|b t Hb Ht IH]; [reflexivity|].
  unfold bits_of_bytes in *. cbn [map concat length]. rewrite from_be_cons, IH.
  replace (8 * S (length t))%nat with (8 + 8 * length t)%nat by lia.
  rewrite bits_app. f_equal.
  - pose proof (from_be_bound t Ht) as B. unfold zlen in B.
    replace (Z.of_nat (8 * length t)) with (8 * Z.of_nat (length t)) by lia.
    rewrite Z.div_add_l by (apply Z.pow_nonzero; lia). rewrite (Z.div_small (from_be t)) by lia.
    now rewrite Z.add_0_r.
  - symmetry. rewrite <- bits_mod.
    replace (Z.of_nat (8 * length t)) with (8 * Z.of_nat (length t)) by lia.
    rewrite Z.add_comm, Z.mod_add by (apply Z.pow_nonzero; lia).
    replace (8 * Z.of_nat (length t)) with (Z.of_nat (8 * length t)) by lia. apply bits_mod.
Qed.

(* the bit-string slice of a buffer has the value given by the div/mod window *)
Lemma val_of_bits_slice B p n : wf B -> 0 <= p -> 0 <= n -> p + n <= 8 * zlen B ->
  val_of_bits (firstn (Z.to_nat n) (skipn (Z.to_nat p) (bits_of_bytes B)))
  = (from_be B / 2 ^ (8 * zlen B - p - n)) mod 2 ^ n.
Proof.
  intros Hwf Hp Hn Hin. rewrite bits_of_bytes_from_be by assumption. unfold zlen in *.
  set (V := from_be B).
  set (r := Z.to_nat (8 * Z.of_nat (length B) - p - n)).
  replace (8 * length B)%nat with (Z.to_nat p + (Z.to_nat n + r))%nat by lia.
  rewrite bits_app. rewrite skipn_app, skipn_all2 by (rewrite bits_length; lia).
  rewrite bits_length, Nat.sub_diag. cbn [skipn app].
  rewrite bits_app. rewrite firstn_app, bits_length, Nat.sub_diag. cbn [firstn]. rewrite app_nil_r.
  rewrite firstn_all2 by (rewrite bits_length; lia).
  rewrite val_of_bits_bits. f_equal; [f_equal; f_equal; lia | f_equal; lia].
Qed.

Lemma bits_of_bytes_length l : length (bits_of_bytes l) = (8 * length l)%nat.
Proof. unfold bits_of_bytes. induction l as [|b t IH]; [reflexivity|]. cbn [map concat length]. rewrite app_length, bits_length, IH. lia. Qed.
Lemma bits_of_bytes_app a b : bits_of_bytes (a ++ b) = bits_of_bytes a ++ bits_of_bytes b.
Proof. unfold bits_of_bytes. now rewrite map_app, concat_app. Qed.
