(* Base/PyEval.v — the few Python operations that occur in the functions the translator (harness/gen_fun.py) turns into
   Gallina: integers, bytes, booleans and "some float" as values, with the exceptions Python raises. *)
From Coq Require Import ZArith List Bool.
From SPP Require Import Base.Bytes Base.Sx.
Import ListNotations.
Open Scope Z_scope.

Inductive pv := VInt (z : Z) | VFloat | VBytes (l : list Z) | VBool (b : bool).

Definition as_int (v : pv) : option Z := match v with VInt z => Some z | VBool b => Some (if b then 1 else 0) | _ => None end.
Definition truthy (v : pv) : bool :=
  match v with VInt z => negb (z =? 0) | VFloat => true | VBytes l => negb (match l with [] => true | _ => false end) | VBool b => b end.

Definition py_floordiv (a b : pv) : res pv :=
  match as_int a, as_int b with
  | Some x, Some y => if y =? 0 then Err EZeroDiv else Ok (VInt (x / y))
  | _, _ => match a, b with VFloat, _ | _, VFloat => Ok VFloat | _, _ => Err EType end
  end.
Definition py_mod (a b : pv) : res pv :=
  match as_int a, as_int b with
  | Some x, Some y => if y =? 0 then Err EZeroDiv else Ok (VInt (x mod y))
  | _, _ => match a, b with VFloat, _ | _, VFloat => Ok VFloat | _, _ => Err EType end
  end.
Definition arith (f : Z -> Z -> Z) (a b : pv) : res pv :=
  match as_int a, as_int b with
  | Some x, Some y => Ok (VInt (f x y))
  | _, _ => match a, b with
            | VFloat, VBytes _ | VBytes _, VFloat => Err EType
            | VFloat, _ | _, VFloat => Ok VFloat
            | _, _ => Err EType end
  end.
(* + : integers (and "some float"), and the concatenation of two byte strings *)
Definition py_add (a b : pv) : res pv :=
  match a, b with VBytes x, VBytes y => Ok (VBytes (x ++ y)) | _, _ => arith Z.add a b end.
Definition py_sub := arith Z.sub.
Definition py_mul := arith Z.mul.
(* int ** int: a float for a negative exponent (the base is never 0 in the translated code: checked by the translator) *)
Definition py_pow (a b : pv) : res pv :=
  match as_int a, as_int b with
  | Some x, Some y => if y <? 0 then (if x =? 0 then Err EZeroDiv else Ok VFloat) else Ok (VInt (x ^ y))
  | _, _ => Err EType
  end.
Definition py_rshift (a b : pv) : res pv :=
  match as_int a, as_int b with
  | Some x, Some y => if y <? 0 then Err EValue else Ok (VInt (Z.shiftr x y))
  | _, _ => Err EType
  end.
Definition py_lshift (a b : pv) : res pv :=
  match as_int a, as_int b with
  | Some x, Some y => if y <? 0 then Err EValue else Ok (VInt (Z.shiftl x y))
  | _, _ => Err EType
  end.
Definition py_bitand (a b : pv) : res pv :=
  match as_int a, as_int b with Some x, Some y => Ok (VInt (Z.land x y)) | _, _ => Err EType end.
Definition py_bitor (a b : pv) : res pv :=
  match as_int a, as_int b with Some x, Some y => Ok (VInt (Z.lor x y)) | _, _ => Err EType end.
Definition py_eq (a b : pv) : res pv :=
  match as_int a, as_int b with
  | Some x, Some y => Ok (VBool (x =? y))
  | _, _ => Err ENotImpl
  end.

Definition py_ne (a b : pv) : res pv :=
  match as_int a, as_int b with
  | Some x, Some y => Ok (VBool (negb (x =? y)))
  | _, _ => Err ENotImpl
  end.

(* bytes[a:b] with integer bounds: negative bounds count from the end, everything is clamped *)
Definition norm_index (n i : Z) : Z := if i <? 0 then Z.max 0 (n + i) else Z.min i n.
Definition py_slice (v a b : pv) : res pv :=
  match v, as_int a, as_int b with
  | VBytes l, Some x, Some y => let n := zlen l in Ok (VBytes (slice (norm_index n x) (norm_index n y) l))
  | _, _, _ => Err EType
  end.
Definition py_len (v : pv) : res pv := match v with VBytes l => Ok (VInt (zlen l)) | _ => Err EType end.
(* int.from_bytes(v, byteorder="big") *)
Definition py_from_bytes_big (v : pv) : res pv := match v with VBytes l => Ok (VInt (from_be l)) | _ => Err EType end.

(* a < b, a > b on integers (a float operand is outside this evaluator, as for ==) *)
Definition py_lt (a b : pv) : res pv :=
  match as_int a, as_int b with
  | Some x, Some y => Ok (VBool (x <? y))
  | _, _ => Err ENotImpl
  end.
Definition py_gt (a b : pv) : res pv :=
  match as_int a, as_int b with
  | Some x, Some y => Ok (VBool (x >? y))
  | _, _ => Err ENotImpl
  end.
(* int.to_bytes(x, n, "big"): OverflowError for a negative x and for an x that does not fit n bytes, ValueError for n < 0 *)
Definition py_to_bytes_big (x n : pv) : res pv :=
  match as_int x, as_int n with
  | Some v, Some k =>
      if k <? 0 then Err EValue else if v <? 0 then Err EOverflow else if 2 ^ (8 * k) <=? v then Err EOverflow
      else Ok (VBytes (to_be (Z.to_nat k) v))
  | _, _ => Err EType
  end.
(* x.to_bytes(length=n, byteorder="little") *)
Definition py_to_bytes_little (x n : pv) : res pv :=
  match as_int x, as_int n with
  | Some v, Some k =>
      if k <? 0 then Err EValue else if v <? 0 then Err EOverflow else if 2 ^ (8 * k) <=? v then Err EOverflow
      else Ok (VBytes (rev (to_be (Z.to_nat k) v)))
  | _, _ => Err EType
  end.
