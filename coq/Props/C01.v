(* Props/C01.v — end-to-end decoding conforms to the XTCE document for every stream (composition). *)
From Coq Require Import ZArith List Bool String.
From SPP Require Import Base.Bytes Base.Sx Model.Cursor Model.Values Model.Criteria Model.Doc Model.Decode Model.Framer Model.Generator
  Proofs.FramerCCSDS Proofs.GeneratorP.
Import ListNotations.

(* For every definition of the modelled subset and every stream of well-formed CCSDS packets (each preceded by k
   foreign bytes), the generator over the byte stream yields, packet by packet and in order, exactly what the
   per-packet reference yields: [parse_one] = follow the unique-child path (C05), decode the flattened entry lists
   left to right with the field semantics of C04/C07/C08, apply the skip / unrecognized / length rules (C11, C14);
   framing contributes nothing and loses nothing (C02). *)
Theorem C01_stream_refines : forall d root o k pps,
  stream_ok k pps -> headers_only o = false ->
  Forall (no_fatal d root o) (to_parse o (map snd pps)) ->
  packet_generator d root o k (encode pps)
  = Some (flat_map (fun r => items_of (parse_one d root o r)) (to_parse o (map snd pps)), None).
Proof. exact pipeline_refines. Qed.
Print Assumptions C01_stream_refines.

(* per packet: the values are those of the flattened path, parents before children (C05_path_items restated here) *)
Theorem C01_packet_refines : forall d c s path o, descends d c s path o ->
  forall flats sf, Forall2 (fun k ps => flatten (S (List.length d)) d (k_entries k) = Some ps) path flats ->
  final_state o = Some sf -> parse_params (List.concat flats) s = Ok sf.
Proof. exact descends_items. Qed.
Print Assumptions C01_packet_refines.

(* ---- from the XML document itself ----
   [load] reads the parsed XML tree (Model/Xml.v), [link] builds the object graph (Model/Loader.v), [compile] turns it into the
   definition the decoder walks (Model/Compile.v; [lits] are the int()/float() readings of the comparison literals).  For every
   document that loads, every stream of well-formed packets decodes to the in-order per-packet reference, and the definition is
   ranked, so no recursion fuel is involved (C05_walk_fuel_irrelevant). *)
From SPP Require Import Model.Xml Model.Loader Model.Compile Proofs.FuelP Proofs.CompileP.
Theorem C01_from_document : forall sxc lits st prefix p x g d root o k pps,
  fst (load st prefix p) = Ok x -> link sxc x = Ok g -> compile lits g = Ok d ->
  stream_ok k pps -> headers_only o = false ->
  Forall (no_fatal d root o) (to_parse o (map snd pps)) ->
  packet_generator d root o k (encode pps)
  = Some (flat_map (fun r => items_of (parse_one d root o r)) (to_parse o (map snd pps)), None) /\ ranked d.
Proof. intros sxc lits. exact (from_document lits sxc). Qed.
Print Assumptions C01_from_document.
