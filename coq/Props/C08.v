(* Props/C08.v — calibration, enumeration and boolean derivation follow XTCE; raw value kept. *)
From Coq Require Import ZArith List Bool.
From SPP Require Import Base.Bytes Base.Sx Base.Floats Model.Cursor Model.Values Model.Criteria Model.Doc Model.Decode Proofs.CalibP.
Import ListNotations.
Open Scope Z_scope.

(* the first context calibrator whose criteria all hold is applied to the raw value ... *)
Theorem C08_selection_context : forall e env c raw c' pre cc post,
  raw_numeric e c = Ok (raw, c') -> ne_context e = Some (pre ++ cc :: post) ->
  Forall (fun x => eval_all env (Some (payload_of_num raw)) (cc_criteria x) = Ok false) pre ->
  eval_all env (Some (payload_of_num raw)) (cc_criteria cc) = Ok true ->
  parse_numeric e env c = (p <- calibrated_result (cc_cal cc) raw ;; Ok (p, c')).
Proof. exact selection_context. Qed.
Print Assumptions C08_selection_context.

(* ... otherwise the default calibrator ... *)
Theorem C08_selection_default : forall e env c raw c' cal,
  raw_numeric e c = Ok (raw, c') -> ne_default e = Some cal ->
  (ne_context e = None \/ exists cs, ne_context e = Some cs /\
     Forall (fun x => eval_all env (Some (payload_of_num raw)) (cc_criteria x) = Ok false) cs) ->
  parse_numeric e env c = (p <- calibrated_result cal raw ;; Ok (p, c')).
Proof. exact selection_default. Qed.
Print Assumptions C08_selection_default.

(* ... otherwise the raw value itself, as an integer or float value *)
Theorem C08_selection_raw : forall e env c raw c',
  raw_numeric e c = Ok (raw, c') -> ne_default e = None ->
  (ne_context e = None \/ exists cs, ne_context e = Some cs /\
     Forall (fun x => eval_all env (Some (payload_of_num raw)) (cc_criteria x) = Ok false) cs) ->
  parse_numeric e env c = Ok (match raw with
                              | NInt z => {| vcls := CInt; vval := PInt z; vraw := PInt z |}
                              | NFloat b => {| vcls := CFloat; vval := PFloat b; vraw := PFloat b |} end, c').
Proof. exact selection_raw. Qed.
Print Assumptions C08_selection_raw.

(* every calibrated result is a float; raw_value is the uncalibrated encoded value, whatever was selected *)
Theorem C08_calibrated_is_float : forall cal raw p, calibrated_result cal raw = Ok p ->
  vcls p = CFloat /\ vraw p = payload_of_num raw /\ exists b, vval p = PFloat b.
Proof. exact calibrated_is_float. Qed.
Print Assumptions C08_calibrated_is_float.
Theorem C08_raw_value_kept : forall e env c p c', parse_numeric e env c = Ok (p, c') ->
  exists raw, raw_numeric e c = Ok (raw, c') /\ vraw p = payload_of_num raw.
Proof. exact raw_value_kept. Qed.
Print Assumptions C08_raw_value_kept.

(* polynomial calibrators evaluate their polynomial: exactly, on integer coefficients and inputs *)
Theorem C08_poly_int_exact : forall terms x, Forall (fun an => 0 <= snd an) terms ->
  poly (map (fun an => (NInt (fst an), snd an)) terms) (NInt x) = Ok (NInt (int_poly terms x)).
Proof. exact poly_int_exact. Qed.
Print Assumptions C08_poly_int_exact.

(* step splines (order 0) over the closed range of their points; pts = the points sorted by raw coordinate,
   p0 / pl its first / last point with raw coordinates lo / hi *)
Theorem C08_spline0_at_max : forall order ex points pts q p0 pl,
  sort_points points = pts -> nth_error pts 0 = Some p0 -> nth_pt pts (List.length pts - 1) = pl ->
  forall lo hi, fst p0 = NFloat lo -> fst pl = NFloat hi ->
  order = 0 -> q = NFloat hi -> f_isnan hi = false -> num_le (NFloat lo) (NFloat hi) = true ->
  spline order ex points q = fl (snd pl).
Proof. exact spline0_at_max. Qed.
Print Assumptions C08_spline0_at_max.

Theorem C08_spline0_in_range : forall order ex points pts q p0 pl,
  sort_points points = pts -> nth_error pts 0 = Some p0 -> nth_pt pts (List.length pts - 1) = pl ->
  forall lo hi, fst p0 = NFloat lo -> fst pl = NFloat hi ->
  forall i, order = 0 ->
  num_le (NFloat lo) q = true -> num_le q (NFloat hi) = true -> num_eq q (NFloat hi) = false ->
  first_greater pts q 0 = Some i ->
  spline order ex points q = fl (snd (nth_pt pts (i - 1))) /\
  num_gt (fst (nth_pt pts i)) q = true /\ forall j, (j < i)%nat -> num_gt (fst (nth_pt pts j)) q = false.
Proof. exact spline0_in_range. Qed.
Print Assumptions C08_spline0_in_range.

Theorem C08_spline0_outside : forall order ex points pts q p0 pl,
  sort_points points = pts -> nth_error pts 0 = Some p0 -> nth_pt pts (List.length pts - 1) = pl ->
  forall lo hi, fst p0 = NFloat lo -> fst pl = NFloat hi ->
  order = 0 -> num_le (NFloat lo) q && num_le q (NFloat hi) = false ->
  spline order ex points q =
    if ex then (if num_gt q (NFloat hi) then fl (snd pl) else if num_lt q (NFloat lo) then fl (snd p0) else Err ECalibration)
    else Err ECalibration.
Proof. exact spline0_outside. Qed.
Print Assumptions C08_spline0_outside.

(* enumerations map the RAW value to its label, failing on unlisted values; booleans are the truthiness of the raw value *)
Theorem C08_enum_raw_only : forall t env c labels v c',
  pt_kind t = TEnum labels -> parse_encoding (pt_enc t) env c = Ok (v, c') ->
  parse_type t env c = match enum_lookup labels (vraw v) with
                       | Some lbl => Ok ({| vcls := CStr; vval := PStr lbl; vraw := vraw v |}, c')
                       | None => Err EValue end.
Proof. exact enum_raw_only. Qed.
Print Assumptions C08_enum_raw_only.
Theorem C08_enum_unlisted : forall labels raw,
  Forall (fun kl => key_eq (fst kl) raw = false) labels -> enum_lookup labels raw = None.
Proof. exact enum_lookup_unlisted. Qed.
Print Assumptions C08_enum_unlisted.
Theorem C08_bool_truthiness : forall t env c v c',
  pt_kind t = TBoolean -> parse_encoding (pt_enc t) env c = Ok (v, c') ->
  parse_type t env c = Ok ({| vcls := CBool; vval := PInt (if truthy (vraw v) then 1 else 0); vraw := vraw v |}, c').
Proof. exact bool_truthiness. Qed.
Print Assumptions C08_bool_truthiness.
