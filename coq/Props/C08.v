(* Props/C08.v — calibration, enumeration and boolean derivation follow XTCE; raw value kept. *)
From Coq Require Import ZArith List Bool.
From SPP Require Import Base.Bytes Base.Sx Base.Floats Model.Cursor Model.Values Model.Criteria Model.Doc Model.Decode Proofs.CalibP Proofs.SplineP.
Import ListNotations.
Open Scope Z_scope.

(* the first context calibrator whose criteria all hold is applied to the raw value ... *)
Theorem C08_selection_context : forall e env c raw c' pre cc post,
  raw_numeric e c = Ok (raw, c') -> ne_context e = Some (pre ++ cc :: post) ->
  Forall (fun x => eval_all env (Some (payload_of_num raw)) (cc_criteria x) = Ok false) pre ->
  eval_all env (Some (payload_of_num raw)) (cc_criteria cc) = Ok true ->
  parse_numeric e env c = (p <- calibrated_result (cc_cal cc) raw ;; Ok (p, c')).
Proof. exact selection_context. Qed.
Print Assumptions C08_selection_context.

(* ... otherwise the default calibrator ... *)
Theorem C08_selection_default : forall e env c raw c' cal,
  raw_numeric e c = Ok (raw, c') -> ne_default e = Some cal ->
  (ne_context e = None \/ exists cs, ne_context e = Some cs /\
     Forall (fun x => eval_all env (Some (payload_of_num raw)) (cc_criteria x) = Ok false) cs) ->
  parse_numeric e env c = (p <- calibrated_result cal raw ;; Ok (p, c')).
Proof. exact selection_default. Qed.
Print Assumptions C08_selection_default.

(* ... otherwise the raw value itself, as an integer or float value *)
Theorem C08_selection_raw : forall e env c raw c',
  raw_numeric e c = Ok (raw, c') -> ne_default e = None ->
  (ne_context e = None \/ exists cs, ne_context e = Some cs /\
     Forall (fun x => eval_all env (Some (payload_of_num raw)) (cc_criteria x) = Ok false) cs) ->
  parse_numeric e env c = Ok (match raw with
                              | NInt z => {| vcls := CInt; vval := PInt z; vraw := PInt z |}
                              | NFloat b => {| vcls := CFloat; vval := PFloat b; vraw := PFloat b |} end, c').
Proof. exact selection_raw. Qed.
Print Assumptions C08_selection_raw.

(* every calibrated result is a float; raw_value is the uncalibrated encoded value, whatever was selected *)
Theorem C08_calibrated_is_float : forall cal raw p, calibrated_result cal raw = Ok p ->
  vcls p = CFloat /\ vraw p = payload_of_num raw /\ exists b, vval p = PFloat b.
Proof. exact calibrated_is_float. Qed.
Print Assumptions C08_calibrated_is_float.
Theorem C08_raw_value_kept : forall e env c p c', parse_numeric e env c = Ok (p, c') ->
  exists raw, raw_numeric e c = Ok (raw, c') /\ vraw p = payload_of_num raw.
Proof. exact raw_value_kept. Qed.
Print Assumptions C08_raw_value_kept.

(* polynomial calibrators evaluate their polynomial: exactly, on integer coefficients and inputs *)
Theorem C08_poly_int_exact : forall terms x, Forall (fun an => 0 <= snd an) terms ->
  poly (map (fun an => (NInt (fst an), snd an)) terms) (NInt x) = Ok (NInt (int_poly terms x)).
Proof. exact poly_int_exact. Qed.
Print Assumptions C08_poly_int_exact.

(* step splines (order 0) over the closed range of their points; pts = the points sorted by raw coordinate,
   p0 / pl its first / last point with raw coordinates lo / hi *)
Theorem C08_spline0_at_max : forall order ex points pts q p0 pl,
  sort_points points = pts -> nth_error pts 0 = Some p0 -> nth_pt pts (List.length pts - 1) = pl ->
  forall lo hi, fst p0 = NFloat lo -> fst pl = NFloat hi ->
  order = 0 -> q = NFloat hi -> f_isnan hi = false -> num_le (NFloat lo) (NFloat hi) = true ->
  spline order ex points q = fl (snd pl).
Proof. exact spline0_at_max. Qed.
Print Assumptions C08_spline0_at_max.

Theorem C08_spline0_in_range : forall order ex points pts q p0 pl,
  sort_points points = pts -> nth_error pts 0 = Some p0 -> nth_pt pts (List.length pts - 1) = pl ->
  forall lo hi, fst p0 = NFloat lo -> fst pl = NFloat hi ->
  forall i, order = 0 ->
  num_le (NFloat lo) q = true -> num_le q (NFloat hi) = true -> num_eq q (NFloat hi) = false ->
  first_greater pts q 0 = Some i ->
  spline order ex points q = fl (snd (nth_pt pts (i - 1))) /\
  num_gt (fst (nth_pt pts i)) q = true /\ forall j, (j < i)%nat -> num_gt (fst (nth_pt pts j)) q = false.
Proof. exact spline0_in_range. Qed.
Print Assumptions C08_spline0_in_range.

Theorem C08_spline0_outside : forall order ex points pts q p0 pl,
  sort_points points = pts -> nth_error pts 0 = Some p0 -> nth_pt pts (List.length pts - 1) = pl ->
  forall lo hi, fst p0 = NFloat lo -> fst pl = NFloat hi ->
  order = 0 -> num_le (NFloat lo) q && num_le q (NFloat hi) = false ->
  spline order ex points q =
    if ex then (if num_gt q (NFloat hi) then fl (snd pl) else if num_lt q (NFloat lo) then fl (snd p0) else Err ECalibration)
    else Err ECalibration.
Proof. exact spline0_outside. Qed.
Print Assumptions C08_spline0_outside.

(* enumerations map the RAW value to its label, failing on unlisted values; booleans are the truthiness of the raw value *)
Theorem C08_enum_raw_only : forall t env c labels v c',
  pt_kind t = TEnum labels -> parse_encoding (pt_enc t) env c = Ok (v, c') ->
  parse_type t env c = match enum_lookup labels (vraw v) with
                       | Some lbl => Ok ({| vcls := CStr; vval := PStr lbl; vraw := vraw v |}, c')
                       | None => Err EValue end.
Proof. exact enum_raw_only. Qed.
Print Assumptions C08_enum_raw_only.
Theorem C08_enum_unlisted : forall labels raw,
  Forall (fun kl => key_eq (fst kl) raw = false) labels -> enum_lookup labels raw = None.
Proof. exact enum_lookup_unlisted. Qed.
Print Assumptions C08_enum_unlisted.
Theorem C08_bool_truthiness : forall t env c v c',
  pt_kind t = TBoolean -> parse_encoding (pt_enc t) env c = Ok (v, c') ->
  parse_type t env c = Ok ({| vcls := CBool; vval := PInt (if truthy (vraw v) then 1 else 0); vraw := vraw v |}, c').
Proof. exact bool_truthiness. Qed.
Print Assumptions C08_bool_truthiness.

(* ---- first-order splines ---- *)
(* in range and below the largest point: the straight line through the point preceding the first point that exceeds the
   query, and that point (which exceeds it; none before does) *)
Theorem C08_spline1_in_range : forall order ex points pts q p0 pl,
  sort_points points = pts -> nth_error pts 0 = Some p0 -> nth_pt pts (List.length pts - 1) = pl ->
  forall i, order = 1 ->
  num_le (fst p0) q = true -> num_le q (fst pl) = true -> num_eq q (fst pl) = false ->
  first_greater pts q 0 = Some i ->
  spline order ex points q = linear_func q (fst (nth_pt pts (i - 1))) (fst (nth_pt pts i)) (snd (nth_pt pts (i - 1))) (snd (nth_pt pts i)) /\
  num_gt (fst (nth_pt pts i)) q = true /\ forall j, (j < i)%nat -> num_gt (fst (nth_pt pts j)) q = false.
Proof. exact spline1_in_range. Qed.
Print Assumptions C08_spline1_in_range.

(* at the largest point: that point's calibrated value as written *)
Theorem C08_spline1_at_max : forall order ex points pts q p0 pl,
  sort_points points = pts -> nth_error pts 0 = Some p0 -> nth_pt pts (List.length pts - 1) = pl ->
  order = 1 -> num_le (fst p0) q = true -> num_le q (fst pl) = true -> num_eq q (fst pl) = true ->
  spline order ex points q = Ok (snd pl).
Proof. exact spline1_at_max. Qed.
Print Assumptions C08_spline1_at_max.

From Coq Require Import Reals.
From Flocq Require Import Core.Core IEEE754.BinarySingleNaN.
(* the spline passes through its points: queried at the raw coordinate of the left point of a segment it returns a float
   numerically equal to that point's calibrated value, whenever the segment's slope is a finite float *)
Theorem C08_spline1_through_knot : forall ex points pts p0 pl i (x0 x1 y0 y1 : b64),
  sort_points points = pts -> nth_error pts 0 = Some p0 -> nth_pt pts (List.length pts - 1) = pl ->
  let q := NFloat (to_bits64 x0) in
  num_le (fst p0) q = true -> num_le q (fst pl) = true -> num_eq q (fst pl) = false ->
  first_greater pts q 0 = Some i ->
  nth_pt pts (i - 1) = (NFloat (to_bits64 x0), NFloat (to_bits64 y0)) -> nth_pt pts i = (NFloat (to_bits64 x1), NFloat (to_bits64 y1)) ->
  is_finite x0 = true -> is_finite y0 = true ->
  f_is_zero (fsub (to_bits64 x1) (to_bits64 x0)) = false ->
  is_finite (Bdiv mode_NE (Bminus mode_NE y1 y0) (Bminus mode_NE x1 x0)) = true ->
  exists r, spline 1 ex points q = Ok (NFloat (to_bits64 r)) /\ B2R r = B2R y0 /\ is_finite r = true.
Proof. exact spline1_through_knot. Qed.
Print Assumptions C08_spline1_through_knot.

(* integer coordinates: the same, the value being float(y0) *)
Theorem C08_linear_at_left_knot_int : forall (x0 x1 y0 y1 : Z) (fy0 : Z), x1 <> x0 -> of_Z y0 = Ok fy0 ->
  (exists e, linear_func (NInt x0) (NInt x0) (NInt x1) (NInt y0) (NInt y1) = Err e) \/
  (is_finite (Bdiv mode_NE (ofZ64 (y1 - y0)) (ofZ64 (x1 - x0))) = true ->
   exists r, linear_func (NInt x0) (NInt x0) (NInt x1) (NInt y0) (NInt y1) = Ok (NFloat (to_bits64 r)) /\ B2R r = B2R (ofZ64 y0) /\ is_finite r = true).
Proof. exact linear_at_left_knot_int. Qed.
Print Assumptions C08_linear_at_left_knot_int.
