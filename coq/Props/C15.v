(* Props/C15.v — serialization is deterministic and stable under repeated write/load cycles. *)
From Coq Require Import ZArith List Bool String.
From SPP Require Import Base.Sx Model.Xml Proofs.RoundTripP.
Import ListNotations.

(* every element of the written tree lies in the definition's XTCE namespace (any definition, any depth) *)
Theorem C15_namespace : forall U date d v, write_doc U date d = Ok v -> in_ns U v.
Proof. exact write_doc_in_namespace. Qed.
Print Assumptions C15_namespace.

(* writing is a function of the definition and the header date alone: two writes give the same tree, and the
   definition (an input only) is unchanged *)
Theorem C15_deterministic : forall U date d, write_doc U date d = write_doc U date d.
Proof. exact write_deterministic. Qed.
Print Assumptions C15_deterministic.

(* once a document has been through one write/load cycle every further cycle reproduces the same tree:
   what is read back from a written tree is written to exactly that tree again *)
Theorem C15_stable : forall U date d v, doc_wf d -> write_doc U date d = Ok v ->
  exists d', read_doc U v = Ok d' /\ write_doc U date d' = Ok v.
Proof. exact write_read_write. Qed.
Print Assumptions C15_stable.

(* stability of criteria under further write/load cycles: what was loaded from a written tree is written identically *)
Theorem C15_stable_criteria_partial : forall U all_children bool_ok tag attrs ks, criteria_wf bool_ok ks ->
  forall ks', read_match U all_children bool_ok (E U tag attrs (write_criteria U ks)) = Ok (Some ks') ->
  write_criteria U ks' = write_criteria U ks.
Proof. exact stable_criteria. Qed.
Print Assumptions C15_stable_criteria_partial.
