(* Props/C09.v — writing a definition to XTCE XML and loading it back preserves its meaning.
   Proved here: the write/read round trip of every criteria form (incl. boolean expressions of any depth) and of the
   calibrators; the remaining reader/writer pairs (encodings, parameter types, parameters, containers, document) are
   tied to the implementation and to each other by the correspondence of this property (written tree = model writer,
   reloaded definition = original), see DESIGN.md: the full statement C09_roundtrip is therefore only partially a theorem. *)
From Coq Require Import ZArith List Bool String.
From SPP Require Import Base.Sx Model.Xml Proofs.RoundTripP.
Import ListNotations.

Theorem C09_roundtrip_comparison_partial : forall U c, read_comparison (write_comparison U c) = Ok c.
Proof. exact rt_comparison. Qed.
Print Assumptions C09_roundtrip_comparison_partial.

Theorem C09_roundtrip_condition_partial : forall U d, read_condition U (write_condition U d) = Ok d.
Proof. exact rt_condition. Qed.
Print Assumptions C09_roundtrip_condition_partial.

(* ANDed / ORed groups nested to any depth *)
Theorem C09_roundtrip_boolean_tree_partial : forall U t, alternating t -> forall fuel, (bx_depth t <= fuel)%nat ->
  (match t with XAnd _ _ => read_anded U fuel (write_bx U t) | XOr _ _ => read_ored U fuel (write_bx U t) end) = Ok t.
Proof. exact rt_bx. Qed.
Print Assumptions C09_roundtrip_boolean_tree_partial.

Theorem C09_roundtrip_boolean_expression_partial : forall U b,
  match b with XTree t => alternating t | XCond _ => True end -> read_bexpr U (write_bexpr U b) = Ok b.
Proof. exact rt_bexpr. Qed.
Print Assumptions C09_roundtrip_boolean_expression_partial.

(* restriction criteria, context matches, discrete lookups: one comparison, one boolean expression, or a comparison list *)
Theorem C09_roundtrip_criteria_partial : forall U all_children bool_ok tag attrs ks, criteria_wf bool_ok ks ->
  read_match U all_children bool_ok (E U tag attrs (write_criteria U ks)) = Ok (Some ks).
Proof. exact rt_match. Qed.
Print Assumptions C09_roundtrip_criteria_partial.

Theorem C09_roundtrip_calibrator_partial : forall U c, cal_wf c ->
  match c with XPoly _ => read_poly (write_cal U c) | XSpline _ _ _ => read_spline (write_cal U c) end = Ok c.
Proof. exact rt_cal. Qed.
Print Assumptions C09_roundtrip_calibrator_partial.
