(* Props/C09.v — writing a definition to XTCE XML and loading it back preserves its meaning.
   The round trip is a theorem at every level of the document, up to the whole document, for all eight parameter type kinds.
   A time type writes a first order default polynomial also as the scale and offset attributes of <Encoding> (repair F19: any
   other polynomial stays with the data encoding alone); [time_default_ok] excludes a [scale; offset] polynomial in that term
   order (read back as [offset; scale]) and what the writer refuses (a spline, a data encoding that is not numeric).
   [*_wf] are the writer-normal-form conditions every dumped
   definition satisfies (optional strings non-empty, spline order 0/1, criteria lists in one of the three XTCE shapes, ...). *)
From Coq Require Import ZArith List Bool String.
From SPP Require Import Base.Sx Model.Xml Proofs.RoundTripP.
Import ListNotations.

(* the whole document: reading what was written gives the document back (the header date being filled in) *)
Theorem C09_roundtrip : forall U date d v, doc_wf d -> write_doc U date d = Ok v -> read_doc U v = Ok (with_date d date).
Proof. exact rt_doc. Qed.
Print Assumptions C09_roundtrip.

(* ... and every well-formed document is written: what the writer refuses (ValueError: a time type it cannot express, restriction
   criteria without a base container) lies outside [doc_wf], so the theorem above speaks about every well-formed document *)
Theorem C09_wellformed_is_written : forall U date d, doc_wf d -> exists v, write_doc U date d = Ok v.
Proof. exact wf_doc_written. Qed.
Print Assumptions C09_wellformed_is_written.

Theorem C09_roundtrip_container : forall U c v, container_wf c -> write_container U c = Ok v -> read_container U v = Ok c.
Proof. exact rt_container. Qed.
Print Assumptions C09_roundtrip_container.

Theorem C09_roundtrip_parameter : forall U p, param_wf p -> read_param U (write_param U p) = Ok p.
Proof. exact rt_param. Qed.
Print Assumptions C09_roundtrip_parameter.

Theorem C09_roundtrip_parameter_type : forall U t, ptype_wf t -> read_ptype U (write_ptype U t) = Ok t.
Proof. exact rt_ptype. Qed.
Print Assumptions C09_roundtrip_parameter_type.

Theorem C09_roundtrip_time_type : forall U name ab ep ofr unit enc, encoding_wf enc -> time_default_ok enc ->
  let t := {| xt_name := name; xt_kind := XKTime ab ep ofr; xt_unit := unit; xt_enc := enc |} in read_ptype U (write_ptype U t) = Ok t.
Proof. exact rt_time. Qed.
Print Assumptions C09_roundtrip_time_type.

(* the data encoding is found among its UnitSet / EnumerationList siblings and read back *)
Theorem C09_roundtrip_encoding : forall U m a pre post e, encoding_wf e -> Forall (tags_in INNER) pre -> Forall (tags_in INNER) post ->
  read_encoding U (E U m a (pre ++ write_encoding U e :: post)) = Ok e.
Proof. exact rt_encoding. Qed.
Print Assumptions C09_roundtrip_encoding.

Theorem C09_roundtrip_numeric : forall U e, numeric_wf e -> read_numeric U (xn_float e) (write_numeric U e) = Ok e.
Proof. exact rt_numeric. Qed.
Print Assumptions C09_roundtrip_numeric.
Theorem C09_roundtrip_string : forall U e, string_wf e -> read_string U (write_string U e) = Ok e.
Proof. exact rt_string. Qed.
Print Assumptions C09_roundtrip_string.
Theorem C09_roundtrip_binary : forall U s0, size_wf s0 -> read_binary U (write_binary U s0) = Ok s0.
Proof. exact rt_binary. Qed.
Print Assumptions C09_roundtrip_binary.

Theorem C09_roundtrip_comparison : forall U c, read_comparison (write_comparison U c) = Ok c.
Proof. exact rt_comparison. Qed.
Print Assumptions C09_roundtrip_comparison.
Theorem C09_roundtrip_condition : forall U d, read_condition U (write_condition U d) = Ok d.
Proof. exact rt_condition. Qed.
Print Assumptions C09_roundtrip_condition.

(* ANDed / ORed groups nested to any depth *)
Theorem C09_roundtrip_boolean_tree : forall U t, alternating t -> forall fuel, (bx_depth t <= fuel)%nat ->
  (match t with XAnd _ _ => read_anded U fuel (write_bx U t) | XOr _ _ => read_ored U fuel (write_bx U t) end) = Ok t.
Proof. exact rt_bx. Qed.
Print Assumptions C09_roundtrip_boolean_tree.

(* restriction criteria, context matches, discrete lookups: one comparison, one boolean expression, or a comparison list *)
Theorem C09_roundtrip_criteria : forall U all_children bool_ok tag attrs ks, criteria_wf bool_ok ks ->
  read_match U all_children bool_ok (E U tag attrs (write_criteria U ks)) = Ok (Some ks).
Proof. exact rt_match. Qed.
Print Assumptions C09_roundtrip_criteria.

Theorem C09_roundtrip_calibrator : forall U c, cal_wf c ->
  match c with XPoly _ => read_poly (write_cal U c) | XSpline _ _ _ => read_spline (write_cal U c) end = Ok c.
Proof. exact rt_cal. Qed.
Print Assumptions C09_roundtrip_calibrator.
Theorem C09_roundtrip_context_calibrator : forall U c, context_wf c -> read_context U (write_context U c) = Ok c.
Proof. exact rt_context. Qed.
Print Assumptions C09_roundtrip_context_calibrator.
Theorem C09_roundtrip_lookup : forall U l, lookup_wf l -> read_lookup U (write_lookup U l) = Ok l.
Proof. exact rt_lookup. Qed.
Print Assumptions C09_roundtrip_lookup.

(* ---- "preserves its meaning", in the words of decoding ----
   a definition written to XML and read back links and compiles (Model/Compile.v) to the same decoder definition, so every
   stream decodes to the same items before and after the round trip, whatever the options *)
From SPP Require Import Model.Values Model.Criteria Model.Doc Model.Loader Model.Compile Model.Generator Proofs.MeaningP.
Theorem C09_same_definition : forall U sxc lits date d v, doc_wf d -> write_doc U date d = Ok v ->
  exists d', read_doc U v = Ok d' /\
    (g <- link sxc d' ;; compile lits g) = (g <- link sxc d ;; compile lits g).
Proof. exact roundtrip_same_definition. Qed.
Print Assumptions C09_same_definition.
Theorem C09_same_decoding : forall U sxc lits date d v def root o k stream, doc_wf d -> write_doc U date d = Ok v ->
  (g <- link sxc d ;; compile lits g) = Ok def ->
  exists d' def', read_doc U v = Ok d' /\ (g <- link sxc d' ;; compile lits g) = Ok def' /\
    packet_generator def' root o k stream = packet_generator def root o k stream.
Proof. exact roundtrip_same_decoding. Qed.
Print Assumptions C09_same_decoding.
