(* Props/C05.v — container inheritance selects the unique matching structure, in order. *)
From Coq Require Import ZArith List Bool String.
From SPP Require Import Base.Bytes Base.Sx Model.Cursor Model.Values Model.Criteria Model.Doc Model.Decode Model.Generator
  Proofs.GeneratorP.
Import ListNotations.
Open Scope Z_scope.

(* an entry list is decoded as its flattening: nested container references expanded in place, in entry order *)
Theorem C05_entries_in_order : forall fuel d es ps s, flatten fuel d es = Some ps -> parse_entries fuel d es s = parse_params ps s.
Proof. exact entries_flatten. Qed.
Print Assumptions C05_entries_in_order.

(* the candidates are exactly the inheritors whose restriction criteria all hold on the values decoded so far *)
Theorem C05_candidates : forall d e names l, candidates d e names = Ok l -> l = filter (holds d e) names.
Proof. exact candidates_filter. Qed.
Print Assumptions C05_candidates.

(* exactly one: descend to it *)
Theorem C05_unique_child : forall d c s s' f, parse_entries (S (List.length d)) d (k_entries c) s = Ok s' ->
  forall n child, candidates d (s_env s') (k_inheritors c) = Ok [n] -> find_container d n = Some child ->
  walk (S f) d c s = walk f d child s'.
Proof. exact walk_unique_child. Qed.
Print Assumptions C05_unique_child.

(* none, abstract container: unrecognized, carrying exactly the values decoded so far *)
Theorem C05_dead_end_abstract : forall d c s s' f, parse_entries (S (List.length d)) d (k_entries c) s = Ok s' ->
  candidates d (s_env s') (k_inheritors c) = Ok [] -> k_abstract c = true -> walk (S f) d c s = Unrecognized s'.
Proof. exact walk_dead_end_abstract. Qed.
Print Assumptions C05_dead_end_abstract.

(* none, concrete container: the packet simply ends here *)
Theorem C05_concrete_stop : forall d c s s' f, parse_entries (S (List.length d)) d (k_entries c) s = Ok s' ->
  candidates d (s_env s') (k_inheritors c) = Ok [] -> k_abstract c = false -> walk (S f) d c s = Parsed s'.
Proof. exact walk_concrete_stop. Qed.
Print Assumptions C05_concrete_stop.

(* more than one: unrecognized with the values decoded so far *)
Theorem C05_ambiguous : forall d c s s' f, parse_entries (S (List.length d)) d (k_entries c) s = Ok s' ->
  forall n1 n2 r, candidates d (s_env s') (k_inheritors c) = Ok (n1 :: n2 :: r) -> walk (S f) d c s = Unrecognized s'.
Proof. exact walk_ambiguous. Qed.
Print Assumptions C05_ambiguous.

(* every parsed or unrecognized outcome lies on a path root -> ... -> leaf of unique valid children ... *)
Theorem C05_walk_follows_path : forall d fuel c s o, walk fuel d c s = o -> final_state o <> None -> exists path, descends d c s path o.
Proof. exact walk_descends. Qed.
Print Assumptions C05_walk_follows_path.

(* ... and the packet then holds exactly the parameters of the containers on that path, parents before children *)
Theorem C05_path_items : forall d c s path o, descends d c s path o ->
  forall flats sf, Forall2 (fun k ps => flatten (S (List.length d)) d (k_entries k) = Some ps) path flats ->
  final_state o = Some sf -> parse_params (List.concat flats) s = Ok sf.
Proof. exact descends_items. Qed.
Print Assumptions C05_path_items.

(* ---- the walk's recursion fuel is not a restriction on definitions that were loaded ---- *)
From SPP Require Import Model.Xml Model.Loader Model.Compile Proofs.FuelP Proofs.CompileP.
(* [ranked d]: nested containers stand earlier in the lookup than their users, inheritors later than their base.  Every
   definition compiled from a successfully linked document is ranked (the rank is the insertion order proved under C17) ... *)
Theorem C05_loaded_definitions_are_ranked : forall lits sxc x g d, link sxc x = Ok g -> compile lits g = Ok d -> ranked d.
Proof. exact compiled_ranked. Qed.
Print Assumptions C05_loaded_definitions_are_ranked.

(* ... and on a ranked definition any fuel above the number of containers gives the same walk and the same nested parsing:
   the model's fuel stands for nothing but Python's recursion, which such a definition cannot exhaust by its structure *)
Theorem C05_walk_fuel_irrelevant : forall d, ranked d -> forall f c s, In c d -> (List.length d < f)%nat ->
  walk f d c s = walk (S (List.length d)) d c s.
Proof. exact walk_fuel_irrelevant. Qed.
Print Assumptions C05_walk_fuel_irrelevant.
Theorem C05_nesting_fuel_irrelevant : forall d, ranked d -> forall f es s, (List.length d < f)%nat ->
  parse_entries f d es s = parse_entries (S (List.length d)) d es s.
Proof. exact parse_entries_fuel_irrelevant. Qed.
Print Assumptions C05_nesting_fuel_irrelevant.
