(* Props/C02.v — stream framing is exact and independent of source kind and chunking. *)
From Coq Require Import ZArith List.
From SPP Require Import Base.Bytes Base.Sx Model.Cursor Model.Framer Proofs.FramerP Proofs.FramerCCSDS.
Import ListNotations.

(* [stream_ok k pps]: every packet is preceded by exactly k foreign bytes, consists of well-formed
   bytes, has at least 7 of them, and its length field (bits 32..47) equals its data length - 1.
   [encode pps] is the byte stream.  Source kinds: 0 bytes object, 1 file object, 2 socket.
   [T] is the buffer-trim threshold (the literal 20_000_000 of the source, [frame = frameT TRIM]): the statements hold
   for every value of it, which is what lets the correspondence exercise the trim branch with a small number. *)

(* a bytes object *)
Theorem C02_bytes_source : forall T k pps, stream_ok k pps ->
  frameT T 0 k (encode pps) [] = Some (map snd pps).
Proof. exact frame_bytes_exact. Qed.
Print Assumptions C02_bytes_source.

(* a file read with any buffer size / a socket delivering any fragmentation: any cutting [cs] of the
   stream into non-empty read results *)
Theorem C02_file_socket_source : forall T kind k junk pps cs, (kind = 1 \/ kind = 2)%Z -> stream_ok k pps ->
  nonempty cs -> concat cs = encode pps ->
  frameT T kind k junk cs = Some (map snd pps).
Proof. exact frame_chunked_exact. Qed.
Print Assumptions C02_file_socket_source.

(* the general invariant form: any buffer/offset/counter state holding an encoded suffix, any trim
   threshold T, known or unknown total, any sufficient fuel *)
Theorem C02_loop_exact : forall pps fuel T k total buf cur parsed src,
  Forall (fun pp => length (fst pp) = k /\ wfp plen_ccsds (snd pp)) pps ->
  nonempty src -> cur <= length buf ->
  skipn cur buf ++ concat src = encode pps ->
  (forall t, total = Some t -> parsed + length (encode pps) = t) ->
  length pps < fuel ->
  loop plen_ccsds fuel T k total buf cur parsed src = Some (map snd pps).
Proof. exact (frame_exact plen_ccsds plen_ccsds_pos). Qed.
Print Assumptions C02_loop_exact.

(* chunking and the 20 MB trim threshold are invisible *)
Theorem C02_trim_and_chunking_irrelevant : forall k pps fuel fuel' T T' cs cs',
  stream_ok k pps -> nonempty cs -> nonempty cs' -> concat cs = encode pps -> concat cs' = encode pps ->
  length pps < fuel -> length pps < fuel' ->
  loop plen_ccsds fuel T k None [] 0 0 cs = loop plen_ccsds fuel' T' k None [] 0 0 cs'.
Proof. exact trim_and_chunking_irrelevant. Qed.
Print Assumptions C02_trim_and_chunking_irrelevant.
