(* Props/C10.v — framing terminates on every finite source and yields only complete packets. *)
From Coq Require Import ZArith List.
From SPP Require Import Base.Bytes Base.Sx Model.Cursor Model.Framer Proofs.FramerP Proofs.FramerCCSDS.
Import ListNotations.

(* For ANY byte string and ANY sequence of read results (empty results allowed anywhere), with the
   fuel the model gives itself (|input| + 1) the generator loop ends normally ([Some], never out of
   fuel); every item has the length its own header declares; and the items, each preceded by its k
   foreign bytes, are consecutive slices of the input starting at its first byte. *)
Theorem C10_terminates_complete_consecutive : forall T kind k stream cs,
  exists items rest, frameT T kind k stream cs = Some items /\
    Forall (wfp plen_ccsds) items /\
    consecutive k (if (kind =? 0)%Z then stream else concat cs) items rest.
Proof. exact frame_terminates. Qed.
Print Assumptions C10_terminates_complete_consecutive.

(* When read results are non-empty until the source is exhausted (a real reader), the unconsumed
   remainder is shorter than k + 6 bytes or shorter than k + the packet its own header declares. *)
Theorem C10_remainder_short : forall T kind k stream cs, nonempty cs ->
  exists items rest, frameT T kind k stream cs = Some items /\
    Forall (wfp plen_ccsds) items /\
    consecutive k (if (kind =? 0)%Z then stream else concat cs) items rest /\
    (length rest < k + 6 \/ length rest < k + plen_ccsds (firstn 6 (skipn k rest))).
Proof. exact frame_remainder_short. Qed.
Print Assumptions C10_remainder_short.

(* "complete" in the property's words: total length = 7 + value of the item's own length field *)
Theorem C10_item_length_field : forall p, wf p -> wfp plen_ccsds p -> 6 <= length p ->
  zlen p = (7 + spec_int p 32 16)%Z.
Proof. exact wfp_length_field. Qed.
Print Assumptions C10_item_length_field.
