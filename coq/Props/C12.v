(* Props/C12.v — segmented packets are reassembled per APID exactly once and only when complete. *)
From Coq Require Import ZArith List.
From SPP Require Import Base.Bytes Base.Sx Model.Cursor Model.Header Model.Segments Proofs.SegmentsP.
Import ListNotations.
Open Scope Z_scope.

(* no raw packet ever contributes to more than one output: over any history whose packets carry
   their stream positions, the positions of all emitted groups are duplicate-free *)
Theorem C12_at_most_once : forall h, increasing 0 h -> NoDup (all_emitted (run [] h)).
Proof. exact at_most_once. Qed.
Print Assumptions C12_at_most_once.

(* each APID is handled independently: the outputs caused by APID a's packets in any interleaving
   are the outputs of running APID a's packets alone *)
Theorem C12_per_apid_independent : forall a h m m', get m a = get m' a ->
  outs_of a h (run m h) = run m' (filter (of_apid a) h).
Proof. exact per_apid_independent. Qed.
Print Assumptions C12_per_apid_independent.

(* a single APID follows the Idle/Open automaton: UNSEGMENTED alone; FIRST opens (superseding any
   unfinished group); CONTINUATION/LAST without an open group warn; LAST closes: emitted iff counts
   are consecutive modulo 16384, otherwise dropped with a warning; the group is forgotten either way *)
Theorem C12_group_semantics : forall a h m, Forall (fun r => apid r = a) h ->
  run m h = arun (abs m a) h.
Proof. exact group_semantics. Qed.
Print Assumptions C12_group_semantics.

(* every emitted group is a lone UNSEGMENTED packet or FIRST CONT* LAST of one APID in sequence *)
Theorem C12_only_complete : forall h,
  Forall (fun o => forall g, o = Emit g -> group_shape g) (run [] h).
Proof. exact (fun h => only_complete h [] open_shape_empty). Qed.
Print Assumptions C12_only_complete.
