(* Props/C07.v — string and binary fields, including computed lengths, decode as documented. *)
From Coq Require Import ZArith List Bool.
From SPP Require Import Base.Bytes Base.Sx Base.Floats Model.Cursor Model.Values Model.Criteria Model.Doc Model.Decode
  Proofs.StringsP.
Import ListNotations.
Open Scope Z_scope.

(* binary: exactly the bits of the field, left-padded to whole bytes; cursor + computed length *)
Theorem C07_binary_bits : forall B p s env n, wf B -> 0 <= p -> binary_size s env = Ok n -> 0 <= n -> p + n <= 8 * zlen B ->
  parse_binary s env {| cdata := B; cpos := p |}
  = Ok ({| vcls := CBinary; vval := PBytes (spec_bytes B p n); vraw := PBytes (spec_bytes B p n) |}, {| cdata := B; cpos := p + n |}).
Proof. exact binary_bits. Qed.
Print Assumptions C07_binary_bits.

(* string: raw value = the whole buffer (bits right-padded with zeros), value = delimited and decoded text;
   cursor + computed length even when that is not a whole number of bytes *)
Theorem C07_string_field : forall e env B p n, wf B -> 0 <= p -> string_size (se_size e) env = Ok n -> 0 <= n -> p + n <= 8 * zlen B ->
  parse_string e env {| cdata := B; cpos := p |}
  = (text <- delimit e (raw_buffer B p n) ;; cps <- decode_text (se_charset e) text ;;
     Ok ({| vcls := CStr; vval := PStr cps; vraw := PBytes (raw_buffer B p n) |}, {| cdata := B; cpos := p + n |})).
Proof. exact string_field. Qed.
Print Assumptions C07_string_field.

Theorem C07_string_raw_bits : forall B p n, wf B -> 0 <= p -> 0 <= n -> p + n <= 8 * zlen B ->
  bits_of_bytes (raw_buffer B p n)
  = firstn (Z.to_nat n) (skipn (Z.to_nat p) (bits_of_bytes B)) ++ repeat false (Z.to_nat (pad_of n)).
Proof. exact raw_buffer_bits. Qed.
Print Assumptions C07_string_raw_bits.

Theorem C07_text_whole : forall e buf, se_leading e = None -> se_term e = None -> delimit e buf = Ok buf.
Proof. exact delimit_whole. Qed.
Print Assumptions C07_text_whole.

Theorem C07_text_terminated : forall e buf term k, wf buf -> se_leading e = None -> se_term e = Some term ->
  term_index (se_charset e) term buf = Some k -> k <= zlen buf -> delimit e buf = Ok (firstn (Z.to_nat k) buf).
Proof. exact delimit_terminated. Qed.
Print Assumptions C07_text_terminated.
(* the terminator is looked for on character boundaries: the first multiple q of the character set's code-unit width (1, 2 for
   UTF-16, 4 for UTF-32) at which the termination character's bytes stand; no earlier boundary carries them *)
Theorem C07_first_terminator : forall cs needle hay k, term_index cs needle hay = Some k ->
  exists q : nat, k = Z.of_nat (char_width cs * q) /\ prefix_at needle (skipn (char_width cs * q) hay) = true /\
  forall j, (j < q)%nat -> prefix_at needle (skipn (char_width cs * j) hay) = false.
Proof. exact term_index_first. Qed.
Print Assumptions C07_first_terminator.

Theorem C07_text_leading : forall e buf tag, wf buf -> se_leading e = Some tag -> 0 < tag -> tag <= 8 * zlen buf ->
  let len := spec_int buf 0 tag in
  delimit e buf = if len mod 8 =? 0 then (if tag + len >? zlen buf * 8 then Err EValue else Ok (spec_bytes buf tag len))
                  else Err EValue.
Proof. exact delimit_leading. Qed.
Print Assumptions C07_text_leading.

(* lengths: fixed, looked up (first matching entry), or referenced through a linear adjustment *)
Theorem C07_lookup_first : forall env ls pre ks v post z,
  ls = pre ++ (ks, v) :: post ->
  Forall (fun kv => eval_all env None (fst kv) = Ok false) pre -> eval_all env None ks = Ok true ->
  int_of_num (NFloat v) = Ok z -> string_size (SLookup ls) env = Ok z.
Proof. exact size_lookup_first. Qed.
Print Assumptions C07_lookup_first.

Theorem C07_size_dynamic : forall env ref cal adj pv x,
  lookup env ref = Some pv -> num_of_payload (select pv cal) = Ok x ->
  string_size (SDynamic ref cal adj) env = match adj with Some (sl, ic) => linear_adjust sl ic x | None => int_of_num x end.
Proof. exact size_dynamic. Qed.
Print Assumptions C07_size_dynamic.

(* the adjusted length is exactly slope*x+intercept (magnitudes below 2^53) or the field is rejected: never a wrong length *)
Theorem C07_length_linear : forall slope icpt x,
  Z.abs slope < 2^53 -> Z.abs x < 2^53 -> Z.abs (slope * x) < 2^53 -> Z.abs icpt < 2^53 -> Z.abs (slope * x + icpt) < 2^53 ->
  linear_adjust slope icpt (NInt x) = Ok (slope * x + icpt) \/ linear_adjust slope icpt (NInt x) = Err EValue.
Proof. exact length_linear. Qed.
Print Assumptions C07_length_linear.

Theorem C07_negative_length_rejected : forall B p s env n, binary_size s env = Ok n -> n < 0 ->
  parse_binary s env {| cdata := B; cpos := p |} = Err EValue.
Proof. exact negative_length_rejected. Qed.
Print Assumptions C07_negative_length_rejected.

(* ---- the fuel of the codec loops and of the terminator search is not a restriction ---- *)
From SPP Require Import Proofs.CodecFuelP.
Theorem C07_decode_fuel_irrelevant : forall cs bs k,
  match cs with
  | Utf8 => utf8 (S (List.length bs) + k) bs = utf8 (S (List.length bs)) bs
  | Utf16 (Some o) => units 2 (match o with MSB => true | LSB => false end) (S (List.length bs) + k) bs
                      = units 2 (match o with MSB => true | LSB => false end) (S (List.length bs)) bs
  | Utf32 (Some o) => units 4 (match o with MSB => true | LSB => false end) (S (List.length bs) + k) bs
                      = units 4 (match o with MSB => true | LSB => false end) (S (List.length bs)) bs
  | _ => True
  end.
Proof. exact decode_text_fuel_irrelevant. Qed.
Print Assumptions C07_decode_fuel_irrelevant.
Theorem C07_terminator_search_fuel_irrelevant : forall cs needle hay k,
  find_aligned (S (List.length hay) + k) (char_width cs) needle hay 0 = term_index cs needle hay.
Proof. exact term_index_fuel_irrelevant. Qed.
Print Assumptions C07_terminator_search_fuel_irrelevant.
