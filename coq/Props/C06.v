(* Props/C06.v — match criteria evaluate to the mathematical truth of their comparisons. *)
From Coq Require Import ZArith List Bool String.
From SPP Require Import Base.Sx Model.Values Model.Criteria Proofs.CriteriaP.
Import ListNotations.
Open Scope Z_scope.

(* Comparison: the stated relation applied to the selected (calibrated/raw) value and the literal
   coerced to the value's type *)
Theorem C06_comparison_truth : forall e cur c pv r,
  lookup e (c_ref c) = Some pv -> coerce (select pv (c_cal c)) (c_lit c) = Ok r ->
  eval_comparison e cur c = apply_op (c_op c) (select pv (c_cal c)) r.
Proof. exact comparison_truth. Qed.
Print Assumptions C06_comparison_truth.

(* ... and the current raw value when the parameter is not in the packet yet *)
Theorem C06_comparison_current : forall e cur c v r,
  lookup e (c_ref c) = None -> cur = Some v -> coerce v (c_lit c) = Ok r ->
  eval_comparison e cur c = apply_op (c_op c) v r.
Proof. exact comparison_current. Qed.
Print Assumptions C06_comparison_current.

(* on integers the six relations are =, <>, <, >, <=, >= of Z *)
Theorem C06_integer_relations : forall o a b, apply_op o (PInt a) (PInt b) = Ok (rel_Z o a b) /\
  (rel_Z o a b = true <->
   match o with OEq => a = b | ONe => a <> b | OLt => a < b | OGt => a > b | OLe => a <= b | OGe => a >= b end).
Proof. exact (fun o a b => conj (rel_int o a b) (rel_Z_prop o a b)). Qed.
Print Assumptions C06_integer_relations.

(* a value of zero is compared, not rejected *)
Theorem C06_falsy_value : forall e cur c pv z,
  lookup e (c_ref c) = Some pv -> select pv (c_cal c) = PInt 0 -> l_int (c_lit c) = Some z ->
  eval_comparison e cur c = Ok (rel_Z (c_op c) 0 z).
Proof. exact comparison_falsy_int. Qed.
Print Assumptions C06_falsy_value.

Theorem C06_comparison_missing : forall e cur c,
  eval_comparison e cur c = Err EValue <-> lookup e (c_ref c) = None /\ cur = None.
Proof. exact (fun e cur c => proj1 (comparison_errors e cur c)). Qed.
Print Assumptions C06_comparison_missing.

Theorem C06_comparison_uncoercible : forall e cur c pv,
  lookup e (c_ref c) = Some pv -> coerce (select pv (c_cal c)) (c_lit c) = Err EValue ->
  eval_comparison e cur c = Err EComparison.
Proof. exact comparison_uncoercible. Qed.
Print Assumptions C06_comparison_uncoercible.

(* Condition between two parameters: the relation on the two selected values; an integer and a float
   are compared exactly *)
Theorem C06_condition_two_params : forall e d n cal pl pr,
  d_right d = RParam n cal -> lookup e (d_left d) = Some pl -> lookup e n = Some pr ->
  eval_condition e d = apply_op (d_op d) (select pl (d_lcal d)) (select pr cal).
Proof. exact condition_two_params. Qed.
Print Assumptions C06_condition_two_params.

Theorem C06_condition_value : forall e d lt pl r,
  d_right d = RValue lt -> lookup e (d_left d) = Some pl -> coerce (select pl (d_lcal d)) lt = Ok r ->
  eval_condition e d = apply_op (d_op d) (select pl (d_lcal d)) r.
Proof. exact condition_value. Qed.
Print Assumptions C06_condition_value.

(* lists are conjunctions *)
Theorem C06_list_is_conjunction : forall e cur ks b, eval_all e cur ks = Ok b ->
  (b = true <-> Forall (fun k => eval_criterion e cur k = Ok true) ks).
Proof. exact list_is_conjunction. Qed.
Print Assumptions C06_list_is_conjunction.

(* ANDed / ORed groups nested to any depth evaluate to their denotation *)
Theorem C06_bexpr_denotation : forall e t, Forall (cond_ok e) (conds_of t) -> eval_bx e t = Ok (denote_bx e t).
Proof. exact bexpr_denotation. Qed.
Print Assumptions C06_bexpr_denotation.

(* a discrete lookup list returns the value of its first entry whose criteria all hold *)
Theorem C06_lookup_first_match : forall e ls pre ks v post,
  ls = (pre ++ (ks, v) :: post)%list ->
  Forall (fun kv => eval_all e None (fst kv) = Ok false) pre ->
  eval_all e None ks = Ok true ->
  lookup_first e ls = Ok (Some v).
Proof. exact lookup_first_match. Qed.
Print Assumptions C06_lookup_first_match.

Theorem C06_operator_table_complete : forall o, exists s, In (s, o) operator_table.
Proof. exact operator_table_complete. Qed.
Print Assumptions C06_operator_table_complete.
