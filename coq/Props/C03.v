(* Props/C03.v — property C03: bit-cursor reads return exactly the addressed bits and advance
   by the width.  Only theorem statements; every proof is [exact <lemma>]. *)
From Coq Require Import ZArith List.
From SPP Require Import Base.Bytes Base.Sx Model.Cursor Proofs.CursorP.
Import ListNotations.
Open Scope Z_scope.

(* integer read = value of bits p..p+n-1 of the buffer (bit 0 = MSB of byte 0); cursor + n;
   buffer unchanged *)
Theorem C03_read_int : forall B p n, wf B -> 0 <= p -> 0 <= n -> p + n <= 8 * zlen B ->
  read_as_int {| cdata := B; cpos := p |} n
  = Ok (val_of_bits (firstn (Z.to_nat n) (skipn (Z.to_nat p) (bits_of_bytes B))),
        {| cdata := B; cpos := p + n |}).
Proof. exact read_int_spec. Qed.
Print Assumptions C03_read_int.

(* bytes read = the same value right-aligned in ceil(n/8) big-endian bytes *)
Theorem C03_read_bytes : forall B p n, wf B -> 0 <= p -> 0 <= n -> p + n <= 8 * zlen B ->
  read_as_bytes {| cdata := B; cpos := p |} n
  = Ok (to_be (Z.to_nat ((n + 7) / 8)) (spec_int B p n), {| cdata := B; cpos := p + n |}).
Proof. exact read_bytes_spec. Qed.
Print Assumptions C03_read_bytes.

Theorem C03_bytes_value : forall B p n, wf B -> 0 <= p -> 0 <= n -> p + n <= 8 * zlen B ->
  from_be (spec_bytes B p n) = spec_int B p n.
Proof. exact spec_bytes_value. Qed.
Print Assumptions C03_bytes_value.

Theorem C03_value_range : forall B p n, 0 <= n -> wf B -> 0 <= p -> p + n <= 8 * zlen B ->
  0 <= spec_int B p n < 2 ^ n.
Proof. exact spec_int_range. Qed.
Print Assumptions C03_value_range.

Theorem C03_bytes_guard : forall B p n, 0 <= n -> p + n > 8 * zlen B ->
  read_as_bytes {| cdata := B; cpos := p |} n = Err EValue.
Proof. exact read_bytes_guard. Qed.
Print Assumptions C03_bytes_guard.
