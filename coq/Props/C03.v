(* Props/C03.v — property C03: bit-cursor reads return exactly the addressed bits and advance
   by the width.  Only theorem statements; every proof is [exact <lemma>]. *)
From Coq Require Import ZArith List.
From SPP Require Import Base.Bytes Base.Sx Model.Cursor Proofs.CursorP.
Import ListNotations.
Open Scope Z_scope.

(* integer read = value of bits p..p+n-1 of the buffer (bit 0 = MSB of byte 0); cursor + n;
   buffer unchanged *)
Theorem C03_read_int : forall B p n, wf B -> 0 <= p -> 0 <= n -> p + n <= 8 * zlen B ->
  read_as_int {| cdata := B; cpos := p |} n
  = Ok (val_of_bits (firstn (Z.to_nat n) (skipn (Z.to_nat p) (bits_of_bytes B))),
        {| cdata := B; cpos := p + n |}).
Proof. exact read_int_spec. Qed.
Print Assumptions C03_read_int.

(* bytes read = the same value right-aligned in ceil(n/8) big-endian bytes *)
Theorem C03_read_bytes : forall B p n, wf B -> 0 <= p -> 0 <= n -> p + n <= 8 * zlen B ->
  read_as_bytes {| cdata := B; cpos := p |} n
  = Ok (to_be (Z.to_nat ((n + 7) / 8)) (spec_int B p n), {| cdata := B; cpos := p + n |}).
Proof. exact read_bytes_spec. Qed.
Print Assumptions C03_read_bytes.

Theorem C03_bytes_value : forall B p n, wf B -> 0 <= p -> 0 <= n -> p + n <= 8 * zlen B ->
  from_be (spec_bytes B p n) = spec_int B p n.
Proof. exact spec_bytes_value. Qed.
Print Assumptions C03_bytes_value.

Theorem C03_value_range : forall B p n, 0 <= n -> wf B -> 0 <= p -> p + n <= 8 * zlen B ->
  0 <= spec_int B p n < 2 ^ n.
Proof. exact spec_int_range. Qed.
Print Assumptions C03_value_range.

Theorem C03_bytes_guard : forall B p n, 0 <= n -> p + n > 8 * zlen B ->
  read_as_bytes {| cdata := B; cpos := p |} n = Err EValue.
Proof. exact read_bytes_guard. Qed.
Print Assumptions C03_bytes_guard.

(* two consecutive integer reads return the high and the low part of what a single read of the joint
   width returns, and leave the same cursor: no bit is skipped or read twice between reads *)
Theorem C03_reads_compose : forall B p n m, wf B -> 0 <= p -> 0 <= n -> 0 <= m -> p + n + m <= 8 * zlen B ->
  exists v1 v2 c1,
    read_as_int {| cdata := B; cpos := p |} n = Ok (v1, c1) /\
    read_as_int c1 m = Ok (v2, {| cdata := B; cpos := p + n + m |}) /\
    read_as_int {| cdata := B; cpos := p |} (n + m) = Ok (v1 * 2 ^ m + v2, {| cdata := B; cpos := p + n + m |}).
Proof. exact reads_compose. Qed.
Print Assumptions C03_reads_compose.

(* whole bytes read at a byte boundary are exactly bytes a..a+k-1 of the buffer, unchanged *)
Theorem C03_bytes_aligned : forall B a k, wf B -> 0 <= a -> 0 <= k -> a + k <= zlen B ->
  read_as_bytes {| cdata := B; cpos := 8 * a |} (8 * k)
  = Ok (slice a (a + k) B, {| cdata := B; cpos := 8 * a + 8 * k |}).
Proof. exact read_bytes_aligned. Qed.
Print Assumptions C03_bytes_aligned.
