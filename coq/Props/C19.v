(* Props/C19.v — CLI listings show each packet once, in order; index handling. *)
From Coq Require Import ZArith List Arith.
From SPP Require Import Model.Cli Proofs.CliP.
Import ListNotations.

(* for every n: all rows when n <= 10; otherwise the first five, one ellipsis row, the last five *)
Theorem C19_rows : forall n,
  rows n = if n <=? 10 then map Pkt (seq 0 n)
           else map Pkt (seq 0 5) ++ [Ellipsis] ++ map Pkt (seq (n - 5) 5).
Proof. exact rows_spec. Qed.
Print Assumptions C19_rows.

(* no packet is printed twice; only packets of the file are printed; all of them when n <= 10 *)
Theorem C19_each_once : forall n,
  NoDup (pkts (rows n)) /\ (forall i, In i (pkts (rows n)) -> i < n) /\
  (n <= 10 -> pkts (rows n) = seq 0 n) /\
  (10 < n -> pkts (rows n) = seq 0 5 ++ seq (n - 5) 5).
Proof. exact rows_each_once. Qed.
Print Assumptions C19_each_once.

(* --packet idx: shown for every valid index, out-of-range message otherwise *)
Theorem C19_select : forall idx n,
  (idx < n -> select idx n = Shown idx) /\ (n <= idx -> select idx n = OutOfRange).
Proof. exact select_spec. Qed.
Print Assumptions C19_select.
