(* Props/C16.v — loading is independent of lexical spelling and of earlier loads. *)
From Coq Require Import ZArith List Bool String.
From SPP Require Import Base.Sx Model.Xml Proofs.XmlP.
Import ListNotations.

(* The readers see a document only through lxml's element API (find / findall / iterfind / attrib / text): [view].
   Removing every comment and every whitespace-only text node, at any depth, does not change what they see, as long
   as the decorations sit between elements (real character data only as the first child of its element). *)
Theorem C16_view_ignores_decorations : forall x, well_decorated x = true -> view (strip x) = view x.
Proof. exact view_strip. Qed.
Print Assumptions C16_view_ignores_decorations.

(* hence two renderings that differ only in comments / inter-element whitespace load to the same definition *)
Theorem C16_decorations : forall st prefix root root' nsmap,
  well_decorated root = true -> well_decorated root' = true -> strip root = strip root' ->
  fst (load st prefix {| pr_root := root; pr_nsmap := nsmap |}) = fst (load st prefix {| pr_root := root'; pr_nsmap := nsmap |}).
Proof. exact decorations_irrelevant. Qed.
Print Assumptions C16_decorations.

(* earlier loads (successful or failed, any namespace convention): the process-wide state is overwritten from the
   document before the first lookup, so the result never depends on it *)
Theorem C16_history : forall h prefix p st0, fst (load (run_history st0 h) prefix p) = fst (load st0 prefix p).
Proof. exact any_history_irrelevant. Qed.
Print Assumptions C16_history.

(* the name of the prefix bound to the XTCE namespace, or binding it as the default namespace, is irrelevant *)
Theorem C16_prefix_name : forall st st' p q u root,
  fst (load st (Some p) {| pr_root := root; pr_nsmap := [(Some p, u)] |}) =
  fst (load st' (Some q) {| pr_root := root; pr_nsmap := [(Some q, u)] |}).
Proof. exact prefix_name_irrelevant. Qed.
Print Assumptions C16_prefix_name.
Theorem C16_default_namespace : forall st st' p u root,
  fst (load st (Some p) {| pr_root := root; pr_nsmap := [(Some p, u)] |}) =
  fst (load st' None {| pr_root := root; pr_nsmap := [(None, u)] |}).
Proof. exact default_namespace_same. Qed.
Print Assumptions C16_default_namespace.

(* which namespace the XTCE elements are in is irrelevant, including none: re-label every tag (elements of namespace U go to
   U', all others to a namespace different from U': [rnx U U']) and read with U' — the same document comes out.
   [U], [U'] are what the two (prefix, namespace map) pairs resolve to.  Proved reader by reader up to read_doc (Proofs/NsP.v). *)
From SPP Require Import Proofs.NsP.
Theorem C16_namespace_relabelling : forall U U' st st' prefix prefix' root nsmap nsmap',
  resolve {| st_prefix := prefix; st_nsmap := nsmap |} = Ok U ->
  resolve {| st_prefix := prefix'; st_nsmap := nsmap' |} = Ok U' ->
  fst (load st' prefix' {| pr_root := rnx U U' root; pr_nsmap := nsmap' |}) = fst (load st prefix {| pr_root := root; pr_nsmap := nsmap |}).
Proof. exact load_relabelled. Qed.
Print Assumptions C16_namespace_relabelling.

(* in particular the document written with no namespace at all loads like the one written with a prefix *)
Theorem C16_no_namespace : forall st st' p u root,
  fst (load st' None {| pr_root := rnx (Some u) None root; pr_nsmap := [] |})
  = fst (load st (Some p) {| pr_root := root; pr_nsmap := [(Some p, u)] |}).
Proof. exact no_namespace_spelling. Qed.
Print Assumptions C16_no_namespace.
