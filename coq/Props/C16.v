(* Props/C16.v — loading is independent of lexical spelling and of earlier loads. *)
From Coq Require Import ZArith List Bool String.
From SPP Require Import Base.Sx Model.Xml Proofs.XmlP.
Import ListNotations.

(* The readers see a document only through lxml's element API (find / findall / iterfind / attrib / text): [view].
   Removing every comment and every whitespace-only text node, at any depth, does not change what they see, as long
   as the decorations sit between elements (real character data only as the first child of its element). *)
Theorem C16_view_ignores_decorations : forall x, well_decorated x = true -> view (strip x) = view x.
Proof. exact view_strip. Qed.
Print Assumptions C16_view_ignores_decorations.

(* hence two renderings that differ only in comments / inter-element whitespace load to the same definition *)
Theorem C16_decorations : forall st prefix root root' nsmap,
  well_decorated root = true -> well_decorated root' = true -> strip root = strip root' ->
  fst (load st prefix {| pr_root := root; pr_nsmap := nsmap |}) = fst (load st prefix {| pr_root := root'; pr_nsmap := nsmap |}).
Proof. exact decorations_irrelevant. Qed.
Print Assumptions C16_decorations.

(* earlier loads (successful or failed, any namespace convention): the process-wide state is overwritten from the
   document before the first lookup, so the result never depends on it *)
Theorem C16_history : forall h prefix p st0, fst (load (run_history st0 h) prefix p) = fst (load st0 prefix p).
Proof. exact any_history_irrelevant. Qed.
Print Assumptions C16_history.

(* the name of the prefix bound to the XTCE namespace, or binding it as the default namespace, is irrelevant *)
Theorem C16_prefix_name : forall st st' p q u root,
  fst (load st (Some p) {| pr_root := root; pr_nsmap := [(Some p, u)] |}) =
  fst (load st' (Some q) {| pr_root := root; pr_nsmap := [(Some q, u)] |}).
Proof. exact prefix_name_irrelevant. Qed.
Print Assumptions C16_prefix_name.
Theorem C16_default_namespace : forall st st' p u root,
  fst (load st (Some p) {| pr_root := root; pr_nsmap := [(Some p, u)] |}) =
  fst (load st' None {| pr_root := root; pr_nsmap := [(None, u)] |}).
Proof. exact default_namespace_same. Qed.
Print Assumptions C16_default_namespace.
