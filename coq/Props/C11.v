(* Props/C11.v — packets are parsed independently; generators and definitions do not interfere. *)
From Coq Require Import ZArith List Bool String.
From SPP Require Import Base.Bytes Base.Sx Model.Cursor Model.Values Model.Criteria Model.Doc Model.Decode Model.Generator
  Proofs.GeneratorP.
Import ListNotations.

(* the items for a stream are, in order, what parsing each packet on its own yields (all option combinations) *)
Theorem C11_flat_map : forall d root o pkts, Forall (no_fatal d root o) pkts ->
  gen_items d root o pkts = (flat_map (fun r => items_of (parse_one d root o r)) pkts, None).
Proof. exact gen_flat_map. Qed.
Print Assumptions C11_flat_map.

(* also up to a packet on which decoding raises: everything before it is unaffected *)
Theorem C11_prefix_unaffected : forall d root o a b, Forall (no_fatal d root o) a ->
  gen_items d root o (a ++ b) =
  (flat_map (fun r => items_of (parse_one d root o r)) a ++ fst (gen_items d root o b), snd (gen_items d root o b)).
Proof. exact gen_prefix. Qed.
Print Assumptions C11_prefix_unaffected.

(* reporting on: an unrecognized packet appears in its position as one error object carrying its partial data *)
Theorem C11_errors_in_place : forall d root o raw p, parse_packet d root raw = Unrecognized p ->
  parse_one d root o raw = OItems (if yield_unrecognized o then [IError (s_env p) raw] else []).
Proof. exact errors_in_place. Qed.
Print Assumptions C11_errors_in_place.

(* any interleaving of next() calls over any number of generators: what generator i has delivered so far followed by
   what it still holds is its own solo output (the definition is an input only: the model is a function of it) *)
Theorem C11_schedule_independent : forall sched gs i,
  delivered i (fst (run_schedule gs sched)) ++ nth i (snd (run_schedule gs sched)) [] = nth i gs [].
Proof. exact schedule_independent. Qed.
Print Assumptions C11_schedule_independent.
