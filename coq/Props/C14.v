(* Props/C14.v — bit consumption is accounted for; over-reads are never delivered as clean data. *)
From Coq Require Import ZArith List Bool String.
From SPP Require Import Base.Bytes Base.Sx Model.Cursor Model.Values Model.Criteria Model.Doc Model.Decode Model.Generator
  Proofs.CursorP Proofs.GeneratorP.
Import ListNotations.
Open Scope Z_scope.

(* delivered without the length warning <=> the definition consumed precisely all bits *)
Theorem C14_clean_iff_exact : forall d root o raw s, parse_packet d root raw = Parsed s ->
  (parse_one d root o raw = OItems [IPacket (s_env s) (cpos (s_cur s)) raw false] <-> cpos (s_cur s) = 8 * zlen raw).
Proof. exact clean_iff_exact. Qed.
Print Assumptions C14_clean_iff_exact.

(* fewer or more bits consumed than the packet holds: flagged by the warning, or withheld when bad packets are excluded *)
Theorem C14_mismatch_flagged_or_withheld : forall d root o raw s, parse_packet d root raw = Parsed s ->
  cpos (s_cur s) <> 8 * zlen raw ->
  parse_one d root o raw = if parse_bad_pkts o then OItems [IPacket (s_env s) (cpos (s_cur s)) raw true] else OItems [].
Proof. exact mismatch_flagged_or_withheld. Qed.
Print Assumptions C14_mismatch_flagged_or_withheld.

(* every decoded field advances the cursor by a non-negative width and leaves the data untouched ... *)
Theorem C14_field_monotone : forall p s s', parse_parameter p s = Ok s' -> s_advances s s'.
Proof. exact parameter_monotone. Qed.
Print Assumptions C14_field_monotone.
Theorem C14_read_widths : forall c n v c', read_as_int c n = Ok (v, c') -> 0 <= n /\ c' = {| cdata := cdata c; cpos := cpos c + n |}.
Proof. exact read_int_advance. Qed.
Print Assumptions C14_read_widths.
Theorem C14_read_bytes_widths : forall c n v c', read_as_bytes c n = Ok (v, c') ->
  0 <= n /\ c' = {| cdata := cdata c; cpos := cpos c + n |} /\ cpos c + n <= 8 * zlen (cdata c).
Proof. exact read_bytes_advance. Qed.
Print Assumptions C14_read_bytes_widths.

(* ... so does a whole walk through the container hierarchy ... *)
Theorem C14_walk_monotone : forall d fuel c s o sf, walk fuel d c s = o -> final_state o = Some sf -> s_advances s sf.
Proof. exact walk_monotone. Qed.
Print Assumptions C14_walk_monotone.

(* ... hence a field that moved the cursor past the end of the packet can never be followed by a clean delivery *)
Theorem C14_overread_persists : forall ps1 ps2 s s1 s2 L,
  parse_params ps1 s = Ok s1 -> parse_params (ps1 ++ ps2) s = Ok s2 -> cpos (s_cur s1) > L -> cpos (s_cur s2) > L.
Proof. exact overread_persists. Qed.
Print Assumptions C14_overread_persists.

(* negative computed lengths are rejected by both reads *)
Theorem C14_negative_rejected : forall c n, n < 0 -> read_as_int c n = Err EValue /\ read_as_bytes c n = Err EValue.
Proof. exact read_negative_rejected. Qed.
Print Assumptions C14_negative_rejected.
