(* Props/C04.v — integer and float fields decode correctly at every size, offset and byte order. *)
From Coq Require Import ZArith List.
From SPP Require Import Base.Bytes Base.Sx Base.Floats Model.Cursor Model.Values Model.Criteria Model.Doc Model.Decode
  Proofs.NumericP Proofs.Half.Base Proofs.Half.All.
Import ListNotations.
Open Scope Z_scope.

(* in all statements: B well-formed bytes, cursor p >= 0, width n >= 1, field inside the buffer; the result is an
   integer-class (resp. float-class) value whose raw value is itself, and the cursor advances by exactly n *)

Theorem C04_uint : forall B p n env, wf B -> 0 <= p -> 1 <= n -> p + n <= 8 * zlen B ->
  parse_numeric (plain_int n false MSB) env {| cdata := B; cpos := p |}
  = Ok (int_value (spec_int B p n), {| cdata := B; cpos := p + n |}).
Proof. exact uint_field. Qed.
Print Assumptions C04_uint.

(* signed / twosComplement: u if u < 2^(n-1) else u - 2^n *)
Theorem C04_sint : forall B p n env, wf B -> 0 <= p -> 1 <= n -> p + n <= 8 * zlen B ->
  parse_numeric (plain_int n true MSB) env {| cdata := B; cpos := p |}
  = Ok (int_value (signed_of n (spec_int B p n)), {| cdata := B; cpos := p + n |}).
Proof. exact sint_field. Qed.
Print Assumptions C04_sint.

Theorem C04_signed_range : forall n u, 1 <= n -> 0 <= u < 2 ^ n ->
  - 2 ^ (n - 1) <= signed_of n u < 2 ^ (n - 1) /\ (signed_of n u) mod 2 ^ n = u.
Proof. exact signed_of_range. Qed.
Print Assumptions C04_signed_range.

(* least significant byte first, whole-byte widths: value of the field's bytes in reverse order *)
Theorem C04_lsb_uint : forall B p n env, wf B -> 0 <= p -> 1 <= n -> p + n <= 8 * zlen B -> n mod 8 = 0 ->
  parse_numeric (plain_int n false LSB) env {| cdata := B; cpos := p |}
  = Ok (int_value (from_be (rev (spec_bytes B p n))), {| cdata := B; cpos := p + n |}).
Proof. exact lsb_uint_field. Qed.
Print Assumptions C04_lsb_uint.
Theorem C04_lsb_sint : forall B p n env, wf B -> 0 <= p -> 1 <= n -> p + n <= 8 * zlen B -> n mod 8 = 0 ->
  parse_numeric (plain_int n true LSB) env {| cdata := B; cpos := p |}
  = Ok (int_value (signed_of n (from_be (rev (spec_bytes B p n)))), {| cdata := B; cpos := p + n |}).
Proof. exact lsb_sint_field. Qed.
Print Assumptions C04_lsb_sint.

(* float fields at every offset and byte order: the format decoder applied to the field's bytes *)
Theorem C04_float_glue : forall B p n env, wf B -> 0 <= p -> 1 <= n -> p + n <= 8 * zlen B ->
  forall fmt o, (fmt = MIL1750A \/ n = 16 \/ n = 32 \/ n = 64) ->
  parse_numeric (plain_float n fmt o) env {| cdata := B; cpos := p |}
  = Ok (float_value (float_decoder fmt n (from_be (ordered o (spec_bytes B p n)))), {| cdata := B; cpos := p + n |}).
Proof. exact float_field. Qed.
Print Assumptions C04_float_glue.

(* bound stated: ALL 65 536 binary16 patterns — the decoder equals Flocq's binary16 decoder widened to binary64 *)
Theorem C04_half_exhaustive : forall bits, 0 <= bits < 65536 -> to_bits64 (dec_ieee 5 10 bits) = widen16 bits.
Proof. exact half_exhaustive. Qed.
Print Assumptions C04_half_exhaustive.
