(* Props/C04.v — integer and float fields decode correctly at every size, offset and byte order. *)
From Coq Require Import ZArith List.
From SPP Require Import Base.Bytes Base.Sx Base.Floats Model.Cursor Model.Values Model.Criteria Model.Doc Model.Decode
  Proofs.NumericP Proofs.Half.Base Proofs.Half.All Proofs.IeeeRealP Proofs.BitsP.
From Coq Require Import Reals.
From Flocq Require Import Core.Core IEEE754.BinarySingleNaN.
Import ListNotations.
Open Scope Z_scope.

(* in all statements: B well-formed bytes, cursor p >= 0, width n >= 1, field inside the buffer; the result is an
   integer-class (resp. float-class) value whose raw value is itself, and the cursor advances by exactly n *)

Theorem C04_uint : forall B p n env, wf B -> 0 <= p -> 1 <= n -> p + n <= 8 * zlen B ->
  parse_numeric (plain_int n false MSB) env {| cdata := B; cpos := p |}
  = Ok (int_value (spec_int B p n), {| cdata := B; cpos := p + n |}).
Proof. exact uint_field. Qed.
Print Assumptions C04_uint.

(* signed / twosComplement: u if u < 2^(n-1) else u - 2^n *)
Theorem C04_sint : forall B p n env, wf B -> 0 <= p -> 1 <= n -> p + n <= 8 * zlen B ->
  parse_numeric (plain_int n true MSB) env {| cdata := B; cpos := p |}
  = Ok (int_value (signed_of n (spec_int B p n)), {| cdata := B; cpos := p + n |}).
Proof. exact sint_field. Qed.
Print Assumptions C04_sint.

Theorem C04_signed_range : forall n u, 1 <= n -> 0 <= u < 2 ^ n ->
  - 2 ^ (n - 1) <= signed_of n u < 2 ^ (n - 1) /\ (signed_of n u) mod 2 ^ n = u.
Proof. exact signed_of_range. Qed.
Print Assumptions C04_signed_range.

(* signed decoding inverts the two's complement encoding: every integer of the n-bit signed range is the
   decoded value of exactly its own n-bit pattern (with C04_signed_range: a bijection pattern <-> value) *)
Theorem C04_signed_inverse : forall n x, 1 <= n -> - 2 ^ (n - 1) <= x < 2 ^ (n - 1) ->
  0 <= x mod 2 ^ n < 2 ^ n /\ signed_of n (x mod 2 ^ n) = x /\ twos_complement (x mod 2 ^ n) n = x.
Proof. exact signed_of_inverse. Qed.
Print Assumptions C04_signed_inverse.

(* least significant byte first, whole-byte widths: value of the field's bytes in reverse order *)
Theorem C04_lsb_uint : forall B p n env, wf B -> 0 <= p -> 1 <= n -> p + n <= 8 * zlen B -> n mod 8 = 0 ->
  parse_numeric (plain_int n false LSB) env {| cdata := B; cpos := p |}
  = Ok (int_value (from_be (rev (spec_bytes B p n))), {| cdata := B; cpos := p + n |}).
Proof. exact lsb_uint_field. Qed.
Print Assumptions C04_lsb_uint.
Theorem C04_lsb_sint : forall B p n env, wf B -> 0 <= p -> 1 <= n -> p + n <= 8 * zlen B -> n mod 8 = 0 ->
  parse_numeric (plain_int n true LSB) env {| cdata := B; cpos := p |}
  = Ok (int_value (signed_of n (from_be (rev (spec_bytes B p n)))), {| cdata := B; cpos := p + n |}).
Proof. exact lsb_sint_field. Qed.
Print Assumptions C04_lsb_sint.

(* the byte reversal applied to least-significant-byte-first fields loses nothing: it maps the values that fit
   k bytes into themselves and is its own inverse there *)
Theorem C04_lsb_reversal_lossless : forall v k, 0 <= v < 2 ^ (8 * Z.of_nat k) ->
  0 <= reverse_bytes v k < 2 ^ (8 * Z.of_nat k) /\ reverse_bytes (reverse_bytes v k) k = v.
Proof. exact reverse_bytes_involutive. Qed.
Print Assumptions C04_lsb_reversal_lossless.

(* float fields at every offset and byte order: the format decoder applied to the field's bytes *)
Theorem C04_float_glue : forall B p n env, wf B -> 0 <= p -> 1 <= n -> p + n <= 8 * zlen B ->
  forall fmt o, (fmt = MIL1750A \/ n = 16 \/ n = 32 \/ n = 64) ->
  parse_numeric (plain_float n fmt o) env {| cdata := B; cpos := p |}
  = Ok (float_value (float_decoder fmt n (from_be (ordered o (spec_bytes B p n)))), {| cdata := B; cpos := p + n |}).
Proof. exact float_field. Qed.
Print Assumptions C04_float_glue.

(* bound stated: ALL 65 536 binary16 patterns — the decoder equals Flocq's binary16 decoder widened to binary64 *)
Theorem C04_half_exhaustive : forall bits, 0 <= bits < 65536 -> to_bits64 (dec_ieee 5 10 bits) = widen16 bits.
Proof. exact half_exhaustive. Qed.
Print Assumptions C04_half_exhaustive.

(* ---- what an IEEE pattern means, for every width: the three bit fields (sign: bit ew+mw, exponent: the next ew bits, fraction:
   the low mw bits) denote, exactly and without rounding,
       (-1)^s * f * 2^(1 - bias - mw)              when the exponent field E is 0          (zero and subnormal numbers)
       (-1)^s * (2^mw + f) * 2^(E - bias - mw)     when 0 < E < 2^ew - 1                   (normal numbers)
   with bias = 2^(ew-1) - 1; the result is finite and carries the sign bit (also on zeros).
   binary16 is (5, 10), binary32 (8, 23), binary64 (11, 52): the decoders of C04_float_glue are [to_bits64 (dec_ieee ew mw bits)]. ---- *)
Theorem C04_ieee_value : forall ew mw bits, 2 <= ew <= 11 -> 1 <= mw <= 52 -> field_e ew mw bits <> 2 ^ ew - 1 ->
  B2R (dec_ieee ew mw bits) =
    F2R (Float radix2 (cond_Zopp (field_s ew mw bits) (ieee_m (field_e ew mw bits) (field_m mw bits) mw)) (ieee_e (field_e ew mw bits) ew mw)) /\
  is_finite (dec_ieee ew mw bits) = true /\ Bsign (dec_ieee ew mw bits) = field_s ew mw bits.
Proof. exact dec_ieee_real. Qed.
Print Assumptions C04_ieee_value.

(* all-ones exponent field: infinity of the pattern's sign when the fraction is zero, otherwise NaN *)
Theorem C04_ieee_special : forall ew mw bits, 0 <= ew -> 0 <= mw -> field_e ew mw bits = 2 ^ ew - 1 ->
  dec_ieee ew mw bits = if field_m mw bits =? 0 then B754_infinity (field_s ew mw bits) else B754_nan.
Proof. exact dec_ieee_special. Qed.
Print Assumptions C04_ieee_special.

(* the 64-bit pattern that carries a float through the models loses nothing: decoding the carrier of a value gives the value
   (all NaNs being one NaN) *)
Theorem C04_carrier_faithful : forall x : b64, of_bits64 (to_bits64 x) = x.
Proof. exact bits_roundtrip. Qed.
Print Assumptions C04_carrier_faithful.

(* MIL-STD-1750A 32-bit floats: mantissa (bits 31..8, two's complement) times 2^(exponent - 23) (exponent: bits 7..0, two's
   complement), exactly: every such number is a binary64 number *)
From SPP Require Import Proofs.MilRealP.
Theorem C04_mil1750a_value : forall bits,
  exists x : b64, dec_mil1750a bits = to_bits64 x /\ is_finite x = true /\
                  B2R x = F2R (Float radix2 (mil_man bits) (mil_exp bits - 23)).
Proof. exact mil1750a_real. Qed.
Print Assumptions C04_mil1750a_value.
