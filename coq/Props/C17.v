(* Props/C17.v — a loaded definition is a consistent object graph; broken documents fail at load. *)
From Coq Require Import ZArith List Bool String.
From SPP Require Import Base.Sx Model.Xml Model.Loader Proofs.LoaderP.
Import ListNotations.

(* a successfully linked document: base references resolve inside the graph; every cached parameter / type is the
   document's own definition of that name; inheritor lists are exactly the containers naming the container as base *)
Theorem C17_graph_wf : forall sxc d g, link sxc d = Ok g ->
  Forall (fun kc => match xk_base (lk (snd kc)) with Some b => In b (map fst (g_containers g)) | None => True end) (g_containers g) /\
  Forall (fun np => In (snd np) (xd_params d) /\ xp_name (snd np) = fst np) (g_params g) /\
  Forall (fun nt => In (snd nt) (xd_types d) /\ xt_name (snd nt) = fst nt) (g_types g) /\
  Forall (fun kc => forall n, In n (lk_inheritors (snd kc)) <->
                    exists c, In (n, c) (map (fun x => (fst x, lk (snd x))) (g_containers g)) /\ xk_base c = Some (fst kc)) (g_containers g).
Proof. exact link_wf. Qed.
Print Assumptions C17_graph_wf.

(* names denote one object: type and parameter tables are duplicate-free and every parameter's type resolves *)
Theorem C17_types_unique : forall ts acc l, link_types ts acc = Ok l -> NoDup (map fst acc) ->
  NoDup (map fst l) /\ l = acc ++ map (fun t => (xt_name t, t)) ts.
Proof. exact types_unique. Qed.
Print Assumptions C17_types_unique.
Theorem C17_params_resolve : forall types ps acc l, link_params types ps acc = Ok l -> NoDup (map fst acc) ->
  NoDup (map fst l) /\ l = acc ++ map (fun p => (xp_name p, p)) ps /\
  Forall (fun p => exists t, assoc types (xp_type p) = Some t) ps.
Proof. exact params_resolve. Qed.
Print Assumptions C17_params_resolve.

(* each container appears once in its base's inheritor list *)
Theorem C17_inheritors_once : forall lookup b, NoDup (map fst lookup) -> NoDup (inheritors_of lookup b).
Proof. exact inheritors_once. Qed.
Print Assumptions C17_inheritors_once.

(* rejections *)
Theorem C17_duplicate_type_rejected : forall ts, ~ NoDup (map xt_name ts) -> link_types ts [] = Err EValue.
Proof. exact duplicate_type_rejected. Qed.
Print Assumptions C17_duplicate_type_rejected.
Theorem C17_dangling_type_rejected : forall types ps p, In p ps -> assoc types (xp_type p) = None ->
  forall acc, exists e, link_params types ps acc = Err e.
Proof. exact dangling_type_rejected. Qed.
Print Assumptions C17_dangling_type_rejected.
