(* Props/C17.v — a loaded definition is a consistent object graph; broken documents fail at load. *)
From Coq Require Import ZArith List Bool String.
From SPP Require Import Base.Sx Model.Xml Model.Loader Proofs.LoaderP Proofs.LinkP.
Import ListNotations.

(* a successfully linked document: base references resolve inside the graph; every cached parameter / type is the
   document's own definition of that name; inheritor lists are exactly the containers naming the container as base *)
Theorem C17_graph_wf : forall sxc d g, link sxc d = Ok g ->
  Forall (fun kc => match xk_base (lk (snd kc)) with Some b => In b (map fst (g_containers g)) | None => True end) (g_containers g) /\
  Forall (fun np => In (snd np) (xd_params d) /\ xp_name (snd np) = fst np) (g_params g) /\
  Forall (fun nt => In (snd nt) (xd_types d) /\ xt_name (snd nt) = fst nt) (g_types g) /\
  Forall (fun kc => forall n, In n (lk_inheritors (snd kc)) <->
                    exists c, In (n, c) (map (fun x => (fst x, lk (snd x))) (g_containers g)) /\ xk_base c = Some (fst kc)) (g_containers g).
Proof. exact link_wf. Qed.
Print Assumptions C17_graph_wf.

(* names denote one object: type and parameter tables are duplicate-free and every parameter's type resolves *)
Theorem C17_types_unique : forall ts acc l, link_types ts acc = Ok l -> NoDup (map fst acc) ->
  NoDup (map fst l) /\ l = acc ++ map (fun t => (xt_name t, t)) ts.
Proof. exact types_unique. Qed.
Print Assumptions C17_types_unique.
Theorem C17_params_resolve : forall types ps acc l, link_params types ps acc = Ok l -> NoDup (map fst acc) ->
  NoDup (map fst l) /\ l = acc ++ map (fun p => (xp_name p, p)) ps /\
  Forall (fun p => exists t, assoc types (xp_type p) = Some t) ps.
Proof. exact params_resolve. Qed.
Print Assumptions C17_params_resolve.

(* each container appears once in its base's inheritor list *)
Theorem C17_inheritors_once : forall lookup b, NoDup (map fst lookup) -> NoDup (inheritors_of lookup b).
Proof. exact inheritors_once. Qed.
Print Assumptions C17_inheritors_once.

(* rejections *)
Theorem C17_duplicate_type_rejected : forall ts, ~ NoDup (map xt_name ts) -> link_types ts [] = Err EValue.
Proof. exact duplicate_type_rejected. Qed.
Print Assumptions C17_duplicate_type_rejected.
Theorem C17_dangling_type_rejected : forall types ps p, In p ps -> assoc types (xp_type p) = None ->
  forall acc, exists e, link_params types ps acc = Err e.
Proof. exact dangling_type_rejected. Qed.
Print Assumptions C17_dangling_type_rejected.

(* ---------------- containers ---------------- *)
(* [containers_of g]: the linked containers in insertion order (the dict order of the implementation).  [crefs c]: the names
   a container refers to structurally, i.e. its base and the containers its entry list nests.  [pos n l]: index of name n. *)

(* each container name denotes exactly one object *)
Theorem C17_container_names_once : forall sxc d g, link sxc d = Ok g -> NoDup (map fst (g_containers g)).
Proof. exact link_names_once. Qed.
Print Assumptions C17_container_names_once.

(* and that object is the document's own element of that name *)
Theorem C17_container_is_document_element : forall sxc d g n c, link sxc d = Ok g -> In (n, c) (containers_of g) ->
  xk_name c = n /\ In c (xd_containers d).
Proof. exact link_own_elements. Qed.
Print Assumptions C17_container_is_document_element.

(* every base and nested reference resolves to a linked container that was inserted EARLIER *)
Theorem C17_references_resolve_backwards : forall sxc d g n c m, link sxc d = Ok g -> In (n, c) (containers_of g) -> In m (crefs c) ->
  In m (map fst (containers_of g)) /\ (pos m (containers_of g) < pos n (containers_of g))%nat.
Proof. exact link_refs_resolve. Qed.
Print Assumptions C17_references_resolve_backwards.

(* hence no chain of references, of any length and any mixture of base and nesting links, returns to its start *)
Theorem C17_no_reference_cycle : forall sxc d g n, link sxc d = Ok g -> ~ chain (containers_of g) n n.
Proof. exact link_acyclic. Qed.
Print Assumptions C17_no_reference_cycle.

(* every parameter entry names a parameter of the document *)
Theorem C17_parameter_entries_resolve : forall sxc d g n c p, link sxc d = Ok g -> In (n, c) (containers_of g) -> In (XEP p) (xk_entries c) ->
  exists q, In q (xd_params d) /\ xp_name q = p.
Proof. exact link_entries_resolve. Qed.
Print Assumptions C17_parameter_entries_resolve.

(* every container element of the document is represented under its name by itself or by an element with the same canonical form *)
Theorem C17_every_container_represented : forall sxc d g, link sxc d = Ok g -> exists params,
  (forall n, assoc params n <> None <-> exists p, In p (xd_params d) /\ xp_name p = n) /\
  good d params (containers_of g) /\ Forall (represented sxc (containers_of g)) (xd_containers d).
Proof. exact link_good. Qed.
Print Assumptions C17_every_container_represented.

(* ---- broken documents fail at load ---- *)
Theorem C17_rejects_dangling_parameter_entry : forall sxc d c p, In c (xd_containers d) -> In (XEP p) (xk_entries c) ->
  (forall q, In q (xd_params d) -> xp_name q <> p) -> exists e, link sxc d = Err e.
Proof. exact link_rejects_dangling_parameter. Qed.
Print Assumptions C17_rejects_dangling_parameter_entry.
Theorem C17_rejects_dangling_base : forall sxc d c b, In c (xd_containers d) -> xk_base c = Some b ->
  (forall c', In c' (xd_containers d) -> xk_name c' <> b) -> exists e, link sxc d = Err e.
Proof. exact link_rejects_dangling_base. Qed.
Print Assumptions C17_rejects_dangling_base.
Theorem C17_rejects_dangling_nested_container : forall sxc d c n, In c (xd_containers d) -> In (XEC n) (xk_entries c) ->
  (forall c', In c' (xd_containers d) -> xk_name c' <> n) -> exists e, link sxc d = Err e.
Proof. exact link_rejects_dangling_nested. Qed.
Print Assumptions C17_rejects_dangling_nested_container.
Theorem C17_rejects_conflicting_duplicate_container : forall sxc d c1 c2, In c1 (xd_containers d) -> In c2 (xd_containers d) ->
  xk_name c1 = xk_name c2 -> sxc c1 <> sxc c2 -> exists e, link sxc d = Err e.
Proof. exact link_rejects_conflicting_duplicate. Qed.
Print Assumptions C17_rejects_conflicting_duplicate_container.
(* [dchain cs n m]: n refers to ... refers to m through container elements of the document.  The canonical form used to compare
   duplicates must determine a container's references (it contains them: see Corr/Xml.v sx_container). *)
Theorem C17_rejects_reference_cycle : forall sxc d n, (forall a b, sxc a = sxc b -> crefs a = crefs b) ->
  dchain (xd_containers d) n n -> exists e, link sxc d = Err e.
Proof. exact link_rejects_cycle. Qed.
Print Assumptions C17_rejects_reference_cycle.

(* the canonical form the linker is run with (Corr/Xml.v [sx_cont], the same the correspondence compares) satisfies that hypothesis *)
From SPP Require Import Corr.Xml Proofs.LinkCorrP.
Theorem C17_rejects_reference_cycle_as_run : forall d n, dchain (xd_containers d) n n -> exists e, link sx_cont d = Err e.
Proof. exact cycle_rejected_concrete. Qed.
Print Assumptions C17_rejects_reference_cycle_as_run.
