(* Props/C18.v — the xarray dataset holds every parsed value, per APID, in order, without loss. *)
From Coq Require Import ZArith List Bool String.
From SPP Require Import Base.Bytes Base.Sx Base.Floats Model.Cursor Model.Values Model.Criteria Model.Doc Model.Decode
  Model.Generator Model.Xarr Proofs.XarrP.
Import ListNotations.
Open Scope Z_scope.

(* one packet: other APIDs untouched; its APID gets one value appended at the END of every column (stream order);
   a new APID is added after the existing ones *)
Theorem C18_rows_in_order : forall tb a e tb', add_packet tb a e = Ok tb' ->
  (forall b, b <> a -> get_apid tb' b = get_apid tb b) /\
  get_apid tb' a = match get_apid tb a with
                   | Some cols => Some (append_cols cols e)
                   | None => Some (map (fun kv => (fst kv, [snd kv])) e)
                   end /\
  map fst tb' = map fst tb ++ (match get_apid tb a with Some _ => [] | None => [a] end).
Proof. exact add_packet_step. Qed.
Print Assumptions C18_rows_in_order.

Theorem C18_columns_only_grow : forall cols e, map fst (append_cols cols e) = map fst cols /\
  Forall2 (fun old new => snd new = snd old \/ exists v, snd new = snd old ++ [v]) cols (append_cols cols e).
Proof. exact append_cols_grows. Qed.
Print Assumptions C18_columns_only_grow.

(* packets of one APID that differ in field set: ValueError *)
Theorem C18_fieldset_mismatch : forall tb a e cols, get_apid tb a = Some cols -> same_keys (map fst cols) (map fst e) = false ->
  add_packet tb a e = Err EValue.
Proof. exact fieldset_mismatch. Qed.
Print Assumptions C18_fieldset_mismatch.

(* every value of an integer encoding of 1..64 bits fits the chosen dtype: no overflow, no wrap-around *)
Theorem C18_int_fits : forall n signed v, 1 <= n <= 64 ->
  (signed = true -> - 2 ^ (n - 1) <= v < 2 ^ (n - 1)) -> (signed = false -> 0 <= v < 2 ^ n) ->
  forall o d c, store (min_dtype_enc (ENum {| ne_size := n; ne_kind := KInt signed; ne_order := o; ne_default := d; ne_context := c |})) (PInt v)
  = Ok (PInt v).
Proof. exact int_fits. Qed.
Print Assumptions C18_int_fits.

Theorem C18_float64_lossless : forall f, store DF64 (PFloat f) = Ok (PFloat f) /\ store DInfer (PFloat f) = Ok (PFloat f).
Proof. exact float64_lossless. Qed.
Print Assumptions C18_float64_lossless.

(* text and byte strings are kept exactly unless they end in NUL ... *)
Theorem C18_bytes_lossless_partial : forall l x, x <> 0 -> store DBytes (PBytes (l ++ [x])) = Ok (PBytes (l ++ [x])) /\
  store DStr (PStr (l ++ [x])) = Ok (PStr (l ++ [x])).
Proof. exact bytes_lossless_without_trailing_nul. Qed.
Print Assumptions C18_bytes_lossless_partial.

(* ... and the full statement is FALSE of the faithful model: numpy's fixed-width dtypes strip trailing NULs
   (known finding KF-C18-nul; the witness b"a\x00" is replayed on the implementation by the check) *)
Theorem C18_trailing_nul_refuted : exists bs, store DBytes (PBytes bs) <> Ok (PBytes bs).
Proof. exact trailing_nul_refuted. Qed.
Print Assumptions C18_trailing_nul_refuted.

(* a float32 column holds every value decoded from an IEEE binary32 field unchanged: rounding such a value to binary32 and
   widening it again (numpy's float32 storage, [round32]) is the identity *)
From SPP Require Import Proofs.Float32P.
Theorem C18_float32_lossless : forall bits,
  store DF32 (PFloat (to_bits64 (dec_ieee 8 23 bits))) = Ok (PFloat (to_bits64 (dec_ieee 8 23 bits))).
Proof. exact float32_lossless. Qed.
Print Assumptions C18_float32_lossless.
