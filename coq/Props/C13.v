(* Props/C13.v — primary-header construction and header accessors are exact inverses. *)
From Coq Require Import ZArith List.
From SPP Require Import Base.Bytes Base.Sx Model.Cursor Model.Header Model.Framer
  Proofs.HeaderP Proofs.HeaderFrameP.
Import ListNotations.
Open Scope Z_scope.

(* in_range: 0<=v<=7, 0<=t<=1, 0<=s<=1, 0<=a<=2047, 0<=f<=3, 0<=c<=16383, 1<=|data|<=65536, data bytes well formed *)

(* construction succeeds and the result has the CCSDS bit layout followed by the data *)
Theorem C13_constructs : forall v t s a f c data, in_range v t s a f c data ->
  create_packet v t s a f c data = Ok (packet v t s a f c data).
Proof. exact create_ok. Qed.
Print Assumptions C13_constructs.

Theorem C13_layout : forall v t s a f c data, in_range v t s a f c data ->
  bits_of_bytes (packet v t s a f c data)
  = (bits 3 v ++ bits 1 t ++ bits 1 s ++ bits 11 a ++ bits 2 f ++ bits 14 c ++ bits 16 (zlen data - 1))
    ++ bits_of_bytes data.
Proof. exact layout. Qed.
Print Assumptions C13_layout.

(* the accessors return exactly the values given; the length accessor is |data| - 1 *)
Theorem C13_accessors_inverse : forall v t s a f c data, in_range v t s a f c data ->
  header_values (packet v t s a f c data) = [v; t; s; a; f; c; zlen data - 1].
Proof. exact accessors_inverse. Qed.
Print Assumptions C13_accessors_inverse.

(* the framer re-frames the constructed packet as that single packet *)
Theorem C13_reframe : forall v t s a f c data, in_range v t s a f c data ->
  frame 0 0 (packet v t s a f c data) [] = Some [packet v t s a f c data].
Proof. exact reframe. Qed.
Print Assumptions C13_reframe.

(* conversely: for every packet (>= 6 bytes) the accessors are the CCSDS layout fields of its first six bytes *)
Theorem C13_accessors_of_any_packet : forall p, wf p -> 6 <= zlen p ->
  header_values p = [spec_int p 0 3; spec_int p 3 1; spec_int p 4 1; spec_int p 5 11; spec_int p 16 2;
                     spec_int p 18 14; zlen p - 7].
Proof. exact accessors_any_packet. Qed.
Print Assumptions C13_accessors_of_any_packet.

(* out-of-range fields, empty or oversized data: ValueError, nothing constructed *)
Theorem C13_rejects : forall v t s a f c data,
  ~ (0 <= v <= 7 /\ 0 <= t <= 1 /\ 0 <= s <= 1 /\ 0 <= a <= 2047 /\ 0 <= f <= 3 /\ 0 <= c <= 16383 /\ 1 <= zlen data <= 65536) ->
  create_packet v t s a f c data = Err EValue.
Proof. exact create_rejects. Qed.
Print Assumptions C13_rejects.

(* construction is injective: the packet determines all seven arguments — no two distinct in-range argument
   tuples give the same bytes (nothing of the arguments is lost or folded together in the header) *)
Theorem C13_injective : forall v t s a f c data v' t' s' a' f' c' data',
  in_range v t s a f c data -> in_range v' t' s' a' f' c' data' ->
  packet v t s a f c data = packet v' t' s' a' f' c' data' ->
  v = v' /\ t = t' /\ s = s' /\ a = a' /\ f = f' /\ c = c' /\ data = data'.
Proof. exact packet_injective. Qed.
Print Assumptions C13_injective.
