(* Props/C20.v — parsed values are drop-in built-ins with a raw value and survive copying. *)
From Coq Require Import ZArith List String.
From SPP Require Import Base.Sx Model.Values Proofs.ValuesP.
Import ListNotations.

(* no separate raw value: raw = the value itself, for every value (zero, false, empty included) *)
Theorem C20_raw_default : forall c v, vraw (mk c v None) = v /\ vval (mk c v None) = v /\ vcls (mk c v None) = c.
Proof. exact raw_default. Qed.
Print Assumptions C20_raw_default.

(* a given raw value is kept, falsy or not *)
Theorem C20_raw_given : forall c v r, vraw (mk c v (Some r)) = r /\ vval (mk c v (Some r)) = v.
Proof. exact raw_given. Qed.
Print Assumptions C20_raw_given.

(* copy / deepcopy / pickle (reduce_ex protocol 2 then rebuild) preserve class, value and raw value *)
Theorem C20_copy_roundtrip : forall x, rebuild (reduce x) = x.
Proof. exact copy_roundtrip. Qed.
Print Assumptions C20_copy_roundtrip.

(* whole parsed packets: items, order, raw bytes, cursor *)
Theorem C20_packet_roundtrip : forall p, rebuild_packet (reduce_packet p) = p.
Proof. exact packet_roundtrip. Qed.
Print Assumptions C20_packet_roundtrip.

(* method resolution (table regenerated from the live classes each run and proved equal, Gen/TablesOk_C20):
   the library defines only _Parameter.__new__ and BoolParameter.__repr__; every value class is
   [cls; _Parameter; builtin; object] *)
Theorem C20_only_new_and_bool_repr : forall c names n, In (c, names) class_owned -> In n names ->
  (c = "_Parameter" /\ n = "__new__")%string \/ (c = "BoolParameter" /\ n = "__repr__")%string.
Proof. exact only_new_and_bool_repr. Qed.
Print Assumptions C20_only_new_and_bool_repr.

Theorem C20_builtin_base : forall c mro, In (c, mro) class_mro -> c <> "_Parameter"%string ->
  exists b, mro = [c; "_Parameter"; b; "object"]%string /\ In b ["bytes"; "int"; "float"; "str"]%string.
Proof. exact builtin_second_base. Qed.
Print Assumptions C20_builtin_base.
