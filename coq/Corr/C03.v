(* Corr/C03.v — runner and executable statement used by the generated case files of C03 *)
From Coq Require Import ZArith List Bool.
From SPP Require Import Base.Bytes Base.Sx Model.Cursor.
Import ListNotations.
Open Scope Z_scope.

(* input: (kind (0 = read_as_int, 1 = read_as_bytes), buffer, p, n) *)
Definition run_c03 (i : Z * list (Z * Z) * Z * Z) : sx :=
  let '(kind, b, p, n) := i in
  let B := bytes_of b in
  let c := {| cdata := B; cpos := p |} in
  if kind =? 0 then sx_res (fun vc : Z * cursor => L [I (fst vc); I (cpos (snd vc)); sx_b (cdata (snd vc))]) (read_as_int c n)
  else sx_res (fun vc : list Z * cursor => L [sx_b (fst vc); I (cpos (snd vc)); sx_b (cdata (snd vc))]) (read_as_bytes c n).

(* the property's statement, computed from the bit string of the buffer *)
Definition spec_c03 (i : Z * list (Z * Z) * Z * Z) : sx :=
  let '(kind, b, p, n) := i in
  let B := bytes_of b in
  if kind =? 0 then L [I 0; L [I (spec_int B p n); I (p + n); sx_b B]]
  else L [I 0; L [sx_b (spec_bytes B p n); I (p + n); sx_b B]].
