(* Corr/Framer.v — runners for C02 / C10 (and C13 re-framing) case files *)
From Coq Require Import ZArith List Bool.
From SPP Require Import Base.Bytes Base.Sx Model.Cursor Model.Framer.
Import ListNotations.
Open Scope Z_scope.

Definition sx_items (o : option (list (list Z))) : sx :=
  match o with Some items => L [I 0; L (map sx_b items)] | None => sx_err OutOfFuel end.

(* C10: (trim threshold, kind, k, stream, read sizes).  The threshold is the literal 20_000_000 of the source; the harness also
   runs the implementation's code object with that literal replaced by a small number, so that the trim branch is taken on
   small streams, and passes the same number here. *)
Definition run_frame (i : Z * Z * Z * list (Z * Z) * list Z) : sx :=
  let '(T, kind, k, st, sizes) := i in
  let stream := bytes_of st in
  sx_items (if kind =? 0 then frameT T kind (Z.to_nat k) stream []
            else frameT T kind (Z.to_nat k) [] (cut (map Z.to_nat sizes) stream)).

(* C02: (kind, k, [(prefix, packet)], read sizes); the stream is the encoding of the packets *)
Definition c02_stream (pps : list (list (Z * Z) * list (Z * Z))) : list (list Z * list Z) :=
  map (fun pp => (bytes_of (fst pp), bytes_of (snd pp))) pps.
Definition run_c02 (i : Z * Z * Z * list (list (Z * Z) * list (Z * Z)) * list Z) : sx :=
  let '(T, kind, k, pps, sizes) := i in
  let stream := encode (c02_stream pps) in
  sx_items (if kind =? 0 then frameT T kind (Z.to_nat k) stream []
            else frameT T kind (Z.to_nat k) [] (cut (map Z.to_nat sizes) stream)).
Definition spec_c02 (i : Z * Z * Z * list (list (Z * Z) * list (Z * Z)) * list Z) : sx :=
  let '(T, kind, k, pps, sizes) := i in
  L [I 0; L (map (fun pp => sx_b (snd pp)) (c02_stream pps))].
