From Coq Require Import ZArith List Bool String.
From SPP Require Import Base.Bytes Base.Sx Base.Floats Model.Cursor Model.Values Model.Criteria Model.Doc Model.Decode
  Model.Generator Model.Xarr Corr.Decode Corr.C06 Corr.Generator.
Import ListNotations.
Open Scope Z_scope.

Definition sx_table (r : res table) : sx :=
  sx_res (fun tb => L (map (fun ac => L [I (fst ac); L (map (fun kc => L [L (codes (fst kc)); L (map sx_payload (snd kc))]) (snd ac))]) tb)) r.

(* input: definition, root, use_raw_values, files (each a list of packets) *)
Definition run_c18 (i : definition * string * bool * list (list (list (Z * Z)))) : sx :=
  let '(d, root, use_raw, files) := i in
  sx_table (create_dataset d root use_raw (map (map bytes_of) files)).
(* the property: every cell equals the parsed value *)
Definition spec_c18 (i : definition * string * bool * list (list (list (Z * Z)))) : sx :=
  let '(d, root, use_raw, files) := i in
  sx_table (dataset_spec d root use_raw (map (map bytes_of) files)).
