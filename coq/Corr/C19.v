From Coq Require Import ZArith List Bool Arith.
From SPP Require Import Base.Sx Model.Cli.
Import ListNotations.
Open Scope Z_scope.

(* input (cmd, n, idx): cmd 0 = describe-packets on n packets -> row ids (-1 = ellipsis);
   cmd 1 = parse --packet idx -> [1; idx] shown / [2] out of range *)
Definition run_c19 (i : Z * Z * Z) : sx :=
  let '(cmd, n, idx) := i in
  if cmd =? 0 then L (map (fun r => match r with Pkt i => I (Z.of_nat i) | Ellipsis => I (-1) end) (rows (Z.to_nat n)))
  else match select (Z.to_nat idx) (Z.to_nat n) with Shown i => L [I 1; I (Z.of_nat i)] | OutOfRange => L [I 2] end.
