(* Corr/C13.v — runner for C13 case files *)
From Coq Require Import ZArith List Bool.
From SPP Require Import Base.Bytes Base.Sx Model.Cursor Model.Header Model.Framer.
Import ListNotations.
Open Scope Z_scope.

(* input: (v,t,s,a,f,c, data-as-(seed,len) or literal).  data = LCG bytes when len > 0 in the gen pair *)
Fixpoint lcg_bytes (n : nat) (x : Z) : list Z :=
  match n with O => [] | S k => let x' := Z.land (x * 1103515245 + 12345) 2147483647 in Z.land (Z.shiftr x' 16) 255 :: lcg_bytes k x' end.

Definition c13_data (lit : list (Z * Z)) (g : Z * Z) : list Z :=
  if snd g =? 0 then bytes_of lit else lcg_bytes (Z.to_nat (snd g)) (fst g).

(* output: construct -> [packet, header_values packet, framer items] *)
Definition run_c13 (i : Z * Z * Z * Z * Z * Z * list (Z * Z) * (Z * Z)) : sx :=
  let '(v, t, s, a, f, c, lit, g) := i in
  let data := c13_data lit g in
  sx_res (fun p => L [sx_b p; L (map I (header_values p));
                      match frame 0 0 p [] with
                      | Some items => L [I (zlen items); sx_bool (sx_eqb (L (map sx_b items)) (L [sx_b p]))]
                      | None => sx_err OutOfFuel end])
         (create_packet v t s a f c data).

(* the property's statement: in range => packet = layout ++ data, accessors = arguments, reframes as itself;
   otherwise ValueError *)
Definition spec_c13 (i : Z * Z * Z * Z * Z * Z * list (Z * Z) * (Z * Z)) : sx :=
  let '(v, t, s, a, f, c, lit, g) := i in
  let data := c13_data lit g in
  let inr := (0 <=? v) && (v <=? 7) && (0 <=? t) && (t <=? 1) && (0 <=? s) && (s <=? 1) && (0 <=? a) && (a <=? 2047)
             && (0 <=? f) && (f <=? 3) && (0 <=? c) && (c <=? 16383) && (1 <=? zlen data) && (zlen data <=? 65536) in
  if inr then
    let p := bytes_of_bits 6 (header_bits v t s a f c (zlen data - 1)) ++ data in
    L [I 0; L [sx_b p; L (map I [v; t; s; a; f; c; zlen data - 1]); L [I 1; I 1]]]
  else sx_err EValue.
