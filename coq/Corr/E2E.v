(* Corr/E2E.v — runner for C01: the whole chain on the XML document itself.
   parsed XML tree --load (Model/Xml.v)--> document --link (Model/Loader.v)--> graph --compile (Model/Compile.v)--> definition
   --packet_generator (Model/Generator.v, through the framer)--> items *)
From Coq Require Import ZArith List Bool String.
From SPP Require Import Base.Bytes Base.Sx Model.Values Model.Criteria Model.Doc Model.Xml Model.Loader Model.Compile Model.Generator.
From SPP Require Corr.Xml Corr.Generator.
Import ListNotations.
Open Scope Z_scope.

Definition definition_of (lits : list (string * lit)) (prefix : option string) (p : parsed) : res definition :=
  d <- fst (load {| st_prefix := None; st_nsmap := [] |} prefix p) ;; g <- link Corr.Xml.sx_cont d ;; compile lits g.

(* input: literal table, (namespace prefix argument, parsed document), root container name, options, packets *)
Definition run_e2e (i : list (string * lit) * (option string * parsed) * string * options * list (list (Z * Z))) : sx :=
  let '(lits, (prefix, p), root, o, pkts) := i in
  match definition_of lits prefix p with
  | Err e => sx_err e
  | Ok def =>
      match packet_generator def root o 0 (List.concat (map bytes_of pkts)) with
      | Some r => Corr.Generator.sx_gen r
      | None => sx_err OutOfFuel
      end
  end.
