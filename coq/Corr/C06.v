From Coq Require Import ZArith List Bool String.
From SPP Require Import Base.Sx Model.Values Model.Criteria.
Import ListNotations.
Open Scope Z_scope.

Fixpoint op_of (s : string) (t : list (string * cop)) : cop :=
  match t with [] => OEq | (k, o) :: r => if String.eqb k s then o else op_of s r end.
Definition op (s : string) : cop := op_of s operator_table.

Inductive c06_input :=
| InComparison (e : env) (cur : option payload) (c : comparison)
| InCondition (e : env) (d : condition)
| InBexpr (e : env) (b : bexpr)
| InLookupC (e : env) (ls : list lookup_entry).

Definition sx_resb (r : res bool) : sx := sx_res sx_bool r.
Definition run_c06 (i : c06_input) : sx :=
  match i with
  | InComparison e cur c => sx_resb (eval_comparison e cur c)
  | InCondition e d => sx_resb (eval_condition e d)
  | InBexpr e b => sx_resb (eval_bexpr e b)
  | InLookupC e ls =>   (* through _calculate_size: no matching entry is a ValueError *)
      match lookup_first e ls with
      | Ok (Some v) => L [I 0; L [I v]]
      | Ok None => sx_err EValue
      | Err k => sx_err k
      end
  end.
