(* Corr/Xml.v — canonical printing of element views and abstract documents; runners for C09/C15/C16/C17 *)
From Coq Require Import ZArith List Bool String Ascii.
From SPP Require Import Base.Sx Model.Xml.
Import ListNotations.
Open Scope Z_scope.

Fixpoint codes (s : string) : list sx :=
  match s with EmptyString => [] | String a r => I (Z.of_N (N_of_ascii a)) :: codes r end.
Definition sx_s (s : string) : sx := L (codes s).
Definition sx_os (o : option string) : sx := match o with Some s => L [sx_s s] | None => L [] end.
Definition sx_aval (a : aval) : sx :=
  match a with AS s => L [I 0; sx_s s] | AZ z => L [I 1; I z] | AF f => L [I 2; I f] | AB b => L [I 3; sx_bool b] end.
Fixpoint sx_velem (v : velem) : sx :=
  match v with
  | VE (u, n) attrs text kids =>
      L [sx_os u; sx_s n; L (map (fun kv => L [sx_s (fst kv); sx_aval (snd kv)]) attrs);
         match text with Some t => L [sx_aval t] | None => L [] end; L (map sx_velem kids)]
  end.

Definition sx_cmp (c : xcomparison) : sx := L [sx_s (xc_ref c); sx_s (xc_value c); sx_s (xc_op c); sx_bool (xc_cal c)].
Definition sx_cond (d : xcondition) : sx :=
  L [sx_s (xd_left d); sx_bool (xd_lcal d); sx_s (xd_op d);
     match xd_right d with XParam n c => L [I 0; sx_s n; sx_bool c] | XValue s => L [I 1; sx_s s] end].
Fixpoint sx_bx (t : xbx) : sx :=
  match t with
  | XAnd cs subs => L [I 0; L (map sx_cond cs); L (map sx_bx subs)]
  | XOr cs subs => L [I 1; L (map sx_cond cs); L (map sx_bx subs)]
  end.
Definition sx_crit (k : xcriterion) : sx :=
  match k with
  | XCmp c => L [I 0; sx_cmp c]
  | XBool (XCond d) => L [I 1; sx_cond d]
  | XBool (XTree t) => L [I 2; sx_bx t]
  end.
Definition sx_cal (c : xcalibrator) : sx :=
  match c with
  | XPoly ts => L [I 0; L (map (fun t => L [I (fst t); I (snd t)]) ts)]
  | XSpline o ex ps => L [I 1; I o; sx_bool ex; L (map (fun p => L [I (fst p); I (snd p)]) ps)]
  end.
Definition sx_size (s : xsize) : sx :=
  match s with
  | XFixed n => L [I 0; I n]
  | XDynamic r c a => L [I 1; sx_s r; sx_bool c; match a with Some (s, i) => L [I s; I i] | None => L [] end]
  | XLookup ls => L [I 2; L (map (fun l => L [L (map sx_crit (xl_criteria l)); I (xl_value l)]) ls)]
  end.
Definition sx_enc (e : xencoding) : sx :=
  match e with
  | XNum n => L [I 0; sx_bool (xn_float n); I (xn_size n); sx_s (xn_encoding n); sx_s (xn_order n);
                 match xn_default n with Some c => L [sx_cal c] | None => L [] end;
                 match xn_context n with
                 | Some cs => L [L (map (fun c => L [L (map sx_crit (xx_criteria c)); sx_cal (xx_cal c)]) cs)]
                 | None => L [] end]
  | XStr s => L [I 1; sx_s (xs_charset s); sx_os (xs_order s); sx_size (xs_size s); sx_os (xs_term s);
                 match xs_leading s with Some z => L [I z] | None => L [] end]
  | XBin s => L [I 2; sx_size s]
  end.
Definition sx_kind (k : xkind) : sx :=
  match k with
  | XKInteger => L [I 0] | XKFloat => L [I 1] | XKString => L [I 2] | XKBinary => L [I 3] | XKBoolean => L [I 4]
  | XKEnum ls => L [I 5; L (map (fun vl => L [sx_aval (fst vl); sx_s (snd vl)]) ls)]
  | XKTime a e o => L [I 6; sx_bool a; sx_os e; sx_os o]
  end.
Definition sx_ptype (t : xptype) : sx := L [sx_s (xt_name t); sx_kind (xt_kind t); sx_os (xt_unit t); sx_enc (xt_enc t)].
Definition sx_param (p : xparam) : sx := L [sx_s (xp_name p); sx_s (xp_type p); sx_os (xp_short p); sx_os (xp_long p)].
Definition sx_cont (c : xcontainer) : sx :=
  L [sx_s (xk_name c); sx_bool (xk_abstract c); sx_os (xk_short c); sx_os (xk_long c);
     L (map (fun e => match e with XEP n => L [I 0; sx_s n] | XEC n => L [I 1; sx_s n] end) (xk_entries c));
     sx_os (xk_base c); L (map sx_crit (xk_criteria c))].
Definition sx_xdoc (d : xdoc) : sx :=
  L [L (map sx_ptype (xd_types d)); L (map sx_param (xd_params d)); L (map sx_cont (xd_containers d)); sx_os (xd_name d); sx_os (xd_date d)].

(* writer: (namespace URI, fixed header date, document) *)
Definition run_write (i : option string * string * xdoc) : sx :=
  let '(u, date, d) := i in sx_res sx_velem (write_doc u date d).

(* reader: a history of earlier loads (prefix, parsed tree), then the load under test *)
Fixpoint run_history (st : nsstate) (h : list (option string * parsed)) : nsstate :=
  match h with [] => st | (p, t) :: r => run_history (snd (load st p t)) r end.
Definition run_load (i : list (option string * parsed) * (option string * parsed)) : sx :=
  let '(h, (p, t)) := i in
  sx_res sx_xdoc (fst (load (run_history {| st_prefix := None; st_nsmap := [] |} h) p t)).

(* ---------- loader (linking) ---------- *)
From SPP Require Import Model.Loader.
Definition sx_graph (g : graph) (name date : option string) : sx :=
  L [L (map (fun kt => sx_ptype (snd kt)) (g_types g)); L (map (fun kp => sx_param (snd kp)) (g_params g));
     L (map (fun kc => match sx_cont (lk (snd kc)) with
                       | L l => L (l ++ [L (map sx_s (lk_inheritors (snd kc)))])
                       | x => x end) (g_containers g));
     sx_os name; sx_os date; sx_bool true].
Definition loadlink (st : nsstate) (prefix : option string) (p : parsed) : res sx :=
  d <- fst (load st prefix p) ;; g <- link sx_cont d ;; Ok (sx_graph g (xd_name d) (xd_date d)).
Definition sx_reserr (r : res sx) : sx := match r with Ok x => L [I 0; x] | Err e => sx_err e end.

(* C17: (must_reject, prefix, parsed) *)
Definition run_c17 (i : bool * option string * parsed) : sx :=
  let '(_, p, t) := i in sx_reserr (loadlink {| st_prefix := None; st_nsmap := [] |} p t).
Definition c17_ok (i : bool * option string * parsed) (out : sx) : bool :=
  let '(must_reject, p, t) := i in
  match out with
  | L [I 0; _] => negb must_reject && sx_eqb out (run_c17 i)
  | _ => must_reject || sx_eqb out (run_c17 i)        (* a broken document must be rejected, by whatever exception *)
  end.

(* C16: (history, variant rendering, plain rendering): loading the variant after the history = loading the plain one first *)
Definition run_c16 (i : list (option string * parsed) * (option string * parsed) * (option string * parsed)) : sx :=
  let '(h, (p, t), _) := i in
  sx_reserr (loadlink (run_history {| st_prefix := None; st_nsmap := [] |} h) p t).
Definition spec_c16 (i : list (option string * parsed) * (option string * parsed) * (option string * parsed)) : sx :=
  let '(_, _, (p0, t0)) := i in
  sx_reserr (loadlink {| st_prefix := None; st_nsmap := [] |} p0 t0).

(* C09: (namespace, date, document in cache order): [written tree; the definition loaded back from it] *)
Definition run_c09 (i : option string * string * xdoc) : sx :=
  let '(u, date, d) := i in
  match write_doc u date d with
  | Err e => sx_err e
  | Ok v =>
      L [I 0; L [sx_velem v;
                 sx_reserr (x <- read_doc u v ;; g <- link sx_cont x ;; Ok (sx_graph g (xd_name x) (xd_date x)))]]
  end.
(* the property: the definition loaded back is the definition that was written.  A refusal to write is accepted only for what the
   writer declares unsupported (a time parameter type whose data encoding is not numeric or whose calibrator is a spline: the
   "supported subset" of the property), and then it has to be that refusal *)
Definition c09_ok (i : option string * string * xdoc) (out : sx) : bool :=
  let '(u, date, d) := i in
  match out with
  | L [I 0; L [_; back]] =>
      forallb time_writable (xd_types d) &&
      sx_eqb back (sx_reserr (g <- link sx_cont d ;;
                              Ok (sx_graph g (xd_name d) (Some (match xd_date d with Some x => x | None => date end)))))
  | _ => negb (forallb time_writable (xd_types d)) && sx_eqb out (sx_err EValue)
  end.

(* C15: the harness' observations (W = W, G2 = G3, well-formed, all elements in the namespace, definition unchanged) must all hold *)
Definition run_c15 (n : Z) : sx := L (repeat (I 1) (Z.to_nat n)).
