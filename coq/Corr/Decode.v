(* Corr/Decode.v — runner for single-parameter decoding (C04, C07, C08) *)
From Coq Require Import ZArith List Bool String.
From SPP Require Import Base.Bytes Base.Sx Base.Floats Model.Cursor Model.Values Model.Criteria Model.Doc Model.Decode.
Import ListNotations.
Open Scope Z_scope.

Definition sx_payload (p : payload) : sx :=
  match p with PInt z => L [I 0; I z] | PFloat b => L [I 1; I b] | PStr cp => L [I 2; L (map I cp)] | PBytes bs => L [I 3; L (map I bs)] end.
Definition cls_code (c : vclass) : Z := match c with CBinary => 0 | CBool => 1 | CFloat => 2 | CInt => 3 | CStr => 4 end.
Definition sx_pval (x : pval) : sx := L [I (cls_code (vcls x)); sx_payload (vval x); sx_payload (vraw x)].

(* input: (env, packet bytes, cursor position, parameter type) -> [value, new cursor] *)
Definition run_decode (i : env * list (Z * Z) * Z * ptype) : sx :=
  let '(e, bs, pos, t) := i in
  sx_res (fun vc : pval * cursor => L [sx_pval (fst vc); I (cpos (snd vc))])
         (parse_type t e {| cdata := bytes_of bs; cpos := pos |}).

(* calibrator alone: (calibrator, raw number) *)
Definition sx_num (x : num) : sx := match x with NInt z => L [I 0; I z] | NFloat b => L [I 1; I b] end.
Definition run_calibrate (i : calibrator * num) : sx := sx_res sx_num (calibrate (fst i) (snd i)).

(* ---- C04: the property's statement computed from the bit string of the buffer ---- *)
Definition signed_of' (n u : Z) : Z := if u <? 2 ^ (n - 1) then u else u - 2 ^ n.
Definition spec_c04 (i : env * list (Z * Z) * Z * ptype) : sx :=
  let '(e, bs, pos, t) := i in
  let B := bytes_of bs in
  match pt_enc t with
  | ENum ne =>
      let n := ne_size ne in
      let field := spec_bytes B pos n in
      let ord := match ne_order ne with MSB => field | LSB => rev field end in
      match ne_kind ne with
      | KInt sg =>
          let u := match ne_order ne with MSB => spec_int B pos n | LSB => from_be ord end in
          let v := if sg then signed_of' n u else u in
          L [I 0; L [L [I 3; L [I 0; I v]; L [I 0; I v]]; I (pos + n)]]
      | KFloat fmt =>
          let bits := from_be ord in
          let f := match fmt with
                   | MIL1750A => dec_mil1750a bits
                   | IEEE => to_bits64 (if n =? 16 then dec_ieee 5 10 bits else if n =? 32 then dec_ieee 8 23 bits else dec_ieee 11 52 bits)
                   end in
          L [I 0; L [L [I 2; L [I 1; I f]; L [I 1; I f]]; I (pos + n)]]
      end
  | _ => sx_err EOther
  end.

(* ---- C08 / C07 inputs ---- *)
Inductive dec_input :=
| InCal (c : calibrator) (x : num)
| InField (e : env) (bs : list (Z * Z)) (pos : Z) (t : ptype).
Definition run_dec (i : dec_input) : sx :=
  match i with
  | InCal c x => run_calibrate (c, x)
  | InField e bs pos t => run_decode (e, bs, pos, t)
  end.
