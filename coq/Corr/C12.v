(* Corr/C12.v — runner for C12 case files *)
From Coq Require Import ZArith List Bool.
From SPP Require Import Base.Bytes Base.Sx Model.Cursor Model.Header Model.Segments.
Import ListNotations.
Open Scope Z_scope.

Fixpoint number (i : nat) (l : list (list Z)) : list raw :=
  match l with [] => [] | b :: t => mk_raw i b :: number (S i) t end.

(* input: (secondary header bytes, raw packets);  output: [emitted byte strings; warning kinds] *)
Definition run_c12 (i : Z * list (list (Z * Z))) : sx :=
  let '(sec, ps) := i in
  let os := run [] (number 0 (map bytes_of ps)) in
  L [L (concat (map (fun o => match o with Emit g => [sx_b (combined (Z.to_nat sec) g)] | _ => [] end) os));
     L (concat (map (fun o => match o with WarnNoStart => [I 1] | WarnGap => [I 2] | _ => [] end) os))].
