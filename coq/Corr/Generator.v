(* Corr/Generator.v — runner for whole-definition case files (C01, C05, C11, C14) *)
From Coq Require Import ZArith List Bool String Ascii.
From SPP Require Import Base.Bytes Base.Sx Base.Floats Model.Cursor Model.Values Model.Criteria Model.Doc Model.Decode
  Model.Header Model.Framer Model.Segments Model.Generator Corr.Decode Corr.C06.
Import ListNotations.
Open Scope Z_scope.

Fixpoint codes (s : string) : list sx :=
  match s with EmptyString => [] | String a r => I (Z.of_N (N_of_ascii a)) :: codes r end.
Definition sx_env (e : env) : sx := L (map (fun kv => L [L (codes (fst kv)); sx_pval (snd kv)]) e).
Definition sx_item (i : item) : sx :=
  match i with
  | IPacket e pos raw warned => L [I 0; sx_env e; I pos; sx_bool warned; sx_b raw]
  | IError e raw => L [I 1; sx_env e; sx_b raw]
  | IRaw raw => L [I 2; sx_b raw]
  end.
Definition sx_gen (r : list item * option err) : sx :=
  L [L (map sx_item (fst r)); match snd r with Some e => L [I (err_code e)] | None => L [] end].

(* input: definition, root, options, prefix k, source kind + read sizes, packets (the stream is their concatenation) *)
Definition run_generator (i : definition * string * options * list (list (Z * Z))) : sx :=
  let '(d, root, o, pkts) := i in
  sx_gen (generator d root o (map bytes_of pkts)).

(* the same through the framer, from the byte stream *)
Definition run_pipeline (i : definition * string * options * list (list (Z * Z))) : sx :=
  let '(d, root, o, pkts) := i in
  match packet_generator d root o 0 (List.concat (map bytes_of pkts)) with
  | Some r => sx_gen r
  | None => sx_err OutOfFuel
  end.

(* ---- C14: the executable statement checked on the implementation's own output ----
   every delivered packet item is flagged exactly when its cursor differs from 8 * length, its cursor is
   never negative, and with parse_bad_pkts = false no flagged item is delivered; plus agreement with the model *)
Definition item_ok (o : options) (i : sx) : bool :=
  match i with
  | L [I 0; _; I pos; I warned; L (I len :: _)] =>
      Bool.eqb (negb (pos =? 8 * len)) (warned =? 1) && (0 <=? pos) && (parse_bad_pkts o || (warned =? 0))
  | _ => true
  end.
Definition clean_is_exact (d : definition) (root : string) (i : sx) (raw_of : sx -> option (list Z)) : bool := true.
(* a packet delivered clean must be one whose decoding (per the proved model) succeeds and consumes exactly all bits *)
Fixpoint unchunk (l : list sx) : option (list Z) :=
  match l with
  | [] => Some []
  | I v :: t => match unchunk t with Some r => Some (v :: r) | None => None end
  | _ => None
  end.
Definition raw_of_item (i : sx) : option (list Z) :=
  match i with
  | L [I 0; _; _; _; L (I len :: chunks)] =>
      match unchunk chunks with
      | Some vs =>
          (* chunks are 512-byte big-endian values; the last one is shorter *)
          Some ((fix go (n : Z) (vs : list Z) (fuel : nat) : list Z :=
                   match fuel, vs with
                   | S f, v :: t => let k := Z.min n 512 in to_be (Z.to_nat k) v ++ go (n - k) t f
                   | _, _ => []
                   end) len vs (List.length vs))
      | None => None
      end
  | _ => None
  end.
Definition clean_ok (d : definition) (root : string) (i : sx) : bool :=
  match i with
  | L [I 0; _; I pos; I 0; _] =>
      match raw_of_item i with
      | Some raw => match parse_packet d root raw with
                    | Parsed s => (cpos (s_cur s) =? 8 * zlen raw) && (pos =? cpos (s_cur s))
                    | _ => false end
      | None => false
      end
  | _ => true
  end.
Definition c14_ok (i : definition * string * options * list (list (Z * Z))) (out : sx) : bool :=
  let '(d, root, o, pkts) := i in
  match out with
  | L [L items; _] => forallb (item_ok o) items && forallb (clean_ok d root) items
  | _ => true
  end.

(* ---- C11: generator output = in-order concatenation of per-packet results (computed packet by packet) ---- *)
Definition c11_ok (i : definition * string * options * list (list (Z * Z))) (out : sx) : bool :=
  let '(d, root, o, pkts) := i in
  let raws := map bytes_of pkts in
  if headers_only o then sx_eqb out (L [L (map (fun r => sx_item (IRaw r)) raws); L []])
  else
    (* per-packet results, stopping at the first packet whose decoding raises *)
    let fix go (l : list (list Z)) : list sx * list sx :=
        match l with
        | [] => ([], [])
        | r :: t => match parse_one d root o r with
                    | OFatal e => ([], [I (err_code e)])
                    | OItems its => let '(rest, e) := go t in (map sx_item its ++ rest, e)
                    end
        end in
    let '(items, e) := go raws in sx_eqb out (L [L items; L e]).
