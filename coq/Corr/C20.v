From Coq Require Import ZArith List Bool String.
From SPP Require Import Base.Sx Model.Values.
Import ListNotations.
Open Scope Z_scope.

Definition sx_payload (p : payload) : sx :=
  match p with PInt z => L [I 0; I z] | PFloat b => L [I 1; I b] | PStr cp => L [I 2; L (map I cp)] | PBytes bs => L [I 3; L (map I bs)] end.
Definition cls_code (c : vclass) : Z := match c with CBinary => 0 | CBool => 1 | CFloat => 2 | CInt => 3 | CStr => 4 end.
Definition sx_pval (x : pval) : sx := L [I (cls_code (vcls x)); sx_payload (vval x); sx_payload (vraw x)].

(* input: class, value, optional raw.  output: the constructed value; the value after reduce/rebuild;
   then the harness' observations of built-in behaviour, all of which the property requires to be true *)
Definition run_c20 (i : vclass * payload * option payload * Z) : sx :=
  let '(c, v, r, nobs) := i in
  let x := mk c v r in
  L [sx_pval x; sx_pval (rebuild (reduce x)); L (repeat (I 1) (Z.to_nat nobs))].
