(* Model/Criteria.v — comparisons.py: Comparison, Condition, BooleanExpression, DiscreteLookup and the
   `all(...)` lists that consume them (repaired forms, DESIGN 1.4 F3/F4/F16).  Executable definitions only. *)
From Coq Require Import ZArith List Bool String.
From SPP Require Import Base.Sx Model.Values.
Import ListNotations.
Open Scope Z_scope.

Inductive cop := OEq | ONe | OLt | OGt | OLe | OGe.

(* MatchCriteria._valid_operators: accepted spellings *)
Open Scope string_scope.
Definition operator_table : list (string * cop) :=
  [("!=", ONe); ("&gt;", OGt); ("&gt;=", OGe); ("&lt;", OLt); ("&lt;=", OLe); ("<", OLt); ("<=", OLe); ("==", OEq);
   (">", OGt); (">=", OGe); ("eq", OEq); ("geq", OGe); ("gt", OGt); ("leq", OLe); ("lt", OLt); ("neq", ONe)].
Definition dunder (o : cop) : string :=
  match o with OEq => "__eq__" | ONe => "__ne__" | OLt => "__lt__" | OGt => "__gt__" | OLe => "__le__" | OGe => "__ge__" end.
Close Scope string_scope.

(* ---------- ordering of built-in payloads ---------- *)
(* binary64 given by its bit pattern *)
Definition f_sign (b : Z) : bool := Z.testbit b 63.
Definition f_exp (b : Z) : Z := Z.land (Z.shiftr b 52) 2047.
Definition f_mant (b : Z) : Z := Z.land b 4503599627370495.
Definition f_isnan (b : Z) : bool := (f_exp b =? 2047) && negb (f_mant b =? 0).
Definition f_isinf (b : Z) : bool := (f_exp b =? 2047) && (f_mant b =? 0).
Definition f_key (b : Z) : Z := let m := Z.land b 9223372036854775807 in if f_sign b then - m else m.
Definition fcmp (a b : Z) : option comparison :=
  if f_isnan a || f_isnan b then None else Some (f_key a ?= f_key b).
(* exact int/float comparison (Python compares an int with a float exactly) *)
Definition cmp_int_float (z b : Z) : option comparison :=
  if f_isnan b then None
  else if f_isinf b then Some (if f_sign b then Gt else Lt)
  else
    let e := f_exp b in
    let m := if e =? 0 then f_mant b else 4503599627370496 + f_mant b in
    let M := if f_sign b then - m else m in
    let E := (if e =? 0 then 1 else e) - 1075 in
    if 0 <=? E then Some (z ?= M * 2 ^ E) else Some (z * 2 ^ (- E) ?= M).
Fixpoint lex (a b : list Z) : comparison :=
  match a, b with
  | [], [] => Eq | [], _ => Lt | _, [] => Gt
  | x :: a', y :: b' => match x ?= y with Eq => lex a' b' | c => c end
  end.

Inductive ord := Ordered (c : option comparison) | Incomparable.   (* Incomparable: different built-in kinds *)
Definition compare_payload (a b : payload) : ord :=
  match a, b with
  | PInt x, PInt y => Ordered (Some (x ?= y))
  | PFloat x, PFloat y => Ordered (fcmp x y)
  | PInt x, PFloat y => Ordered (cmp_int_float x y)
  | PFloat x, PInt y => Ordered (option_map CompOpp (cmp_int_float y x))
  | PStr x, PStr y => Ordered (Some (lex x y))
  | PBytes x, PBytes y => Ordered (Some (lex x y))
  | _, _ => Incomparable
  end.

(* the six relations on an ordering outcome (None = unordered, i.e. a NaN is involved) *)
Definition rel (o : cop) (c : option comparison) : bool :=
  match o, c with
  | OEq, Some Eq => true | OEq, _ => false
  | ONe, Some Eq => false | ONe, _ => true
  | OLt, Some Lt => true | OLt, _ => false
  | OGt, Some Gt => true | OGt, _ => false
  | OLe, Some Lt | OLe, Some Eq => true | OLe, _ => false
  | OGe, Some Gt | OGe, Some Eq => true | OGe, _ => false
  end.
(* operator.<op>(a, b) on built-in values *)
Definition apply_op (o : cop) (a b : payload) : res bool :=
  match compare_payload a b with
  | Ordered c => Ok (rel o c)
  | Incomparable => match o with OEq => Ok false | ONe => Ok true | _ => Err EType end
  end.

(* ---------- literals: the XML text, pre-parsed by int()/float() (glue, done by the harness) ---------- *)
Record lit := { l_int : option Z; l_float : option Z; l_str : list Z }.
(* type(value)(literal) *)
Definition coerce (like : payload) (l : lit) : res payload :=
  match like with
  | PInt _ => match l_int l with Some z => Ok (PInt z) | None => Err EValue end
  | PFloat _ => match l_float l with Some f => Ok (PFloat f) | None => Err EValue end
  | PStr _ => Ok (PStr (l_str l))
  | PBytes _ => Err EType          (* bytes("text") without an encoding *)
  end.

(* ---------- packet environment ---------- *)
Definition env := list (string * pval).
Fixpoint lookup (e : env) (n : string) : option pval :=
  match e with [] => None | (k, v) :: t => if String.eqb k n then Some v else lookup t n end.
Definition select (v : pval) (calibrated : bool) : payload := if calibrated then vval v else vraw v.

(* ---------- Comparison ---------- *)
Record comparison := { c_ref : string; c_op : cop; c_lit : lit; c_cal : bool }.
Definition eval_comparison (e : env) (current : option payload) (c : comparison) : res bool :=
  v <- match lookup e (c_ref c) with
       | Some pv => Ok (select pv (c_cal c))
       | None => match current with Some cur => Ok cur | None => Err EValue end
       end ;;
  match coerce v (c_lit c) with
  | Ok required => apply_op (c_op c) v required
  | Err EValue => Err EComparison      (* except ValueError -> ComparisonError *)
  | Err k => Err k
  end.

(* ---------- Condition ---------- *)
Inductive operand := RParam (n : string) (calibrated : bool) | RValue (l : lit).
Record condition := { d_left : string; d_lcal : bool; d_op : cop; d_right : operand }.
Definition get_parsed (e : env) (n : string) (cal : bool) : res payload :=
  match lookup e n with Some pv => Ok (select pv cal) | None => Err EComparison end.
Definition eval_condition (e : env) (d : condition) : res bool :=
  l <- get_parsed e (d_left d) (d_lcal d) ;;
  r <- match d_right d with
       | RParam n cal => get_parsed e n cal
       | RValue lt => coerce l lt
       end ;;
  apply_op (d_op d) l r.

(* ---------- BooleanExpression ---------- *)
Inductive bx := BAnd (cs : list condition) (subs : list bx) | BOr (cs : list condition) (subs : list bx).
Inductive bexpr := BCond (d : condition) | BTree (t : bx).

Section Eval.
Variable e : env.
(* for condition in conditions: if condition.evaluate(packet) is False: return False *)
Fixpoint conds_all (cs : list condition) : res bool :=
  match cs with [] => Ok true | c :: t => b <- eval_condition e c ;; if b then conds_all t else Ok false end.
Fixpoint conds_any (cs : list condition) : res bool :=
  match cs with [] => Ok false | c :: t => b <- eval_condition e c ;; if b then Ok true else conds_any t end.
Fixpoint eval_bx (t : bx) : res bool :=
  match t with
  | BAnd cs subs =>
      b <- conds_all cs ;;
      if b then (fix go (l : list bx) : res bool :=
                   match l with [] => Ok true | s :: r => v <- eval_bx s ;; if v then go r else Ok false end) subs
      else Ok false
  | BOr cs subs =>
      b <- conds_any cs ;;
      if b then Ok true
      else (fix go (l : list bx) : res bool :=
              match l with [] => Ok false | s :: r => v <- eval_bx s ;; if v then Ok true else go r end) subs
  end.
Definition eval_bexpr (b : bexpr) : res bool :=
  match b with BCond d => eval_condition e d | BTree t => eval_bx t end.

(* ---------- match criteria and the lists that consume them ---------- *)
Inductive criterion := KComparison (c : comparison) | KBool (b : bexpr).
Definition eval_criterion (current : option payload) (k : criterion) : res bool :=
  match k with KComparison c => eval_comparison e current c | KBool b => eval_bexpr b end.
(* all(criterion.evaluate(packet, current) for criterion in criteria) *)
Fixpoint eval_all (current : option payload) (ks : list criterion) : res bool :=
  match ks with [] => Ok true | k :: t => b <- eval_criterion current k ;; if b then eval_all current t else Ok false end.

(* DiscreteLookup list: the value of the first entry whose criteria all hold *)
Definition lookup_entry := (list criterion * Z)%type.   (* lookup value: float bit pattern *)
Fixpoint lookup_first (ls : list lookup_entry) : res (option Z) :=
  match ls with
  | [] => Ok None
  | (ks, v) :: t => b <- eval_all None ks ;; if b then Ok (Some v) else lookup_first t
  end.
End Eval.

(* ---------- denotation (specification side) ---------- *)
Section Denote.
Variable e : env.
Definition cond_truth (d : condition) : bool := match eval_condition e d with Ok b => b | Err _ => false end.
Fixpoint denote_bx (t : bx) : bool :=
  match t with
  | BAnd cs subs => forallb cond_truth cs && forallb denote_bx subs
  | BOr cs subs => existsb cond_truth cs || existsb denote_bx subs
  end.
Fixpoint conds_of (t : bx) : list condition :=
  match t with BAnd cs subs | BOr cs subs => cs ++ flat_map conds_of subs end.
End Denote.
