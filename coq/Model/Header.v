(* Model/Header.v — packets.py: create_ccsds_packet and the RawPacketData header accessors. *)
From Coq Require Import ZArith List Bool.
From SPP Require Import Base.Bytes Base.Sx Model.Cursor.
Import ListNotations.
Open Scope Z_scope.

Definition out_of (lo hi x : Z) : bool := (x <? lo) || (x >? hi).

(* header = v << 45 | t << 44 | s << 43 | a << 32 | f << 30 | c << 16 | len(data) - 1 *)
Definition header_word (v t s a f c l : Z) : Z :=
  Z.lor (Z.lor (Z.lor (Z.lor (Z.lor (Z.lor (Z.shiftl v 45) (Z.shiftl t 44)) (Z.shiftl s 43)) (Z.shiftl a 32))
                (Z.shiftl f 30)) (Z.shiftl c 16)) l.

Definition create_packet (v t s a f c : Z) (data : list Z) : res (list Z) :=
  if out_of 0 7 v then Err EValue else
  if out_of 0 1 t then Err EValue else
  if out_of 0 1 s then Err EValue else
  if out_of 0 2047 a then Err EValue else
  if out_of 0 3 f then Err EValue else
  if out_of 0 16383 c then Err EValue else
  if out_of 1 65536 (zlen data) then Err EValue else
  Ok (to_be 6 (header_word v t s a f c (zlen data - 1)) ++ data).

(* accessors: (version, type, sec-hdr flag, apid, seq flags, seq count, data_length) *)
Definition field (p : list Z) (start n : Z) : Z :=
  match extract_bits p start n with Ok v => v | Err _ => -1 end.
Definition header_values (p : list Z) : list Z :=
  [field p 0 3; field p 3 1; field p 4 1; field p 5 11; field p 16 2; field p 18 14; zlen p - 7].

(* the CCSDS primary header as a bit string *)
Definition header_bits (v t s a f c l : Z) : list bool :=
  bits 3 v ++ bits 1 t ++ bits 1 s ++ bits 11 a ++ bits 2 f ++ bits 14 c ++ bits 16 l.
