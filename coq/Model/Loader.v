(* Model/Loader.v — definitions.py / containers.py: linking a parsed XTCE document into the object graph
   (_parse_parameter_type_set, _parse_parameter_set, _parse_container_set with SequenceContainer.from_xml's
   recursion into base and nested containers, inheritor back-population, XtcePacketDefinition.__init__ caches).
   Names stand for objects.  Executable definitions only. *)
From Coq Require Import ZArith List Bool String.
From SPP Require Import Base.Sx Model.Xml.
Import ListNotations.
Open Scope string_scope.
Open Scope list_scope.

Definition mem (n : string) (l : list string) : bool := existsb (String.eqb n) l.

Fixpoint assoc {A} (l : list (string * A)) (n : string) : option A :=
  match l with [] => None | (k, v) :: t => if String.eqb k n then Some v else assoc t n end.

(* parameter types: duplicates are rejected *)
Fixpoint link_types (ts : list xptype) (acc : list (string * xptype)) : res (list (string * xptype)) :=
  match ts with
  | [] => Ok acc
  | t :: r => if mem (xt_name t) (map fst acc) then Err EValue else link_types r (acc ++ [(xt_name t, t)])
  end.
(* parameters: the type reference must resolve (KeyError), duplicates are rejected *)
Fixpoint link_params (types : list (string * xptype)) (ps : list xparam) (acc : list (string * xparam)) : res (list (string * xparam)) :=
  match ps with
  | [] => Ok acc
  | p :: r =>
      match assoc types (xp_type p) with
      | None => Err EKey
      | Some _ => if mem (xp_name p) (map fst acc) then Err EValue else link_params types r (acc ++ [(xp_name p, p)])
      end
  end.

(* container_lookup[name] = container on a dict: an existing key keeps its place and gets the new value, a new key goes last *)
Fixpoint upsert {A} (l : list (string * A)) (n : string) (v : A) : list (string * A) :=
  match l with
  | [] => [(n, v)]
  | (k, w) :: t => if String.eqb k n then (k, v) :: t else (k, w) :: upsert t n v
  end.

(* a linked container: entry references resolved to names known to exist *)
Record lcontainer := { lk : xcontainer; lk_inheritors : list string }.

(* _get_container_element: exactly one SequenceContainer element with that name *)
Definition container_elements (d : xdoc) (n : string) : list xcontainer := filter (fun c => String.eqb (xk_name c) n) (xd_containers d).
Definition get_container_element (d : xdoc) (n : string) : res xcontainer :=
  match container_elements d n with [c] => Ok c | _ => Err EValue end.

(* SequenceContainer.from_xml: returns the lookup extended with every base / nested container parsed on the way
   (in the order they are inserted); the container itself is inserted by the caller.  Out of fuel = RecursionError. *)
Fixpoint from_xml (fuel : nat) (d : xdoc) (params : list (string * xparam)) (c : xcontainer) (lookup : list (string * xcontainer))
  : res (list (string * xcontainer)) :=
  match fuel with
  | O => Err OutOfFuel
  | S f =>
    lookup1 <- match xk_base c with
               | None => Ok lookup
               | Some b =>
                   be <- get_container_element d b ;;
                   if mem b (map fst lookup) then Ok lookup
                   else l <- from_xml f d params be lookup ;; Ok (upsert l (xk_name be) be)
               end ;;
    (fix entries (es : list xentry) (lookup : list (string * xcontainer)) : res (list (string * xcontainer)) :=
       match es with
       | [] => Ok lookup
       | XEP n :: t => match assoc params n with Some _ => entries t lookup | None => Err EKey end
       | XEC n :: t =>
           if mem n (map fst lookup) then entries t lookup
           else ne <- get_container_element d n ;; l <- from_xml f d params ne lookup ;; entries t (upsert l (xk_name ne) ne)
       end) (xk_entries c) lookup1
  end.

(* structural equality of container elements (the library compares the parsed objects) *)
Definition entry_eqb (a b : xentry) : bool :=
  match a, b with XEP x, XEP y | XEC x, XEC y => String.eqb x y | _, _ => false end.
Definition container_same (sxc : xcontainer -> sx) (a b : xcontainer) : bool := sx_eqb (sxc a) (sxc b).

Section Link.
Variable sxc : xcontainer -> sx.     (* canonical form used to compare a duplicate with the container already known *)

Fixpoint link_containers (fuel : nat) (d : xdoc) (params : list (string * xparam)) (cs : list xcontainer)
  (lookup : list (string * xcontainer)) : res (list (string * xcontainer)) :=
  match cs with
  | [] => Ok lookup
  | c :: r =>
      l <- from_xml fuel d params c lookup ;;
      match assoc l (xk_name c) with
      | None => link_containers fuel d params r (l ++ [(xk_name c, c)])
      | Some known => if container_same sxc known c then link_containers fuel d params r l else Err EValue
      end
  end.

(* back-population: every container is appended once to the inheritor list of its base, in lookup order *)
Definition inheritors_of (lookup : list (string * xcontainer)) (n : string) : list string :=
  map fst (filter (fun kc => match xk_base (snd kc) with Some b => String.eqb b n | None => false end) lookup).

Record graph := { g_types : list (string * xptype); g_params : list (string * xparam); g_containers : list (string * lcontainer) }.

(* XtcePacketDefinition.__init__: the caches hold what is reachable from the containers, in first-use order *)
Fixpoint uniq_append (acc : list string) (l : list string) : list string :=
  match l with [] => acc | x :: t => uniq_append (if mem x acc then acc else acc ++ [x]) t end.
Definition used_params (lookup : list (string * xcontainer)) : list string :=
  uniq_append [] (flat_map (fun kc => flat_map (fun e => match e with XEP n => [n] | XEC _ => [] end) (xk_entries (snd kc))) lookup).

Definition link (d : xdoc) : res graph :=
  types <- link_types (xd_types d) [] ;;
  params <- link_params types (xd_params d) [] ;;
  lookup <- link_containers (S (List.length (xd_containers d))) d params (xd_containers d) [] ;;
  (* a base that is named but was never inserted would be a KeyError during back-population *)
  if forallb (fun kc => match xk_base (snd kc) with Some b => mem b (map fst lookup) | None => true end) lookup then
    let pnames := used_params lookup in
    let ps := flat_map (fun n => match assoc params n with Some p => [(n, p)] | None => [] end) pnames in
    let tnames := uniq_append [] (map (fun np => xp_type (snd np)) ps) in
    let ts := flat_map (fun n => match assoc types n with Some t => [(n, t)] | None => [] end) tnames in
    Ok {| g_types := ts; g_params := ps;
          g_containers := map (fun kc => (fst kc, {| lk := snd kc; lk_inheritors := inheritors_of lookup (fst kc) |})) lookup |}
  else Err EKey.
End Link.

(* what the writer emits for a loaded definition: the caches in order *)
Definition graph_doc (g : graph) (name date : option string) : xdoc :=
  {| xd_types := map snd (g_types g); xd_params := map snd (g_params g); xd_containers := map (fun kc => lk (snd kc)) (g_containers g);
     xd_name := name; xd_date := date |}.
