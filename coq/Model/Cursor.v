(* Model/Cursor.v — space_packet_parser/packets.py: _extract_bits, RawPacketData.read_as_int,
   RawPacketData.read_as_bytes.  A cursor is (data, pos).  Executable definitions only. *)
From Coq Require Import ZArith List Bool.
From SPP Require Import Base.Bytes Base.Sx.
Import ListNotations.
Open Scope Z_scope.

(* _extract_bits(data, start_bit, nbits), for start_bit >= 0.
   Python: data[start_byte:end_byte] clamps; a negative shift count raises ValueError;
   2 ** nbits for negative nbits is a float and `int & float` raises TypeError. *)
Definition extract_bits (data : list Z) (start nbits : Z) : res Z :=
  let start_byte := start / 8 in
  let sb := start mod 8 in
  let end_byte := start_byte + (sb + nbits + 7) / 8 in
  let d := if end_byte <? 0 then
             (* negative stop index: Python counts from the end *)
             slice start_byte (Z.max 0 (zlen data + end_byte)) data
           else slice start_byte end_byte data in
  let value := from_be d in
  if (sb =? 0) && (nbits mod 8 =? 0) then Ok value
  else
    let sh := zlen d * 8 - sb - nbits in
    if sh <? 0 then Err EValue
    else if nbits <? 0 then Err EType
    else Ok (Z.land (Z.shiftr value sh) (2 ^ nbits - 1)).

Record cursor := { cdata : list Z; cpos : Z }.

(* read_as_int: (after fix F8) negative widths are rejected; no end-of-packet guard *)
Definition read_as_int (c : cursor) (nbits : Z) : res (Z * cursor) :=
  if nbits <? 0 then Err EValue else
  v <- extract_bits (cdata c) (cpos c) nbits ;;
  Ok (v, {| cdata := cdata c; cpos := cpos c + nbits |}).

(* read_as_bytes: end-of-packet guard, aligned slice fast path, to_bytes slow path *)
Definition read_as_bytes (c : cursor) (nbits : Z) : res (list Z * cursor) :=
  if nbits <? 0 then Err EValue else
  if cpos c + nbits >? zlen (cdata c) * 8 then Err EValue else
  if (cpos c mod 8 =? 0) && (nbits mod 8 =? 0) then
    Ok (slice (cpos c / 8) (cpos c / 8 + (nbits + 7) / 8) (cdata c),
        {| cdata := cdata c; cpos := cpos c + nbits |})
  else
    v <- extract_bits (cdata c) (cpos c) nbits ;;
    Ok (to_be (Z.to_nat ((nbits + 7) / 8)) v, {| cdata := cdata c; cpos := cpos c + nbits |}).

(* ---- specification: the addressed bits of the buffer, as a bit string ---- *)
Definition spec_int (B : list Z) (p n : Z) : Z :=
  val_of_bits (firstn (Z.to_nat n) (skipn (Z.to_nat p) (bits_of_bytes B))).
Definition spec_bytes (B : list Z) (p n : Z) : list Z :=
  to_be (Z.to_nat ((n + 7) / 8)) (spec_int B p n).
