(* Model/Xarr.v — xarr.py: create_dataset (per-APID accumulation), minimal dtype choice, and an explicit
   model of numpy's storage of Python values in the chosen dtype (repaired forms, DESIGN 1.4 F14). *)
From Coq Require Import ZArith List Bool String.
From Flocq Require IEEE754.BinarySingleNaN.
From SPP Require Import Base.Bytes Base.Sx Base.Floats Model.Cursor Model.Values Model.Criteria Model.Doc Model.Decode
  Model.Header Model.Generator.
Import ListNotations.
Open Scope Z_scope.

Inductive dtype := DUInt (bits : Z) | DInt (bits : Z) | DF32 | DF64 | DBytes | DStr | DInfer.

Definition int_bits (n : Z) : Z := if n <=? 8 then 8 else if n <=? 16 then 16 else if n <=? 32 then 32 else 64.

(* _min_dtype_for_encoding (raw values) *)
Definition min_dtype_enc (e : encoding) : dtype :=
  match e with
  | ENum ne =>
      match ne_kind ne with
      | KInt signed => if signed then DInt (int_bits (ne_size ne)) else DUInt (int_bits (ne_size ne))
      | KFloat fmt => match fmt with
                      | IEEE => if ne_size ne =? 32 then DF32 else DF64
                      | MIL1750A => DF64          (* 1750A values do not all fit binary32 *)
                      end
      end
  | EBin _ => DBytes
  | EStr _ => DBytes                                (* raw values of string fields are byte buffers *)
  end.

(* _get_minimum_numpy_datatype *)
Definition min_dtype (t : ptype) (use_raw : bool) : dtype :=
  if use_raw then min_dtype_enc (pt_enc t) else
  match pt_kind t with
  | TEnum _ => DStr                                  (* enums are strings in their derived state *)
  | _ =>
    match pt_enc t with
    | ENum ne => match ne_context ne, ne_default ne with
                 | None, None => min_dtype_enc (pt_enc t)
                 | _, _ => DInfer
                 end
    | EBin _ => DBytes
    | EStr _ => DStr
    end
  end.

(* ---- numpy storage ---- *)
Fixpoint strip_nul (l : list Z) : list Z :=
  match l with
  | [] => []
  | x :: t => match strip_nul t with [] => if x =? 0 then [] else [x] | r => x :: r end
  end.
(* binary64 -> binary32 (round to nearest even) -> binary64 *)
Definition round32 (bits : Z) : Z :=
  match of_bits64 bits with
  | BinarySingleNaN.B754_finite s m e _ =>
      match BinarySingleNaN.binary_normalize 24 128 eq_refl eq_refl BinarySingleNaN.mode_NE (if s then Z.neg m else Z.pos m) e s with
      | BinarySingleNaN.B754_finite s' m' e' _ =>
          to_bits64 (BinarySingleNaN.binary_normalize 53 1024 P53 P53lt BinarySingleNaN.mode_NE (if s' then Z.neg m' else Z.pos m') e' s')
      | BinarySingleNaN.B754_zero s' => to_bits64 (BinarySingleNaN.B754_zero s')
      | BinarySingleNaN.B754_infinity s' => to_bits64 (BinarySingleNaN.B754_infinity s')
      | BinarySingleNaN.B754_nan => NAN_BITS
      end
  | _ => bits
  end.

Definition store (dt : dtype) (v : payload) : res payload :=
  match dt, v with
  | DUInt b, PInt z => if (0 <=? z) && (z <? 2 ^ b) then Ok (PInt z) else Err EOverflow
  | DInt b, PInt z => if (- 2 ^ (b - 1) <=? z) && (z <? 2 ^ (b - 1)) then Ok (PInt z) else Err EOverflow
  | DF32, PFloat f => Ok (PFloat (round32 f))
  | DF64, PFloat f => Ok (PFloat f)
  | DInfer, PFloat f => Ok (PFloat f)
  | DBytes, PBytes bs => Ok (PBytes (strip_nul bs))
  | DStr, PStr cps => Ok (PStr (strip_nul cps))
  | _, _ => Err ENotImpl
  end.

(* ---- create_dataset ---- *)
Definition table := list (Z * list (string * list payload)).     (* apid -> variable -> column *)

Fixpoint find_param_es (d : definition) (es : list entry) (n : string) : option parameter :=
  match es with
  | [] => None
  | EParam p :: t => if String.eqb (p_name p) n then Some p else find_param_es d t n
  | EContainer _ :: t => find_param_es d t n
  end.
Fixpoint find_param (d0 d : definition) (n : string) : option parameter :=
  match d with [] => None | c :: t => match find_param_es d0 (k_entries c) n with Some p => Some p | None => find_param d0 t n end end.

Definition same_keys (a b : list string) : bool :=
  forallb (fun x => existsb (String.eqb x) b) a && forallb (fun x => existsb (String.eqb x) a) b.

Fixpoint append_cols (cols : list (string * list payload)) (e : list (string * payload)) : list (string * list payload) :=
  match cols with
  | [] => []
  | (k, col) :: t =>
      (k, match (fix look (e : list (string * payload)) := match e with [] => None | (k', v) :: r => if String.eqb k k' then Some v else look r end) e with
          | Some v => col ++ [v] | None => col end) :: append_cols t e
  end.

Fixpoint add_packet (tb : table) (apid : Z) (e : list (string * payload)) : res table :=
  match tb with
  | [] => Ok [(apid, map (fun kv => (fst kv, [snd kv])) e)]
  | (a, cols) :: t =>
      if a =? apid then
        if same_keys (map fst cols) (map fst e) then Ok ((a, append_cols cols e) :: t) else Err EValue
      else r <- add_packet t apid e ;; Ok ((a, cols) :: r)
  end.

Definition cell (use_raw : bool) (v : pval) : payload := if use_raw then vraw v else vval v.

Fixpoint accumulate (use_raw : bool) (tb : table) (items : list item) : res table :=
  match items with
  | [] => Ok tb
  | IPacket e _ raw _ :: t =>
      tb' <- add_packet tb (field raw 5 11) (map (fun kv => (fst kv, cell use_raw (snd kv))) e) ;; accumulate use_raw tb' t
  | _ :: t => Err EAttr
  end.

(* files in the order given; each file is read completely by the packet generator first *)
Fixpoint accumulate_files (d : definition) (root : string) (o : options) (use_raw : bool) (tb : table) (files : list (list (list Z))) : res table :=
  match files with
  | [] => Ok tb
  | f :: t =>
      match generator d root o f with
      | (_, Some e) => Err e
      | (items, None) => tb' <- accumulate use_raw tb items ;; accumulate_files d root o use_raw tb' t
      end
  end.

Fixpoint store_col (dt : dtype) (col : list payload) : res (list payload) :=
  match col with [] => Ok [] | v :: t => x <- store dt v ;; r <- store_col dt t ;; Ok (x :: r) end.

Fixpoint store_cols (d : definition) (use_raw : bool) (cols : list (string * list payload)) : res (list (string * list payload)) :=
  match cols with
  | [] => Ok []
  | (k, col) :: t =>
      match find_param d d k with
      | None => Err EKey
      | Some p => c <- store_col (min_dtype (p_type p) use_raw) col ;; r <- store_cols d use_raw t ;; Ok ((k, c) :: r)
      end
  end.
Fixpoint store_table (d : definition) (use_raw : bool) (tb : table) : res table :=
  match tb with [] => Ok [] | (a, cols) :: t => c <- store_cols d use_raw cols ;; r <- store_table d use_raw t ;; Ok ((a, c) :: r) end.

Definition default_options : options :=
  {| parse_bad_pkts := true; yield_unrecognized := false; headers_only := false; combine_segmented := false; secondary_header_bytes := 0 |}.

(* what the property demands: the per-APID, in-order table of parsed values *)
Definition dataset_spec (d : definition) (root : string) (use_raw : bool) (files : list (list (list Z))) : res table :=
  accumulate_files d root default_options use_raw [] files.
(* what create_dataset returns: that table stored in the chosen numpy dtypes *)
Definition create_dataset (d : definition) (root : string) (use_raw : bool) (files : list (list (list Z))) : res table :=
  tb <- dataset_spec d root use_raw files ;; store_table d use_raw tb.
