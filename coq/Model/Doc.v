(* Model/Doc.v — the abstract XTCE definition: encodings, calibrators, parameter types, parameters,
   containers.  Mirrors the attribute structure of the library's object graph (names stand for objects). *)
From Coq Require Import ZArith List Bool String.
From SPP Require Import Base.Sx Model.Values Model.Criteria.
Import ListNotations.
Open Scope Z_scope.

(* Python numbers that occur as calibrator coefficients / spline points *)
Inductive num := NInt (z : Z) | NFloat (bits : Z).

Inductive calibrator :=
| Poly (terms : list (num * Z))                                   (* (coefficient, exponent) *)
| Spline (order : Z) (extrapolate : bool) (points : list (num * num)).   (* (raw, calibrated), as given *)

Record context_cal := { cc_criteria : list criterion; cc_cal : calibrator }.

Inductive byte_order := MSB | LSB.
Inductive float_fmt := IEEE | MIL1750A.
Inductive num_kind := KInt (signed : bool) | KFloat (fmt : float_fmt).

Record numeric_enc := {
  ne_size : Z; ne_kind : num_kind; ne_order : byte_order;
  ne_default : option calibrator; ne_context : option (list context_cal) }.

(* how a string/binary field's length in bits is specified *)
Inductive size_spec :=
| SFixed (n : Z)
| SDynamic (ref : string) (calibrated : bool) (adjust : option (Z * Z))   (* (slope, intercept) *)
| SLookup (ls : list lookup_entry).

Inductive charset := Ascii | Latin1 | Cp1252 | Utf8 | Utf16 (o : option byte_order) | Utf32 (o : option byte_order).
Record string_enc := { se_charset : charset; se_size : size_spec; se_term : option (list Z); se_leading : option Z }.

Inductive encoding := ENum (e : numeric_enc) | EStr (e : string_enc) | EBin (s : size_spec).

Inductive type_kind :=
| TInteger | TFloat | TString | TBinary | TBoolean | TAbsTime | TRelTime
| TEnum (labels : list (payload * list Z)).      (* raw value -> label (code points), in dict order *)

Record ptype := { pt_name : string; pt_kind : type_kind; pt_enc : encoding }.
Record parameter := { p_name : string; p_type : ptype }.

Inductive entry := EParam (p : parameter) | EContainer (name : string).
Record container := {
  k_name : string; k_entries : list entry; k_abstract : bool;
  k_base : option string; k_criteria : list criterion; k_inheritors : list string }.

Definition definition := list container.    (* in lookup (dict) order *)
Fixpoint find_container (d : definition) (n : string) : option container :=
  match d with [] => None | c :: t => if String.eqb (k_name c) n then Some c else find_container t n end.
