(* Model/Values.v — common.py: the five value classes (_Parameter.__new__, copy/pickle reduction)
   and the parsed-packet container. *)
From Coq Require Import ZArith List Bool String.
From SPP Require Import Base.Sx.
Import ListNotations.
Open Scope Z_scope.

Inductive vclass := CBinary | CBool | CFloat | CInt | CStr.

(* a built-in payload: integers, floats (as bit patterns), text and bytes (as byte lists) *)
Inductive payload := PInt (z : Z) | PFloat (bits : Z) | PStr (cp : list Z) | PBytes (bs : list Z).

Record pval := { vcls : vclass; vval : payload; vraw : payload }.

(* _Parameter.__new__(cls, value, raw_value=None): obj.raw_value = raw_value if raw_value is not None else value *)
Definition mk (c : vclass) (v : payload) (raw : option payload) : pval :=
  {| vcls := c; vval := v; vraw := match raw with Some r => r | None => v end |}.

(* object.__reduce_ex__(2): (copyreg.__newobj__, (cls, base value), state = __dict__) and its inverse:
   cls.__new__(cls, value) followed by __dict__.update(state) *)
Definition reduce (x : pval) : vclass * payload * list (string * payload) :=
  (vcls x, vval x, [("raw_value"%string, vraw x)]).
Definition rebuild (r : vclass * payload * list (string * payload)) : pval :=
  let '(c, v, st) := r in
  let fresh := mk c v None in
  match st with
  | [(_, raw)] => {| vcls := vcls fresh; vval := vval fresh; vraw := raw |}
  | _ => fresh
  end.

(* a parsed packet: raw bytes, cursor, ordered items *)
Record packet := { praw : list Z; ppos : Z; pitems : list (string * pval) }.
Definition reduce_packet (p : packet) := (map (fun kv => (fst kv, reduce (snd kv))) (pitems p), (praw p, ppos p)).
Definition rebuild_packet (r : list (string * (vclass * payload * list (string * payload))) * (list Z * Z)) : packet :=
  {| praw := fst (snd r); ppos := snd (snd r); pitems := map (fun kv => (fst kv, rebuild (snd kv))) (fst r) |}.

(* the class table the properties rely on (re-extracted from the live classes on every run, Gen/TablesOk_C20) *)
Open Scope string_scope.
Definition class_mro : list (string * list string) :=
  [("_Parameter", ["_Parameter"; "object"]);
   ("BinaryParameter", ["BinaryParameter"; "_Parameter"; "bytes"; "object"]);
   ("BoolParameter", ["BoolParameter"; "_Parameter"; "int"; "object"]);
   ("FloatParameter", ["FloatParameter"; "_Parameter"; "float"; "object"]);
   ("IntParameter", ["IntParameter"; "_Parameter"; "int"; "object"]);
   ("StrParameter", ["StrParameter"; "_Parameter"; "str"; "object"])].
(* special names each library class defines itself *)
Definition class_owned : list (string * list string) :=
  [("_Parameter", ["__new__"]); ("BinaryParameter", []); ("BoolParameter", ["__repr__"]);
   ("FloatParameter", []); ("IntParameter", []); ("StrParameter", [])].
