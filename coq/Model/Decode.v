(* Model/Decode.v — calibrators.py, encodings.py, parameter_types.py, parameters.py: decoding one
   parameter from the packet cursor (repaired forms, DESIGN 1.4 F5/F6/F8/F16).  Executable definitions only. *)
From Coq Require Import ZArith List Bool String.
From Flocq Require IEEE754.BinarySingleNaN.
From SPP Require Import Base.Bytes Base.Sx Base.Floats Model.Cursor Model.Values Model.Criteria Model.Doc.
Import ListNotations.
Open Scope Z_scope.

(* ================= Python number tower ================= *)
Definition to_float (x : num) : res Z := match x with NInt z => of_Z z | NFloat b => Ok b end.
Definition num_of_payload (p : payload) : res num :=
  match p with PInt z => Ok (NInt z) | PFloat b => Ok (NFloat b) | _ => Err EType end.
Definition payload_of_num (x : num) : payload := match x with NInt z => PInt z | NFloat b => PFloat b end.

Definition num_bin (fi : Z -> Z -> Z) (ff : Z -> Z -> Z) (a b : num) : res num :=
  match a, b with
  | NInt x, NInt y => Ok (NInt (fi x y))
  | _, _ => x <- to_float a ;; y <- to_float b ;; Ok (NFloat (ff x y))
  end.
Definition num_add := num_bin Z.add fadd.
Definition num_sub := num_bin Z.sub fsub.
Definition num_mul := num_bin Z.mul fmul.
(* true division: always a float; ZeroDivisionError on zero *)
Definition num_div (a b : num) : res num :=
  x <- to_float a ;; y <- to_float b ;; q <- fdiv x y ;; Ok (NFloat q).
(* x ** n for an int exponent n >= 0: exact for ints; for floats only n in {0, 1} is modelled (libm pow otherwise) *)
Definition num_pow (x : num) (n : Z) : res num :=
  if n <? 0 then Err ENotImpl else
  match x with
  | NInt z => Ok (NInt (z ^ n))
  | NFloat b => if n =? 0 then Ok (NFloat 4607182418800017408) else if n =? 1 then Ok (NFloat b) else Err ENotImpl
  end.
Definition num_cmp (a b : num) : option Datatypes.comparison :=
  match compare_payload (payload_of_num a) (payload_of_num b) with Ordered c => c | Incomparable => None end.
Definition num_le a b := rel OLe (num_cmp a b).
Definition num_lt a b := rel OLt (num_cmp a b).
Definition num_gt a b := rel OGt (num_cmp a b).
Definition num_eq a b := rel OEq (num_cmp a b).

(* ================= calibrators ================= *)
(* the built-in sum() of CPython >= 3.12 over numbers, start = int 0:
   exact while everything is an int; from the first float on, Neumaier compensated summation of the
   float items (ints that fit a C long are added uncompensated), the compensation being added at the end *)
Definition f_abs (a : Z) : Z := Z.land a 9223372036854775807.
Definition f_abs_ge (a b : Z) : bool := match fcmp (f_abs a) (f_abs b) with Some Lt | None => false | _ => true end.
Definition fits_long (v : Z) : bool := (- 9223372036854775808 <=? v) && (v <=? 9223372036854775807).
Definition add_comp (f c : Z) : Z := if negb (f_is_zero c) && f_is_finite c then fadd f c else f.
Fixpoint sum_generic (acc : num) (items : list num) : res num :=
  match items with [] => Ok acc | x :: t => s <- num_bin Z.add fadd acc x ;; sum_generic s t end.
Fixpoint sum_float (f c : Z) (items : list num) : res num :=
  match items with
  | [] => Ok (NFloat (add_comp f c))
  | NFloat x :: t =>
      let s := fadd f x in
      let c' := if f_abs_ge f x then fadd c (fadd (fsub f s) x) else fadd c (fadd (fsub x s) f) in
      sum_float s c' t
  | NInt v :: t =>
      if fits_long v then d <- of_Z v ;; sum_float (fadd f d) c t
      else s <- num_bin Z.add fadd (NFloat (add_comp f c)) (NInt v) ;; sum_generic s t
  end.
Fixpoint sum_int (acc : Z) (items : list num) : res num :=
  match items with
  | [] => Ok (NInt acc)
  | NInt v :: t => sum_int (acc + v) t
  | NFloat x :: t => a <- of_Z acc ;; sum_float (fadd a x) 0 t
  end.
Definition py_sum (items : list num) : res num := sum_int 0 items.

(* PolynomialCalibrator.calibrate: sum(a * (x ** n) for a, n in coefficients) *)
Fixpoint poly_items (terms : list (num * Z)) (x : num) : res (list num) :=
  match terms with
  | [] => Ok []
  | (a, n) :: t => p <- num_pow x n ;; m <- num_mul a p ;; r <- poly_items t x ;; Ok (m :: r)
  end.
Definition poly (terms : list (num * Z)) (x : num) : res num := items <- poly_items terms x ;; py_sum items.

(* sorted(points, key=raw): stable insertion sort *)
Fixpoint insert_pt (p : num * num) (l : list (num * num)) : list (num * num) :=
  match l with
  | [] => [p]
  | q :: t => if num_lt (fst p) (fst q) then p :: q :: t else q :: insert_pt p t
  end.
Definition sort_points (l : list (num * num)) : list (num * num) := fold_left (fun acc p => insert_pt p acc) l [].

(* [p.raw > q for p in points].index(True) *)
Fixpoint first_greater (pts : list (num * num)) (q : num) (i : nat) : option nat :=
  match pts with [] => None | p :: t => if num_gt (fst p) q then Some i else first_greater t q (S i) end.

Definition linear_func (xq x0 x1 y0 y1 : num) : res num :=
  dy <- num_sub y1 y0 ;; dx <- num_sub x1 x0 ;; slope <- num_div dy dx ;;
  d <- num_sub xq x0 ;; m <- num_mul slope d ;; num_add m y0.

Definition nth_pt (pts : list (num * num)) (i : nat) : num * num := nth i pts (NInt 0, NInt 0).
Definition fl (x : num) : res num := b <- to_float x ;; Ok (NFloat b).

Definition spline (order : Z) (extrapolate : bool) (points : list (num * num)) (q : num) : res num :=
  if 1 <? order then Err ENotImpl else
  let pts := sort_points points in
  match pts with
  | [] => Err EValue        (* min() of an empty sequence *)
  | p0 :: _ =>
    let n := List.length pts in
    let pl := nth_pt pts (n - 1) in
    (* order 0 converts every coordinate with float(); order 1 uses them as given *)
    lo <- (if order =? 0 then fl (fst p0) else Ok (fst p0)) ;;
    hi <- (if order =? 0 then fl (fst pl) else Ok (fst pl)) ;;
    if num_le lo q && num_le q hi then
      if num_eq q hi then (if order =? 0 then fl (snd pl) else Ok (snd pl))
      else match first_greater pts q 0 with
           | None => Err EValue
           | Some i =>
               let a := nth_pt pts (i - 1) in let b := nth_pt pts i in
               if order =? 0 then fl (snd a)
               else linear_func q (fst a) (fst b) (snd a) (snd b)
           end
    else if num_gt q hi && extrapolate then
      (if order =? 0 then fl (snd pl)
       else let a := nth_pt pts (n - 2) in linear_func q (fst a) (fst pl) (snd a) (snd pl))
    else if num_lt q lo && extrapolate then
      (if order =? 0 then fl (snd p0)
       else let b := nth_pt pts 1 in linear_func q (fst p0) (fst b) (snd p0) (snd b))
    else Err ECalibration
  end.

Definition calibrate (c : calibrator) (x : num) : res num :=
  match c with Poly terms => poly terms x | Spline o ex pts => spline o ex pts x end.

(* ================= numeric encodings ================= *)
Definition twos_complement (v w : Z) : Z := if Z.testbit v (w - 1) then v - 2 ^ w else v.
Definition reverse_bytes (v : Z) (nbytes : nat) : Z := from_be (rev (to_be nbytes v)).

Definition raw_numeric (e : numeric_enc) (c : cursor) : res (num * cursor) :=
  match ne_kind e with
  | KInt signed =>
      '(v, c') <- read_as_int c (ne_size e) ;;
      let v := match ne_order e with LSB => reverse_bytes v (Z.to_nat ((ne_size e + 7) / 8)) | MSB => v end in
      (* a signed field of width 0: _twos_complement shifts by -1 (ValueError) *)
      if signed && (ne_size e <? 1) then Err EValue else
      Ok (NInt (if signed then twos_complement v (ne_size e) else v), c')
  | KFloat fmt =>
      '(bs, c') <- read_as_bytes c (ne_size e) ;;
      let bs := match ne_order e with LSB => rev bs | MSB => bs end in
      let bits := from_be bs in
      match fmt with
      | MIL1750A => Ok (NFloat (dec_mil1750a bits), c')
      | IEEE =>
          if ne_size e =? 16 then Ok (NFloat (to_bits64 (dec_ieee 5 10 bits)), c')
          else if ne_size e =? 32 then Ok (NFloat (to_bits64 (dec_ieee 8 23 bits)), c')
          else if ne_size e =? 64 then Ok (NFloat (to_bits64 (dec_ieee 11 52 bits)), c')
          else Err EOther
      end
  end.

(* first context calibrator whose criteria all hold *)
Fixpoint pick_context (env : env) (raw : payload) (cs : list context_cal) : res (option calibrator) :=
  match cs with
  | [] => Ok None
  | cc :: t => b <- eval_all env (Some raw) (cc_criteria cc) ;; if b then Ok (Some (cc_cal cc)) else pick_context env raw t
  end.

Definition float_param (cal : num) (raw : num) : res pval :=
  b <- to_float cal ;; Ok {| vcls := CFloat; vval := PFloat b; vraw := payload_of_num raw |}.

(* NumericDataEncoding.parse_value *)
Definition parse_numeric (e : numeric_enc) (env : env) (c : cursor) : res (pval * cursor) :=
  '(raw, c') <- raw_numeric e c ;;
  chosen <- match ne_context e with
            | Some ((_ :: _) as cs) => pick_context env (payload_of_num raw) cs
            | _ => Ok None
            end ;;
  match chosen with
  | Some cal => v <- calibrate cal raw ;; p <- float_param v raw ;; Ok (p, c')
  | None =>
      match ne_default e with
      | Some cal => v <- calibrate cal raw ;; p <- float_param v raw ;; Ok (p, c')
      | None => Ok (match raw with
                    | NInt z => {| vcls := CInt; vval := PInt z; vraw := PInt z |}
                    | NFloat b => {| vcls := CFloat; vval := PFloat b; vraw := PFloat b |}
                    end, c')
      end
  end.

(* ================= computed lengths ================= *)
(* the LinearAdjustment closure: slope * float(x) + intercept, must be integral *)
Definition of_Zb (z : Z) : res b64 :=
  let x := BinarySingleNaN.binary_normalize 53 1024 P53 P53lt BinarySingleNaN.mode_NE z 0 false in
  match x with BinarySingleNaN.B754_infinity _ => Err EOverflow | _ => Ok x end.
Definition to_b64 (x : num) : res b64 := match x with NInt z => of_Zb z | NFloat b => Ok (of_bits64 b) end.
Definition adjusted_value (s xf i : b64) : b64 :=
  BinarySingleNaN.Bplus BinarySingleNaN.mode_NE (BinarySingleNaN.Bmult BinarySingleNaN.mode_NE s xf) i.
Definition linear_adjust (slope icpt : Z) (x : num) : res Z :=
  xf <- to_b64 x ;; s <- of_Zb slope ;; i <- of_Zb icpt ;;
  let adjusted := adjusted_value s xf i in
  if f_is_integer (to_bits64 adjusted) then Ok (BinarySingleNaN.Btrunc adjusted) else Err EValue.
(* int(x) *)
Definition int_of_num (x : num) : res Z :=
  match x with NInt z => Ok z | NFloat b => if f_is_finite b then Ok (f_trunc b) else if f_isnan b then Err EValue else Err EOverflow end.

Definition size_value (env : env) (ref : string) (cal : bool) : res num :=
  match lookup env ref with
  | None => Err EKey
  | Some pv => num_of_payload (select pv cal)
  end.

(* StringDataEncoding._calculate_size *)
Definition string_size (s : size_spec) (env : env) : res Z :=
  match s with
  | SFixed n => Ok n
  | SLookup ls => o <- lookup_first env ls ;;
                  match o with Some v => int_of_num (NFloat v) | None => Err EValue end
  | SDynamic ref cal adj =>
      x <- size_value env ref cal ;;
      match adj with
      | Some (sl, ic) => linear_adjust sl ic x
      | None => int_of_num x
      end
  end.
(* BinaryDataEncoding._calculate_size (with the int() coercion of repair F6) *)
Definition binary_size (s : size_spec) (env : env) : res Z := string_size s env.

(* ================= text ================= *)
Fixpoint find_sub (fuel : nat) (needle hay : list Z) (i : Z) : option Z :=
  match fuel with
  | O => None
  | S f => if (List.length needle <=? List.length hay)%nat && forallb (fun ab => fst ab =? snd ab) (combine needle hay)
           then Some i
           else match hay with [] => None | _ :: t => find_sub f needle t (i + 1) end
  end.
(* bytes.index(needle) *)
Definition bytes_index (needle hay : list Z) : option Z := find_sub (S (List.length hay)) needle hay 0.

(* the terminator search of a string field: the first position on a character boundary (a multiple of the code-unit width of
   the character set) at which the termination character's bytes occur *)
Fixpoint find_aligned (fuel : nat) (w : nat) (needle hay : list Z) (i : Z) : option Z :=
  match fuel with
  | O => None
  | S f => if (List.length needle <=? List.length hay)%nat && forallb (fun ab => fst ab =? snd ab) (combine needle hay)
           then Some i
           else match hay with [] => None | _ :: _ => find_aligned f w needle (skipn w hay) (i + Z.of_nat w) end
  end.

Fixpoint units (w : nat) (big : bool) (fuel : nat) (l : list Z) : res (list Z) :=
  match fuel with
  | O => Ok []
  | S f => match l with
           | [] => Ok []
           | _ => if (List.length l <? w)%nat then Err EValue
                  else let u := firstn w l in
                       r <- units w big f (skipn w l) ;;
                       Ok ((if big then from_be u else from_be (rev u)) :: r)
           end
  end.
Fixpoint utf8 (fuel : nat) (l : list Z) : res (list Z) :=
  match fuel with
  | O => Ok []
  | S f =>
    match l with
    | [] => Ok []
    | b0 :: t =>
      if b0 <? 128 then r <- utf8 f t ;; Ok (b0 :: r)
      else if (194 <=? b0) && (b0 <? 224) then
        match t with
        | b1 :: t' => if (128 <=? b1) && (b1 <? 192) then r <- utf8 f t' ;; Ok ((b0 - 192) * 64 + (b1 - 128) :: r) else Err EValue
        | _ => Err EValue end
      else if (224 <=? b0) && (b0 <? 240) then
        match t with
        | b1 :: b2 :: t' =>
            let cp := (b0 - 224) * 4096 + (b1 - 128) * 64 + (b2 - 128) in
            if (128 <=? b1) && (b1 <? 192) && (128 <=? b2) && (b2 <? 192) && (2048 <=? cp) && negb ((55296 <=? cp) && (cp <? 57344))
            then r <- utf8 f t' ;; Ok (cp :: r) else Err EValue
        | _ => Err EValue end
      else if (240 <=? b0) && (b0 <? 245) then
        match t with
        | b1 :: b2 :: b3 :: t' =>
            let cp := (b0 - 240) * 262144 + (b1 - 128) * 4096 + (b2 - 128) * 64 + (b3 - 128) in
            if (128 <=? b1) && (b1 <? 192) && (128 <=? b2) && (b2 <? 192) && (128 <=? b3) && (b3 <? 192)
               && (65536 <=? cp) && (cp <? 1114112)
            then r <- utf8 f t' ;; Ok (cp :: r) else Err EValue
        | _ => Err EValue end
      else Err EValue
    end
  end.
Definition char_width (cs : charset) : nat := match cs with Utf16 _ => 2%nat | Utf32 _ => 4%nat | _ => 1%nat end.
Definition term_index (cs : charset) (needle hay : list Z) : option Z :=
  find_aligned (S (List.length hay)) (char_width cs) needle hay 0.
Definition valid_scalar (cp : Z) : bool := (0 <=? cp) && (cp <? 1114112) && negb ((55296 <=? cp) && (cp <? 57344)).
(* bytes.decode(charset) to code points; surrogate pairs and the undefined cp1252 bytes are outside the model (ENotImpl) *)
Definition decode_text (cs : charset) (bs : list Z) : res (list Z) :=
  match cs with
  | Ascii => if forallb (fun b => b <? 128) bs then Ok bs else Err EValue
  | Latin1 => Ok bs
  | Cp1252 => if forallb (fun b => (b <? 128) || (160 <=? b)) bs then Ok bs else Err ENotImpl
  | Utf8 => utf8 (S (List.length bs)) bs
  | Utf16 o =>
      match o with
      | None => Err ENotImpl          (* "UTF-16": BOM / platform byte order *)
      | Some ord => us <- units 2 (match ord with MSB => true | LSB => false end) (S (List.length bs)) bs ;;
                    if forallb (fun u => negb ((55296 <=? u) && (u <? 57344))) us then Ok us else Err ENotImpl
      end
  | Utf32 o =>
      match o with
      | None => Err ENotImpl
      | Some ord => us <- units 4 (match ord with MSB => true | LSB => false end) (S (List.length bs)) bs ;;
                    if forallb valid_scalar us then Ok us else Err EValue
      end
  end.

(* StringDataEncoding.parse_value *)
Definition parse_string (e : string_enc) (env : env) (c : cursor) : res (pval * cursor) :=
  n <- string_size (se_size e) env ;;
  let pad := (8 - n mod 8) mod 8 in
  let nbytes := (n + pad) / 8 in
  '(v, c') <- read_as_int c n ;;
  let buf := to_be (Z.to_nat nbytes) (Z.shiftl v pad) in
  text_bytes <-
    match se_leading e with
    | Some tag =>
        if tag =? 0 then (* falsy leading size: treated as absent *)
          match se_term e with
          | Some term => match term_index (se_charset e) term buf with
                         | Some i => '(bs, _) <- read_as_bytes {| cdata := buf; cpos := 0 |} (i * 8) ;; Ok bs
                         | None => Err EValue end
          | None => Ok buf
          end
        else
        '(len_bits, cb) <- read_as_int {| cdata := buf; cpos := 0 |} tag ;;
        if len_bits mod 8 =? 0 then '(bs, _) <- read_as_bytes cb len_bits ;; Ok bs else Err EValue
    | None =>
        match se_term e with
        | Some term => match term_index (se_charset e) term buf with
                       | Some i => '(bs, _) <- read_as_bytes {| cdata := buf; cpos := 0 |} (i * 8) ;; Ok bs
                       | None => Err EValue end
        | None => Ok buf
        end
    end ;;
  cps <- decode_text (se_charset e) text_bytes ;;
  Ok ({| vcls := CStr; vval := PStr cps; vraw := PBytes buf |}, c').

(* BinaryDataEncoding.parse_value *)
Definition parse_binary (s : size_spec) (env : env) (c : cursor) : res (pval * cursor) :=
  n <- binary_size s env ;;
  '(bs, c') <- read_as_bytes c n ;;
  Ok ({| vcls := CBinary; vval := PBytes bs; vraw := PBytes bs |}, c').

Definition parse_encoding (e : encoding) (env : env) (c : cursor) : res (pval * cursor) :=
  match e with ENum ne => parse_numeric ne env c | EStr se => parse_string se env c | EBin s => parse_binary s env c end.

(* ================= parameter types ================= *)
(* dict lookup by == / hash on built-in values: ints and floats compare numerically *)
Definition key_eq (a b : payload) : bool :=
  match compare_payload a b with Ordered (Some Eq) => true | _ => false end.
Fixpoint enum_lookup (labels : list (payload * list Z)) (raw : payload) : option (list Z) :=
  match labels with
  | [] => None
  | (k, lbl) :: t => match enum_lookup t raw with       (* later duplicate keys overwrite earlier ones in a dict *)
                     | Some l => Some l
                     | None => if key_eq k raw then Some lbl else None
                     end
  end.
Definition truthy (p : payload) : bool :=
  match p with
  | PInt z => negb (z =? 0)
  | PFloat b => negb (f_is_zero b)
  | PStr l => negb (match l with [] => true | _ => false end)
  | PBytes l => negb (match l with [] => true | _ => false end)
  end.

Definition parse_type (t : ptype) (env : env) (c : cursor) : res (pval * cursor) :=
  '(v, c') <- parse_encoding (pt_enc t) env c ;;
  match pt_kind t with
  | TEnum labels =>
      match enum_lookup labels (vraw v) with
      | Some lbl => Ok ({| vcls := CStr; vval := PStr lbl; vraw := vraw v |}, c')
      | None => Err EValue
      end
  | TBoolean => Ok ({| vcls := CBool; vval := PInt (if truthy (vraw v) then 1 else 0); vraw := vraw v |}, c')
  | _ => Ok (v, c')
  end.

(* packet[name] = value (dict assignment: replace in place, else append) *)
Fixpoint set_item (e : env) (n : string) (v : pval) : env :=
  match e with
  | [] => [(n, v)]
  | (k, w) :: t => if String.eqb k n then (k, v) :: t else (k, w) :: set_item t n v
  end.

Record pstate := { s_env : env; s_cur : cursor }.
Definition parse_parameter (p : parameter) (s : pstate) : res pstate :=
  '(v, c') <- parse_type (p_type p) (s_env s) (s_cur s) ;;
  Ok {| s_env := set_item (s_env s) (p_name p) v; s_cur := c' |}.
