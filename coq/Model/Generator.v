(* Model/Generator.v — containers.py (SequenceContainer.parse), definitions.py (parse_ccsds_packet,
   packet_generator).  Executable definitions only. *)
From Coq Require Import ZArith List Bool String.
From SPP Require Import Base.Bytes Base.Sx Base.Floats Model.Cursor Model.Values Model.Criteria Model.Doc Model.Decode
  Model.Header Model.Framer Model.Segments.
Import ListNotations.
Open Scope Z_scope.

(* for entry in self.entry_list: entry.parse(packet) — nested containers are parsed in place.
   [fuel] bounds the nesting depth (the object graph of a loaded definition is acyclic). *)
Fixpoint parse_entries (fuel : nat) (d : definition) (es : list entry) (s : pstate) {struct fuel} : res pstate :=
  match fuel with
  | O => Err OutOfFuel
  | S f =>
     (fix go (es : list entry) (s : pstate) : res pstate :=
        match es with
        | [] => Ok s
        | EParam p :: t => s' <- parse_parameter p s ;; go t s'
        | EContainer n :: t =>
            match find_container d n with
            | None => Err EKey
            | Some c => s' <- parse_entries f d (k_entries c) s ;; go t s'
            end
        end) es s
  end.

(* [name for name in inheritors if all(rc.evaluate(packet) for rc in containers[name].restriction_criteria)] *)
Fixpoint candidates (d : definition) (e : env) (names : list string) : res (list string) :=
  match names with
  | [] => Ok []
  | n :: t =>
      match find_container d n with
      | None => Err EKey
      | Some c => b <- eval_all e None (k_criteria c) ;; r <- candidates d e t ;; Ok (if b then n :: r else r)
      end
  end.

Inductive outcome :=
| Parsed (s : pstate)
| Unrecognized (partial : pstate)     (* UnrecognizedPacketTypeError(partial_data=packet) *)
| Failed (e : err).

(* XtcePacketDefinition.parse_ccsds_packet; [fuel] bounds the inheritance depth *)
Fixpoint walk (fuel : nat) (d : definition) (c : container) (s : pstate) : outcome :=
  match fuel with
  | O => Failed OutOfFuel
  | S f =>
    match parse_entries (S (List.length d)) d (k_entries c) s with
    | Err e => Failed e
    | Ok s' =>
      match candidates d (s_env s') (k_inheritors c) with
      | Err e => Failed e
      | Ok [n] => match find_container d n with Some child => walk f d child s' | None => Failed EKey end
      | Ok [] => if k_abstract c then Unrecognized s' else Parsed s'
      | Ok _ => Unrecognized s'
      end
    end
  end.

Definition parse_packet (d : definition) (root : string) (raw : list Z) : outcome :=
  match find_container d root with
  | None => Failed EKey
  | Some c => walk (S (List.length d)) d c {| s_env := []; s_cur := {| cdata := raw; cpos := 0 |} |}
  end.

(* ---------- packet_generator ---------- *)
Record options := { parse_bad_pkts : bool; yield_unrecognized : bool; headers_only : bool;
                    combine_segmented : bool; secondary_header_bytes : nat }.

Inductive item :=
| IPacket (items : env) (pos : Z) (raw : list Z) (warned : bool)   (* a parsed packet; [warned]: length-mismatch warning *)
| IError (partial : env) (raw : list Z)                              (* a yielded UnrecognizedPacketTypeError *)
| IRaw (raw : list Z).                                               (* ccsds_headers_only *)

Inductive one := OItems (l : list item) | OFatal (e : err).

(* what the generator does with one (possibly combined) packet *)
Definition parse_one (d : definition) (root : string) (o : options) (raw : list Z) : one :=
  match parse_packet d root raw with
  | Failed e => OFatal e
  | Unrecognized p => OItems (if yield_unrecognized o then [IError (s_env p) raw] else [])
  | Parsed s =>
      let clean := cpos (s_cur s) =? 8 * zlen raw in
      if clean then OItems [IPacket (s_env s) (cpos (s_cur s)) raw false]
      else if parse_bad_pkts o then OItems [IPacket (s_env s) (cpos (s_cur s)) raw true] else OItems []
  end.

(* the packets handed to the parser: every raw packet, or (combining) unsegmented packets and complete groups *)
Fixpoint number (i : nat) (l : list (list Z)) : list raw :=
  match l with [] => [] | b :: t => mk_raw i b :: number (S i) t end.
Definition to_parse (o : options) (raws : list (list Z)) : list (list Z) :=
  if combine_segmented o then
    List.concat (map (fun x => match x with Emit g => [combined (secondary_header_bytes o) g] | _ => [] end)
                (run [] (number 0 raws)))
  else raws.

(* items in order; an exception other than UnrecognizedPacketTypeError ends the generator *)
Fixpoint gen_items (d : definition) (root : string) (o : options) (pkts : list (list Z)) : list item * option err :=
  match pkts with
  | [] => ([], None)
  | r :: t =>
      match parse_one d root o r with
      | OFatal e => ([], Some e)
      | OItems l => let '(rest, e) := gen_items d root o t in (l ++ rest, e)
      end
  end.

Definition generator (d : definition) (root : string) (o : options) (raws : list (list Z)) : list item * option err :=
  if headers_only o then (map IRaw raws, None) else gen_items d root o (to_parse o raws).

(* the whole pipeline from a byte stream (bytes source) *)
Definition packet_generator (d : definition) (root : string) (o : options) (k : nat) (stream : list Z) : option (list item * option err) :=
  match frame 0 k stream [] with
  | Some raws => Some (generator d root o raws)
  | None => None
  end.

(* views *)
Definition header_view (e : env) : env := firstn 7 e.
Definition user_data_view (e : env) : env := skipn 7 e.
