(* Model/Compile.v — from the linked XTCE document (Model/Xml.v + Model/Loader.v: what from_xtce builds out of the XML tree) to
   the object graph the decoder walks (Model/Doc.v).  This is the attribute-by-attribute content of the constructors called by
   the from_xml methods: IntegerDataEncoding / FloatDataEncoding / StringDataEncoding / BinaryDataEncoding, the calibrators,
   Comparison / Condition / BooleanExpression, the parameter types, Parameter, SequenceContainer.
   Literals of comparisons stay strings in the document; their int()/float() readings are supplied as a table (CPython's
   number parsing is modelled, not verified): [lits].  Executable definitions only. *)
From Coq Require Import ZArith List Bool String Ascii.
From SPP Require Import Base.Sx Model.Values Model.Criteria Model.Doc Model.Xml Model.Loader.
Import ListNotations.
Open Scope string_scope.
Open Scope list_scope.

Fixpoint codes_of (s : string) : list Z :=
  match s with EmptyString => [] | String a r => Z.of_N (N_of_ascii a) :: codes_of r end.

(* bytes.fromhex for an even number of hex digits *)
Definition hexval (a : ascii) : option Z :=
  let n := Z.of_N (N_of_ascii a) in
  if (48 <=? n)%Z && (n <=? 57)%Z then Some (n - 48)%Z
  else if (97 <=? n)%Z && (n <=? 102)%Z then Some (n - 87)%Z
  else if (65 <=? n)%Z && (n <=? 70)%Z then Some (n - 55)%Z
  else None.
Fixpoint fromhex (s : string) : option (list Z) :=
  match s with
  | EmptyString => Some []
  | String a (String b r) =>
      match hexval a, hexval b, fromhex r with
      | Some x, Some y, Some t => Some ((16 * x + y)%Z :: t)
      | _, _, _ => None
      end
  | String _ EmptyString => None
  end.

Fixpoint op_lookup (s : string) (t : list (string * cop)) : option cop :=
  match t with [] => None | (k, o) :: r => if String.eqb k s then Some o else op_lookup s r end.

Definition charset_of (s : string) : option charset :=
  if String.eqb s "US-ASCII" then Some Ascii else if String.eqb s "ISO-8859-1" then Some Latin1
  else if String.eqb s "Windows-1252" then Some Cp1252 else if String.eqb s "UTF-8" then Some Utf8
  else if String.eqb s "UTF-16LE" then Some (Utf16 (Some LSB)) else if String.eqb s "UTF-16BE" then Some (Utf16 (Some MSB))
  else if String.eqb s "UTF-16" then Some (Utf16 None)
  else if String.eqb s "UTF-32LE" then Some (Utf32 (Some LSB)) else if String.eqb s "UTF-32BE" then Some (Utf32 (Some MSB))
  else if String.eqb s "UTF-32" then Some (Utf32 None) else None.

Definition order_of (s : string) : byte_order := if String.eqb s "leastSignificantByteFirst" then LSB else MSB.

Section Compile.
Variable lits : list (string * lit).     (* int()/float()/str readings of the literals that occur in the document *)

Definition lit_of (s : string) : res lit := match assoc lits s with Some l => Ok l | None => Err EOther end.
Definition cop_of (s : string) : res cop := match op_lookup s operator_table with Some o => Ok o | None => Err EValue end.

Definition c_comparison (c : xcomparison) : res comparison :=
  o <- cop_of (xc_op c) ;; l <- lit_of (xc_value c) ;;
  Ok {| c_ref := xc_ref c; c_op := o; c_lit := l; c_cal := xc_cal c |}.
Definition c_condition (d : xcondition) : res condition :=
  o <- cop_of (xd_op d) ;;
  r <- match xd_right d with XParam n cal => Ok (RParam n cal) | XValue s => l <- lit_of s ;; Ok (RValue l) end ;;
  Ok {| d_left := xd_left d; d_lcal := xd_lcal d; d_op := o; d_right := r |}.
Fixpoint c_bx (t : xbx) : res bx :=
  match t with
  | XAnd cs subs => cs' <- mapM c_condition cs ;;
                    subs' <- (fix go (l : list xbx) : res (list bx) := match l with [] => Ok [] | x :: r => y <- c_bx x ;; ys <- go r ;; Ok (y :: ys) end) subs ;;
                    Ok (BAnd cs' subs')
  | XOr cs subs => cs' <- mapM c_condition cs ;;
                   subs' <- (fix go (l : list xbx) : res (list bx) := match l with [] => Ok [] | x :: r => y <- c_bx x ;; ys <- go r ;; Ok (y :: ys) end) subs ;;
                   Ok (BOr cs' subs')
  end.
Definition c_criterion (k : xcriterion) : res criterion :=
  match k with
  | XCmp c => x <- c_comparison c ;; Ok (KComparison x)
  | XBool (XCond d) => x <- c_condition d ;; Ok (KBool (BCond x))
  | XBool (XTree t) => x <- c_bx t ;; Ok (KBool (BTree x))
  end.
Definition c_criteria (ks : list xcriterion) : res (list criterion) := mapM c_criterion ks.

Definition c_cal (c : xcalibrator) : calibrator :=
  match c with
  | XPoly ts => Poly (map (fun t => (NFloat (fst t), snd t)) ts)
  | XSpline o ex ps => Spline o ex (map (fun p => (NFloat (fst p), NFloat (snd p))) ps)
  end.
Definition c_context (x : xcontext) : res context_cal :=
  ks <- c_criteria (xx_criteria x) ;; Ok {| cc_criteria := ks; cc_cal := c_cal (xx_cal x) |}.
Definition c_lookup (l : xlookup) : res lookup_entry := ks <- c_criteria (xl_criteria l) ;; Ok (ks, xl_value l).
Definition c_size (s : xsize) : res size_spec :=
  match s with
  | XFixed n => Ok (SFixed n)
  | XDynamic r c a => Ok (SDynamic r c a)
  | XLookup ls => l <- mapM c_lookup ls ;; Ok (SLookup l)
  end.

Definition c_numeric (e : xnumeric) : res numeric_enc :=
  ctx <- match xn_context e with None => Ok None | Some cs => l <- mapM c_context cs ;; Ok (Some l) end ;;
  Ok {| ne_size := xn_size e;
        ne_kind := if xn_float e then KFloat (if String.eqb (xn_encoding e) "MILSTD_1750A" then MIL1750A else IEEE)
                   else KInt (negb (String.eqb (xn_encoding e) "unsigned"));
        ne_order := order_of (xn_order e);
        ne_default := option_map c_cal (xn_default e); ne_context := ctx |}.
Definition c_string (e : xstring) : res string_enc :=
  cs <- match charset_of (xs_charset e) with Some c => Ok c | None => Err EValue end ;;
  sz <- c_size (xs_size e) ;;
  term <- match xs_term e with
          | None => Ok None
          | Some h => match fromhex h with Some b => Ok (Some b) | None => Err EValue end
          end ;;
  Ok {| se_charset := cs; se_size := sz; se_term := term; se_leading := xs_leading e |}.
Definition c_encoding (e : xencoding) : res encoding :=
  match e with
  | XNum n => x <- c_numeric n ;; Ok (ENum x)
  | XStr s => x <- c_string s ;; Ok (EStr x)
  | XBin s => x <- c_size s ;; Ok (EBin x)
  end.

Definition c_label (vl : aval * string) : res (payload * list Z) :=
  match fst vl with AZ z => Ok (PInt z, codes_of (snd vl)) | _ => Err EValue end.
Definition c_kind (k : xkind) : res type_kind :=
  match k with
  | XKInteger => Ok TInteger | XKFloat => Ok TFloat | XKString => Ok TString | XKBinary => Ok TBinary | XKBoolean => Ok TBoolean
  | XKEnum ls => l <- mapM c_label ls ;; Ok (TEnum l)
  | XKTime true _ _ => Ok TAbsTime | XKTime false _ _ => Ok TRelTime
  end.
Definition c_ptype (t : xptype) : res ptype :=
  k <- c_kind (xt_kind t) ;; e <- c_encoding (xt_enc t) ;; Ok {| pt_name := xt_name t; pt_kind := k; pt_enc := e |}.

(* the caches of the linked graph *)
Definition c_types (g : graph) : res (list (string * ptype)) := mapM (fun nt => t <- c_ptype (snd nt) ;; Ok (fst nt, t)) (g_types g).
Definition c_params (types : list (string * ptype)) (g : graph) : res (list (string * parameter)) :=
  mapM (fun np => match assoc types (xp_type (snd np)) with
                  | Some t => Ok (fst np, {| p_name := xp_name (snd np); p_type := t |})
                  | None => Err EKey end) (g_params g).
Definition c_entry (params : list (string * parameter)) (e : xentry) : res entry :=
  match e with
  | XEP n => match assoc params n with Some p => Ok (EParam p) | None => Err EKey end
  | XEC n => Ok (EContainer n)
  end.
Definition c_container (params : list (string * parameter)) (kc : string * lcontainer) : res container :=
  let c := lk (snd kc) in
  es <- mapM (c_entry params) (xk_entries c) ;; ks <- c_criteria (xk_criteria c) ;;
  Ok {| k_name := xk_name c; k_entries := es; k_abstract := xk_abstract c; k_base := xk_base c; k_criteria := ks;
        k_inheritors := lk_inheritors (snd kc) |}.

Definition compile (g : graph) : res definition :=
  types <- c_types g ;; params <- c_params types g ;; mapM (c_container params) (g_containers g).
End Compile.
