(* Model/Framer.v — packets.py: ccsds_generator (repaired form, see DESIGN 1.4 F1/F2).
   State: read_buffer [buf], current_pos [cur], n_bytes_parsed [parsed]; the data source is the list
   of results its reader will return ([src]; once exhausted the reader returns b"" for ever).
   [plen] maps the six header bytes to the total packet length; [frame] instantiates it with the
   CCSDS length field read through the C03 model.  Executable definitions only. *)
From Coq Require Import ZArith List Bool Arith.
From SPP Require Import Base.Bytes Base.Sx Model.Cursor.
Import ListNotations.
Open Scope nat_scope.

Definition nslice (a b : nat) (l : list Z) := firstn (b - a) (skipn a l).

(* while len(read_buffer) - current_pos < need: result = read(); if not result: break; read_buffer += result *)
Fixpoint refill (need : nat) (buf : list Z) (cur : nat) (src : list (list Z)) : list Z * list (list Z) :=
  if need <=? length buf - cur then (buf, src) else
  match src with
  | [] => (buf, [])
  | [] :: rest => (buf, rest)
  | c :: rest => refill need (buf ++ c) cur rest
  end.

(* if total_length_bytes and n_bytes_parsed == total_length_bytes: break *)
Definition at_total (total : option nat) (parsed : nat) : bool :=
  match total with Some t => negb (t =? 0) && (parsed =? t) | None => false end.

Section Loop.
Variable plen : list Z -> nat.

Fixpoint loop (fuel : nat) (T : Z) (k : nat) (total : option nat) (buf : list Z) (cur parsed : nat)
              (src : list (list Z)) : option (list (list Z)) :=
  match fuel with
  | 0 => None
  | S f =>
    if at_total total parsed then Some [] else
    let '(buf, cur) := if Z.ltb T (Z.of_nat cur) then (skipn cur buf, 0) else (buf, cur) in
    let '(buf, src) := refill (k + 6) buf cur src in
    if length buf - cur <? k + 6 then Some [] else
    let cur := cur + k in
    let n := plen (nslice cur (cur + 6) buf) in
    let '(buf, src) := refill n buf cur src in
    if length buf - cur <? n then Some [] else
    match loop f T k total buf (cur + n) (parsed + k + n) src with
    | Some r => Some (nslice cur (cur + n) buf :: r)
    | None => None
    end
  end.
End Loop.

(* n_bytes_packet = 6 + (_extract_bits(header_bytes, 32, 16) + 1) *)
Definition plen_ccsds (hdr : list Z) : nat :=
  7 + Z.to_nat (match extract_bits hdr 32 16 with Ok v => v | Err _ => 0%Z end).

Definition TRIM : Z := 20000000%Z.

(* source kinds: 0 = bytes object (pre-buffered, reader yields nothing), 1 = file object, 2 = socket *)
Definition frameT (T : Z) (kind : Z) (k : nat) (stream : list Z) (chunks : list (list Z)) : option (list (list Z)) :=
  let fuel := S (length stream + length (concat chunks)) in
  if (kind =? 0)%Z then loop plen_ccsds fuel T k (Some (length stream)) stream 0 0 []
  else if (kind =? 1)%Z then loop plen_ccsds fuel T k (Some (length (concat chunks))) [] 0 0 chunks
  else loop plen_ccsds fuel T k None [] 0 0 chunks.
Definition frame := frameT TRIM.

(* ---- specification side ---- *)
Definition encode (pps : list (list Z * list Z)) : list Z := concat (map (fun pp => fst pp ++ snd pp) pps).

(* cut a stream into chunks of the given sizes (harness literal for file/socket reads) *)
Fixpoint cut (sizes : list nat) (l : list Z) : list (list Z) :=
  match sizes with
  | [] => match l with [] => [] | _ => [l] end
  | s :: t => match l with [] => [] | _ => firstn s l :: cut t (skipn s l) end
  end.
