(* Model/Cli.v — cli.py: row selection of `spp describe-packets` and index handling of
   `spp parse --packet` (repaired forms, DESIGN 1.4 F10/F11). *)
From Coq Require Import ZArith List Bool Arith.
Import ListNotations.

Definition MAX_ROWS : nat := 10.
Definition HEAD_ROWS : nat := 5.

Inductive row := Pkt (i : nat) | Ellipsis.

(* packets = [0 .. n-1] *)
Definition rows (n : nat) : list row :=
  let packets := seq 0 n in
  if MAX_ROWS <? n then
    map Pkt (firstn HEAD_ROWS packets) ++ [Ellipsis] ++ map Pkt (skipn (n - HEAD_ROWS) packets)
  else map Pkt packets.

Inductive shown := Shown (i : nat) | OutOfRange.
(* --packet idx with idx >= 0 on a file of n packets *)
Definition select (idx n : nat) : shown := if n <=? idx then OutOfRange else Shown idx.
