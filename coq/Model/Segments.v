(* Model/Segments.v — definitions.py: the segmented-packet state machine of packet_generator
   (combine_segmented_packets=True), in the repaired form (group dropped once LAST is handled). *)
From Coq Require Import ZArith List Bool Arith.
From SPP Require Import Base.Bytes Base.Sx Model.Cursor Model.Header.
Import ListNotations.
Open Scope Z_scope.

Inductive flag := Cont | First | Last | Unseg.
Definition flag_of (z : Z) : flag :=
  if z =? 0 then Cont else if z =? 1 then First else if z =? 2 then Last else Unseg.

(* a raw packet as delivered by the framer; [idx] is its position in the stream (ghost) *)
Record raw := { apid : Z; fl : flag; seq : Z; idx : nat; body : list Z }.
Definition mk_raw (i : nat) (bs : list Z) : raw :=
  {| apid := field bs 5 11; fl := flag_of (field bs 16 2); seq := field bs 18 14; idx := i; body := bs |}.

(* _segmented_packets: dict apid -> list of raw packets (an absent key and an empty list behave alike) *)
Definition smap := list (Z * list raw).
Fixpoint get (m : smap) (a : Z) : list raw :=
  match m with [] => [] | (k, v) :: t => if k =? a then v else get t a end.
Fixpoint set (m : smap) (a : Z) (v : list raw) : smap :=
  match m with [] => [(a, v)] | (k, w) :: t => if k =? a then (k, v) :: t else (k, w) :: set t a v end.
Definition del m a := set m a [].

Fixpoint in_sequence (l : list raw) : bool :=
  match l with
  | x :: ((y :: _) as t) => ((seq y - seq x) mod 16384 =? 1) && in_sequence t
  | _ => true
  end.

Inductive out := Emit (g : list raw) | WarnNoStart | WarnGap | Nothing.

Definition step (m : smap) (r : raw) : smap * out :=
  match fl r with
  | Unseg => (m, Emit [r])
  | First => (set m (apid r) [r], Nothing)
  | Cont => match get m (apid r) with
            | [] => (m, WarnNoStart)
            | g => (set m (apid r) (g ++ [r]), Nothing) end
  | Last => match get m (apid r) with
            | [] => (m, WarnNoStart)
            | g => let g' := g ++ [r] in
                   (del m (apid r), if in_sequence g' then Emit g' else WarnGap) end
  end.

Fixpoint run (m : smap) (h : list raw) : list out :=
  match h with [] => [] | r :: t => let '(m', o) := step m r in o :: run m' t end.

(* bytes handed to the XTCE parser for an emitted group: the whole first packet followed by each
   later packet's data field minus the declared secondary-header length *)
Definition combined (sec : nat) (g : list raw) : list Z :=
  match g with
  | [] => []
  | f :: rest => body f ++ concat (map (fun p => skipn (6 + sec) (body p)) rest)
  end.

(* ---- per-APID specification automaton ---- *)
Inductive astate := Idle | Open (g : list raw).
Definition astep (s : astate) (r : raw) : astate * out :=
  match fl r, s with
  | Unseg, _ => (s, Emit [r])
  | First, _ => (Open [r], Nothing)
  | Cont, Idle => (Idle, WarnNoStart)
  | Cont, Open g => (Open (g ++ [r]), Nothing)
  | Last, Idle => (Idle, WarnNoStart)
  | Last, Open g => (Idle, if in_sequence (g ++ [r]) then Emit (g ++ [r]) else WarnGap)
  end.
Fixpoint arun (s : astate) (h : list raw) : list out :=
  match h with [] => [] | r :: t => let '(s', o) := astep s r in o :: arun s' t end.
