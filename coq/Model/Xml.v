(* Model/Xml.v — the XTCE XML layer: element trees as lxml exposes them, the library's from_xml readers and
   to_xml writers (definitions.py, containers.py, parameters.py, parameter_types.py, encodings.py,
   calibrators.py, comparisons.py), at the level of element structure and typed attribute values.
   Text <-> number conversion (str()/int()/float()) is glue: attribute values are carried typed.
   Executable definitions only. *)
From Coq Require Import ZArith List Bool String.
From SPP Require Import Base.Sx.
Import ListNotations.
Open Scope string_scope.
Open Scope list_scope.

(* ---------- raw trees and what the lxml API exposes of them ---------- *)
Inductive aval := AS (s : string) | AZ (z : Z) | AF (bits : Z) | AB (b : bool).
Definition qname := (option string * string)%type.         (* (namespace URI, local name) *)

Inductive xml :=
| Elem (tag : qname) (attrs : list (string * aval)) (children : list xml)
| Text (s : aval)           (* character data; whitespace-only text is [Text (AS w)] with w blank *)
| Comment (s : string).

(* the element view: find / findall / iterfind / attrib / .text only ever see child ELEMENTS and the
   text that precedes the first child *)
Inductive velem := VE (tag : qname) (attrs : list (string * aval)) (text : option aval) (kids : list velem).

(* whitespace-only character data *)
Fixpoint blank_string (s : string) : bool :=
  match s with
  | EmptyString => true
  | String c r => (let n := Ascii.nat_of_ascii c in Nat.eqb n 32 || Nat.eqb n 10 || Nat.eqb n 9 || Nat.eqb n 13)%bool && blank_string r
  end.
Definition is_blank (a : aval) : bool := match a with AS s => blank_string s | _ => false end.
Definition is_deco (x : xml) : bool := match x with Comment _ => true | Text a => is_blank a | Elem _ _ _ => false end.

Fixpoint view (x : xml) : option velem :=
  match x with
  | Elem tag attrs children =>
      Some (VE tag attrs
               (* .text: the character data before the first child; the readers never look at whitespace-only text *)
               (match children with Text s :: _ => if is_blank s then None else Some s | _ => None end)
               ((fix go (l : list xml) : list velem :=
                   match l with
                   | [] => []
                   | c :: t => match view c with Some v => v :: go t | None => go t end
                   end) children))
  | _ => None
  end.

(* the inverse direction used by the writer: elements only, text as the single leading child *)
Fixpoint to_raw (v : velem) : xml :=
  match v with
  | VE tag attrs text kids =>
      Elem tag attrs ((match text with Some s => [Text s] | None => [] end) ++ map to_raw kids)
  end.

Definition vtag (v : velem) : qname := match v with VE t _ _ _ => t end.
Definition vattrs (v : velem) := match v with VE _ a _ _ => a end.
Definition vtext (v : velem) := match v with VE _ _ t _ => t end.
Definition vkids (v : velem) := match v with VE _ _ _ k => k end.

(* ---------- namespace state (NamespaceAwareElement._nsmap / _ns_prefix) ---------- *)
Record nsstate := { st_prefix : option string; st_nsmap : list (option string * string) }.
Fixpoint ns_lookup (m : list (option string * string)) (k : option string) : option string :=
  match m with
  | [] => None
  | (k', u) :: t =>
      if match k, k' with Some a, Some b => String.eqb a b | None, None => true | _, _ => false end
      then Some u else ns_lookup t k
  end.
(* the namespace an unqualified path step resolves to; a prefix missing from the map is a ValueError *)
Definition resolve (st : nsstate) : res (option string) :=
  match st_prefix st with
  | Some p => match ns_lookup (st_nsmap st) (Some p) with Some u => Ok (Some u) | None => Err EValue end
  | None => Ok (ns_lookup (st_nsmap st) None)
  end.

Definition ns_eqb (a b : option string) : bool :=
  match a, b with Some x, Some y => String.eqb x y | None, None => true | _, _ => false end.

Section Reader.
Variable U : option string.      (* the resolved XTCE namespace *)

Definition is_tag (n : string) (v : velem) : bool := ns_eqb (fst (vtag v)) U && String.eqb (snd (vtag v)) n.
Definition find (n : string) (v : velem) : option velem := List.find (is_tag n) (vkids v).
Definition findall (n : string) (v : velem) : list velem := List.filter (is_tag n) (vkids v).
Fixpoint find_path (path : list string) (v : velem) : option velem :=
  match path with
  | [] => Some v
  | n :: t => match find n v with Some c => find_path t c | None => None end
  end.
Fixpoint attr (a : list (string * aval)) (n : string) : option aval :=
  match a with [] => None | (k, x) :: t => if String.eqb k n then Some x else attr t n end.
Definition get (v : velem) (n : string) := attr (vattrs v) n.
Definition localname (v : velem) : string := snd (vtag v).

Definition req_s (v : velem) (n : string) : res string :=
  match get v n with Some (AS s) => Ok s | Some _ => Err EValue | None => Err EKey end.
Definition req_z (v : velem) (n : string) : res Z :=
  match get v n with Some (AZ z) => Ok z | Some _ => Err EValue | None => Err EKey end.
Definition req_f (v : velem) (n : string) : res Z :=
  match get v n with Some (AF f) => Ok f | Some _ => Err EValue | None => Err EKey end.
Definition opt_s (v : velem) (n : string) : res (option string) :=
  match get v n with Some (AS s) => Ok (Some s) | Some _ => Err EValue | None => Ok None end.
(* attribute.lower() == 'true' with a default *)
Definition opt_b (v : velem) (n : string) (dflt : bool) : res bool :=
  match get v n with Some (AB b) => Ok b | Some _ => Ok false | None => Ok dflt end.
Definition text_s (v : velem) : res string := match vtext v with Some (AS s) => Ok s | Some _ => Err EValue | None => Err EType end.
Definition text_z (v : velem) : res Z := match vtext v with Some (AZ z) => Ok z | Some _ => Err EValue | None => Err EType end.

Fixpoint mapM {A B} (f : A -> res B) (l : list A) : res (list B) :=
  match l with [] => Ok [] | x :: t => y <- f x ;; r <- mapM f t ;; Ok (y :: r) end.

(* ================= the abstract document ================= *)
Record xcomparison := { xc_ref : string; xc_value : string; xc_op : string; xc_cal : bool }.
Inductive xoperand := XParam (n : string) (cal : bool) | XValue (s : string).
Record xcondition := { xd_left : string; xd_lcal : bool; xd_op : string; xd_right : xoperand }.
Inductive xbx := XAnd (cs : list xcondition) (subs : list xbx) | XOr (cs : list xcondition) (subs : list xbx).
Inductive xbexpr := XCond (d : xcondition) | XTree (t : xbx).
Inductive xcriterion := XCmp (c : xcomparison) | XBool (b : xbexpr).

Inductive xcalibrator :=
| XPoly (terms : list (Z * Z))                          (* (coefficient bits, exponent) *)
| XSpline (order : Z) (extrapolate : bool) (points : list (Z * Z)).
Record xcontext := { xx_criteria : list xcriterion; xx_cal : xcalibrator }.
Record xlookup := { xl_criteria : list xcriterion; xl_value : Z }.
Inductive xsize := XFixed (n : Z) | XDynamic (ref : string) (cal : bool) (adj : option (Z * Z)) | XLookup (ls : list xlookup).
Record xnumeric := { xn_float : bool; xn_size : Z; xn_encoding : string; xn_order : string;
                     xn_default : option xcalibrator; xn_context : option (list xcontext) }.
Record xstring := { xs_charset : string; xs_order : option string; xs_size : xsize; xs_term : option string; xs_leading : option Z }.
Inductive xencoding := XNum (e : xnumeric) | XStr (e : xstring) | XBin (s : xsize).
Inductive xkind :=
| XKInteger | XKFloat | XKString | XKBinary | XKBoolean
| XKEnum (labels : list (aval * string))
| XKTime (absolute : bool) (epoch : option string) (offset_from : option string).
Record xptype := { xt_name : string; xt_kind : xkind; xt_unit : option string; xt_enc : xencoding }.
Record xparam := { xp_name : string; xp_type : string; xp_short : option string; xp_long : option string }.
Inductive xentry := XEP (n : string) | XEC (n : string).
Record xcontainer := { xk_name : string; xk_abstract : bool; xk_short : option string; xk_long : option string;
                       xk_entries : list xentry; xk_base : option string; xk_criteria : list xcriterion }.
Record xdoc := { xd_types : list xptype; xd_params : list xparam; xd_containers : list xcontainer;
                 xd_name : option string; xd_date : option string }.

(* ================= readers (from_xml) ================= *)
Definition read_comparison (v : velem) : res xcomparison :=
  cal <- opt_b v "useCalibratedValue" true ;;
  value <- req_s v "value" ;;
  ref <- req_s v "parameterRef" ;;
  op <- (o <- opt_s v "comparisonOperator" ;; Ok (match o with Some s => s | None => "==" end)) ;;
  Ok {| xc_ref := ref; xc_value := value; xc_op := op; xc_cal := cal |}.

Definition read_instance_ref (v : velem) : res (string * bool) :=
  n <- req_s v "parameterRef" ;; c <- opt_b v "useCalibratedValue" true ;; Ok (n, c).

Definition read_condition (v : velem) : res xcondition :=
  match find "ComparisonOperator" v with
  | None => Err EAttr
  | Some opel =>
    op <- text_s opel ;;
    match findall "ParameterInstanceRef" v with
    | [l] => '(ln, lc) <- read_instance_ref l ;;
             match find "Value" v with
             | None => Err EAttr
             | Some ve => val <- text_s ve ;; Ok {| xd_left := ln; xd_lcal := lc; xd_op := op; xd_right := XValue val |}
             end
    | [l; r] => '(ln, lc) <- read_instance_ref l ;; '(rn, rc) <- read_instance_ref r ;;
                Ok {| xd_left := ln; xd_lcal := lc; xd_op := op; xd_right := XParam rn rc |}
    | _ => Err EValue
    end
  end.

Fixpoint read_anded (fuel : nat) (v : velem) : res xbx :=
  match fuel with
  | O => Err OutOfFuel
  | S f => cs <- mapM read_condition (findall "Condition" v) ;;
           subs <- mapM (read_ored f) (findall "ORedConditions" v) ;; Ok (XAnd cs subs)
  end
with read_ored (fuel : nat) (v : velem) : res xbx :=
  match fuel with
  | O => Err OutOfFuel
  | S f => cs <- mapM read_condition (findall "Condition" v) ;;
           subs <- mapM (read_anded f) (findall "ANDedConditions" v) ;; Ok (XOr cs subs)
  end.

Fixpoint vdepth (v : velem) : nat :=
  match v with VE _ _ _ kids => S (fold_right (fun k acc => Nat.max (vdepth k) acc) O kids) end.

Definition read_bexpr (v : velem) : res xbexpr :=
  match find "Condition" v with
  | Some c => d <- read_condition c ;; Ok (XCond d)
  | None =>
    match find "ANDedConditions" v with
    | Some a => t <- read_anded (vdepth a) a ;; Ok (XTree t)
    | None => match find "ORedConditions" v with
              | Some o => t <- read_ored (vdepth o) o ;; Ok (XTree t)
              | None => Err EValue
              end
    end
  end.

(* ComparisonList | Comparison | BooleanExpression inside a holder element; [all_children]: the list form
   takes every child element (iterfind('*')) rather than only Comparison children *)
Definition read_match (all_children : bool) (bool_ok : bool) (holder : velem) : res (option (list xcriterion)) :=
  match find "ComparisonList" holder with
  | Some cl => cs <- mapM read_comparison (if all_children then vkids cl else findall "Comparison" cl) ;; Ok (Some (map XCmp cs))
  | None =>
    match find "Comparison" holder with
    | Some c => x <- read_comparison c ;; Ok (Some [XCmp x])
    | None =>
      if bool_ok then
        match find "BooleanExpression" holder with
        | Some b => x <- read_bexpr b ;; Ok (Some [XBool x])
        | None => Ok None
        end
      else Ok None
    end
  end.

Definition read_poly (v : velem) : res xcalibrator :=
  ts <- mapM (fun t => c <- req_f t "coefficient" ;; e <- req_z t "exponent" ;; Ok (c, e)) (vkids v) ;; Ok (XPoly ts).
Definition read_spline (v : velem) : res xcalibrator :=
  ps <- mapM (fun p => r <- req_f p "raw" ;; c <- req_f p "calibrated" ;; Ok (r, c)) (vkids v) ;;
  order <- match get v "order" with Some (AZ z) => Ok z | Some _ => Err EValue | None => Ok 0%Z end ;;
  ex <- opt_b v "extrapolate" false ;;
  if (1 <? order)%Z then Err ENotImpl else Ok (XSpline order ex ps).

Definition read_default_cal (enc : velem) : res (option xcalibrator) :=
  match find_path ["DefaultCalibrator"; "SplineCalibrator"] enc with
  | Some s => c <- read_spline s ;; Ok (Some c)
  | None =>
    match find_path ["DefaultCalibrator"; "PolynomialCalibrator"] enc with
    | Some p => c <- read_poly p ;; Ok (Some c)
    | None => match find_path ["DefaultCalibrator"; "MathOperationCalibrator"] enc with Some _ => Err ENotImpl | None => Ok None end
    end
  end.

Definition read_context (v : velem) : res xcontext :=
  match find "ContextMatch" v with
  | None => Err EAttr
  | Some m =>
    crit <- read_match false true m ;;
    match crit with
    | None => Err ENotImpl
    | Some ks =>
      match find_path ["Calibrator"; "SplineCalibrator"] v with
      | Some s => c <- read_spline s ;; Ok {| xx_criteria := ks; xx_cal := c |}
      | None => match find_path ["Calibrator"; "PolynomialCalibrator"] v with
                | Some p => c <- read_poly p ;; Ok {| xx_criteria := ks; xx_cal := c |}
                | None => Err ENotImpl
                end
      end
    end
  end.

Definition read_context_list (enc : velem) : res (option (list xcontext)) :=
  match find "ContextCalibratorList" enc with
  | Some l => cs <- mapM read_context (vkids l) ;; Ok (Some cs)      (* repaired: child ELEMENTS only (F9) *)
  | None => Ok None
  end.

Definition read_lookup (v : velem) : res xlookup :=
  value <- req_f v "value" ;;
  crit <- read_match true false v ;;
  match crit with Some ks => Ok {| xl_criteria := ks; xl_value := value |} | None => Err ENotImpl end.

Definition read_adjust (dyn : velem) : res (option (Z * Z)) :=
  match find "LinearAdjustment" dyn with
  | None => Ok None
  | Some a =>
      s <- match get a "slope" with Some (AZ z) => Ok z | Some _ => Err EValue | None => Ok 0%Z end ;;
      i <- match get a "intercept" with Some (AZ z) => Ok z | Some _ => Err EValue | None => Ok 0%Z end ;;
      Ok (Some (s, i))
  end.

Definition read_dynamic (dyn : velem) : res xsize :=
  match find "ParameterInstanceRef" dyn with
  | None => Err EAttr
  | Some r => ref <- req_s r "parameterRef" ;; cal <- opt_b r "useCalibratedValue" true ;; adj <- read_adjust dyn ;;
              Ok (XDynamic ref cal adj)
  end.

Definition read_numeric (is_float : bool) (v : velem) : res xnumeric :=
  size <- req_z v "sizeInBits" ;;
  enc <- (o <- opt_s v "encoding" ;; Ok (match o with Some s => s | None => if is_float then "IEEE754" else "unsigned" end)) ;;
  order <- (o <- opt_s v "byteOrder" ;; Ok (match o with Some s => s | None => "mostSignificantByteFirst" end)) ;;
  d <- read_default_cal v ;;
  c <- read_context_list v ;;
  Ok {| xn_float := is_float; xn_size := size; xn_encoding := enc; xn_order := order; xn_default := d; xn_context := c |}.

Definition single_byte (cs : string) : bool :=
  String.eqb cs "US-ASCII" || String.eqb cs "ISO-8859-1" || String.eqb cs "Windows-1252" || String.eqb cs "UTF-8".
Definition ends_with_e (cs : string) : bool :=
  String.eqb cs "UTF-16LE" || String.eqb cs "UTF-16BE" || String.eqb cs "UTF-32LE" || String.eqb cs "UTF-32BE".

Definition read_string (v : velem) : res xstring :=
  cs <- (o <- opt_s v "encoding" ;; Ok (match o with Some s => s | None => "UTF-8" end)) ;;
  (* single-byte charsets: no byte order; an LE/BE suffix implies it; otherwise the byteOrder attribute is required *)
  order <- (if single_byte cs then Ok None
            else if String.eqb cs "UTF-16LE" || String.eqb cs "UTF-32LE" then Ok (Some "leastSignificantByteFirst")
            else if String.eqb cs "UTF-16BE" || String.eqb cs "UTF-32BE" then Ok (Some "mostSignificantByteFirst")
            else o <- opt_s v "byteOrder" ;; match o with Some s => Ok (Some s) | None => Err EValue end) ;;
  '(size, holder) <-
     match find "SizeInBits" v with
     | Some sz => match find_path ["Fixed"; "FixedValue"] sz with
                  | Some fv => n <- text_z fv ;; Ok (XFixed n, sz)
                  | None => Err EAttr end
     | None =>
       match find "Variable" v with
       | Some var =>
           match find "DynamicValue" var with
           | Some dyn => s <- read_dynamic dyn ;; Ok (s, var)
           | None => match find "DiscreteLookupList" var with
                     | Some l => ls <- mapM read_lookup (vkids l) ;; Ok (XLookup ls, var)
                     | None => Err EValue end
           end
       | None => Err EValue
       end
     end ;;
  term <- match find "TerminationChar" holder with Some t => s <- text_s t ;; Ok (Some s) | None => Ok None end ;;
  lead <- match find "LeadingSize" holder with Some l => z <- req_z l "sizeInBitsOfSizeTag" ;; Ok (Some z) | None => Ok None end ;;
  Ok {| xs_charset := cs; xs_order := order; xs_size := size; xs_term := term; xs_leading := lead |}.

Definition read_binary (v : velem) : res xsize :=
  match find_path ["SizeInBits"; "FixedValue"] v with
  | Some fv => n <- text_z fv ;; Ok (XFixed n)
  | None =>
    match find_path ["SizeInBits"; "DynamicValue"] v with
    | Some dyn => read_dynamic dyn
    | None => match find_path ["SizeInBits"; "DiscreteLookupList"] v with
              | Some l => ls <- mapM read_lookup (vkids l) ;; Ok (XLookup ls)
              | None => Err EValue end
    end
  end.

(* parameter_type_element.find(".//<X>DataEncoding"): first match in document order among all descendants,
   tried for String, Integer, Float, Binary in that order *)
Fixpoint descendants (fuel : nat) (v : velem) : list velem :=
  match fuel with O => [] | S f => flat_map (fun k => k :: descendants f k) (vkids v) end.
Definition find_desc (n : string) (v : velem) : option velem := List.find (is_tag n) (descendants (vdepth v) v).

Definition read_encoding (pt : velem) : res xencoding :=
  match find_desc "StringDataEncoding" pt with
  | Some e => x <- read_string e ;; Ok (XStr x)
  | None =>
    match find_desc "IntegerDataEncoding" pt with
    | Some e => x <- read_numeric false e ;; Ok (XNum x)
    | None =>
      match find_desc "FloatDataEncoding" pt with
      | Some e => x <- read_numeric true e ;; Ok (XNum x)
      | None => match find_desc "BinaryDataEncoding" pt with
                | Some e => x <- read_binary e ;; Ok (XBin x)
                | None => Err EValue end
      end
    end
  end.

Definition read_units (pt : velem) : res (option string) :=
  match find "UnitSet" pt with
  | None => Ok None
  | Some us => match findall "Unit" us with
               | [] => Ok None
               | [u] => s <- text_s u ;; Ok (Some s)
               | _ => Err ENotImpl
               end
  end.

Definition read_enum_labels (pt : velem) : res (list (aval * string)) :=
  match find "EnumerationList" pt with
  | None => Err EValue
  | Some l => mapM (fun e => match get e "value" with
                             | Some x => lbl <- req_s e "label" ;; Ok (x, lbl)
                             | None => Err EKey end) (vkids l)
  end.

Definition read_ptype (pt : velem) : res xptype :=
  let tag := localname pt in
  if String.eqb tag "AbsoluteTimeParameterType" || String.eqb tag "RelativeTimeParameterType" then
    name <- req_s pt "name" ;;
    unit <- match find "Encoding" pt with Some e => opt_s e "units" | None => Ok None end ;;
    enc <- read_encoding pt ;;
    (* scale/offset attributes become the encoding's default calibrator *)
    enc' <- match find "Encoding" pt with
            | None => Err EAttr
            | Some e =>
                let off := get e "offset" in let sc := get e "scale" in
                match enc with
                | XNum ne =>
                    match off, sc with
                    | None, None => Ok enc
                    | _, _ =>
                        o <- match off with Some (AF f) => Ok [(f, 0%Z)] | Some _ => Err EValue | None => Ok [] end ;;
                        s <- match sc with
                             | Some (AF f) => Ok [(f, 1%Z)]
                             | Some _ => Err EValue
                             | None => Ok [(4607182418800017408%Z, 1%Z)]       (* offset only: coefficient 1 *)
                             end ;;
                        Ok (XNum {| xn_float := xn_float ne; xn_size := xn_size ne; xn_encoding := xn_encoding ne; xn_order := xn_order ne;
                                    xn_default := Some (XPoly (o ++ s)); xn_context := xn_context ne |})
                    end
                | _ => match off, sc with None, None => Ok enc | _, _ => Err EAttr end
                end
            end ;;
    epoch <- match find_path ["ReferenceTime"; "Epoch"] pt with Some e => s <- text_s e ;; Ok (Some s) | None => Ok None end ;;
    ofrom <- match find_path ["ReferenceTime"; "OffsetFrom"] pt with Some e => s <- req_s e "parameterRef" ;; Ok (Some s) | None => Ok None end ;;
    Ok {| xt_name := name; xt_kind := XKTime (String.eqb tag "AbsoluteTimeParameterType") epoch ofrom; xt_unit := unit; xt_enc := enc' |}
  else
    name <- match get pt "name" with Some (AS s) => Ok s | Some _ => Err EValue | None => Err EValue end ;;
    unit <- read_units pt ;;
    enc <- read_encoding pt ;;
    kind <- (if String.eqb tag "StringParameterType" then match enc with XStr _ => Ok XKString | _ => Err EValue end
             else if String.eqb tag "IntegerParameterType" then Ok XKInteger
             else if String.eqb tag "FloatParameterType" then Ok XKFloat
             else if String.eqb tag "BinaryParameterType" then match enc with XBin _ => Ok XKBinary | _ => Err EValue end
             else if String.eqb tag "BooleanParameterType" then Ok XKBoolean
             else if String.eqb tag "EnumeratedParameterType" then
               match enc with XBin _ => Err EValue | _ => l <- read_enum_labels pt ;; Ok (XKEnum l) end
             else if String.eqb tag "ArrayParameterType" || String.eqb tag "AggregateParameterType" then Err ENotImpl
             else Err EOther) ;;
    Ok {| xt_name := name; xt_kind := kind; xt_unit := unit; xt_enc := enc |}.

Definition read_param (v : velem) : res xparam :=
  name <- req_s v "name" ;; ty <- req_s v "parameterTypeRef" ;; short <- opt_s v "shortDescription" ;;
  long <- match find "LongDescription" v with
          | Some l => match vtext l with Some (AS s) => Ok (Some s) | Some _ => Err EValue | None => Ok None end
          | None => Ok None end ;;
  Ok {| xp_name := name; xp_type := ty; xp_short := short; xp_long := long |}.

Definition read_container (v : velem) : res xcontainer :=
  '(base, crit) <-
     match find "BaseContainer" v with
     | None => Ok (None, [])
     | Some b =>
         ref <- req_s b "containerRef" ;;
         match find "RestrictionCriteria" b with
         | None => Ok (Some ref, [])
         | Some rc =>
             m <- read_match true true rc ;;
             match m with
             | Some ks => Ok (Some ref, ks)
             | None => match find "CustomAlgorithm" rc with Some _ => Err ENotImpl | None => Err EValue end
             end
         end
     end ;;
  entries <- match find "EntryList" v with
             | None => Err EAttr
             | Some el => mapM (fun e => if String.eqb (localname e) "ParameterRefEntry" then n <- req_s e "parameterRef" ;; Ok [XEP n]
                                          else if String.eqb (localname e) "ContainerRefEntry" then n <- req_s e "containerRef" ;; Ok [XEC n]
                                          else Ok []) (vkids el)
             end ;;
  short <- opt_s v "shortDescription" ;;
  long <- match find "LongDescription" v with
          | Some l => match vtext l with Some (AS s) => Ok (Some s) | Some _ => Err EValue | None => Ok None end
          | None => Ok None end ;;
  name <- req_s v "name" ;;
  abstract <- opt_b v "abstract" false ;;
  Ok {| xk_name := name; xk_abstract := abstract; xk_short := short; xk_long := long; xk_entries := List.concat entries;
        xk_base := base; xk_criteria := crit |}.

Definition read_doc (root : velem) : res xdoc :=
  date <- match find "Header" root with Some h => opt_s h "date" | None => Ok None end ;;
  types <- match find_path ["TelemetryMetaData"; "ParameterTypeSet"] root with
           | Some s => mapM read_ptype (vkids s) | None => Err EAttr end ;;
  params <- match find_path ["TelemetryMetaData"; "ParameterSet"] root with
            | Some s => mapM read_param (vkids s) | None => Err EAttr end ;;
  conts <- match find_path ["TelemetryMetaData"; "ContainerSet"] root with
           | Some s => mapM read_container (vkids s) | None => Err EAttr end ;;
  name <- opt_s root "name" ;;
  Ok {| xd_types := types; xd_params := params; xd_containers := conts; xd_name := name; xd_date := date |}.

(* ================= writers (to_xml) ================= *)
Definition E (n : string) (attrs : list (string * aval)) (kids : list velem) : velem := VE (U, n) attrs None kids.
Definition ET (n : string) (t : aval) : velem := VE (U, n) [] (Some t) [].
Definition optattr (n : string) (o : option string) : list (string * aval) := match o with Some s => [(n, AS s)] | None => [] end.

Definition write_comparison (c : xcomparison) : velem :=
  E "Comparison" [("parameterRef", AS (xc_ref c)); ("useCalibratedValue", AB (xc_cal c));
                  ("comparisonOperator", AS (xc_op c)); ("value", AS (xc_value c))] [].
Definition write_condition (d : xcondition) : velem :=
  E "Condition" []
    ([E "ParameterInstanceRef" [("parameterRef", AS (xd_left d)); ("useCalibratedValue", AB (xd_lcal d))] [];
      ET "ComparisonOperator" (AS (xd_op d))] ++
     [match xd_right d with
      | XParam n c => E "ParameterInstanceRef" [("parameterRef", AS n); ("useCalibratedValue", AB c)] []
      | XValue s => ET "Value" (AS s)
      end]).
Fixpoint write_bx (t : xbx) : velem :=
  match t with
  | XAnd cs subs => E "ANDedConditions" [] (map write_condition cs ++ map write_bx subs)
  | XOr cs subs => E "ORedConditions" [] (map write_condition cs ++ map write_bx subs)
  end.
Definition write_bexpr (b : xbexpr) : velem :=
  E "BooleanExpression" [] [match b with XCond d => write_condition d | XTree t => write_bx t end].
Definition write_criterion (k : xcriterion) : velem :=
  match k with XCmp c => write_comparison c | XBool b => write_bexpr b end.
(* one criterion is written bare, several as a ComparisonList *)
Definition write_criteria (ks : list xcriterion) : list velem :=
  match ks with [k] => [write_criterion k] | _ => [E "ComparisonList" [] (map write_criterion ks)] end.

Definition write_cal (c : xcalibrator) : velem :=
  match c with
  | XPoly ts => E "PolynomialCalibrator" [] (map (fun t => E "Term" [("exponent", AZ (snd t)); ("coefficient", AF (fst t))] []) ts)
  | XSpline o ex ps => E "SplineCalibrator" [("order", AZ o); ("extrapolate", AB ex)]
                         (map (fun p => E "SplinePoint" [("raw", AF (fst p)); ("calibrated", AF (snd p))] []) ps)
  end.
Definition write_context (c : xcontext) : velem :=
  E "ContextCalibrator" [] [E "ContextMatch" [] (write_criteria (xx_criteria c)); E "Calibrator" [] [write_cal (xx_cal c)]].
Definition write_lookup (l : xlookup) : velem :=
  E "DiscreteLookup" [("value", AF (xl_value l))]
    (match xl_criteria l with [k] => [write_criterion k] | ks => [E "ComparisonList" [] (map write_criterion ks)] end).
Definition write_dynamic (ref : string) (cal : bool) (adj : option (Z * Z)) : velem :=
  E "DynamicValue" []
    (E "ParameterInstanceRef" [("parameterRef", AS ref); ("useCalibratedValue", AB cal)] [] ::
     match adj with Some (s, i) => [E "LinearAdjustment" [("intercept", AZ i); ("slope", AZ s)] []] | None => [] end).

Definition write_numeric (e : xnumeric) : velem :=
  E (if xn_float e then "FloatDataEncoding" else "IntegerDataEncoding")
    [("sizeInBits", AZ (xn_size e)); ("encoding", AS (xn_encoding e)); ("byteOrder", AS (xn_order e))]
    ((match xn_default e with Some c => [E "DefaultCalibrator" [] [write_cal c]] | None => [] end) ++
     (match xn_context e with Some ((_ :: _) as cs) => [E "ContextCalibratorList" [] (map write_context cs)] | _ => [] end)).

Definition write_string (e : xstring) : velem :=
  let extra := (match xs_leading e with Some z => if (z =? 0)%Z then [] else [E "LeadingSize" [("sizeInBitsOfSizeTag", AZ z)] []] | None => [] end) ++
               (match xs_term e with Some t => if String.eqb t "" then [] else [ET "TerminationChar" (AS t)] | None => [] end) in
  E "StringDataEncoding" (("encoding", AS (xs_charset e)) :: optattr "byteOrder" (xs_order e))
    [match xs_size e with
     | XFixed n => E "SizeInBits" [] (E "Fixed" [] [ET "FixedValue" (AZ n)] :: extra)
     | XDynamic r c a => E "Variable" [] (write_dynamic r c a :: extra)
     | XLookup ls => E "Variable" [] (E "DiscreteLookupList" [] (map write_lookup ls) :: extra)
     end].

Definition write_binary (s : xsize) : velem :=
  E "BinaryDataEncoding" []
    [E "SizeInBits" []
       [match s with
        | XFixed n => ET "FixedValue" (AZ n)
        | XDynamic r c a => write_dynamic r c a
        | XLookup ls => E "DiscreteLookupList" [] (map write_lookup ls)
        end]].

Definition write_encoding (e : xencoding) : velem :=
  match e with XNum n => write_numeric n | XStr s => write_string s | XBin b => write_binary b end.

Definition kind_tag (k : xkind) : string :=
  match k with
  | XKInteger => "IntegerParameterType" | XKFloat => "FloatParameterType" | XKString => "StringParameterType"
  | XKBinary => "BinaryParameterType" | XKBoolean => "BooleanParameterType" | XKEnum _ => "EnumeratedParameterType"
  | XKTime true _ _ => "AbsoluteTimeParameterType" | XKTime false _ _ => "RelativeTimeParameterType"
  end.

(* scale and offset stand for a first order polynomial only: the exponents, sorted, are [1] or [0; 1] *)
Definition linear_exps (ts : list (Z * Z)) : bool :=
  match map snd ts with
  | [1%Z] | [0%Z; 1%Z] | [1%Z; 0%Z] => true
  | _ => false
  end.

Definition write_ptype (t : xptype) : velem :=
  match xt_kind t with
  | XKTime _ epoch ofrom =>
      (* scale/offset attributes are taken from a first order default polynomial; the encoding itself is written as it is *)
      let so := match xt_enc t with
                | XNum ne => match xn_default ne with
                             | Some (XPoly ts) =>
                                 if negb (linear_exps ts) then [] else
                                 (match List.find (fun ce => (snd ce =? 1)%Z) ts with Some ce => [("scale", AF (fst ce))] | None => [] end) ++
                                 (match List.find (fun ce => (snd ce =? 0)%Z) ts with Some ce => [("offset", AF (fst ce))] | None => [] end)
                             | _ => [] end
                | _ => [] end in
      E (kind_tag (xt_kind t)) [("name", AS (xt_name t))]
        (E "Encoding" (optattr "units" (xt_unit t) ++ so) [write_encoding (xt_enc t)] ::
         match ofrom, epoch with
         | None, None => []
         | _, _ => [E "ReferenceTime" [] ((match ofrom with Some o => [E "OffsetFrom" [("parameterRef", AS o)] []] | None => [] end) ++
                                          (match epoch with Some e => [ET "Epoch" (AS e)] | None => [] end))]
         end)
  | k =>
      E (kind_tag k) [("name", AS (xt_name t))]
        ((match xt_unit t with Some u => if String.eqb u "" then [] else [E "UnitSet" [] [ET "Unit" (AS u)]] | None => [] end) ++
         [write_encoding (xt_enc t)] ++
         (match k with
          | XKEnum labels => [E "EnumerationList" [] (map (fun vl => E "Enumeration" [("label", AS (snd vl)); ("value", fst vl)] []) labels)]
          | _ => [] end))
  end.

Definition nonempty (o : option string) : option string := match o with Some s => if String.eqb s "" then None else Some s | None => None end.

Definition write_param (p : xparam) : velem :=
  E "Parameter" ([("name", AS (xp_name p)); ("parameterTypeRef", AS (xp_type p))] ++ optattr "shortDescription" (nonempty (xp_short p)))
    (match nonempty (xp_long p) with Some l => [ET "LongDescription" (AS l)] | None => [] end).

Definition write_container (c : xcontainer) : res velem :=
  match xk_criteria c, xk_base c with
  | _ :: _, None => Err EValue          (* restriction criteria need a base container *)
  | _, _ =>                             (* (after repair F18) a base without criteria is written as <BaseContainer/> alone *)
    Ok (E "SequenceContainer"
          ([("abstract", AB (xk_abstract c)); ("name", AS (xk_name c))] ++ optattr "shortDescription" (nonempty (xk_short c)))
          ((match nonempty (xk_long c) with Some l => [ET "LongDescription" (AS l)] | None => [] end) ++
           (match xk_base c with
            | Some b => [E "BaseContainer" [("containerRef", AS b)]
                           (match xk_criteria c with [] => [] | _ :: _ => [E "RestrictionCriteria" [] (write_criteria (xk_criteria c))] end)]
            | None => [] end) ++
           [E "EntryList" [] (map (fun e => match e with
                                            | XEP n => E "ParameterRefEntry" [("parameterRef", AS n)] []
                                            | XEC n => E "ContainerRefEntry" [("containerRef", AS n)] [] end) (xk_entries c))]))
  end.

(* the writer of a time type refuses (ValueError) a data encoding that is not numeric and a default calibrator that is not a
   polynomial *)
Definition time_writable (t : xptype) : bool :=
  match xt_kind t with
  | XKTime _ _ _ => match xt_enc t with
                    | XNum ne => match xn_default ne with Some (XSpline _ _ _) => false | _ => true end
                    | _ => false
                    end
  | _ => true
  end.

Definition write_doc (date : string) (d : xdoc) : res velem :=
  if negb (forallb time_writable (xd_types d)) then Err EValue else
  cs <- mapM write_container (xd_containers d) ;;
  Ok (E "SpaceSystem" (optattr "name" (nonempty (xd_name d)))
        [E "Header" [("date", AS (match nonempty (xd_date d) with Some x => x | None => date end)); ("version", AS "1.0");
                     ("validationStatus", AS "Unknown")] [];
         E "TelemetryMetaData" []
           [E "ParameterTypeSet" [] (map write_ptype (xd_types d));
            E "ParameterSet" [] (map write_param (xd_params d));
            E "ContainerSet" [] cs]]).
End Reader.

(* ---------- XtcePacketDefinition.from_xtce on a parsed tree ---------- *)
Record parsed := { pr_root : xml; pr_nsmap : list (option string * string) }.   (* root element and its nsmap *)
(* the class-level state is overwritten from the document before the first lookup; returns the new state *)
Definition load (st : nsstate) (prefix : option string) (p : parsed) : res xdoc * nsstate :=
  let st' := {| st_prefix := prefix; st_nsmap := pr_nsmap p |} in
  (u <- resolve st' ;;
   match view (pr_root p) with
   | Some v => read_doc u v
   | None => Err EOther
   end, st').
