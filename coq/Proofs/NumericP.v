(* Proofs/NumericP.v — C04: integer and float fields *)
From Coq Require Import ZArith List Bool String Lia.
From SPP Require Import Base.Bytes Base.Sx Base.Floats Model.Cursor Model.Values Model.Criteria Model.Doc Model.Decode Proofs.CursorP.
Import ListNotations.
Open Scope Z_scope.

Definition plain_int (n : Z) (signed : bool) (o : byte_order) : numeric_enc :=
  {| ne_size := n; ne_kind := KInt signed; ne_order := o; ne_default := None; ne_context := None |}.
Definition plain_float (n : Z) (f : float_fmt) (o : byte_order) : numeric_enc :=
  {| ne_size := n; ne_kind := KFloat f; ne_order := o; ne_default := None; ne_context := None |}.
Definition int_value (z : Z) : pval := {| vcls := CInt; vval := PInt z; vraw := PInt z |}.
Definition float_value (b : Z) : pval := {| vcls := CFloat; vval := PFloat b; vraw := PFloat b |}.

(* two's complement of an n-bit pattern *)
Definition signed_of (n u : Z) : Z := if u <? 2 ^ (n - 1) then u else u - 2 ^ n.

Lemma testbit_top n u : 1 <= n -> 0 <= u < 2 ^ n -> Z.testbit u (n - 1) = negb (u <? 2 ^ (n - 1)).
Proof.
  intros Hn Hu. assert (P : 0 < 2 ^ (n - 1)) by (apply Z.pow_pos_nonneg; lia).
  assert (E : 2 ^ n = 2 * 2 ^ (n - 1)) by (rewrite <- Z.pow_succ_r by lia; f_equal; lia).
  destruct (Z.ltb_spec u (2 ^ (n - 1))) as [H|H]; cbn [negb].
  - apply Z.testbit_false; [lia|]. rewrite Z.div_small by lia. reflexivity.
  - apply Z.testbit_true; [lia|].
    assert (u / 2 ^ (n - 1) = 1). { symmetry. apply (Z.div_unique u (2 ^ (n-1)) 1 (u - 2 ^ (n-1))); lia. }
    rewrite H0. reflexivity.
Qed.

Lemma twos_complement_spec n u : 1 <= n -> 0 <= u < 2 ^ n -> twos_complement u n = signed_of n u.
Proof. intros. unfold twos_complement, signed_of. rewrite testbit_top by assumption. destruct (u <? 2 ^ (n - 1)); reflexivity. Qed.

Lemma signed_of_range n u : 1 <= n -> 0 <= u < 2 ^ n ->
  - 2 ^ (n - 1) <= signed_of n u < 2 ^ (n - 1) /\ (signed_of n u) mod 2 ^ n = u.
Proof.
  intros Hn Hu. unfold signed_of.
  assert (E : 2 ^ n = 2 * 2 ^ (n - 1)) by (rewrite <- Z.pow_succ_r by lia; f_equal; lia).
  assert (P : 0 < 2 ^ (n - 1)) by (apply Z.pow_pos_nonneg; lia).
  destruct (Z.ltb_spec u (2 ^ (n - 1))).
  - split; [lia|]. apply Z.mod_small. lia.
  - split; [lia|]. replace (u - 2 ^ n) with (u + (-1) * 2 ^ n) by ring. rewrite Z.mod_add by lia. apply Z.mod_small. lia.
Qed.

(* signed decoding inverts the two's complement encoding: every integer of the n-bit signed range
   is recovered from its n-bit pattern, so the decoding is a bijection pattern <-> value *)
Lemma signed_of_inverse n x : 1 <= n -> - 2 ^ (n - 1) <= x < 2 ^ (n - 1) ->
  0 <= x mod 2 ^ n < 2 ^ n /\ signed_of n (x mod 2 ^ n) = x /\ twos_complement (x mod 2 ^ n) n = x.
Proof.
  intros Hn Hx.
  assert (E : 2 ^ n = 2 * 2 ^ (n - 1)) by (rewrite <- Z.pow_succ_r by lia; f_equal; lia).
  assert (P : 0 < 2 ^ (n - 1)) by (apply Z.pow_pos_nonneg; lia).
  assert (R : 0 <= x mod 2 ^ n < 2 ^ n) by (apply Z.mod_pos_bound; lia).
  split; [exact R|].
  assert (S : signed_of n (x mod 2 ^ n) = x).
  { unfold signed_of. destruct (Z_lt_le_dec x 0) as [Neg|Pos].
    - assert (M : x mod 2 ^ n = x + 2 ^ n).
      { replace x with ((x + 2 ^ n) + (-1) * 2 ^ n) at 1 by ring. rewrite Z.mod_add by lia. apply Z.mod_small. lia. }
      rewrite M. destruct (Z.ltb_spec (x + 2 ^ n) (2 ^ (n - 1))); lia.
    - rewrite Z.mod_small by lia. destruct (Z.ltb_spec x (2 ^ (n - 1))); lia. }
  split; [exact S|]. rewrite twos_complement_spec by assumption. exact S.
Qed.
Example signed_of_inverse_example : signed_of 12 ((-5) mod 2 ^ 12) = -5 /\ (-5) mod 2 ^ 12 = 4091.
Proof. vm_compute. split; reflexivity. Qed.

Lemma wf_rev l : wf l -> wf (rev l).
Proof. unfold wf. intro H. apply Forall_rev. exact H. Qed.
(* byte reversal (least-significant-byte-first fields) loses nothing: applied twice it is the identity on
   every value that fits the bytes, and it keeps the value inside the same range *)
Lemma reverse_bytes_involutive v k : 0 <= v < 2 ^ (8 * Z.of_nat k) ->
  0 <= reverse_bytes v k < 2 ^ (8 * Z.of_nat k) /\ reverse_bytes (reverse_bytes v k) k = v.
Proof.
  intro Hv. unfold reverse_bytes.
  assert (W : wf (rev (to_be k v))) by (apply wf_rev, to_be_wf).
  assert (L : List.length (rev (to_be k v)) = k) by (rewrite rev_length; apply to_be_length).
  split.
  - pose proof (from_be_bound _ W) as Bd. unfold zlen in Bd. now rewrite L in Bd.
  - pose proof (to_be_from_be _ W) as T. rewrite L in T. rewrite T, rev_involutive. now apply from_be_to_be.
Qed.
Example reverse_bytes_example : reverse_bytes 0x123456 3 = 0x563412.
Proof. vm_compute. reflexivity. Qed.

Section Field.
Variables (B : list Z) (p n : Z) (env : env).
Hypothesis Hwf : wf B.
Hypothesis Hp : 0 <= p.
Hypothesis Hn : 1 <= n.
Hypothesis Hin : p + n <= 8 * zlen B.
Let c := {| cdata := B; cpos := p |}.
Let c' := {| cdata := B; cpos := p + n |}.

Theorem uint_field : parse_numeric (plain_int n false MSB) env c = Ok (int_value (spec_int B p n), c').
Proof.
  unfold parse_numeric, raw_numeric, plain_int. cbn [ne_kind ne_size ne_order ne_context ne_default].
  unfold c. rewrite read_int_spec by (assumption || lia). reflexivity.
Qed.

Theorem sint_field : parse_numeric (plain_int n true MSB) env c = Ok (int_value (signed_of n (spec_int B p n)), c').
Proof.
  unfold parse_numeric, raw_numeric, plain_int. cbn [ne_kind ne_size ne_order ne_context ne_default].
  unfold c. rewrite read_int_spec by (assumption || lia). cbn [bind].
  destruct (Z.ltb_spec n 1) as [?|_]; [lia|]. cbn [andb].
  rewrite twos_complement_spec; [reflexivity|lia|]. apply spec_int_range; (assumption || lia).
Qed.

(* least-significant-byte-first on whole bytes: the value of the field's bytes read in reverse order *)
Theorem lsb_uint_field : n mod 8 = 0 ->
  parse_numeric (plain_int n false LSB) env c = Ok (int_value (from_be (rev (spec_bytes B p n))), c').
Proof.
  intro H8. unfold parse_numeric, raw_numeric, plain_int. cbn [ne_kind ne_size ne_order ne_context ne_default].
  unfold c. rewrite read_int_spec by (assumption || lia). reflexivity.
Qed.
Theorem lsb_sint_field : n mod 8 = 0 ->
  parse_numeric (plain_int n true LSB) env c = Ok (int_value (signed_of n (from_be (rev (spec_bytes B p n)))), c').
Proof.
  intro H8. unfold parse_numeric, raw_numeric, plain_int. cbn [ne_kind ne_size ne_order ne_context ne_default].
  unfold c. rewrite read_int_spec by (assumption || lia). cbn [bind].
  destruct (Z.ltb_spec n 1) as [?|_]; [lia|]. cbn [andb].
  rewrite twos_complement_spec; [reflexivity|lia|].
  unfold reverse_bytes. fold (spec_bytes B p n).
  assert (W : wf (rev (spec_bytes B p n))).
  { unfold wf. apply Forall_rev. unfold spec_bytes. apply to_be_wf. }
  pose proof (from_be_bound _ W) as Bd. unfold zlen in Bd. rewrite rev_length, spec_bytes_length in Bd.
  replace (8 * Z.of_nat (Z.to_nat ((n + 7) / 8))) with n in Bd; [exact Bd|].
  pose proof (Z.div_mod (n + 7) 8 ltac:(lia)). pose proof (Z.div_mod n 8 ltac:(lia)).
  pose proof (Z.mod_pos_bound (n + 7) 8 ltac:(lia)). assert (0 <= (n + 7) / 8) by (apply Z.div_pos; lia). lia.
Qed.

(* float fields: the bytes of the field, in the declared order, interpreted by the format's decoder *)
Definition ordered (o : byte_order) (bs : list Z) := match o with MSB => bs | LSB => rev bs end.
Definition float_decoder (fmt : float_fmt) (n : Z) (bits : Z) : Z :=
  match fmt with
  | MIL1750A => dec_mil1750a bits
  | IEEE => if n =? 16 then to_bits64 (dec_ieee 5 10 bits) else if n =? 32 then to_bits64 (dec_ieee 8 23 bits)
            else to_bits64 (dec_ieee 11 52 bits)
  end.
Theorem float_field fmt o : (fmt = MIL1750A \/ n = 16 \/ n = 32 \/ n = 64) ->
  parse_numeric (plain_float n fmt o) env c =
  Ok (float_value (float_decoder fmt n (from_be (ordered o (spec_bytes B p n)))), c').
Proof.
  intro Hsz. unfold parse_numeric, raw_numeric, plain_float. cbn [ne_kind ne_size ne_order ne_context ne_default].
  unfold c. rewrite read_bytes_spec by (assumption || lia). cbn [bind].
  unfold float_decoder, ordered.
  generalize (spec_bytes B p n). intro bs.
  destruct fmt.
  - destruct Hsz as [H|Hsz]; [discriminate|].
    set (d16 := to_bits64 (dec_ieee 5 10 (from_be (match o with MSB => bs | LSB => rev bs end)))).
    set (d32 := to_bits64 (dec_ieee 8 23 (from_be (match o with MSB => bs | LSB => rev bs end)))).
    set (d64 := to_bits64 (dec_ieee 11 52 (from_be (match o with MSB => bs | LSB => rev bs end)))).
    destruct (n =? 16) eqn:E16; [subst d16; destruct o; reflexivity|].
    destruct (n =? 32) eqn:E32; [subst d32; destruct o; reflexivity|].
    destruct (n =? 64) eqn:E64; [subst d64; destruct o; reflexivity|].
    apply Z.eqb_neq in E16, E32, E64. lia.
  - destruct o; reflexivity.
Qed.
End Field.

(* non-vacuity *)
Example c04_example :
  parse_numeric (plain_int 12 true MSB) [] {| cdata := [15; 250; 0]; cpos := 4 |} = Ok (int_value (-6), {| cdata := [15; 250; 0]; cpos := 16 |})
  /\ parse_numeric (plain_float 32 IEEE LSB) [] {| cdata := [0; 0; 192; 63]; cpos := 0 |}
     = Ok (float_value 4609434218613702656, {| cdata := [0; 0; 192; 63]; cpos := 32 |}).
Proof. split; vm_compute; reflexivity. Qed.
