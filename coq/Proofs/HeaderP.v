(* Proofs/HeaderP.v — C13 *)
From Coq Require Import ZArith List Lia Bool.
From SPP Require Import Base.Bytes Base.Sx Model.Cursor Model.Header Proofs.CursorP.
Import ListNotations.
Open Scope Z_scope.
Ltac Zify.zify_post_hook ::= Z.to_euclidean_division_equations.

(* disjoint lor is addition *)
Lemma lor_shiftl_add hi lo k : 0 <= k -> 0 <= lo < 2 ^ k -> Z.lor (Z.shiftl hi k) lo = hi * 2 ^ k + lo.
Proof.
  intros Hk Hlo. rewrite Z.shiftl_mul_pow2 by lia.
  assert (L : Z.land (hi * 2 ^ k) lo = 0).
  { apply Z.bits_inj'. intros n Hn. rewrite Z.land_spec, Z.bits_0.
    destruct (Z.lt_ge_cases n k) as [Hlt|Hge].
    - rewrite Z.mul_pow2_bits_low by lia. reflexivity.
    - destruct (Z.eq_dec lo 0) as [->|Hnz]; [rewrite Z.bits_0; apply andb_false_r|].
      rewrite (Z.bits_above_log2 lo n); [apply andb_false_r|lia|].
      assert (Z.log2 lo < k) by (apply Z.log2_lt_pow2; lia). lia. }
  rewrite <- Z.lxor_lor by exact L. symmetry. now apply Z.add_nocarry_lxor.
Qed.

Definition header_sum (v t s a f c l : Z) : Z :=
  v * 2^45 + t * 2^44 + s * 2^43 + a * 2^32 + f * 2^30 + c * 2^16 + l.

Definition fields_ok (v t s a f c l : Z) : Prop :=
  0 <= v <= 7 /\ 0 <= t <= 1 /\ 0 <= s <= 1 /\ 0 <= a <= 2047 /\ 0 <= f <= 3 /\ 0 <= c <= 16383 /\ 0 <= l <= 65535.

Lemma header_word_sum v t s a f c l : fields_ok v t s a f c l ->
  header_word v t s a f c l = header_sum v t s a f c l.
Proof.
  intros (Hv & Ht & Hs & Ha & Hf & Hc & Hl). unfold header_word, header_sum.
  rewrite <- !Z.lor_assoc.
  rewrite (lor_shiftl_add c l 16) by lia.
  rewrite (lor_shiftl_add f _ 30) by (change (2^30) with 1073741824; change (2^16) with 65536; lia).
  rewrite (lor_shiftl_add a _ 32) by (change (2^32) with 4294967296; change (2^30) with 1073741824; change (2^16) with 65536; lia).
  rewrite (lor_shiftl_add s _ 43) by (change (2^43) with 8796093022208; change (2^32) with 4294967296; change (2^30) with 1073741824; change (2^16) with 65536; lia).
  rewrite (lor_shiftl_add t _ 44) by (change (2^44) with 17592186044416; change (2^43) with 8796093022208; change (2^32) with 4294967296; change (2^30) with 1073741824; change (2^16) with 65536; lia).
  rewrite (lor_shiftl_add v _ 45) by (change (2^45) with 35184372088832; change (2^44) with 17592186044416; change (2^43) with 8796093022208; change (2^32) with 4294967296; change (2^30) with 1073741824; change (2^16) with 65536; lia).
  ring.
Qed.

Lemma header_sum_bound v t s a f c l : fields_ok v t s a f c l -> 0 <= header_sum v t s a f c l < 2 ^ 48.
Proof.
  intros (Hv & Ht & Hs & Ha & Hf & Hc & Hl). unfold header_sum. change (2^48) with 281474976710656.
  change (2^45) with 35184372088832. change (2^44) with 17592186044416. change (2^43) with 8796093022208.
  change (2^32) with 4294967296. change (2^30) with 1073741824. change (2^16) with 65536. lia.
Qed.

Definition in_range (v t s a f c : Z) (data : list Z) : Prop :=
  fields_ok v t s a f c (zlen data - 1) /\ wf data.

Lemma out_of_false lo hi x : lo <= x <= hi -> out_of lo hi x = false.
Proof. intro H. unfold out_of. apply orb_false_iff. split; [apply Z.ltb_ge|rewrite Z.gtb_ltb; apply Z.ltb_ge]; lia. Qed.
Lemma out_of_true lo hi x : x < lo \/ x > hi -> out_of lo hi x = true.
Proof. intro H. unfold out_of. apply orb_true_iff. destruct H; [left; apply Z.ltb_lt|right; rewrite Z.gtb_ltb; apply Z.ltb_lt]; lia. Qed.

Definition packet (v t s a f c : Z) (data : list Z) : list Z :=
  to_be 6 (header_sum v t s a f c (zlen data - 1)) ++ data.

Lemma create_ok v t s a f c data : in_range v t s a f c data ->
  create_packet v t s a f c data = Ok (packet v t s a f c data).
Proof.
  intros [HF Hwf]. pose proof HF as (Hv & Ht & Hs & Ha & Hf & Hc & Hl).
  unfold create_packet, packet. rewrite !out_of_false by lia. now rewrite header_word_sum.
Qed.

(* rejection: any field out of range, empty or oversized data => ValueError, nothing constructed *)
Lemma create_rejects v t s a f c data :
  ~ (0 <= v <= 7 /\ 0 <= t <= 1 /\ 0 <= s <= 1 /\ 0 <= a <= 2047 /\ 0 <= f <= 3 /\ 0 <= c <= 16383 /\ 1 <= zlen data <= 65536) ->
  create_packet v t s a f c data = Err EValue.
Proof.
  intro H. unfold create_packet.
  destruct (out_of 0 7 v) eqn:E1; auto. destruct (out_of 0 1 t) eqn:E2; auto. destruct (out_of 0 1 s) eqn:E3; auto.
  destruct (out_of 0 2047 a) eqn:E4; auto. destruct (out_of 0 3 f) eqn:E5; auto. destruct (out_of 0 16383 c) eqn:E6; auto.
  destruct (out_of 1 65536 (zlen data)) eqn:E7; auto.
  exfalso. apply H. unfold out_of in *.
  apply orb_false_iff in E1 as [A1 B1], E2 as [A2 B2], E3 as [A3 B3], E4 as [A4 B4], E5 as [A5 B5], E6 as [A6 B6], E7 as [A7 B7].
  rewrite Z.gtb_ltb in *. rewrite Z.ltb_ge in *. lia.
Qed.

Lemma packet_wf v t s a f c data : wf data -> wf (packet v t s a f c data).
Proof. intro. unfold packet. apply wf_app. split; [apply to_be_wf|assumption]. Qed.

Lemma packet_len v t s a f c data : zlen (packet v t s a f c data) = 6 + zlen data.
Proof. unfold packet, zlen. rewrite app_length, to_be_length. lia. Qed.

(* any header field read: bits p..p+n-1 with p+n <= 48 come from the header word alone *)
Lemma header_field v t s a f c data p n :
  in_range v t s a f c data -> 0 <= p -> 0 <= n -> p + n <= 48 ->
  extract_bits (packet v t s a f c data) p n = Ok ((header_sum v t s a f c (zlen data - 1) / 2 ^ (48 - p - n)) mod 2 ^ n).
Proof.
  intros [HF Hwf] Hp Hn Hpn. pose proof HF as (Hv & Ht & Hs & Ha & Hf & Hc & Hl).
  pose proof (header_sum_bound _ _ _ _ _ _ _ HF) as HH.
  set (H := header_sum v t s a f c (zlen data - 1)) in *.
  rewrite extract_bits_window; try lia.
  2:{ now apply packet_wf. }
  2:{ rewrite packet_len. lia. }
  f_equal. unfold window. rewrite packet_len. unfold packet. rewrite from_be_app. fold H.
  rewrite from_be_to_be by (change (8 * Z.of_nat 6) with 48; exact HH).
  pose proof (from_be_bound data Hwf) as Bd.
  replace (8 * (6 + zlen data) - p - n) with (8 * zlen data + (48 - p - n)) by lia.
  rewrite Z.pow_add_r by lia. rewrite <- Z.div_div by (try apply Z.pow_pos_nonneg; try (apply Z.pow_nonzero); lia).
  rewrite Z.div_add_l by (apply Z.pow_nonzero; lia). rewrite (Z.div_small (from_be data)) by lia.
  now rewrite Z.add_0_r.
Qed.

Theorem accessors_inverse v t s a f c data : in_range v t s a f c data ->
  header_values (packet v t s a f c data) = [v; t; s; a; f; c; zlen data - 1].
Proof.
  intros HR. pose proof HR as [(Hv & Ht & Hs & Ha & Hf & Hc & Hl) Hwf].
  unfold header_values, field. rewrite !header_field by (auto; lia). rewrite packet_len.
  replace (6 + zlen data - 7) with (zlen data - 1) by lia.
  unfold header_sum.
  change (48 - 0 - 3) with 45. change (48 - 3 - 1) with 44. change (48 - 4 - 1) with 43. change (48 - 5 - 11) with 32.
  change (48 - 16 - 2) with 30. change (48 - 18 - 14) with 16.
  change (2^45) with 35184372088832. change (2^44) with 17592186044416. change (2^43) with 8796093022208.
  change (2^32) with 4294967296. change (2^30) with 1073741824. change (2^16) with 65536.
  change (2^14) with 16384. change (2^11) with 2048. change (2^3) with 8. change (2^2) with 4. change (2^1) with 2.
  change (2^0) with 1. change (2^29) with 536870912. change (2^28)  with 268435456.
  repeat (apply f_equal2; [lia|]). reflexivity.
Qed.

(* for every packet of at least six bytes the accessors are the layout fields of its first six bytes *)
Theorem accessors_any_packet p : wf p -> 6 <= zlen p ->
  header_values p = [spec_int p 0 3; spec_int p 3 1; spec_int p 4 1; spec_int p 5 11; spec_int p 16 2; spec_int p 18 14; zlen p - 7].
Proof.
  intros Hwf H6. unfold header_values, field.
  rewrite !extract_bits_window by (assumption || lia).
  rewrite !window_spec by (assumption || lia). reflexivity.
Qed.

(* the bit layout: the first 48 bits of the constructed packet are the seven fields side by side *)
Lemma bits_split a b v : bits (a + b) v = bits a (v / 2 ^ Z.of_nat b) ++ bits b v.
Proof. apply bits_app. Qed.

Lemma bits_small_eq k v w : v mod 2 ^ Z.of_nat k = w mod 2 ^ Z.of_nat k -> bits k v = bits k w.
Proof. intro H. rewrite <- (bits_mod k v), <- (bits_mod k w). now rewrite H. Qed.

Theorem layout v t s a f c data : in_range v t s a f c data ->
  bits_of_bytes (packet v t s a f c data) = header_bits v t s a f c (zlen data - 1) ++ bits_of_bytes data.
Proof.
  intros [HF Hwf]. pose proof HF as (Hv & Ht & Hs & Ha & Hf & Hc & Hl).
  pose proof (header_sum_bound _ _ _ _ _ _ _ HF) as HH.
  unfold packet. unfold bits_of_bytes at 1. rewrite map_app, concat_app. fold (bits_of_bytes data).
  fold (bits_of_bytes (to_be 6 (header_sum v t s a f c (zlen data - 1)))). f_equal.
  rewrite bits_of_bytes_from_be by apply to_be_wf. rewrite to_be_length.
  rewrite from_be_to_be by (change (8 * Z.of_nat 6) with 48; exact HH).
  set (l := zlen data - 1) in *. unfold header_bits.
  change (8 * 6)%nat with (3 + (1 + (1 + (11 + (2 + (14 + 16))))))%nat.
  rewrite !bits_split.
  unfold header_sum.
  change (2 ^ Z.of_nat (1 + (1 + (11 + (2 + (14 + 16)))))) with 35184372088832.
  change (2 ^ Z.of_nat (1 + (11 + (2 + (14 + 16))))) with 17592186044416.
  change (2 ^ Z.of_nat (11 + (2 + (14 + 16)))) with 8796093022208.
  change (2 ^ Z.of_nat (2 + (14 + 16))) with 4294967296.
  change (2 ^ Z.of_nat (14 + 16)) with 1073741824.
  change (2 ^ Z.of_nat 16) with 65536.
  change (2^45) with 35184372088832. change (2^44) with 17592186044416. change (2^43) with 8796093022208.
  change (2^32) with 4294967296. change (2^30) with 1073741824. change (2^16) with 65536.
  repeat (f_equal; [apply bits_small_eq; simpl Z.of_nat; 
     change (2^3) with 8; change (2^1) with 2; change (2^11) with 2048; change (2^2) with 4; change (2^14) with 16384; lia|]).
  apply bits_small_eq. change (2 ^ Z.of_nat 16) with 65536. lia.
Qed.

Example c13_example :
  in_range 0 0 1 1424 3 27 [170; 187] /\
  create_packet 0 0 1 1424 3 27 [170; 187] = Ok [13; 144; 192; 27; 0; 1; 170; 187].
Proof. split; [|vm_compute; reflexivity]. unfold in_range, fields_ok, zlen. cbn. repeat split; try lia. repeat constructor; lia. Qed.

(* ---- injectivity (C13_injective) ---- *)
(* construction is injective: a constructed packet determines its seven arguments *)
Theorem packet_injective v t s a f c data v' t' s' a' f' c' data' :
  in_range v t s a f c data -> in_range v' t' s' a' f' c' data' ->
  packet v t s a f c data = packet v' t' s' a' f' c' data' ->
  v = v' /\ t = t' /\ s = s' /\ a = a' /\ f = f' /\ c = c' /\ data = data'.
Proof.
  intros R R' E.
  pose proof (accessors_inverse _ _ _ _ _ _ _ R) as H.
  pose proof (accessors_inverse _ _ _ _ _ _ _ R') as H'.
  rewrite E, H' in H. injection H as -> -> -> -> -> -> _.
  repeat (split; [reflexivity|]).
  unfold packet in E.
  apply (f_equal (skipn 6)) in E.
  rewrite !skipn_app, !to_be_length in E. cbn [Nat.sub] in E.
  rewrite !skipn_all2 in E by (rewrite to_be_length; lia). cbn [app skipn] in E. exact E.
Qed.
