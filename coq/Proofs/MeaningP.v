(* Proofs/MeaningP.v — C09 in the words of decoding: a definition written to XML and read back compiles to the same decoder
   definition, so every packet and every stream decodes identically before and after the round trip. *)
From Coq Require Import ZArith List Bool String.
From SPP Require Import Base.Sx Model.Values Model.Criteria Model.Doc Model.Xml Model.Loader Model.Compile Model.Generator
  Proofs.RoundTripP Proofs.LoaderP Proofs.LinkP.
Import ListNotations.

(* the linker looks at a document only through its three definition lists *)
Lemma gce_ext d d' n : xd_containers d = xd_containers d' -> get_container_element d n = get_container_element d' n.
Proof. intro E. unfold get_container_element, container_elements. now rewrite E. Qed.
Lemma entries_loop_ext d d' params rec rec' : xd_containers d = xd_containers d' -> (forall c l, rec c l = rec' c l) ->
  forall es l, entries_loop d params rec es l = entries_loop d' params rec' es l.
Proof.
  intros E R. induction es as [|[n|n] t IH]; intro l; cbn [entries_loop]; [reflexivity| |].
  - destruct (assoc params n); [apply IH|reflexivity].
  - destruct (mem n (map fst l)); [apply IH|]. rewrite (gce_ext d d' n E). destruct (get_container_element d' n) as [ne|]; cbn [bind]; [|reflexivity].
    rewrite R. destruct (rec' ne l); cbn [bind]; [apply IH|reflexivity].
Qed.
Lemma from_xml_ext d d' params : xd_containers d = xd_containers d' ->
  forall fuel c lookup, from_xml fuel d params c lookup = from_xml fuel d' params c lookup.
Proof.
  intro E. induction fuel as [|f IH]; intros c lookup; [reflexivity|]. rewrite !from_xml_S.
  destruct (xk_base c) as [b|].
  - rewrite (gce_ext d d' b E). destruct (get_container_element d' b) as [be|]; cbn [bind]; [|reflexivity].
    destruct (mem b (map fst lookup)); cbn [bind]; [apply entries_loop_ext; auto|].
    rewrite IH. destruct (from_xml f d' params be lookup); cbn [bind]; [apply entries_loop_ext; auto|reflexivity].
  - cbn [bind]. apply entries_loop_ext; auto.
Qed.
Lemma link_containers_ext sxc d d' params fuel : xd_containers d = xd_containers d' ->
  forall cs lookup, link_containers sxc fuel d params cs lookup = link_containers sxc fuel d' params cs lookup.
Proof.
  intro E. induction cs as [|c r IH]; intro lookup; [reflexivity|]. cbn [link_containers]. rewrite (from_xml_ext d d' params E).
  destruct (from_xml fuel d' params c lookup) as [l|]; cbn [bind]; [|reflexivity].
  destruct (assoc l (xk_name c)); [destruct (container_same sxc x c); [apply IH|reflexivity]|apply IH].
Qed.
Lemma link_ignores_header sxc d date : link sxc (with_date d date) = link sxc d.
Proof.
  unfold link. cbn [with_date xd_types xd_params xd_containers].
  destruct (link_types (xd_types d) []) as [types|]; cbn [bind]; [|reflexivity].
  destruct (link_params types (xd_params d) []) as [params|]; cbn [bind]; [|reflexivity].
  now rewrite (link_containers_ext sxc (with_date d date) d params _ eq_refl).
Qed.

Theorem roundtrip_same_definition U sxc lits date d v : doc_wf d -> write_doc U date d = Ok v ->
  exists d', read_doc U v = Ok d' /\
    (g <- link sxc d' ;; compile lits g) = (g <- link sxc d ;; compile lits g).
Proof.
  intros W H. exists (with_date d date). split; [now apply rt_doc|]. now rewrite link_ignores_header.
Qed.

(* hence identical decoding of every stream, whatever the options *)
Corollary roundtrip_same_decoding U sxc lits date d v def root o k stream : doc_wf d -> write_doc U date d = Ok v ->
  (g <- link sxc d ;; compile lits g) = Ok def ->
  exists d' def', read_doc U v = Ok d' /\ (g <- link sxc d' ;; compile lits g) = Ok def' /\
    packet_generator def' root o k stream = packet_generator def root o k stream.
Proof.
  intros W H C. destruct (roundtrip_same_definition U sxc lits date d v W H) as (d' & R & E).
  exists d', def. repeat split; auto. now rewrite E.
Qed.
