(* Proofs/FloatExactP.v — integer-valued float arithmetic is exact below 2^53 (used by C07's computed lengths) *)
From Coq Require Import ZArith Reals Lia Lra Psatz.
From Flocq Require Import Core.Core IEEE754.BinarySingleNaN.
From SPP Require Import Base.Sx Base.Floats.
Open Scope Z_scope.

Definition ofZ (n : Z) : b64 := binary_normalize 53 1024 P53 P53lt mode_NE n 0 false.
Notation fexp64 := (SpecFloat.fexp 53 1024).

Lemma int_format (n : Z) : Z.abs n < 2 ^ 53 -> generic_format radix2 fexp64 (IZR n).
Proof.
  intro H. change fexp64 with (FLT_exp (SpecFloat.emin 53 1024) 53).
  apply generic_format_FLT. apply FLT_spec with (f := Float radix2 n 0).
  - unfold F2R; simpl. lra.
  - simpl. exact H.
  - simpl. unfold SpecFloat.emin. lia.
Qed.
Lemma int_small (n : Z) : Z.abs n < 2 ^ 53 -> (Rabs (IZR n) < bpow radix2 1024)%R.
Proof.
  intro H. rewrite <- abs_IZR. apply Rlt_le_trans with (IZR (2 ^ 53)); [now apply IZR_lt|].
  change (bpow radix2 1024) with (IZR (2 ^ 1024)). apply IZR_le. apply Z.pow_le_mono_r; lia.
Qed.
Lemma ofZ_exact (n : Z) : Z.abs n < 2 ^ 53 -> B2R (ofZ n) = IZR n /\ is_finite (ofZ n) = true.
Proof.
  intro H. unfold ofZ.
  pose proof (binary_normalize_correct 53 1024 P53 P53lt mode_NE n 0 false) as C. cbv zeta in C.
  assert (E : F2R (Float radix2 n 0) = IZR n) by (unfold F2R; simpl; lra).
  rewrite E in C. rewrite round_generic in C; [|apply valid_rnd_round_mode|now apply int_format].
  rewrite Rlt_bool_true in C by now apply int_small.
  destruct C as (C1 & C2 & _). auto.
Qed.
Lemma mul_exact (a b : Z) : Z.abs a < 2 ^ 53 -> Z.abs b < 2 ^ 53 -> Z.abs (a * b) < 2 ^ 53 ->
  B2R (Bmult mode_NE (ofZ a) (ofZ b)) = IZR (a * b) /\ is_finite (Bmult mode_NE (ofZ a) (ofZ b)) = true.
Proof.
  intros Ha Hb Hab. destruct (ofZ_exact a Ha) as [Ra Fa]. destruct (ofZ_exact b Hb) as [Rb Fb].
  pose proof (Bmult_correct 53 1024 P53 P53lt mode_NE (ofZ a) (ofZ b)) as C.
  rewrite Ra, Rb, <- mult_IZR in C.
  rewrite round_generic in C; [|apply valid_rnd_round_mode|now apply int_format].
  rewrite Rlt_bool_true in C by now apply int_small.
  destruct C as (C1 & C2 & _). rewrite C1, C2, Fa, Fb. auto.
Qed.
Lemma trunc_exact (x : b64) (n : Z) : B2R x = IZR n -> Btrunc x = n.
Proof.
  intro H. apply eq_IZR. rewrite Btrunc_correct, H.
  apply round_generic; [apply valid_rnd_ZR|].
  apply generic_format_FIX. exists (Float radix2 n 0); [unfold F2R; simpl; lra|reflexivity].
  exact P53lt.
Qed.

(* slope*float(x)+intercept is exact on small integers *)
Theorem linear_exact (slope x icpt : Z) :
  Z.abs slope < 2^53 -> Z.abs x < 2^53 -> Z.abs (slope * x) < 2^53 -> Z.abs icpt < 2^53 ->
  Z.abs (slope * x + icpt) < 2^53 ->
  Btrunc (Bplus mode_NE (Bmult mode_NE (ofZ slope) (ofZ x)) (ofZ icpt)) = slope * x + icpt.
Proof.
  intros Hs Hx Hsx Hi Hr.
  destruct (mul_exact slope x Hs Hx Hsx) as [Rm Fm].
  destruct (ofZ_exact icpt Hi) as [Ri Fi].
  apply trunc_exact.
  pose proof (Bplus_correct 53 1024 P53 P53lt mode_NE _ _ Fm Fi) as C.
  rewrite Rm, Ri, <- plus_IZR in C.
  rewrite round_generic in C; [|apply valid_rnd_round_mode|now apply int_format].
  rewrite Rlt_bool_true in C by now apply int_small.
  destruct C as (C1 & _). exact C1.
Qed.

Lemma ofZ_not_inf n : Z.abs n < 2 ^ 53 -> match ofZ n with B754_infinity _ => False | _ => True end.
Proof. intro H. destruct (ofZ_exact n H) as [_ F]. destruct (ofZ n); auto; discriminate. Qed.
