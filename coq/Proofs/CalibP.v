(* Proofs/CalibP.v — C08: calibrator selection, splines, polynomials, enumerations, booleans *)
From Coq Require Import ZArith List Bool String Lia.
From SPP Require Import Base.Bytes Base.Sx Base.Floats Model.Cursor Model.Values Model.Criteria Model.Doc Model.Decode.
Import ListNotations.
Open Scope Z_scope.

(* ---------- selection: first context calibrator whose criteria hold, else default, else raw ---------- *)
Lemma pick_first env raw pre cc post :
  Forall (fun x => eval_all env (Some raw) (cc_criteria x) = Ok false) pre ->
  eval_all env (Some raw) (cc_criteria cc) = Ok true ->
  pick_context env raw (pre ++ cc :: post) = Ok (Some (cc_cal cc)).
Proof. intros Hpre Hcc. induction Hpre as [|x t Hx _ IH]; cbn [app pick_context]; [now rewrite Hcc|now rewrite Hx]. Qed.
Lemma pick_none env raw cs :
  Forall (fun x => eval_all env (Some raw) (cc_criteria x) = Ok false) cs -> pick_context env raw cs = Ok None.
Proof. induction 1 as [|x t Hx _ IH]; [reflexivity|]. cbn [pick_context]. now rewrite Hx. Qed.

Definition calibrated_result (cal : calibrator) (raw : num) : res pval := v <- calibrate cal raw ;; float_param v raw.

Theorem selection_context e env c raw c' pre cc post :
  raw_numeric e c = Ok (raw, c') -> ne_context e = Some (pre ++ cc :: post) ->
  Forall (fun x => eval_all env (Some (payload_of_num raw)) (cc_criteria x) = Ok false) pre ->
  eval_all env (Some (payload_of_num raw)) (cc_criteria cc) = Ok true ->
  parse_numeric e env c = (p <- calibrated_result (cc_cal cc) raw ;; Ok (p, c')).
Proof.
  intros Hraw Hctx Hpre Hcc. unfold parse_numeric. rewrite Hraw. cbn [bind]. rewrite Hctx.
  pose proof (pick_first _ _ _ _ post Hpre Hcc) as M.
  destruct (pre ++ cc :: post) eqn:E; [destruct pre; discriminate|]. rewrite M.
  cbn [bind]. unfold calibrated_result.
  destruct (calibrate (cc_cal cc) raw) as [a|]; cbn [bind]; auto.
Qed.

Theorem selection_default e env c raw c' cal :
  raw_numeric e c = Ok (raw, c') -> ne_default e = Some cal ->
  (ne_context e = None \/ exists cs, ne_context e = Some cs /\
     Forall (fun x => eval_all env (Some (payload_of_num raw)) (cc_criteria x) = Ok false) cs) ->
  parse_numeric e env c = (p <- calibrated_result cal raw ;; Ok (p, c')).
Proof.
  intros Hraw Hdef Hctx. unfold parse_numeric. rewrite Hraw. cbn [bind].
  assert (Hch : match ne_context e with Some ((_ :: _) as cs) => pick_context env (payload_of_num raw) cs | _ => Ok None end = Ok None).
  { destruct Hctx as [->|(cs & -> & Hall)]; [reflexivity|]. destruct cs; [reflexivity|]. now apply pick_none. }
  rewrite Hch. cbn [bind]. rewrite Hdef. unfold calibrated_result.
  destruct (calibrate cal raw) as [a|]; cbn [bind]; auto.
Qed.

Theorem selection_raw e env c raw c' :
  raw_numeric e c = Ok (raw, c') -> ne_default e = None ->
  (ne_context e = None \/ exists cs, ne_context e = Some cs /\
     Forall (fun x => eval_all env (Some (payload_of_num raw)) (cc_criteria x) = Ok false) cs) ->
  parse_numeric e env c = Ok (match raw with
                              | NInt z => {| vcls := CInt; vval := PInt z; vraw := PInt z |}
                              | NFloat b => {| vcls := CFloat; vval := PFloat b; vraw := PFloat b |} end, c').
Proof.
  intros Hraw Hdef Hctx. unfold parse_numeric. rewrite Hraw. cbn [bind].
  assert (Hch : match ne_context e with Some ((_ :: _) as cs) => pick_context env (payload_of_num raw) cs | _ => Ok None end = Ok None).
  { destruct Hctx as [->|(cs & -> & Hall)]; [reflexivity|]. destruct cs; [reflexivity|]. now apply pick_none. }
  rewrite Hch. cbn [bind]. now rewrite Hdef.
Qed.

(* every calibrated result is a float and keeps the uncalibrated value as raw value *)
Theorem calibrated_is_float cal raw p : calibrated_result cal raw = Ok p ->
  vcls p = CFloat /\ vraw p = payload_of_num raw /\ exists b, vval p = PFloat b.
Proof.
  unfold calibrated_result, float_param. destruct (calibrate cal raw) as [v|]; cbn [bind]; [|discriminate].
  destruct (to_float v) as [b|]; cbn [bind]; [|discriminate]. intro H. injection H as <-. cbn. eauto.
Qed.

(* whatever is selected, the raw value of the result is the uncalibrated encoded value *)
Theorem raw_value_kept e env c p c' : parse_numeric e env c = Ok (p, c') ->
  exists raw, raw_numeric e c = Ok (raw, c') /\ vraw p = payload_of_num raw.
Proof.
  unfold parse_numeric. destruct (raw_numeric e c) as [[raw c1]|] eqn:R; cbn [bind]; [|discriminate].
  destruct (match ne_context e with Some ((_ :: _) as cs) => pick_context env (payload_of_num raw) cs | _ => Ok None end) as [ch|];
    cbn [bind]; [|discriminate].
  assert (K : forall cal, (v <- calibrate cal raw ;; p0 <- float_param v raw ;; Ok (p0, c1)) = Ok (p, c') ->
                          c1 = c' /\ vraw p = payload_of_num raw).
  { intros cal H. destruct (calibrate cal raw) as [v|]; cbn [bind] in H; [|discriminate].
    unfold float_param in H. destruct (to_float v); cbn [bind] in H; [|discriminate]. injection H as <- <-. auto. }
  destruct ch as [cal|].
  - intro H. apply K in H as [<- H]. eauto.
  - destruct (ne_default e) as [cal|].
    + intro H. apply K in H as [<- H]. eauto.
    + intro H. injection H as <- <-. exists raw. split; auto. destruct raw; reflexivity.
Qed.

(* ---------- polynomial on integers is the exact integer polynomial ---------- *)
Fixpoint int_poly (terms : list (Z * Z)) (x : Z) : Z :=
  match terms with [] => 0 | (a, n) :: t => a * x ^ n + int_poly t x end.
Lemma poly_items_int terms x : Forall (fun an => 0 <= snd an) terms ->
  poly_items (map (fun an => (NInt (fst an), snd an)) terms) (NInt x) = Ok (map (fun an => NInt (fst an * x ^ snd an)) terms).
Proof.
  induction 1 as [|[a n] t Hn _ IH]; [reflexivity|]. cbn [map poly_items fst snd]. cbn [snd] in Hn.
  unfold num_pow. replace (n <? 0) with false by (symmetry; apply Z.ltb_ge; lia).
  cbn [bind num_mul num_bin]. now rewrite IH.
Qed.
Lemma sum_int_ints terms x : forall acc,
  sum_int acc (map (fun an : Z * Z => NInt (fst an * x ^ snd an)) terms) = Ok (NInt (acc + int_poly terms x)).
Proof.
  induction terms as [|[a n] t IH]; intro acc; cbn [map sum_int int_poly fst snd].
  - f_equal. f_equal. lia.
  - rewrite IH. f_equal. f_equal. lia.
Qed.
Theorem poly_int_exact terms x : Forall (fun an => 0 <= snd an) terms ->
  poly (map (fun an => (NInt (fst an), snd an)) terms) (NInt x) = Ok (NInt (int_poly terms x)).
Proof. intro H. unfold poly. rewrite poly_items_int by assumption. cbn [bind]. unfold py_sum. now rewrite sum_int_ints. Qed.

(* ---------- splines ---------- *)
Lemma first_greater_spec pts q : forall i k, first_greater pts q i = Some k ->
  (i <= k)%nat /\ num_gt (fst (nth (k - i) pts (NInt 0, NInt 0))) q = true /\
  forall j, (j < k - i)%nat -> num_gt (fst (nth j pts (NInt 0, NInt 0))) q = false.
Proof.
  induction pts as [|p t IH]; intros i k H; cbn [first_greater] in H; [discriminate|].
  destruct (num_gt (fst p) q) eqn:G.
  - injection H as <-. rewrite Nat.sub_diag. cbn [nth]. repeat split; auto. intros j Hj. lia.
  - apply IH in H as (H1 & H2 & H3). split; [lia|]. replace (k - i)%nat with (S (k - S i)) by lia. cbn [nth]. split; auto.
    intros [|j] Hj; cbn [nth]; auto. apply H3. lia.
Qed.

Section Spline.
Variables (order : Z) (ex : bool) (points pts : list (num * num)) (q : num) (p0 pl : num * num).
Hypothesis Hsorted : sort_points points = pts.
Hypothesis Hp0 : nth_error pts 0 = Some p0.
Hypothesis Hpl : nth_pt pts (List.length pts - 1) = pl.

(* order 0 with float coordinates *)
Variables (lo hi : Z).
Hypothesis Hlo : fst p0 = NFloat lo.
Hypothesis Hhi : fst pl = NFloat hi.

Lemma spline0_unfold : order = 0 ->
  spline order ex points q =
    if num_le (NFloat lo) q && num_le q (NFloat hi) then
      if num_eq q (NFloat hi) then fl (snd pl)
      else match first_greater pts q 0 with None => Err EValue | Some i => fl (snd (nth_pt pts (i - 1))) end
    else if num_gt q (NFloat hi) && ex then fl (snd pl)
    else if num_lt q (NFloat lo) && ex then fl (snd p0)
    else Err ECalibration.
Proof.
  intros ->. unfold spline. cbn [Z.ltb Z.compare]. rewrite Hsorted.
  destruct pts as [|a t] eqn:E; [discriminate|]. injection Hp0 as <-. rewrite Hpl.
  cbn [Z.eqb]. rewrite Hlo, Hhi. cbn [fl to_float bind]. reflexivity.
Qed.

(* at the largest knot (closed upper end, F5): the last calibrated value *)
Theorem spline0_at_max : order = 0 -> q = NFloat hi -> f_isnan hi = false -> num_le (NFloat lo) (NFloat hi) = true ->
  spline order ex points q = fl (snd pl).
Proof.
  intros Ho Hq Hn Hle. rewrite spline0_unfold by assumption. rewrite Hq. rewrite Hle.
  assert (R : num_le (NFloat hi) (NFloat hi) = true /\ num_eq (NFloat hi) (NFloat hi) = true).
  { unfold num_le, num_eq, num_cmp. cbn [payload_of_num compare_payload]. unfold fcmp. rewrite Hn. cbn [orb].
    rewrite Z.compare_refl. auto. }
  destruct R as [-> ->]. reflexivity.
Qed.

(* in range, below the largest knot: the value of the knot preceding the first knot that exceeds q *)
Theorem spline0_in_range i : order = 0 ->
  num_le (NFloat lo) q = true -> num_le q (NFloat hi) = true -> num_eq q (NFloat hi) = false ->
  first_greater pts q 0 = Some i ->
  spline order ex points q = fl (snd (nth_pt pts (i - 1))) /\
  num_gt (fst (nth_pt pts i)) q = true /\ forall j, (j < i)%nat -> num_gt (fst (nth_pt pts j)) q = false.
Proof.
  intros Ho H1 H2 H3 Hfg. rewrite spline0_unfold by assumption. rewrite H1, H2, H3, Hfg. cbn [andb]. split; [reflexivity|].
  apply first_greater_spec in Hfg as (_ & Hg & Hlt). rewrite Nat.sub_0_r in *. unfold nth_pt. auto.
Qed.

(* outside the range: a calibration error unless extrapolation is enabled; then the end value *)
Theorem spline0_outside : order = 0 -> num_le (NFloat lo) q && num_le q (NFloat hi) = false ->
  spline order ex points q =
    if ex then (if num_gt q (NFloat hi) then fl (snd pl) else if num_lt q (NFloat lo) then fl (snd p0) else Err ECalibration)
    else Err ECalibration.
Proof.
  intros Ho H. rewrite spline0_unfold by assumption. rewrite H. destruct ex; rewrite ?andb_true_r, ?andb_false_r; reflexivity.
Qed.

(* ---- order 1 (coordinates used as given) ---- *)
Lemma spline1_unfold : order = 1 ->
  spline order ex points q =
    if num_le (fst p0) q && num_le q (fst pl) then
      if num_eq q (fst pl) then Ok (snd pl)
      else match first_greater pts q 0 with
           | None => Err EValue
           | Some i => linear_func q (fst (nth_pt pts (i - 1))) (fst (nth_pt pts i)) (snd (nth_pt pts (i - 1))) (snd (nth_pt pts i))
           end
    else if num_gt q (fst pl) && ex then
      linear_func q (fst (nth_pt pts (List.length pts - 2))) (fst pl) (snd (nth_pt pts (List.length pts - 2))) (snd pl)
    else if num_lt q (fst p0) && ex then linear_func q (fst p0) (fst (nth_pt pts 1)) (snd p0) (snd (nth_pt pts 1))
    else Err ECalibration.
Proof.
  clear Hlo Hhi. intros ->. unfold spline. cbn [Z.ltb Z.compare]. rewrite Hsorted.
  destruct pts as [|a t] eqn:E; [discriminate|]. injection Hp0 as <-. rewrite Hpl.
  cbn [Z.eqb bind]. reflexivity.
Qed.

(* at the largest point: its calibrated value, as given *)
Theorem spline1_at_max : order = 1 -> num_le (fst p0) q = true -> num_le q (fst pl) = true -> num_eq q (fst pl) = true ->
  spline order ex points q = Ok (snd pl).
Proof. intros Ho H1 H2 H3. rewrite spline1_unfold by assumption. now rewrite H1, H2, H3. Qed.

(* in range, below the largest point: the line through the point preceding the first point that exceeds q, and that point *)
Theorem spline1_in_range i : order = 1 ->
  num_le (fst p0) q = true -> num_le q (fst pl) = true -> num_eq q (fst pl) = false ->
  first_greater pts q 0 = Some i ->
  spline order ex points q = linear_func q (fst (nth_pt pts (i - 1))) (fst (nth_pt pts i)) (snd (nth_pt pts (i - 1))) (snd (nth_pt pts i)) /\
  num_gt (fst (nth_pt pts i)) q = true /\ forall j, (j < i)%nat -> num_gt (fst (nth_pt pts j)) q = false.
Proof.
  intros Ho H1 H2 H3 Hfg. rewrite spline1_unfold by assumption. rewrite H1, H2, H3, Hfg. cbn [andb]. split; [reflexivity|].
  apply first_greater_spec in Hfg as (_ & Hg & Hlt). rewrite Nat.sub_0_r in *. unfold nth_pt. auto.
Qed.
End Spline.

(* ---------- enumerations and booleans use the raw value only ---------- *)
Theorem enum_raw_only t env c labels v c' :
  pt_kind t = TEnum labels -> parse_encoding (pt_enc t) env c = Ok (v, c') ->
  parse_type t env c = match enum_lookup labels (vraw v) with
                       | Some lbl => Ok ({| vcls := CStr; vval := PStr lbl; vraw := vraw v |}, c')
                       | None => Err EValue end.
Proof. intros Hk He. unfold parse_type. rewrite He. cbn [bind]. now rewrite Hk. Qed.

Theorem bool_truthiness t env c v c' :
  pt_kind t = TBoolean -> parse_encoding (pt_enc t) env c = Ok (v, c') ->
  parse_type t env c = Ok ({| vcls := CBool; vval := PInt (if truthy (vraw v) then 1 else 0); vraw := vraw v |}, c').
Proof. intros Hk He. unfold parse_type. rewrite He. cbn [bind]. now rewrite Hk. Qed.

Lemma enum_lookup_unlisted labels raw : Forall (fun kl => key_eq (fst kl) raw = false) labels -> enum_lookup labels raw = None.
Proof. induction 1 as [|[k l] t H _ IH]; [reflexivity|]. cbn [enum_lookup]. rewrite IH. cbn [fst] in H. now rewrite H. Qed.

(* non-vacuity: a step spline queried at both end knots and inside *)
Example c08_example :
  let pts := [(NFloat 0, NFloat 4607182418800017408); (NFloat 4611686018427387904, NFloat 4613937818241073152)] in (* (0,1.0) (2.0,3.0) *)
  spline 0 false pts (NInt 2) = Ok (NFloat 4613937818241073152) /\
  spline 0 false pts (NInt 1) = Ok (NFloat 4607182418800017408) /\
  spline 0 false pts (NInt 3) = Err ECalibration /\
  spline 1 false pts (NInt 1) = Ok (NFloat 4611686018427387904).
Proof. vm_compute. auto. Qed.
