From Coq Require Import ZArith List Bool Arith Lia.
From SPP Require Import Model.Cli.
Import ListNotations.

Lemma firstn_seq' k s n : k <= n -> firstn k (seq s n) = seq s k.
Proof.
  intro H. replace n with (k + (n - k)) by lia. rewrite seq_app, firstn_app, seq_length, Nat.sub_diag.
  cbn [firstn]. rewrite app_nil_r. apply firstn_all2. rewrite seq_length. lia.
Qed.
Lemma skipn_seq' k s n : k <= n -> skipn k (seq s n) = seq (s + k) (n - k).
Proof.
  intro H. replace n with (k + (n - k)) at 1 by lia. rewrite seq_app, skipn_app, seq_length, Nat.sub_diag.
  cbn [skipn]. rewrite skipn_all2 by (rewrite seq_length; lia). reflexivity.
Qed.

Lemma nodup_app (l1 l2 : list nat) : NoDup l1 -> NoDup l2 -> (forall x, In x l1 -> ~ In x l2) -> NoDup (l1 ++ l2).
Proof. induction l1 as [|a t IH]; simpl; intros H1 H2 H; auto.
  inversion H1; subst. constructor.
  - rewrite in_app_iff. intros [?|?]; [contradiction|]. eapply H; eauto.
  - apply IH; auto. Qed.

Theorem rows_spec n :
  rows n = if n <=? 10 then map Pkt (seq 0 n)
           else map Pkt (seq 0 5) ++ [Ellipsis] ++ map Pkt (seq (n - 5) 5).
Proof.
  unfold rows, MAX_ROWS, HEAD_ROWS. destruct (10 <? n) eqn:E.
  - apply Nat.ltb_lt in E. replace (n <=? 10) with false by (symmetry; apply Nat.leb_gt; lia).
    rewrite firstn_seq' by lia. rewrite skipn_seq' by lia. do 4 f_equal. lia.
  - apply Nat.ltb_ge in E. replace (n <=? 10) with true by (symmetry; apply Nat.leb_le; lia). reflexivity.
Qed.

Fixpoint pkts (l : list row) : list nat := match l with [] => [] | Pkt i :: t => i :: pkts t | Ellipsis :: t => pkts t end.
Lemma pkts_app a b : pkts (a ++ b) = pkts a ++ pkts b.
Proof. induction a as [|[i|] t IH]; cbn; auto. now rewrite IH. Qed.
Lemma pkts_map l : pkts (map Pkt l) = l.
Proof. induction l; cbn; auto. now rewrite IHl. Qed.

(* every shown packet index occurs once, in increasing order, and is a packet of the file;
   for n <= 10 every packet is shown *)
Theorem rows_each_once n :
  NoDup (pkts (rows n)) /\ (forall i, In i (pkts (rows n)) -> i < n) /\
  (n <= 10 -> pkts (rows n) = seq 0 n) /\
  (10 < n -> pkts (rows n) = seq 0 5 ++ seq (n - 5) 5).
Proof.
  rewrite rows_spec. destruct (n <=? 10) eqn:E.
  - apply Nat.leb_le in E. rewrite pkts_map. repeat split.
    + apply seq_NoDup.
    + intros i Hi. apply in_seq in Hi. lia.
    + lia.
  - apply Nat.leb_gt in E. rewrite !pkts_app, !pkts_map. cbn [pkts app]. repeat split; try lia.
    + apply nodup_app; try apply seq_NoDup.
      intros x H1 H2. apply in_seq in H1, H2. lia.
    + intros i Hi. apply in_app_iff in Hi as [Hi|Hi]; apply in_seq in Hi; lia.
Qed.

Theorem select_spec idx n : (idx < n -> select idx n = Shown idx) /\ (n <= idx -> select idx n = OutOfRange).
Proof.
  unfold select. split; intro H.
  - replace (n <=? idx) with false by (symmetry; apply Nat.leb_gt; lia). reflexivity.
  - replace (n <=? idx) with true by (symmetry; apply Nat.leb_le; lia). reflexivity.
Qed.

Example rows_7 : rows 7 = map Pkt [0;1;2;3;4;5;6]. Proof. reflexivity. Qed.
Example rows_12 : rows 12 = map Pkt [0;1;2;3;4] ++ [Ellipsis] ++ map Pkt [7;8;9;10;11]. Proof. reflexivity. Qed.
