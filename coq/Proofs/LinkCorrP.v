(* Proofs/LinkCorrP.v — the canonical form the correspondence (and the linker's duplicate test) uses for containers determines
   a container's structural references: the hypothesis of C17_rejects_reference_cycle holds for it. *)
From Coq Require Import ZArith NArith List Bool String Ascii Lia.
From SPP Require Import Base.Sx Model.Xml Model.Loader Proofs.LoaderP Proofs.LinkP Corr.Xml.
Import ListNotations.
Open Scope string_scope.
Open Scope list_scope.

Lemma codes_inj : forall a b, codes a = codes b -> a = b.
Proof.
  induction a as [|x r IH]; intros [|y s] H; cbn [codes] in H; try discriminate; auto.
  injection H as H1 H2. f_equal; [|now apply IH]. apply Z2N.inj in H1 || apply N2Z.inj in H1.
  rewrite <- (ascii_N_embedding x), <- (ascii_N_embedding y). now rewrite H1.
Qed.
Lemma sx_s_inj a b : sx_s a = sx_s b -> a = b.
Proof. unfold sx_s. intros [= H]. now apply codes_inj. Qed.
Lemma sx_os_inj a b : sx_os a = sx_os b -> a = b.
Proof. destruct a, b; cbn [sx_os]; intro H; try discriminate; auto. injection H as H. f_equal. first [now apply sx_s_inj | now apply codes_inj]. Qed.

Definition sx_entry (e : xentry) : sx := match e with XEP n => L [I 0; sx_s n] | XEC n => L [I 1; sx_s n] end.
Lemma sx_entry_inj a b : sx_entry a = sx_entry b -> a = b.
Proof. destruct a, b; cbn [sx_entry]; intro H; try discriminate; injection H as H; f_equal; first [now apply sx_s_inj | now apply codes_inj]. Qed.
Lemma map_inj {A B} (f : A -> B) : (forall a b, f a = f b -> a = b) -> forall l l', map f l = map f l' -> l = l'.
Proof. intros Hf. induction l as [|x t IH]; intros [|y s] H; cbn in H; try discriminate; auto. injection H as H1 H2. f_equal; auto. Qed.

Theorem sx_cont_refs a b : sx_cont a = sx_cont b -> crefs a = crefs b.
Proof.
  unfold sx_cont. intro H. injection H as _ _ _ _ He Hb _.
  change (map sx_entry (xk_entries a) = map sx_entry (xk_entries b)) in He.
  apply (map_inj _ sx_entry_inj) in He. apply sx_os_inj in Hb. unfold crefs, nested_refs. now rewrite He, Hb.
Qed.

(* so, for the linker as it is run: a document whose containers refer to each other in a cycle is rejected *)
Theorem cycle_rejected_concrete d n : dchain (xd_containers d) n n -> exists e, link sx_cont d = Err e.
Proof. apply link_rejects_cycle. exact sx_cont_refs. Qed.
