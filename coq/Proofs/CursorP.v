(* Proofs/CursorP.v — lemmas about Model/Cursor.v (C03, reused by C04/C07/C13/C14). *)
From Coq Require Import ZArith List Lia Bool.
From SPP Require Import Base.Bytes Base.Sx Model.Cursor.
Import ListNotations.
Open Scope Z_scope.

Definition window (data : list Z) (p n : Z) : Z := (from_be data / 2 ^ (8 * zlen data - p - n)) mod 2 ^ n.

Lemma extract_bits_window data p n : wf data -> 0 <= p -> 0 <= n -> p + n <= 8 * zlen data ->
  extract_bits data p n = Ok (window data p n).
Proof.
  intros Hwf Hp Hn Hin. unfold extract_bits, window.
  set (sB := p / 8). set (sb := p mod 8).
  assert (Hsb : 0 <= sb < 8) by (apply Z.mod_pos_bound; lia).
  assert (Hp' : p = 8 * sB + sb) by (unfold sB, sb; apply Z.div_mod; lia).
  set (k := (sb + n + 7) / 8).
  assert (Hk : 8 * k - 7 <= sb + n <= 8 * k).
  { unfold k. pose proof (Z.div_mod (sb + n + 7) 8 ltac:(lia)). pose proof (Z.mod_pos_bound (sb + n + 7) 8 ltac:(lia)). lia. }
  assert (HsB : 0 <= sB) by (unfold sB; apply Z.div_pos; lia).
  clearbody k sb sB.
  assert (Hend : sB + k <= zlen data). { generalize dependent (zlen data). intros. lia. }
  replace (sB + k <? 0) with false by (symmetry; apply Z.ltb_ge; lia).
  rewrite from_be_slice by (assumption || lia).
  rewrite slice_length by lia.
  replace (sB + k - sB) with k by lia.
  destruct ((sb =? 0) && (n mod 8 =? 0)) eqn:Hfast.
  - apply andb_prop in Hfast as [H1 H2]. apply Z.eqb_eq in H1, H2.
    assert (n = 8 * k). { pose proof (Z.div_mod n 8 ltac:(lia)). lia. }
    f_equal. f_equal; [f_equal; f_equal; lia | f_equal; lia].
  - replace (k * 8 - sb - n <? 0) with false by (symmetry; apply Z.ltb_ge; lia).
    replace (n <? 0) with false by (symmetry; apply Z.ltb_ge; lia).
    f_equal. rewrite Z.shiftr_div_pow2 by lia.
    change (2 ^ n - 1) with (Z.pred (2 ^ n)). rewrite <- Z.ones_equiv, Z.land_ones by lia.
    rewrite div_mod_window by lia. f_equal. f_equal. f_equal. lia.
Qed.

Lemma window_spec B p n : wf B -> 0 <= p -> 0 <= n -> p + n <= 8 * zlen B ->
  window B p n = spec_int B p n.
Proof. intros. unfold window, spec_int. now rewrite val_of_bits_slice. Qed.

Lemma window_range B p n : 0 <= n -> 0 <= window B p n < 2 ^ n.
Proof. intros. unfold window. apply Z.mod_pos_bound. apply Z.pow_pos_nonneg; lia. Qed.

Theorem read_int_spec B p n : wf B -> 0 <= p -> 0 <= n -> p + n <= 8 * zlen B ->
  read_as_int {| cdata := B; cpos := p |} n = Ok (spec_int B p n, {| cdata := B; cpos := p + n |}).
Proof.
  intros Hwf Hp Hn Hin. unfold read_as_int. cbn [cdata cpos].
  replace (n <? 0) with false by (symmetry; apply Z.ltb_ge; lia).
  rewrite extract_bits_window by assumption. cbn [bind]. now rewrite window_spec.
Qed.

(* value of an aligned byte slice is the window *)
Lemma aligned_slice B p n : wf B -> 0 <= p -> 0 <= n -> p + n <= 8 * zlen B ->
  p mod 8 = 0 -> n mod 8 = 0 ->
  slice (p / 8) (p / 8 + (n + 7) / 8) B = to_be (Z.to_nat ((n + 7) / 8)) (window B p n).
Proof.
  intros Hwf Hp Hn Hin Hp8 Hn8.
  set (a := p / 8). set (k := (n + 7) / 8).
  assert (Ha : p = 8 * a) by (unfold a; pose proof (Z.div_mod p 8 ltac:(lia)); lia).
  assert (Hk : n = 8 * k). { unfold k. pose proof (Z.div_mod n 8 ltac:(lia)).
    pose proof (Z.div_mod (n + 7) 8 ltac:(lia)). pose proof (Z.mod_pos_bound (n+7) 8 ltac:(lia)). lia. }
  clearbody a k.
  assert (Hl : zlen (slice a (a + k) B) = k) by (rewrite slice_length; lia).
  assert (Hw : wf (slice a (a + k) B)) by now apply wf_slice.
  rewrite <- (to_be_from_be _ Hw). unfold zlen in Hl.
  replace (length (slice a (a + k) B)) with (Z.to_nat k) by lia. f_equal.
  rewrite from_be_slice by (assumption || lia). unfold window.
  f_equal; [f_equal; f_equal; lia | f_equal; lia].
Qed.

Theorem read_bytes_spec B p n : wf B -> 0 <= p -> 0 <= n -> p + n <= 8 * zlen B ->
  read_as_bytes {| cdata := B; cpos := p |} n = Ok (spec_bytes B p n, {| cdata := B; cpos := p + n |}).
Proof.
  intros Hwf Hp Hn Hin. unfold read_as_bytes, spec_bytes. cbn [cdata cpos].
  replace (n <? 0) with false by (symmetry; apply Z.ltb_ge; lia).
  replace (p + n >? zlen B * 8) with false by (symmetry; rewrite Z.gtb_ltb; apply Z.ltb_ge; lia).
  rewrite <- window_spec by assumption.
  destruct ((p mod 8 =? 0) && (n mod 8 =? 0)) eqn:Hfast.
  - apply andb_prop in Hfast as [H1 H2]. apply Z.eqb_eq in H1, H2.
    now rewrite aligned_slice.
  - rewrite extract_bits_window by assumption. reflexivity.
Qed.

Theorem read_bytes_guard B p n : 0 <= n -> p + n > 8 * zlen B ->
  read_as_bytes {| cdata := B; cpos := p |} n = Err EValue.
Proof.
  intros Hn H. unfold read_as_bytes. cbn [cdata cpos].
  replace (n <? 0) with false by (symmetry; apply Z.ltb_ge; lia).
  replace (p + n >? zlen B * 8) with true by (symmetry; rewrite Z.gtb_ltb; apply Z.ltb_lt; lia). reflexivity.
Qed.

Theorem read_negative_rejected c n : n < 0 -> read_as_int c n = Err EValue /\ read_as_bytes c n = Err EValue.
Proof. intro H. unfold read_as_int, read_as_bytes. replace (n <? 0) with true by (symmetry; apply Z.ltb_lt; lia). auto. Qed.

Theorem spec_int_range B p n : 0 <= n -> wf B -> 0 <= p -> p + n <= 8 * zlen B -> 0 <= spec_int B p n < 2 ^ n.
Proof. intros. rewrite <- window_spec by assumption. now apply window_range. Qed.

Lemma spec_bytes_length B p n : length (spec_bytes B p n) = Z.to_nat ((n + 7) / 8).
Proof. unfold spec_bytes. apply to_be_length. Qed.

(* the bytes read carry the integer value right-aligned *)
Theorem spec_bytes_value B p n : wf B -> 0 <= p -> 0 <= n -> p + n <= 8 * zlen B ->
  from_be (spec_bytes B p n) = spec_int B p n.
Proof.
  intros. unfold spec_bytes. apply from_be_to_be.
  pose proof (spec_int_range B p n ltac:(lia) ltac:(assumption) ltac:(lia) ltac:(lia)) as R.
  split; [lia|]. eapply Z.lt_le_trans; [apply R|].
  apply Z.pow_le_mono_r; [lia|].
  pose proof (Z.div_mod (n + 7) 8 ltac:(lia)). pose proof (Z.mod_pos_bound (n+7) 8 ltac:(lia)).
  assert (0 <= (n + 7) / 8) by (apply Z.div_pos; lia). lia.
Qed.

(* non-vacuity: the docstring's example and a zero-width read *)
Example docstring_example :
  read_as_int {| cdata := [53; 202]; cpos := 2 |} 9 = Ok (430, {| cdata := [53; 202]; cpos := 11 |})
  /\ spec_int [53; 202] 2 9 = 430 /\ wf [53; 202].
Proof. repeat split; try reflexivity. repeat constructor; lia. Qed.
Example zero_width : read_as_bytes {| cdata := [53; 202]; cpos := 16 |} 0 = Ok ([], {| cdata := [53; 202]; cpos := 16 |}).
Proof. reflexivity. Qed.

(* ---- consecutive reads compose (C03_reads_compose) ---- *)
Lemma firstn_add_split {A} (a b : nat) : forall l : list A,
  firstn (a + b) l = firstn a l ++ firstn b (skipn a l).
Proof. induction a as [|a IH]; intros [|x l]; cbn; try reflexivity.
  - now rewrite firstn_nil.
  - now rewrite IH. Qed.

Lemma skipn_add {A} (a b : nat) : forall l : list A, skipn (a + b) l = skipn b (skipn a l).
Proof. induction a as [|a IH]; intros [|x l]; cbn; try reflexivity.
  - now rewrite skipn_nil.
  - apply IH. Qed.

(* two consecutive reads see the bits one read of the joint width sees *)
Lemma spec_int_split B p n m : wf B -> 0 <= p -> 0 <= n -> 0 <= m -> p + n + m <= 8 * zlen B ->
  spec_int B p (n + m) = spec_int B p n * 2 ^ m + spec_int B (p + n) m.
Proof.
  intros Hwf Hp Hn Hm Hin. unfold spec_int.
  rewrite (Z2Nat.inj_add n m), (Z2Nat.inj_add p n) by lia.
  rewrite firstn_add_split, val_of_bits_app, skipn_add.
  f_equal. f_equal. unfold zlen. rewrite firstn_length, !skipn_length, bits_of_bytes_length.
  unfold zlen in Hin. f_equal. lia.
Qed.

Theorem reads_compose B p n m : wf B -> 0 <= p -> 0 <= n -> 0 <= m -> p + n + m <= 8 * zlen B ->
  exists v1 v2 c1,
    read_as_int {| cdata := B; cpos := p |} n = Ok (v1, c1) /\
    read_as_int c1 m = Ok (v2, {| cdata := B; cpos := p + n + m |}) /\
    read_as_int {| cdata := B; cpos := p |} (n + m) = Ok (v1 * 2 ^ m + v2, {| cdata := B; cpos := p + n + m |}).
Proof.
  intros Hwf Hp Hn Hm Hin.
  exists (spec_int B p n), (spec_int B (p + n) m), {| cdata := B; cpos := p + n |}.
  split; [apply read_int_spec; lia || assumption|].
  split; [apply read_int_spec; lia || assumption|].
  rewrite read_int_spec by (lia || assumption).
  rewrite spec_int_split by (lia || assumption). now rewrite Z.add_assoc.
Qed.
Example reads_compose_nonvacuous :
  read_as_int {| cdata := [0xAB; 0xCD]; cpos := 3 |} 9 = Ok (0xBC, {| cdata := [0xAB; 0xCD]; cpos := 12 |}).
Proof. vm_compute. reflexivity. Qed.

(* ---- aligned whole-byte reads (C03_bytes_aligned) ---- *)
(* whole bytes read at a byte boundary are exactly those bytes of the buffer *)
Theorem read_bytes_aligned B a k : wf B -> 0 <= a -> 0 <= k -> a + k <= zlen B ->
  read_as_bytes {| cdata := B; cpos := 8 * a |} (8 * k)
  = Ok (slice a (a + k) B, {| cdata := B; cpos := 8 * a + 8 * k |}).
Proof.
  intros Hwf Ha Hk Hin. rewrite read_bytes_spec by (assumption || lia).
  unfold spec_bytes. rewrite <- window_spec by (assumption || lia).
  rewrite <- aligned_slice by (assumption || lia || (rewrite Z.mul_comm; apply Z.mod_mul; lia)).
  replace (8 * a / 8) with a by (rewrite Z.mul_comm, Z.div_mul; lia).
  replace ((8 * k + 7) / 8) with k by (pose proof (Z.div_mod (8 * k + 7) 8 ltac:(lia)); pose proof (Z.mod_pos_bound (8 * k + 7) 8 ltac:(lia)); lia).
  reflexivity.
Qed.
Example read_bytes_aligned_example :
  read_as_bytes {| cdata := [1; 2; 3; 4]; cpos := 8 |} 16 = Ok ([2; 3], {| cdata := [1; 2; 3; 4]; cpos := 24 |}).
Proof. vm_compute. reflexivity. Qed.
