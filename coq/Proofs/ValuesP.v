From Coq Require Import ZArith List Bool String.
From SPP Require Import Base.Sx Model.Values.
Import ListNotations.

Theorem raw_default c v : vraw (mk c v None) = v /\ vval (mk c v None) = v /\ vcls (mk c v None) = c.
Proof. repeat split. Qed.
Theorem raw_given c v r : vraw (mk c v (Some r)) = r /\ vval (mk c v (Some r)) = v.
Proof. repeat split. Qed.
Theorem copy_roundtrip x : rebuild (reduce x) = x.
Proof. destruct x; reflexivity. Qed.
Theorem packet_roundtrip p : rebuild_packet (reduce_packet p) = p.
Proof.
  destruct p as [r pos items]. unfold rebuild_packet, reduce_packet. cbn [fst snd praw ppos pitems]. f_equal.
  rewrite map_map. rewrite <- (map_id items) at 2. apply map_ext. intros [k v]. cbn [fst snd]. now rewrite copy_roundtrip.
Qed.

(* builtin delegation: the only special names defined by the library classes are _Parameter.__new__ and
   BoolParameter.__repr__, so by the MROs every comparison, hash, format and arithmetic special method of a value
   resolves to the built-in base class (or object) *)
Open Scope string_scope.
Definition owned_ok (c n : string) : bool :=
  (String.eqb c "_Parameter" && String.eqb n "__new__") || (String.eqb c "BoolParameter" && String.eqb n "__repr__").
Lemma owned_check : forallb (fun cn => forallb (owned_ok (fst cn)) (snd cn)) class_owned = true.
Proof. vm_compute. reflexivity. Qed.
Theorem only_new_and_bool_repr : forall c names n, In (c, names) class_owned -> In n names ->
  (c = "_Parameter" /\ n = "__new__") \/ (c = "BoolParameter" /\ n = "__repr__").
Proof.
  intros c names n H Hn. pose proof owned_check as K. rewrite forallb_forall in K. specialize (K _ H). cbn [fst snd] in K.
  rewrite forallb_forall in K. specialize (K _ Hn). unfold owned_ok in K.
  apply orb_prop in K as [K|K]; apply andb_prop in K as [K1 K2]; apply String.eqb_eq in K1, K2; auto.
Qed.

Definition mro_ok (c : string) (mro : list string) : bool :=
  String.eqb c "_Parameter" ||
  match mro with
  | [c'; p; b; o] => String.eqb c' c && String.eqb p "_Parameter" && String.eqb o "object" &&
                     (String.eqb b "bytes" || String.eqb b "int" || String.eqb b "float" || String.eqb b "str")
  | _ => false
  end.
Lemma mro_check : forallb (fun cm => mro_ok (fst cm) (snd cm)) class_mro = true.
Proof. vm_compute. reflexivity. Qed.
Theorem builtin_second_base : forall c mro, In (c, mro) class_mro -> c <> "_Parameter" ->
  exists b, mro = [c; "_Parameter"; b; "object"] /\ In b ["bytes"; "int"; "float"; "str"].
Proof.
  intros c mro H Hc. pose proof mro_check as K. rewrite forallb_forall in K. specialize (K _ H). cbn [fst snd] in K.
  unfold mro_ok in K. apply orb_prop in K as [K|K]; [apply String.eqb_eq in K; contradiction|].
  destruct mro as [|c' [|p [|b [|o [|]]]]]; try discriminate.
  repeat (apply andb_prop in K as [K ?]).
  repeat match goal with H : String.eqb _ _ = true |- _ => apply String.eqb_eq in H end. subst.
  exists b. split; [reflexivity|].
  match goal with H : (_ || _)%bool = true |- _ => rename H into Hb end.
  repeat (apply orb_prop in Hb as [Hb|Hb]); apply String.eqb_eq in Hb; subst; cbn; tauto.
Qed.

Example falsy_raw_kept : vraw (mk CInt (PInt 5) (Some (PInt 0))) = PInt 0 /\ vraw (mk CInt (PInt 0) None) = PInt 0
  /\ vraw (mk CStr (PStr []) None) = PStr [].
Proof. repeat split. Qed.
