(* Proofs/FuelP.v — the recursion fuel of the decoder model is not a semantic restriction.
   [parse_entries] recurses into nested containers and [walk] into the chosen child container; both carry fuel in the model
   (Python has a recursion limit instead).  On a definition whose references are ranked — nested containers stand earlier in
   the lookup than their users, inheritors later than their base, which is what loading guarantees (Proofs/LinkP.v, carried to
   definitions in Proofs/CompileP.v) — every amount of fuel above the number of containers gives the same result. *)
From Coq Require Import ZArith List Bool String Lia.
From SPP Require Import Base.Bytes Base.Sx Model.Cursor Model.Values Model.Criteria Model.Doc Model.Decode Model.Generator.
Import ListNotations.
Open Scope string_scope.
Open Scope list_scope.

Fixpoint posd (n : string) (d : definition) : nat :=
  match d with [] => O | c :: t => if String.eqb (k_name c) n then O else S (posd n t) end.

Lemma posd_le n d : (posd n d <= List.length d)%nat.
Proof. induction d as [|c t IH]; cbn [posd List.length]; [lia|]. destruct (String.eqb (k_name c) n); lia. Qed.
Lemma find_container_spec d n c : find_container d n = Some c -> In c d /\ k_name c = n /\ (posd n d < List.length d)%nat.
Proof.
  induction d as [|x t IH]; cbn [find_container posd List.length]; [discriminate|]. destruct (String.eqb_spec (k_name x) n) as [E|E].
  - intros [= ->]. repeat split; auto; [now left|lia].
  - intro H. destruct (IH H) as (H1 & H2 & H3). repeat split; auto; [now right|lia].
Qed.

Definition nested_of (es : list entry) : list string := flat_map (fun e => match e with EContainer n => [n] | EParam _ => [] end) es.

(* references are ranked by position *)
Definition ranked (d : definition) : Prop :=
  forall c, In c d ->
    (forall m c', In m (nested_of (k_entries c)) -> find_container d m = Some c' -> (posd m d < posd (k_name c) d)%nat) /\
    (forall m c', In m (k_inheritors c) -> find_container d m = Some c' -> (posd (k_name c) d < posd m d)%nat).

Section Fuel.
Variable d : definition.
Hypothesis R : ranked d.

(* the entry loop with the recursive call abstracted *)
Definition go_entries (rec : list entry -> pstate -> res pstate) : list entry -> pstate -> res pstate :=
  fix go (es : list entry) (s : pstate) : res pstate :=
    match es with
    | [] => Ok s
    | EParam p :: t => s' <- parse_parameter p s ;; go t s'
    | EContainer n :: t =>
        match find_container d n with
        | None => Err EKey
        | Some c => s' <- rec (k_entries c) s ;; go t s'
        end
    end.
Lemma parse_entries_S f es s : parse_entries (S f) d es s = go_entries (parse_entries f d) es s.
Proof. reflexivity. Qed.

Lemma go_ext rec1 rec2 es : (forall n c s, In n (nested_of es) -> find_container d n = Some c -> rec1 (k_entries c) s = rec2 (k_entries c) s) ->
  forall s, go_entries rec1 es s = go_entries rec2 es s.
Proof.
  induction es as [|[p|n] t IH]; intros H s; cbn [go_entries]; [reflexivity| |].
  - destruct (parse_parameter p s); cbn [bind]; auto.
  - destruct (find_container d n) as [c|] eqn:F; [|reflexivity].
    rewrite (H n c s); [|cbn [nested_of flat_map app]; now left|exact F].
    destruct (rec2 (k_entries c) s); cbn [bind]; [|reflexivity]. apply IH. intros n' c' s' Hn'. apply H. cbn [nested_of flat_map app]. now right.
Qed.

(* b bounds (strictly) the positions of the nested containers that exist *)
Lemma entries_fuel : forall b f1 f2 es s, (b < f1)%nat -> (b < f2)%nat ->
  (forall m c, In m (nested_of es) -> find_container d m = Some c -> (posd m d < b)%nat) ->
  parse_entries f1 d es s = parse_entries f2 d es s.
Proof.
  induction b as [b IH] using lt_wf_ind. intros f1 f2 es s H1 H2 Hb.
  destruct f1 as [|f1]; [lia|]. destruct f2 as [|f2]; [lia|]. rewrite !parse_entries_S. apply go_ext.
  intros n c s' Hn Hf. pose proof (Hb n c Hn Hf) as Hlt. destruct (find_container_spec d n c Hf) as (Hin & Hname & _).
  apply (IH (posd n d)); try lia.
  intros m c' Hm Hf'. destruct (R c Hin) as [Rn _]. rewrite <- Hname. exact (Rn m c' Hm Hf').
Qed.

Theorem parse_entries_fuel_irrelevant f es s : (List.length d < f)%nat ->
  parse_entries f d es s = parse_entries (S (List.length d)) d es s.
Proof.
  intro H. apply (entries_fuel (List.length d)); try lia. intros m c _ Hf. now destruct (find_container_spec d m c Hf) as (_ & _ & ?).
Qed.

Lemma candidates_sub e : forall names l, candidates d e names = Ok l -> incl l names.
Proof.
  induction names as [|n t IH]; intros l H; cbn [candidates] in H; [injection H as <-; intros x []|].
  destruct (find_container d n) as [c|]; [|discriminate]. destruct (eval_all e None (k_criteria c)) as [b|]; cbn [bind] in H; [|discriminate].
  destruct (candidates d e t) as [r|]; cbn [bind] in H; [|discriminate]. injection H as <-. specialize (IH r eq_refl).
  destruct b; intros x Hx; [destruct Hx as [<-|Hx]; [now left|right; now apply IH]|right; now apply IH].
Qed.

Lemma walk_fuel : forall m f1 f2 c s, In c d -> (List.length d - posd (k_name c) d <= m)%nat -> (m < f1)%nat -> (m < f2)%nat ->
  walk f1 d c s = walk f2 d c s.
Proof.
  induction m as [m IH] using lt_wf_ind. intros f1 f2 c s Hin Hm H1 H2.
  destruct f1 as [|f1]; [lia|]. destruct f2 as [|f2]; [lia|]. cbn [walk].
  destruct (parse_entries (S (List.length d)) d (k_entries c) s) as [s'|]; [|reflexivity].
  destruct (candidates d (s_env s') (k_inheritors c)) as [[|n [|n2 r]]|] eqn:C; try reflexivity.
  destruct (find_container d n) as [child|] eqn:F; [|reflexivity].
  destruct (find_container_spec d n child F) as (Hc & Hname & Hpos).
  assert (Hn : In n (k_inheritors c)) by (apply (candidates_sub _ _ _ C); now left).
  destruct (R c Hin) as [_ Ri]. pose proof (Ri n child Hn F) as Hlt.
  pose proof (posd_le (k_name c) d).
  apply (IH (m - 1)%nat); try lia; auto. rewrite Hname. lia.
Qed.

Theorem walk_fuel_irrelevant f c s : In c d -> (List.length d < f)%nat -> walk f d c s = walk (S (List.length d)) d c s.
Proof. intros Hin H. apply (walk_fuel (List.length d)); auto; lia. Qed.

(* one packet: any larger fuel for the inheritance walk gives what [parse_packet] gives *)
Corollary parse_packet_fuel_irrelevant root raw f c : find_container d root = Some c -> (List.length d < f)%nat ->
  parse_packet d root raw = walk f d c {| s_env := []; s_cur := {| cdata := raw; cpos := 0 |} |}.
Proof.
  intros F H. unfold parse_packet. rewrite F. symmetry. apply walk_fuel_irrelevant; auto. now destruct (find_container_spec d root c F).
Qed.
End Fuel.
