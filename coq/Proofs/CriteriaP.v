(* Proofs/CriteriaP.v — C06 *)
From Coq Require Import ZArith List Bool String Lia.
From SPP Require Import Base.Sx Model.Values Model.Criteria.
Import ListNotations.
Open Scope Z_scope.

(* the six relations on integers are the mathematical ones *)
Definition rel_Z (o : cop) (a b : Z) : bool :=
  match o with OEq => a =? b | ONe => negb (a =? b) | OLt => a <? b | OGt => b <? a | OLe => a <=? b | OGe => b <=? a end.
Lemma rel_int o a b : apply_op o (PInt a) (PInt b) = Ok (rel_Z o a b).
Proof.
  unfold apply_op, compare_payload, rel_Z. f_equal.
  destruct (Z.compare_spec a b) as [H|H|H]; destruct o; cbn;
    repeat match goal with
    | |- context [?x =? ?y] => destruct (Z.eqb_spec x y)
    | |- context [?x <? ?y] => destruct (Z.ltb_spec x y)
    | |- context [?x <=? ?y] => destruct (Z.leb_spec x y)
    end; cbn; try reflexivity; lia.
Qed.

Lemma rel_Z_prop o a b : rel_Z o a b = true <->
  match o with OEq => a = b | ONe => a <> b | OLt => a < b | OGt => a > b | OLe => a <= b | OGe => a >= b end.
Proof.
  destruct o; cbn; rewrite ?negb_true_iff, ?Z.eqb_eq, ?Z.eqb_neq, ?Z.ltb_lt, ?Z.leb_le; lia.
Qed.

(* strings and byte strings: lexicographic order on code points *)
Lemma rel_str o a b : apply_op o (PStr a) (PStr b) = Ok (rel o (Some (lex a b))).
Proof. reflexivity. Qed.
Lemma lex_eq a : forall b, lex a b = Eq <-> a = b.
Proof.
  induction a as [|x a IH]; destruct b as [|y b]; cbn; try (split; congruence).
  destruct (Z.compare_spec x y) as [H|H|H]; subst.
  - rewrite IH. split; congruence.
  - split; [discriminate|intro E; injection E; lia].
  - split; [discriminate|intro E; injection E; lia].
Qed.

(* ---------- Comparison ---------- *)
Theorem comparison_truth e cur c pv r :
  lookup e (c_ref c) = Some pv -> coerce (select pv (c_cal c)) (c_lit c) = Ok r ->
  eval_comparison e cur c = apply_op (c_op c) (select pv (c_cal c)) r.
Proof. intros H1 H2. unfold eval_comparison. rewrite H1. cbn [bind]. now rewrite H2. Qed.

Theorem comparison_current e cur c v r :
  lookup e (c_ref c) = None -> cur = Some v -> coerce v (c_lit c) = Ok r ->
  eval_comparison e cur c = apply_op (c_op c) v r.
Proof. intros H1 -> H2. unfold eval_comparison. rewrite H1. cbn [bind]. now rewrite H2. Qed.

(* zero / false / empty values are compared like any other value (F3) *)
Theorem comparison_falsy_int e cur c pv z :
  lookup e (c_ref c) = Some pv -> select pv (c_cal c) = PInt 0 -> l_int (c_lit c) = Some z ->
  eval_comparison e cur c = Ok (rel_Z (c_op c) 0 z).
Proof.
  intros H1 H2 H3. rewrite (comparison_truth e cur c pv (PInt z)); auto.
  - rewrite H2. apply rel_int.
  - rewrite H2. cbn. now rewrite H3.
Qed.

(* the error set is exactly: parameter absent with no current value (ValueError);
   literal not coercible (ComparisonError); bytes comparand (TypeError) *)
Theorem comparison_errors e cur c :
  (eval_comparison e cur c = Err EValue <-> lookup e (c_ref c) = None /\ cur = None) /\
  (forall v, (lookup e (c_ref c) = Some v -> True) -> True).
Proof.
  split; [|auto]. unfold eval_comparison. destruct (lookup e (c_ref c)) as [pv|] eqn:L.
  - cbn [bind]. split; [|intros [? _]; discriminate].
    destruct (coerce (select pv (c_cal c)) (c_lit c)) as [r|k] eqn:C.
    + unfold apply_op. destruct (compare_payload _ _); [discriminate|]. destruct (c_op c); discriminate.
    + destruct k; discriminate.
  - destruct cur as [v|]; cbn [bind].
    + split; [|intros [_ ?]; discriminate].
      destruct (coerce v (c_lit c)) as [r|k] eqn:C.
      * unfold apply_op. destruct (compare_payload _ _); [discriminate|]. destruct (c_op c); discriminate.
      * destruct k; discriminate.
    + tauto.
Qed.

Theorem comparison_uncoercible e cur c pv :
  lookup e (c_ref c) = Some pv -> coerce (select pv (c_cal c)) (c_lit c) = Err EValue ->
  eval_comparison e cur c = Err EComparison.
Proof. intros H1 H2. unfold eval_comparison. rewrite H1. cbn [bind]. now rewrite H2. Qed.

(* ---------- Condition: both operands are packet values; int vs float compared exactly (F4) ---------- *)
Theorem condition_two_params e d n cal pl pr :
  d_right d = RParam n cal -> lookup e (d_left d) = Some pl -> lookup e n = Some pr ->
  eval_condition e d = apply_op (d_op d) (select pl (d_lcal d)) (select pr cal).
Proof. intros H1 H2 H3. unfold eval_condition, get_parsed. rewrite H1, H2, H3. reflexivity. Qed.

Theorem condition_value e d lt pl r :
  d_right d = RValue lt -> lookup e (d_left d) = Some pl -> coerce (select pl (d_lcal d)) lt = Ok r ->
  eval_condition e d = apply_op (d_op d) (select pl (d_lcal d)) r.
Proof. intros H1 H2 H3. unfold eval_condition, get_parsed. rewrite H1, H2. cbn [bind]. now rewrite H3. Qed.

(* exactness of the mixed comparison on integral floats: float value m * 2^E with E >= 0 *)
Lemma mixed_exact_pos z b : f_isnan b = false -> f_isinf b = false ->
  0 <= (if f_exp b =? 0 then 1 else f_exp b) - 1075 ->
  apply_op OLt (PInt z) (PFloat b) =
  Ok (z <? (if f_sign b then -1 else 1) * (if f_exp b =? 0 then f_mant b else 4503599627370496 + f_mant b)
           * 2 ^ ((if f_exp b =? 0 then 1 else f_exp b) - 1075)).
Proof.
  intros Hn Hi HE. unfold apply_op, compare_payload, cmp_int_float. rewrite Hn, Hi.
  replace (0 <=? _) with true by (symmetry; apply Z.leb_le; exact HE).
  f_equal. set (m := if f_exp b =? 0 then f_mant b else _). set (E := _ - 1075).
  destruct (f_sign b); cbn [rel].
  - replace (-1 * m * 2 ^ E) with (- m * 2 ^ E) by ring.
    destruct (Z.compare_spec z (- m * 2 ^ E)); destruct (Z.ltb_spec z (- m * 2 ^ E)); try reflexivity; lia.
  - replace (1 * m * 2 ^ E) with (m * 2 ^ E) by ring.
    destruct (Z.compare_spec z (m * 2 ^ E)); destruct (Z.ltb_spec z (m * 2 ^ E)); try reflexivity; lia.
Qed.

(* ---------- lists are conjunctions ---------- *)
Theorem list_is_conjunction e cur ks b : eval_all e cur ks = Ok b ->
  (b = true <-> Forall (fun k => eval_criterion e cur k = Ok true) ks).
Proof.
  revert b. induction ks as [|k t IH]; intros b H; cbn [eval_all] in H.
  - injection H as <-. split; auto.
  - destruct (eval_criterion e cur k) as [v|] eqn:E; cbn [bind] in H; [|discriminate].
    destruct v.
    + specialize (IH b H). rewrite IH. split; intro F; [constructor; auto|now inversion F].
    + injection H as <-. split; [discriminate|]. intro F. inversion F; congruence.
Qed.

Theorem list_no_error e cur ks :
  Forall (fun k => exists b, eval_criterion e cur k = Ok b) ks ->
  eval_all e cur ks = Ok (forallb (fun k => match eval_criterion e cur k with Ok b => b | _ => false end) ks).
Proof.
  induction 1 as [|k t [b Hb] _ IH]; [reflexivity|]. cbn [eval_all forallb]. rewrite Hb. cbn [bind].
  destruct b; cbn; auto.
Qed.

(* ---------- boolean expressions of any depth ---------- *)
Section bx_induction.
  Variable P : bx -> Prop.
  Hypothesis HAnd : forall cs subs, Forall P subs -> P (BAnd cs subs).
  Hypothesis HOr : forall cs subs, Forall P subs -> P (BOr cs subs).
  Fixpoint bx_ind' (t : bx) : P t :=
    match t with
    | BAnd cs subs => HAnd cs subs ((fix go (l : list bx) : Forall P l :=
        match l with [] => Forall_nil _ | x :: r => Forall_cons x (bx_ind' x) (go r) end) subs)
    | BOr cs subs => HOr cs subs ((fix go (l : list bx) : Forall P l :=
        match l with [] => Forall_nil _ | x :: r => Forall_cons x (bx_ind' x) (go r) end) subs)
    end.
End bx_induction.

Definition cond_ok (e : env) (d : condition) : Prop := exists b, eval_condition e d = Ok b.

Lemma conds_all_spec e cs : Forall (cond_ok e) cs -> conds_all e cs = Ok (forallb (cond_truth e) cs).
Proof.
  induction 1 as [|c t [b Hb] _ IH]; [reflexivity|]. cbn [conds_all forallb]. unfold cond_truth at 1. rewrite Hb. cbn [bind].
  destruct b; cbn; auto.
Qed.
Lemma conds_any_spec e cs : Forall (cond_ok e) cs -> conds_any e cs = Ok (existsb (cond_truth e) cs).
Proof.
  induction 1 as [|c t [b Hb] _ IH]; [reflexivity|]. cbn [conds_any existsb]. unfold cond_truth at 1. rewrite Hb. cbn [bind].
  destruct b; cbn; auto.
Qed.

Theorem bexpr_denotation e : forall t, Forall (cond_ok e) (conds_of t) -> eval_bx e t = Ok (denote_bx e t).
Proof.
  induction t as [cs subs IH|cs subs IH] using bx_ind'; intro Hok; cbn [conds_of] in Hok;
    apply Forall_app in Hok as [Hcs Hsubs]; cbn [eval_bx denote_bx].
  - rewrite conds_all_spec by assumption. cbn [bind]. destruct (forallb (cond_truth e) cs); cbn [andb]; [|reflexivity].
    induction subs as [|s r IHr]; [reflexivity|].
    inversion IH as [|? ? Hs Hr]; subst. cbn [flat_map] in Hsubs. apply Forall_app in Hsubs as [H1 H2].
    rewrite (Hs H1). cbn [bind forallb]. destruct (denote_bx e s); cbn [andb]; auto.
  - rewrite conds_any_spec by assumption. cbn [bind]. destruct (existsb (cond_truth e) cs); cbn [orb]; [reflexivity|].
    induction subs as [|s r IHr]; [reflexivity|].
    inversion IH as [|? ? Hs Hr]; subst. cbn [flat_map] in Hsubs. apply Forall_app in Hsubs as [H1 H2].
    rewrite (Hs H1). cbn [bind existsb]. destruct (denote_bx e s); cbn [orb]; auto.
Qed.

(* ---------- discrete lookups: first entry whose criteria all hold ---------- *)
Theorem lookup_first_match e ls pre ks v post :
  ls = pre ++ (ks, v) :: post ->
  Forall (fun kv => eval_all e None (fst kv) = Ok false) pre ->
  eval_all e None ks = Ok true ->
  lookup_first e ls = Ok (Some v).
Proof.
  intros -> Hpre Hk. induction Hpre as [|[ks0 v0] t H0 _ IH]; cbn [app lookup_first].
  - now rewrite Hk.
  - cbn [fst] in H0. now rewrite H0.
Qed.
Theorem lookup_none e ls : Forall (fun kv => eval_all e None (fst kv) = Ok false) ls -> lookup_first e ls = Ok None.
Proof. induction 1 as [|[ks v] t H _ IH]; [reflexivity|]. cbn [lookup_first]. cbn [fst] in H. now rewrite H. Qed.

(* ---------- the operator table ---------- *)
Theorem operator_table_complete : forall o, exists s, In (s, o) operator_table.
Proof. intro o. destruct o; eexists; cbn; eauto 20. Qed.

(* non-vacuity *)
Open Scope string_scope.
Example c06_example :
  let e := [("A", mk CInt (PInt 0) None); ("B", mk CFloat (PFloat 4612811918334230528) None)] in   (* B = 2.5 *)
  eval_comparison e None {| c_ref := "A"; c_op := OEq; c_lit := {| l_int := Some 0; l_float := Some 0; l_str := [48] |}; c_cal := true |} = Ok true
  /\ eval_condition e {| d_left := "A"; d_lcal := true; d_op := OLt; d_right := RParam "B" true |} = Ok true
  /\ eval_bx e (BAnd [] [BOr [{| d_left := "A"; d_lcal := true; d_op := OGt; d_right := RParam "B" true |}] []]) = Ok false.
Proof. vm_compute. auto. Qed.
