(* Proofs/FramerP.v — C02 (exact framing, any chunking / trim threshold / prefix) and
   C10 (termination, complete packets only) for Model/Framer.v. *)
From Coq Require Import ZArith List Lia Bool Arith.
From SPP Require Import Base.Bytes Base.Sx Model.Cursor Model.Framer Proofs.CursorP.
Import ListNotations.
Open Scope nat_scope.

Section Framer.
Variable plen : list Z -> nat.
Hypothesis plen_pos : forall h, 7 <= plen h.

Definition wfp (p : list Z) := length p = plen (firstn 6 p).
Definition nonempty (src : list (list Z)) := Forall (fun c => c <> []) src.

Lemma refill_spec need : forall src buf cur, nonempty src -> cur <= length buf ->
  let '(buf', src') := refill need buf cur src in
  nonempty src' /\ cur <= length buf' /\
  skipn cur buf' ++ concat src' = skipn cur buf ++ concat src /\
  (exists t, buf' = buf ++ t) /\
  (need <= length buf' - cur \/ src' = []).
Proof.
  induction src as [|c rest IH]; intros buf cur Hne Hc; cbn [refill].
  - destruct (need <=? length buf - cur) eqn:E.
    + apply Nat.leb_le in E. repeat split; auto. exists []; now rewrite app_nil_r.
    + repeat split; auto. exists []; now rewrite app_nil_r.
  - destruct (need <=? length buf - cur) eqn:E.
    + apply Nat.leb_le in E. repeat split; auto. exists []; now rewrite app_nil_r.
    + inversion Hne as [|? ? Hc0 Hrest]; subst. destruct c as [|z c']; [congruence|].
      specialize (IH (buf ++ z :: c') cur Hrest ltac:(rewrite app_length; lia)).
      destruct (refill need (buf ++ z :: c') cur rest) as [buf' src'].
      destruct IH as (H1 & H2 & H3 & [t Ht] & H5). repeat split; auto.
      * rewrite H3. cbn [concat]. rewrite skipn_app. replace (cur - length buf) with 0 by lia.
        cbn [skipn]. now rewrite app_assoc.
      * exists ((z :: c') ++ t). now rewrite app_assoc.
Qed.

Lemma nonempty_concat_nil src : nonempty src -> concat src = [] -> src = [].
Proof. destruct src as [|c r]; auto. intros H E. inversion H; subst. cbn in E. destruct c; [congruence|discriminate]. Qed.

Lemma firstn_app_le {A} n (l1 l2 : list A) : n <= length l1 -> firstn n (l1 ++ l2) = firstn n l1.
Proof. intro H. rewrite firstn_app. replace (n - length l1) with 0 by lia. cbn. now rewrite app_nil_r. Qed.

Lemma prefix_firstn (X Y D : list Z) n : X ++ Y = D -> n <= length X -> firstn n X = firstn n D.
Proof. intros <- H. now rewrite firstn_app_le. Qed.

Lemma skipn_skipn {A} a b (l : list A) : skipn a (skipn b l) = skipn (b + a) l.
Proof. revert l; induction b; intro l; cbn; auto. destruct l; cbn; [now rewrite skipn_nil|auto]. Qed.

Theorem frame_exact : forall pps fuel T k total buf cur parsed src,
  Forall (fun pp => length (fst pp) = k /\ wfp (snd pp)) pps ->
  nonempty src -> cur <= length buf ->
  skipn cur buf ++ concat src = encode pps ->
  (forall t, total = Some t -> parsed + length (encode pps) = t) ->
  length pps < fuel ->
  loop plen fuel T k total buf cur parsed src = Some (map snd pps).
Proof.
  induction pps as [|[pre p] rest IH]; intros fuel T k total buf cur parsed src Hwf Hne Hcur Hdata Htot Hfuel.
  - destruct fuel as [|f]; [cbn in Hfuel; lia|]. cbn [loop map].
    cbn [encode map concat] in *.
    apply app_eq_nil in Hdata as [Hb Hs]. apply nonempty_concat_nil in Hs; auto. subst src.
    destruct (at_total total parsed); auto.
    assert (Hlen : length buf - cur = 0). { apply (f_equal (@length Z)) in Hb. rewrite skipn_length in Hb. cbn in Hb. lia. }
    destruct (Z.ltb T (Z.of_nat cur)).
    + cbn [refill]. rewrite skipn_length. replace (length buf - cur - 0) with 0 by lia.
      destruct (k + 6 <=? 0) eqn:E; [apply Nat.leb_le in E; lia|].
      rewrite skipn_length. replace (length buf - cur - 0 <? k + 6) with true; auto. symmetry. apply Nat.ltb_lt. lia.
    + cbn [refill]. rewrite Hlen. destruct (k + 6 <=? 0) eqn:E; [apply Nat.leb_le in E; lia|].
      rewrite Hlen. replace (0 <? k + 6) with true; auto. symmetry. apply Nat.ltb_lt. lia.
  - destruct fuel as [|f]; [cbn in Hfuel; lia|]. cbn [loop].
    inversion Hwf as [|? ? [Hk Hp] Hrest]; subst. cbn [fst snd] in *.
    set (D := encode ((pre, p) :: rest)) in *.
    assert (HD : D = pre ++ p ++ encode rest). { unfold D, encode. cbn. now rewrite app_assoc. }
    assert (Hplen : 7 <= length p) by (unfold wfp in Hp; rewrite Hp; apply plen_pos).
    assert (HDlen : length D = length pre + length p + length (encode rest)). { rewrite HD, !app_length. lia. }
    assert (Hat : at_total total parsed = false).
    { unfold at_total. destruct total as [t|]; auto. specialize (Htot t eq_refl).
      destruct (t =? 0); cbn; auto. apply Nat.eqb_neq. lia. }
    rewrite Hat.
    set (bc := if Z.ltb T (Z.of_nat cur) then (skipn cur buf, 0) else (buf, cur)).
    assert (Hbc : fst bc ++ [] = fst bc /\ snd bc <= length (fst bc) /\ skipn (snd bc) (fst bc) = skipn cur buf).
    { unfold bc. destruct (Z.ltb T (Z.of_nat cur)); cbn [fst snd]; rewrite app_nil_r; repeat split; auto; lia. }
    destruct bc as [buf0 cur0]. cbn [fst snd] in Hbc. destruct Hbc as (_ & Hcur0 & Hsk0).
    rewrite <- Hsk0 in Hdata. clear Hsk0 Hcur buf cur.
    pose proof (refill_spec (length pre + 6) src buf0 cur0 Hne Hcur0) as R1.
    destruct (refill (length pre + 6) buf0 cur0 src) as [buf1 src1].
    destruct R1 as (Hne1 & Hcur1 & Hd1 & _ & Hav1). rewrite Hdata in Hd1.
    assert (Hav1' : length pre + 6 <= length buf1 - cur0).
    { destruct Hav1 as [? | ->]; auto. cbn [concat] in Hd1. rewrite app_nil_r in Hd1.
      apply (f_equal (@length Z)) in Hd1. rewrite skipn_length in Hd1. lia. }
    replace (length buf1 - cur0 <? length pre + 6) with false by (symmetry; apply Nat.ltb_ge; lia).
    assert (Hhdr : nslice (cur0 + length pre) (cur0 + length pre + 6) buf1 = firstn 6 p).
    { unfold nslice. replace (cur0 + length pre + 6 - (cur0 + length pre)) with 6 by lia.
      rewrite <- skipn_skipn.
      assert (E : firstn (length pre + 6) (skipn cur0 buf1) = firstn (length pre + 6) D).
      { eapply prefix_firstn; eauto. rewrite skipn_length. lia. }
      apply (f_equal (skipn (length pre))) in E.
      rewrite !skipn_firstn_comm in E. replace (length pre + 6 - length pre) with 6 in E by lia.
      rewrite E, HD. rewrite skipn_app, skipn_all, Nat.sub_diag. cbn [skipn app].
      now rewrite firstn_app_le by lia. }
    rewrite Hhdr. unfold wfp in Hp. rewrite <- Hp.
    pose proof (refill_spec (length p) src1 buf1 (cur0 + length pre) Hne1 ltac:(lia)) as R2.
    destruct (refill (length p) buf1 (cur0 + length pre) src1) as [buf2 src2].
    destruct R2 as (Hne2 & Hcur2 & Hd2 & [t Ht] & Hav2).
    assert (Hd2' : skipn (cur0 + length pre) buf2 ++ concat src2 = p ++ encode rest).
    { rewrite Hd2. rewrite <- skipn_skipn.
      assert (E : skipn (length pre) (skipn cur0 buf1 ++ concat src1) = skipn (length pre) D) by now rewrite Hd1.
      rewrite skipn_app in E. rewrite skipn_length in E. replace (length pre - (length buf1 - cur0)) with 0 in E by lia.
      cbn [skipn] in E. rewrite E, HD. now rewrite skipn_app, skipn_all, Nat.sub_diag. }
    assert (Hav2' : length p <= length buf2 - (cur0 + length pre)).
    { destruct Hav2 as [? | ->]; auto. cbn [concat] in Hd2'. rewrite app_nil_r in Hd2'.
      apply (f_equal (@length Z)) in Hd2'. rewrite skipn_length, app_length in Hd2'. lia. }
    replace (length buf2 - (cur0 + length pre) <? length p) with false by (symmetry; apply Nat.ltb_ge; lia).
    assert (Hpkt : nslice (cur0 + length pre) (cur0 + length pre + length p) buf2 = p).
    { unfold nslice. replace (cur0 + length pre + length p - (cur0 + length pre)) with (length p) by lia.
      erewrite prefix_firstn; [|exact Hd2'|rewrite skipn_length; lia].
      now rewrite firstn_app_le, firstn_all by lia. }
    rewrite Hpkt.
    rewrite (IH f T (length pre) total buf2 (cur0 + length pre + length p) (parsed + length pre + length p) src2); auto.
    + lia.
    + rewrite <- skipn_skipn.
      assert (E : skipn (length p) (skipn (cur0 + length pre) buf2 ++ concat src2) = skipn (length p) (p ++ encode rest)) by now rewrite Hd2'.
      rewrite skipn_app in E. rewrite skipn_length in E.
      replace (length p - (length buf2 - (cur0 + length pre))) with 0 in E by lia. cbn [skipn] in E.
      rewrite E. now rewrite skipn_app, skipn_all, Nat.sub_diag.
    + intros t0 Ht0. specialize (Htot t0 Ht0). lia.
    + cbn in Hfuel. lia.
Qed.

(* ---------- C10: arbitrary bytes, arbitrary chunking (empty chunks allowed) ---------- *)
Lemma refill_any need : forall src buf cur, cur <= length buf ->
  let '(buf', src') := refill need buf cur src in
  cur <= length buf' /\ (exists t, buf' = buf ++ t) /\
  skipn cur buf' ++ concat src' = skipn cur buf ++ concat src.
Proof.
  induction src as [|c rest IH]; intros buf cur Hc; cbn [refill].
  - destruct (need <=? length buf - cur); repeat split; auto; exists []; now rewrite app_nil_r.
  - destruct (need <=? length buf - cur); [repeat split; auto; exists []; now rewrite app_nil_r|].
    destruct c as [|z c'].
    + repeat split; auto. exists []; now rewrite app_nil_r.
    + specialize (IH (buf ++ z :: c') cur ltac:(rewrite app_length; lia)).
      destruct (refill need (buf ++ z :: c') cur rest) as [buf' src'].
      destruct IH as (H1 & [t Ht] & H3). repeat split; auto.
      * exists ((z :: c') ++ t). now rewrite app_assoc.
      * rewrite H3. cbn [concat]. rewrite skipn_app. replace (cur - length buf) with 0 by lia.
        cbn [skipn]. now rewrite app_assoc.
Qed.

Definition remaining (buf : list Z) (cur : nat) (src : list (list Z)) := length buf - cur + length (concat src).

(* every item is complete, and the items (each with its k foreign prefix bytes) are consecutive
   slices of the unread input: unread = pre1 ++ p1 ++ pre2 ++ p2 ++ ... ++ rest *)
Inductive consecutive (k : nat) : list Z -> list (list Z) -> list Z -> Prop :=
| cons_nil D : consecutive k D [] D
| cons_step D pre p items rest : length pre = k -> consecutive k D items rest ->
    consecutive k (pre ++ p ++ D) (p :: items) rest.

Theorem terminates_and_complete : forall fuel T k total buf cur parsed src,
  cur <= length buf -> remaining buf cur src < fuel ->
  exists items rest, loop plen fuel T k total buf cur parsed src = Some items /\
                Forall wfp items /\
                consecutive k (skipn cur buf ++ concat src) items rest.
Proof.
  induction fuel as [|f IH]; intros T k total buf cur parsed src Hcur Hrem; [lia|].
  cbn [loop]. destruct (at_total total parsed); [exists [], (skipn cur buf ++ concat src); repeat split; auto; constructor|].
  set (bc := if Z.ltb T (Z.of_nat cur) then (skipn cur buf, 0) else (buf, cur)).
  assert (Hbc : snd bc <= length (fst bc) /\ skipn (snd bc) (fst bc) = skipn cur buf).
  { unfold bc. destruct (Z.ltb T (Z.of_nat cur)); cbn [fst snd]; split; auto; lia. }
  destruct bc as [buf0 cur0]. cbn [fst snd] in Hbc. destruct Hbc as [Hcur0 Hsk0].
  rewrite <- Hsk0.
  assert (Hrem0 : remaining buf0 cur0 src < S f).
  { unfold remaining in *. apply (f_equal (@length Z)) in Hsk0. rewrite !skipn_length in Hsk0. lia. }
  clear Hsk0 Hrem Hcur buf cur.
  pose proof (refill_any (k + 6) src buf0 cur0 Hcur0) as R1.
  destruct (refill (k + 6) buf0 cur0 src) as [buf1 src1]. destruct R1 as (Hcur1 & _ & Hd1).
  rewrite <- Hd1.
  assert (Hrem1 : remaining buf1 cur0 src1 < S f).
  { unfold remaining in *. apply (f_equal (@length Z)) in Hd1. rewrite !app_length, !skipn_length in Hd1. lia. }
  destruct (length buf1 - cur0 <? k + 6) eqn:E1; [eexists [], _; repeat split; auto; constructor|]. apply Nat.ltb_ge in E1.
  set (n := plen (nslice (cur0 + k) (cur0 + k + 6) buf1)).
  pose proof (plen_pos (nslice (cur0 + k) (cur0 + k + 6) buf1)) as Hn. fold n in Hn.
  pose proof (refill_any n src1 buf1 (cur0 + k) ltac:(lia)) as R2.
  destruct (refill n buf1 (cur0 + k) src1) as [buf2 src2]. destruct R2 as (Hcur2 & [t Ht] & Hd2).
  assert (Hsplit : skipn cur0 buf1 ++ concat src1 = firstn k (skipn cur0 buf1) ++ skipn (cur0 + k) buf2 ++ concat src2).
  { rewrite Hd2. rewrite <- (skipn_skipn k cur0 buf1). rewrite app_assoc. f_equal. symmetry. apply firstn_skipn. }
  rewrite Hsplit.
  destruct (length buf2 - (cur0 + k) <? n) eqn:E2; [eexists [], _; repeat split; auto; constructor|]. apply Nat.ltb_ge in E2.
  destruct (IH T k total buf2 (cur0 + k + n) (parsed + k + n) src2) as (items & rest & Hl & Hall & Hcons).
  - lia.
  - unfold remaining in *. apply (f_equal (@length Z)) in Hd2. rewrite !app_length, !skipn_length in Hd2. lia.
  - rewrite Hl. exists (nslice (cur0 + k) (cur0 + k + n) buf2 :: items), rest. split; [reflexivity|]. split.
    + constructor; auto. unfold wfp.
      assert (Hlenp : length (nslice (cur0 + k) (cur0 + k + n) buf2) = n).
      { unfold nslice. rewrite firstn_length, skipn_length. lia. }
      rewrite Hlenp. unfold n at 1. f_equal.
      unfold nslice. replace (cur0 + k + 6 - (cur0 + k)) with 6 by lia. replace (cur0 + k + n - (cur0 + k)) with n by lia.
      rewrite firstn_firstn. replace (Nat.min 6 n) with 6 by lia.
      subst buf2. rewrite skipn_app. rewrite firstn_app. rewrite skipn_length.
      replace (6 - (length buf1 - (cur0 + k))) with 0 by lia. cbn [firstn]. now rewrite app_nil_r.
    + assert (Hp : skipn (cur0 + k) buf2 = nslice (cur0 + k) (cur0 + k + n) buf2 ++ skipn (cur0 + k + n) buf2).
      { unfold nslice. replace (cur0 + k + n - (cur0 + k)) with n by lia. rewrite <- (skipn_skipn n (cur0 + k) buf2). now rewrite firstn_skipn. }
      rewrite Hp, <- app_assoc. constructor; auto.
      rewrite firstn_length, skipn_length. lia.
Qed.

(* For a real reader (every non-final read result is non-empty): additionally, what is left unread
   when the generator stops is shorter than a prefix plus one complete packet as declared by its
   own header (or has no complete header). *)
Theorem terminates_complete_short : forall fuel T k total buf cur parsed src,
  nonempty src -> cur <= length buf -> remaining buf cur src < fuel ->
  (forall t, total = Some t -> parsed + remaining buf cur src = t) ->
  exists items rest, loop plen fuel T k total buf cur parsed src = Some items /\
     Forall wfp items /\
     consecutive k (skipn cur buf ++ concat src) items rest /\
     (length rest < k + 6 \/ length rest < k + plen (firstn 6 (skipn k rest))).
Proof.
  induction fuel as [|f IH]; intros T k total buf cur parsed src Hne Hcur Hrem Htot; [lia|].
  cbn [loop].
  assert (Hlenrem : length (skipn cur buf ++ concat src) = remaining buf cur src).
  { unfold remaining. now rewrite app_length, skipn_length. }
  destruct (at_total total parsed) eqn:Hat.
  { exists [], (skipn cur buf ++ concat src). repeat split; auto; [constructor|].
    left. unfold at_total in Hat. destruct total as [t|]; [|discriminate].
    apply andb_prop in Hat as [_ Hat]. apply Nat.eqb_eq in Hat. specialize (Htot t eq_refl). lia. }
  set (bc := if Z.ltb T (Z.of_nat cur) then (skipn cur buf, 0) else (buf, cur)).
  assert (Hbc : snd bc <= length (fst bc) /\ skipn (snd bc) (fst bc) = skipn cur buf).
  { unfold bc. destruct (Z.ltb T (Z.of_nat cur)); cbn [fst snd]; split; auto; lia. }
  destruct bc as [buf0 cur0]. cbn [fst snd] in Hbc. destruct Hbc as [Hcur0 Hsk0].
  rewrite <- Hsk0.
  assert (Hr0 : remaining buf0 cur0 src = remaining buf cur src).
  { unfold remaining in *. apply (f_equal (@length Z)) in Hsk0. rewrite !skipn_length in Hsk0. lia. }
  clear Hsk0 Hlenrem.
  pose proof (refill_spec (k + 6) src buf0 cur0 Hne Hcur0) as R1.
  destruct (refill (k + 6) buf0 cur0 src) as [buf1 src1]. destruct R1 as (Hne1 & Hcur1 & Hd1 & _ & Hav1).
  rewrite <- Hd1.
  assert (Hr1 : remaining buf1 cur0 src1 = remaining buf0 cur0 src).
  { unfold remaining in *. apply (f_equal (@length Z)) in Hd1. rewrite !app_length, !skipn_length in Hd1. lia. }
  destruct (length buf1 - cur0 <? k + 6) eqn:E1.
  { apply Nat.ltb_lt in E1. exists [], (skipn cur0 buf1 ++ concat src1). repeat split; auto; [constructor|].
    left. destruct Hav1 as [?| ->]; [lia|]. cbn [concat]. rewrite app_nil_r, skipn_length. lia. }
  apply Nat.ltb_ge in E1.
  set (n := plen (nslice (cur0 + k) (cur0 + k + 6) buf1)).
  pose proof (plen_pos (nslice (cur0 + k) (cur0 + k + 6) buf1)) as Hn. fold n in Hn.
  pose proof (refill_spec n src1 buf1 (cur0 + k) Hne1 ltac:(lia)) as R2.
  destruct (refill n buf1 (cur0 + k) src1) as [buf2 src2]. destruct R2 as (Hne2 & Hcur2 & Hd2 & [t Ht] & Hav2).
  assert (Hsplit : skipn cur0 buf1 ++ concat src1 = firstn k (skipn cur0 buf1) ++ skipn (cur0 + k) buf2 ++ concat src2).
  { rewrite Hd2. rewrite <- (skipn_skipn k cur0 buf1). rewrite app_assoc. f_equal. symmetry. apply firstn_skipn. }
  rewrite Hsplit.
  assert (Hr2 : k + remaining buf2 (cur0 + k) src2 = remaining buf1 cur0 src1).
  { unfold remaining in *. apply (f_equal (@length Z)) in Hd2. rewrite !app_length, !skipn_length in Hd2. lia. }
  assert (Hhdr : firstn 6 (skipn (cur0 + k) buf2) = nslice (cur0 + k) (cur0 + k + 6) buf1).
  { unfold nslice. replace (cur0 + k + 6 - (cur0 + k)) with 6 by lia. subst buf2.
    rewrite skipn_app, firstn_app, skipn_length.
    replace (6 - (length buf1 - (cur0 + k))) with 0 by lia. cbn [firstn]. now rewrite app_nil_r. }
  assert (Hprek : length (firstn k (skipn cur0 buf1)) = k) by (rewrite firstn_length, skipn_length; lia).
  destruct (length buf2 - (cur0 + k) <? n) eqn:E2.
  { apply Nat.ltb_lt in E2. eexists [], _. repeat split; auto; [constructor|].
    right. destruct Hav2 as [?| ->]; [lia|]. cbn [concat]. rewrite app_nil_r.
    rewrite skipn_app, Hprek, Nat.sub_diag. rewrite (skipn_all2 (n := k) (firstn k (skipn cur0 buf1))) by lia. cbn [skipn app].
    rewrite Hhdr. fold n. rewrite app_length, Hprek, skipn_length. lia. }
  apply Nat.ltb_ge in E2.
  destruct (IH T k total buf2 (cur0 + k + n) (parsed + k + n) src2) as (items & rest & Hl & Hall & Hcons & Hshort); auto.
  - lia.
  - unfold remaining in *. lia.
  - intros t0 Ht0. specialize (Htot t0 Ht0). unfold remaining in *. lia.
  - rewrite Hl. exists (nslice (cur0 + k) (cur0 + k + n) buf2 :: items), rest. split; [reflexivity|]. split; [|split; [|exact Hshort]].
    + constructor; auto. unfold wfp.
      assert (Hlenp : length (nslice (cur0 + k) (cur0 + k + n) buf2) = n).
      { unfold nslice. rewrite firstn_length, skipn_length. lia. }
      rewrite Hlenp. unfold n at 1. f_equal. rewrite <- Hhdr.
      unfold nslice. replace (cur0 + k + n - (cur0 + k)) with n by lia.
      rewrite firstn_firstn. now replace (Nat.min 6 n) with 6 by lia.
    + assert (Hp : skipn (cur0 + k) buf2 = nslice (cur0 + k) (cur0 + k + n) buf2 ++ skipn (cur0 + k + n) buf2).
      { unfold nslice. replace (cur0 + k + n - (cur0 + k)) with n by lia. rewrite <- (skipn_skipn n (cur0 + k) buf2). now rewrite firstn_skipn. }
      rewrite Hp, <- app_assoc. constructor; auto.
Qed.
End Framer.
