(* Proofs/IeeeRealP.v — C04: the real number an IEEE-754 interchange pattern of exponent width ew and mantissa width mw
   (binary16: 5/10, binary32: 8/23, binary64: 11/52) decodes to is the one the standard defines,
     (-1)^s * 2^(1-bias) * (0 + f/2^mw)        for a zero exponent field,
     (-1)^s * 2^(E-bias) * (1 + f/2^mw)        otherwise (E below the all-ones value),
   exactly, with no rounding (every such number is a binary64 number); all-ones exponent: infinity / NaN. *)
From Coq Require Import ZArith Reals Lia Lra Bool.
From Flocq Require Import Core.Core IEEE754.BinarySingleNaN IEEE754.Bits.
From SPP Require Import Base.Sx Base.Floats.
Open Scope Z_scope.

Lemma normalize_exact m e s p : 0 <= p <= 53 -> Z.abs m < 2 ^ p -> -1074 <= e -> p + e <= 1024 ->
  B2R (binary_normalize 53 1024 P53 P53lt mode_NE m e s) = F2R (Float radix2 m e) /\
  is_finite (binary_normalize 53 1024 P53 P53lt mode_NE m e s) = true.
Proof.
  intros Hp Hm He Hpe.
  pose proof (binary_normalize_correct 53 1024 P53 P53lt mode_NE m e s) as H. cbv zeta in H.
  assert (G : generic_format radix2 (FLT_exp (3 - 1024 - 53) 53) (F2R (Float radix2 m e))).
  { apply generic_format_FLT. apply (FLT_spec radix2 (3 - 1024 - 53) 53 _ (Float radix2 m e)); cbn [Fnum Fexp]; try reflexivity; try lia.
    apply Z.lt_le_trans with (1 := Hm). change (Zpower radix2 53) with (2 ^ 53). apply Z.pow_le_mono_r; lia. }
  rewrite round_generic in H; auto with typeclass_instances.
  assert (B : (Rabs (F2R (Float radix2 m e)) < bpow radix2 1024)%R).
  { apply Rlt_le_trans with (bpow radix2 (p + e)).
    - apply F2R_lt_bpow. cbn [Fnum Fexp]. replace (p + e - e) with p by lia. rewrite Zpower_pos_powerRZ || idtac.
      change (Zpower radix2 p) with (radix2 ^ p). exact Hm.
    - apply bpow_le. lia. }
  rewrite (Rlt_bool_true _ _ B) in H. destruct H as (H1 & H2 & _). auto.
Qed.

Definition bias (ew : Z) : Z := 2 ^ (ew - 1) - 1.
(* the significand and exponent the standard assigns to the fields *)
Definition ieee_m (ef mf mw : Z) : Z := if ef =? 0 then mf else 2 ^ mw + mf.
Definition ieee_e (ef ew mw : Z) : Z := (if ef =? 0 then 1 else ef) - bias ew - mw.

Lemma pow2_cases ew : 2 <= ew <= 11 -> 2 ^ (ew - 1) <= 1024 /\ 2 ^ ew = 2 * 2 ^ (ew - 1) /\ 1 <= 2 ^ (ew - 1).
Proof.
  intro H. assert (C : ew = 2 \/ ew = 3 \/ ew = 4 \/ ew = 5 \/ ew = 6 \/ ew = 7 \/ ew = 8 \/ ew = 9 \/ ew = 10 \/ ew = 11) by lia.
  repeat (destruct C as [->|C]; [vm_compute; intuition congruence|]). subst. vm_compute; intuition congruence.
Qed.

Theorem of_parts_finite s ef mf ew mw : 2 <= ew <= 11 -> 1 <= mw <= 52 -> 0 <= ef < 2 ^ ew - 1 -> 0 <= mf < 2 ^ mw ->
  B2R (of_parts s ef mf ew mw) = F2R (Float radix2 (cond_Zopp s (ieee_m ef mf mw)) (ieee_e ef ew mw)) /\
  is_finite (of_parts s ef mf ew mw) = true.
Proof.
  intros Hew Hmw Hef Hmf. destruct (pow2_cases ew Hew) as (P1 & P2 & P3).
  assert (Q : 2 ^ mw <= 2 ^ 52) by (apply Z.pow_le_mono_r; lia).
  assert (Q1 : 2 ^ (mw + 1) = 2 * 2 ^ mw) by (rewrite Z.pow_add_r; lia).
  unfold of_parts. destruct (ef =? 2 ^ ew - 1) eqn:E1; [apply Z.eqb_eq in E1; lia|].
  destruct ((ef =? 0) && (mf =? 0))%bool eqn:E2.
  - apply andb_prop in E2 as [A B]. unfold ieee_m. rewrite A. apply Z.eqb_eq in B. subst mf.
    cbn [B2R is_finite]. split; auto. destruct s; cbn [cond_Zopp Z.opp]; now rewrite F2R_0.
  - fold (bias ew). fold (ieee_m ef mf mw). fold (ieee_e ef ew mw).
    assert (Hm : Z.abs (if s then - ieee_m ef mf mw else ieee_m ef mf mw) < 2 ^ (mw + 1)).
    { unfold ieee_m. destruct (ef =? 0), s; lia. }
    assert (He : -1074 <= ieee_e ef ew mw) by (unfold ieee_e, bias; destruct (ef =? 0) eqn:Z0; [lia|apply Z.eqb_neq in Z0; lia]).
    assert (Hpe : mw + 1 + ieee_e ef ew mw <= 1024) by (unfold ieee_e, bias; destruct (ef =? 0) eqn:Z0; lia).
    destruct (normalize_exact _ (ieee_e ef ew mw) s (mw + 1) ltac:(lia) Hm He Hpe) as [R F].
    split; [|exact F]. rewrite R. destruct s; reflexivity.
Qed.

(* the sign is the sign bit, also for zeros *)
Theorem of_parts_sign s ef mf ew mw : 2 <= ew <= 11 -> 1 <= mw <= 52 -> 0 <= ef < 2 ^ ew - 1 -> 0 <= mf < 2 ^ mw ->
  Bsign (of_parts s ef mf ew mw) = s.
Proof.
  intros Hew Hmw Hef Hmf. destruct (pow2_cases ew Hew) as (P1 & P2 & P3).
  assert (Q : 2 ^ mw <= 2 ^ 52) by (apply Z.pow_le_mono_r; lia).
  assert (Q1 : 2 ^ (mw + 1) = 2 * 2 ^ mw) by (rewrite Z.pow_add_r; lia).
  unfold of_parts. destruct (ef =? 2 ^ ew - 1) eqn:E1; [apply Z.eqb_eq in E1; lia|].
  destruct ((ef =? 0) && (mf =? 0))%bool eqn:E2; [reflexivity|].
  fold (bias ew). fold (ieee_m ef mf mw). fold (ieee_e ef ew mw).
  set (m := if s then - ieee_m ef mf mw else ieee_m ef mf mw).
  assert (Mpos : 0 < ieee_m ef mf mw).
  { unfold ieee_m. destruct (ef =? 0) eqn:Z0; [|lia]. cbn [andb] in E2. apply Z.eqb_neq in E2. lia. }
  assert (Hm : Z.abs m < 2 ^ (mw + 1)) by (unfold m, ieee_m in *; destruct (ef =? 0), s; lia).
  assert (He : -1074 <= ieee_e ef ew mw) by (unfold ieee_e, bias; destruct (ef =? 0) eqn:Z0; [lia|apply Z.eqb_neq in Z0; lia]).
  assert (Hpe : mw + 1 + ieee_e ef ew mw <= 1024) by (unfold ieee_e, bias; destruct (ef =? 0) eqn:Z0; lia).
  pose proof (binary_normalize_correct 53 1024 P53 P53lt mode_NE m (ieee_e ef ew mw) s) as H. cbv zeta in H.
  destruct (normalize_exact m (ieee_e ef ew mw) s (mw + 1) ltac:(lia) Hm He Hpe) as [R F].
  assert (G : generic_format radix2 (FLT_exp (3 - 1024 - 53) 53) (F2R (Float radix2 m (ieee_e ef ew mw)))).
  { rewrite <- R. apply generic_format_B2R. }
  rewrite round_generic in H; auto with typeclass_instances.
  assert (B : (Rabs (F2R (Float radix2 m (ieee_e ef ew mw))) < bpow radix2 1024)%R).
  { rewrite <- R. apply abs_B2R_lt_emax. }
  rewrite (Rlt_bool_true _ _ B) in H. destruct H as (_ & _ & S). rewrite S.
  unfold m. destruct s.
  - rewrite Rcompare_Lt; auto. apply F2R_lt_0. cbn [Fnum]. lia.
  - rewrite Rcompare_Gt; auto. apply F2R_gt_0. cbn [Fnum]. lia.
Qed.

(* all-ones exponent field *)
Theorem of_parts_special s ef mf ew mw : ef = 2 ^ ew - 1 ->
  of_parts s ef mf ew mw = if mf =? 0 then B754_infinity s else B754_nan.
Proof. intros ->. unfold of_parts. now rewrite Z.eqb_refl. Qed.

(* ---- in the words of the interchange format: the three bit fields of the pattern ---- *)
Definition field_s (ew mw bits : Z) : bool := Z.testbit bits (ew + mw).
Definition field_e (ew mw bits : Z) : Z := (bits / 2 ^ mw) mod 2 ^ ew.
Definition field_m (mw bits : Z) : Z := bits mod 2 ^ mw.

Lemma dec_ieee_fields ew mw bits : 0 <= ew -> 0 <= mw ->
  dec_ieee ew mw bits = of_parts (field_s ew mw bits) (field_e ew mw bits) (field_m mw bits) ew mw.
Proof.
  intros Hew Hmw. unfold dec_ieee, field_s, field_e, field_m.
  replace (2 ^ mw - 1) with (Z.ones mw) by (rewrite Z.ones_equiv; lia).
  replace (2 ^ ew - 1) with (Z.ones ew) by (rewrite Z.ones_equiv; lia).
  rewrite !Z.land_ones by lia. now rewrite Z.shiftr_div_pow2 by lia.
Qed.

Theorem dec_ieee_real ew mw bits : 2 <= ew <= 11 -> 1 <= mw <= 52 -> field_e ew mw bits <> 2 ^ ew - 1 ->
  B2R (dec_ieee ew mw bits) =
    F2R (Float radix2 (cond_Zopp (field_s ew mw bits) (ieee_m (field_e ew mw bits) (field_m mw bits) mw)) (ieee_e (field_e ew mw bits) ew mw)) /\
  is_finite (dec_ieee ew mw bits) = true /\ Bsign (dec_ieee ew mw bits) = field_s ew mw bits.
Proof.
  intros Hew Hmw Hne. rewrite dec_ieee_fields by lia.
  assert (He : 0 <= field_e ew mw bits < 2 ^ ew - 1).
  { unfold field_e in *. pose proof (Z.mod_pos_bound (bits / 2 ^ mw) (2 ^ ew) ltac:(apply Z.pow_pos_nonneg; lia)). lia. }
  assert (Hm : 0 <= field_m mw bits < 2 ^ mw) by (unfold field_m; apply Z.mod_pos_bound; apply Z.pow_pos_nonneg; lia).
  destruct (of_parts_finite (field_s ew mw bits) _ _ ew mw Hew Hmw He Hm) as [R F].
  repeat split; auto. now apply of_parts_sign.
Qed.
Theorem dec_ieee_special ew mw bits : 0 <= ew -> 0 <= mw -> field_e ew mw bits = 2 ^ ew - 1 ->
  dec_ieee ew mw bits = if field_m mw bits =? 0 then B754_infinity (field_s ew mw bits) else B754_nan.
Proof. intros Hew Hmw E. rewrite dec_ieee_fields by lia. now apply of_parts_special. Qed.

(* non-vacuity: binary32 0x40490FDB is 13176795 * 2^-22 = 3.14159274..., binary64 0xC000000000000000 is -2 *)
Example pi_single : B2R (dec_ieee 8 23 1078530011) = F2R (Float radix2 13176795 (-22)).
Proof. destruct (dec_ieee_real 8 23 1078530011 ltac:(lia) ltac:(lia) ltac:(vm_compute; congruence)) as (R & _). rewrite R. reflexivity. Qed.
