(* Proofs/FramerCCSDS.v — instantiation of the framer theorems with the CCSDS length field. *)
From Coq Require Import ZArith List Lia Bool Arith.
From SPP Require Import Base.Bytes Base.Sx Model.Cursor Model.Framer Proofs.CursorP Proofs.FramerP.
Import ListNotations.
Open Scope nat_scope.

Lemma plen_ccsds_pos h : 7 <= plen_ccsds h.
Proof. unfold plen_ccsds. lia. Qed.

Lemma spec_int_prefix A B p n : (0 <= p)%Z -> (0 <= n)%Z -> (p + n <= 8 * zlen A)%Z ->
  spec_int (A ++ B) p n = spec_int A p n.
Proof.
  intros Hp Hn H. unfold spec_int. rewrite bits_of_bytes_app. f_equal.
  pose proof (bits_of_bytes_length A) as L. unfold zlen in H.
  rewrite skipn_app. rewrite firstn_app. rewrite skipn_length.
  replace (Z.to_nat n - (length (bits_of_bytes A) - Z.to_nat p)) with 0 by lia.
  cbn [firstn]. now rewrite app_nil_r.
Qed.

(* a CCSDS packet: well-formed bytes, at least 7 of them, length field (bits 32..47) = data length - 1 *)
Definition ccsds_packet (p : list Z) : Prop :=
  wf p /\ 7 <= length p /\ spec_int p 32 16 = (zlen p - 7)%Z.

Lemma ccsds_wfp p : ccsds_packet p -> wfp plen_ccsds p.
Proof.
  intros (Hwf & Hlen & Hfield). unfold wfp, plen_ccsds.
  assert (H6 : length (firstn 6 p) = 6) by (rewrite firstn_length; lia).
  rewrite extract_bits_window; try lia.
  2:{ now apply wf_firstn. }
  2:{ unfold zlen. rewrite H6. lia. }
  rewrite window_spec; try lia.
  2:{ now apply wf_firstn. }
  2:{ unfold zlen. rewrite H6. lia. }
  rewrite <- (spec_int_prefix (firstn 6 p) (skipn 6 p)); try lia.
  2:{ unfold zlen. rewrite H6. lia. }
  rewrite firstn_skipn, Hfield. unfold zlen. lia.
Qed.

Lemma encode_length_ge plen pps : (forall h, 7 <= plen h) ->
  Forall (fun pp : list Z * list Z => wfp plen (snd pp)) pps -> length pps <= length (encode pps).
Proof.
  intros Hpos H. induction H as [|[pre p] t Hp Ht IH]; [cbn; lia|].
  unfold encode in *. cbn [map concat fst snd length]. rewrite !app_length. cbn [snd] in Hp.
  unfold wfp in Hp. pose proof (Hpos (firstn 6 p)). lia.
Qed.

Definition stream_ok (k : nat) (pps : list (list Z * list Z)) : Prop :=
  Forall (fun pp => length (fst pp) = k /\ ccsds_packet (snd pp)) pps.

Lemma stream_ok_wfp k pps : stream_ok k pps -> Forall (fun pp => length (fst pp) = k /\ wfp plen_ccsds (snd pp)) pps.
Proof. unfold stream_ok. apply Forall_impl. intros a [H1 H2]. split; auto. now apply ccsds_wfp. Qed.

(* C02: exact framing for the three source kinds, any chunking into non-empty chunks *)
Theorem frame_bytes_exact T k pps : stream_ok k pps ->
  frameT T 0 k (encode pps) [] = Some (map snd pps).
Proof.
  intro H. apply stream_ok_wfp in H. unfold frameT. cbn [Z.eqb].
  apply (frame_exact plen_ccsds plen_ccsds_pos); auto.
  - constructor.
  - lia.
  - cbn [skipn concat]. now rewrite app_nil_r.
  - intros t Ht. injection Ht as <-. lia.
  - cbn [concat length]. rewrite Nat.add_0_r.
    pose proof (encode_length_ge plen_ccsds pps plen_ccsds_pos) as L.
    assert (length pps <= length (encode pps)); [|lia]. apply L. eapply Forall_impl; [|exact H]. intros a [? ?]; auto.
Qed.

Theorem frame_chunked_exact T kind k junk pps cs : (kind = 1 \/ kind = 2)%Z -> stream_ok k pps ->
  nonempty cs -> concat cs = encode pps ->
  frameT T kind k junk cs = Some (map snd pps).
Proof.
  intros Hkind H Hne Hc. apply stream_ok_wfp in H. unfold frameT.
  assert (Hfuel : length pps < S (length junk + length (concat cs))).
  { rewrite Hc. pose proof (encode_length_ge plen_ccsds pps plen_ccsds_pos) as L.
    assert (length pps <= length (encode pps)); [|lia]. apply L. eapply Forall_impl; [|exact H]. intros a [? ?]; auto. }
  destruct Hkind as [-> | ->]; cbn [Z.eqb].
  - apply (frame_exact plen_ccsds plen_ccsds_pos); auto; try (cbn; lia); try (cbn; assumption).
    intros t Ht. injection Ht as <-. rewrite Hc. lia.
  - apply (frame_exact plen_ccsds plen_ccsds_pos); auto; try (cbn; lia); try (cbn; assumption).
    intros t Ht. discriminate.
Qed.

(* the trim threshold and the chunking are invisible *)
Theorem trim_and_chunking_irrelevant k pps fuel fuel' T T' cs cs' :
  stream_ok k pps -> nonempty cs -> nonempty cs' -> concat cs = encode pps -> concat cs' = encode pps ->
  length pps < fuel -> length pps < fuel' ->
  loop plen_ccsds fuel T k None [] 0 0 cs = loop plen_ccsds fuel' T' k None [] 0 0 cs'.
Proof.
  intros H Hne Hne' Hc Hc' Hf Hf'. apply stream_ok_wfp in H.
  rewrite (frame_exact plen_ccsds plen_ccsds_pos pps fuel T k None [] 0 0 cs); auto; try (cbn; lia); try (cbn; assumption); try discriminate.
  rewrite (frame_exact plen_ccsds plen_ccsds_pos pps fuel' T' k None [] 0 0 cs'); auto; try (cbn; lia); try (cbn; assumption); try discriminate.
Qed.

(* C10: any bytes, any chunking *)
Theorem frame_terminates T kind k stream cs :
  exists items rest, frameT T kind k stream cs = Some items /\
    Forall (wfp plen_ccsds) items /\
    consecutive k (if (kind =? 0)%Z then stream else concat cs) items rest.
Proof.
  unfold frameT.
  destruct (kind =? 0)%Z.
  - destruct (terminates_and_complete plen_ccsds plen_ccsds_pos (S (length stream + length (concat cs))) T k
               (Some (length stream)) stream 0 0 []) as (items & rest & H1 & H2 & H3).
    + lia.
    + unfold remaining. cbn [concat length]. lia.
    + exists items, rest. cbn [skipn concat] in H3. rewrite app_nil_r in H3. auto.
  - destruct (kind =? 1)%Z.
    + destruct (terminates_and_complete plen_ccsds plen_ccsds_pos (S (length stream + length (concat cs))) T k
               (Some (length (concat cs))) [] 0 0 cs) as (items & rest & H1 & H2 & H3).
      * cbn; lia.
      * unfold remaining. cbn [length]. lia.
      * exists items, rest. auto.
    + destruct (terminates_and_complete plen_ccsds plen_ccsds_pos (S (length stream + length (concat cs))) T k
               None [] 0 0 cs) as (items & rest & H1 & H2 & H3).
      * cbn; lia.
      * unfold remaining. cbn [length]. lia.
      * exists items, rest. auto.
Qed.

Theorem frame_remainder_short T kind k stream cs : nonempty cs ->
  exists items rest, frameT T kind k stream cs = Some items /\
    Forall (wfp plen_ccsds) items /\
    consecutive k (if (kind =? 0)%Z then stream else concat cs) items rest /\
    (length rest < k + 6 \/ length rest < k + plen_ccsds (firstn 6 (skipn k rest))).
Proof.
  intro Hne. unfold frameT.
  destruct (kind =? 0)%Z.
  - destruct (terminates_complete_short plen_ccsds plen_ccsds_pos (S (length stream + length (concat cs))) T k
               (Some (length stream)) stream 0 0 []) as (items & rest & H1 & H2 & H3 & H4).
    + constructor.
    + lia.
    + unfold remaining. cbn [concat length]. lia.
    + intros t Ht. injection Ht as <-. unfold remaining. cbn [concat length]. lia.
    + exists items, rest. cbn [skipn concat] in H3. rewrite app_nil_r in H3. auto.
  - destruct (kind =? 1)%Z.
    + destruct (terminates_complete_short plen_ccsds plen_ccsds_pos (S (length stream + length (concat cs))) T k
               (Some (length (concat cs))) [] 0 0 cs) as (items & rest & H1 & H2 & H3 & H4).
      * assumption.
      * cbn; lia.
      * unfold remaining. cbn [length]. lia.
      * intros t Ht. injection Ht as <-. unfold remaining. cbn [length]. lia.
      * exists items, rest. auto.
    + destruct (terminates_complete_short plen_ccsds plen_ccsds_pos (S (length stream + length (concat cs))) T k
               None [] 0 0 cs) as (items & rest & H1 & H2 & H3 & H4).
      * assumption.
      * cbn; lia.
      * unfold remaining. cbn [length]. lia.
      * discriminate.
      * exists items, rest. auto.
Qed.

(* an item is complete: its length is 7 + its own length field *)
Lemma wfp_length_field p : wf p -> wfp plen_ccsds p -> 6 <= length p ->
  zlen p = (7 + spec_int p 32 16)%Z.
Proof.
  intros Hwf Hp H6. unfold wfp, plen_ccsds in Hp.
  assert (L6 : length (firstn 6 p) = 6) by (rewrite firstn_length; lia).
  rewrite extract_bits_window in Hp; try lia.
  2:{ now apply wf_firstn. }
  2:{ unfold zlen. rewrite L6. lia. }
  rewrite window_spec in Hp; try lia.
  2:{ now apply wf_firstn. }
  2:{ unfold zlen. rewrite L6. lia. }
  rewrite <- (spec_int_prefix (firstn 6 p) (skipn 6 p)) in Hp; try lia.
  2:{ unfold zlen. rewrite L6. lia. }
  rewrite firstn_skipn in Hp.
  pose proof (spec_int_range p 32 16 ltac:(lia) Hwf ltac:(lia)) as R.
  unfold zlen in *. rewrite Hp. assert ((32 + 16 <= 8 * Z.of_nat (length p))%Z) by lia. specialize (R H). lia.
Qed.

(* non-vacuity: a two-packet stream with a 1-byte foreign prefix, cut into awkward chunks *)
Example two_packets :
  let p1 := [8; 1; 192; 0; 0; 0; 170]%Z in let p2 := [8; 2; 192; 1; 0; 1; 187; 204]%Z in
  stream_ok 1 [([99%Z], p1); ([98%Z], p2)] /\
  frame 1 1 [] [[99; 8; 1]; [192]; [0; 0; 0; 170; 98; 8; 2; 192; 1; 0]; [1; 187; 204]]%Z = Some [p1; p2].
Proof.
  cbn zeta. split; [|vm_compute; reflexivity].
  repeat constructor; cbn [length fst snd]; try lia; vm_compute; try reflexivity; intuition congruence.
Qed.
