From Coq Require Import ZArith.
From SPP Require Import Proofs.Half.Base.
Lemma ok : block 9 = true. Proof. vm_compute. reflexivity. Qed.
