(* Proofs/Half/All.v *)
From Coq Require Import ZArith Lia.
From SPP Require Import Base.Sx Base.Floats Proofs.Half.Base.
From SPP Require Proofs.Half.H00.
From SPP Require Proofs.Half.H01.
From SPP Require Proofs.Half.H02.
From SPP Require Proofs.Half.H03.
From SPP Require Proofs.Half.H04.
From SPP Require Proofs.Half.H05.
From SPP Require Proofs.Half.H06.
From SPP Require Proofs.Half.H07.
From SPP Require Proofs.Half.H08.
From SPP Require Proofs.Half.H09.
From SPP Require Proofs.Half.H10.
From SPP Require Proofs.Half.H11.
From SPP Require Proofs.Half.H12.
From SPP Require Proofs.Half.H13.
From SPP Require Proofs.Half.H14.
From SPP Require Proofs.Half.H15.
Open Scope Z_scope.
Theorem half_exhaustive bits : 0 <= bits < 65536 -> to_bits64 (dec_ieee 5 10 bits) = widen16 bits.
Proof.
  intro H.
  destruct (Z_lt_dec bits 4096); [apply (block_ok 0); [exact H00.ok|lia]|].
  destruct (Z_lt_dec bits 8192); [apply (block_ok 1); [exact H01.ok|lia]|].
  destruct (Z_lt_dec bits 12288); [apply (block_ok 2); [exact H02.ok|lia]|].
  destruct (Z_lt_dec bits 16384); [apply (block_ok 3); [exact H03.ok|lia]|].
  destruct (Z_lt_dec bits 20480); [apply (block_ok 4); [exact H04.ok|lia]|].
  destruct (Z_lt_dec bits 24576); [apply (block_ok 5); [exact H05.ok|lia]|].
  destruct (Z_lt_dec bits 28672); [apply (block_ok 6); [exact H06.ok|lia]|].
  destruct (Z_lt_dec bits 32768); [apply (block_ok 7); [exact H07.ok|lia]|].
  destruct (Z_lt_dec bits 36864); [apply (block_ok 8); [exact H08.ok|lia]|].
  destruct (Z_lt_dec bits 40960); [apply (block_ok 9); [exact H09.ok|lia]|].
  destruct (Z_lt_dec bits 45056); [apply (block_ok 10); [exact H10.ok|lia]|].
  destruct (Z_lt_dec bits 49152); [apply (block_ok 11); [exact H11.ok|lia]|].
  destruct (Z_lt_dec bits 53248); [apply (block_ok 12); [exact H12.ok|lia]|].
  destruct (Z_lt_dec bits 57344); [apply (block_ok 13); [exact H13.ok|lia]|].
  destruct (Z_lt_dec bits 61440); [apply (block_ok 14); [exact H14.ok|lia]|].
  destruct (Z_lt_dec bits 65536); [apply (block_ok 15); [exact H15.ok|lia]|].
  lia.
Qed.
