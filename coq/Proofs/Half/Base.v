(* Proofs/Half/Base.v — half precision, exhaustively: the field arithmetic of [dec_ieee 5 10] agrees with Flocq's own
   decoder of the binary16 interchange format ([binary_float_of_bits 10 5]) widened exactly to binary64 *)
From Coq Require Import ZArith List Bool Lia.
From Flocq Require Import Core.Core IEEE754.BinarySingleNaN IEEE754.Bits IEEE754.Binary.
From SPP Require Import Base.Sx Base.Floats.
Import ListNotations.
Open Scope Z_scope.

Definition widen16 (bits : Z) : Z :=
  match B2BSN 11 16 (binary_float_of_bits 10 5 eq_refl eq_refl eq_refl bits) with
  | BinarySingleNaN.B754_zero s => to_bits64 (BinarySingleNaN.B754_zero s)
  | BinarySingleNaN.B754_infinity s => to_bits64 (BinarySingleNaN.B754_infinity s)
  | BinarySingleNaN.B754_nan => NAN_BITS
  | BinarySingleNaN.B754_finite s m e _ =>
      to_bits64 (BinarySingleNaN.binary_normalize 53 1024 P53 P53lt mode_NE (if s then Z.neg m else Z.pos m) e s)
  end.
Definition half_agree (bits : Z) : bool := to_bits64 (dec_ieee 5 10 bits) =? widen16 bits.
Fixpoint zrange (start : Z) (n : nat) : list Z := match n with O => [] | S k => start :: zrange (start + 1) k end.
Lemma in_zrange n : forall s x, s <= x < s + Z.of_nat n -> In x (zrange s n).
Proof.
  induction n as [|k IH]; intros s x H; [lia|]. cbn [zrange]. destruct (Z.eq_dec s x); [now left|right]. apply IH. lia.
Qed.
Definition block (k : Z) : bool := forallb half_agree (zrange (k * 4096) (Z.to_nat 4096)).
Lemma block_ok k bits : block k = true -> k * 4096 <= bits < k * 4096 + 4096 -> to_bits64 (dec_ieee 5 10 bits) = widen16 bits.
Proof.
  intros Hb H. unfold block in Hb. rewrite forallb_forall in Hb. apply Z.eqb_eq. apply Hb. apply in_zrange. lia.
Qed.
