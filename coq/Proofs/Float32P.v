(* Proofs/Float32P.v — C18: a value decoded from an IEEE binary32 field survives storage in a float32 column:
   rounding it to binary32 and widening it again (numpy's float32 storage, [round32]) changes nothing. *)
From Coq Require Import ZArith Reals Lia Lra Bool.
From Flocq Require Import Core.Core IEEE754.BinarySingleNaN IEEE754.Bits.
From SPP Require Import Base.Sx Base.Floats Model.Xarr Proofs.IeeeRealP Proofs.BitsP.
Open Scope Z_scope.

Notation b32 := (binary_float 24 128).
Definition P24 : Prec_gt_0 24 := eq_refl.
Definition P24lt : Prec_lt_emax 24 128 := eq_refl.

(* exact normalisation into binary32, with the sign *)
Lemma normalize32_exact m e s : m <> 0 -> Z.abs m < 2 ^ 24 -> -149 <= e -> 24 + e <= 128 ->
  let y := binary_normalize 24 128 P24 P24lt mode_NE m e s in
  B2R y = F2R (Float radix2 m e) /\ is_finite y = true /\ Bsign y = (m <? 0).
Proof.
  intros Hm0 Hm He Hpe y. unfold y.
  pose proof (binary_normalize_correct 24 128 P24 P24lt mode_NE m e s) as H. cbv zeta in H.
  assert (G : generic_format radix2 (FLT_exp (3 - 128 - 24) 24) (F2R (Float radix2 m e))).
  { apply generic_format_FLT. apply (FLT_spec radix2 (3 - 128 - 24) 24 _ (Float radix2 m e)); cbn [Fnum Fexp]; try reflexivity; try lia. exact Hm. }
  rewrite round_generic in H; auto with typeclass_instances.
  assert (B : (Rabs (F2R (Float radix2 m e)) < bpow radix2 128)%R).
  { apply Rlt_le_trans with (bpow radix2 (24 + e)).
    - apply F2R_lt_bpow. cbn [Fnum Fexp]. replace (24 + e - e) with 24 by lia. exact Hm.
    - apply bpow_le. lia. }
  rewrite (Rlt_bool_true _ _ B) in H. destruct H as (H1 & H2 & H3). repeat split; auto. rewrite H3.
  destruct (Z.ltb_spec m 0) as [L|L].
  - rewrite Rcompare_Lt; auto. apply F2R_lt_0. exact L.
  - rewrite Rcompare_Gt; auto. apply F2R_gt_0. cbn [Fnum]. lia.
Qed.
Lemma normalize64_sign m e s p : m <> 0 -> 0 <= p <= 53 -> Z.abs m < 2 ^ p -> -1074 <= e -> p + e <= 1024 ->
  Bsign (binary_normalize 53 1024 P53 P53lt mode_NE m e s) = (m <? 0).
Proof.
  intros Hm0 Hp Hm He Hpe.
  pose proof (binary_normalize_correct 53 1024 P53 P53lt mode_NE m e s) as H. cbv zeta in H.
  destruct (normalize_exact m e s p Hp Hm He Hpe) as [R F].
  assert (G : generic_format radix2 (FLT_exp (3 - 1024 - 53) 53) (F2R (Float radix2 m e))) by (rewrite <- R; apply generic_format_B2R).
  rewrite round_generic in H; auto with typeclass_instances.
  assert (B : (Rabs (F2R (Float radix2 m e)) < bpow radix2 1024)%R) by (rewrite <- R; apply abs_B2R_lt_emax).
  rewrite (Rlt_bool_true _ _ B) in H. destruct H as (_ & _ & H3). rewrite H3.
  destruct (Z.ltb_spec m 0) as [L|L].
  - rewrite Rcompare_Lt; auto. apply F2R_lt_0. exact L.
  - rewrite Rcompare_Gt; auto. apply F2R_gt_0. cbn [Fnum]. lia.
Qed.

Lemma bounded32_shape (m : positive) (e : Z) : SpecFloat.bounded 24 128 m e = true -> Z.pos m < 2 ^ 24 /\ -149 <= e <= 104.
Proof.
  unfold SpecFloat.bounded, SpecFloat.canonical_mantissa. intro H. apply andb_prop in H as [H1 H2].
  apply Zeq_bool_eq in H1. apply Zle_bool_imp_le in H2. rewrite Zpos_digits2_pos in H1.
  pose proof (Zdigits_correct radix2 (Z.pos m)) as D. set (d := Zdigits radix2 (Z.pos m)) in *.
  change (Zpower radix2 (d - 1)) with (2 ^ (d - 1)) in D. change (Zpower radix2 d) with (2 ^ d) in D. rewrite Z.abs_eq in D by lia.
  unfold SpecFloat.fexp, SpecFloat.emin in H1. assert (Hd : 0 < d) by (apply Zdigits_gt_0; lia). clearbody d.
  assert (d <= 24) by lia. assert (2 ^ d <= 2 ^ 24) by (apply Z.pow_le_mono_r; lia). lia.
Qed.

Theorem round32_exact bits : round32 (to_bits64 (dec_ieee 8 23 bits)) = to_bits64 (dec_ieee 8 23 bits).
Proof.
  unfold round32. rewrite bits_roundtrip.
  destruct (Z.eq_dec (field_e 8 23 bits) (2 ^ 8 - 1)) as [Sp|Fin].
  { rewrite (dec_ieee_special 8 23 bits ltac:(lia) ltac:(lia) Sp). destruct (field_m 23 bits =? 0); reflexivity. }
  destruct (dec_ieee_real 8 23 bits ltac:(lia) ltac:(lia) Fin) as (R & F & Sg).
  set (M := ieee_m (field_e 8 23 bits) (field_m 23 bits) 23) in *. set (E := ieee_e (field_e 8 23 bits) 8 23) in *.
  assert (HM : 0 <= M < 2 ^ 24 /\ -149 <= E <= 104).
  { unfold M, E, ieee_m, ieee_e, bias, field_e, field_m in *.
    pose proof (Z.mod_pos_bound (bits / 2 ^ 23) (2 ^ 8) ltac:(lia)). pose proof (Z.mod_pos_bound bits (2 ^ 23) ltac:(lia)).
    change (2 ^ 24) with (2 * 2 ^ 23). change (2 ^ (8 - 1)) with 128. change (2 ^ 8) with 256 in *.
    destruct (Z.eqb_spec ((bits / 2 ^ 23) mod 256) 0); lia. }
  destruct (dec_ieee 8 23 bits) as [s|s| |s m e Hb] eqn:X; try reflexivity.
  cbn [Bsign] in Sg. cbn [B2R] in R.
  set (mz := if s then Z.neg m else Z.pos m).
  assert (Emz : mz = cond_Zopp s (Z.pos m)) by (unfold mz; destruct s; reflexivity).
  assert (Mpos : 0 < M).
  { destruct (Z.eq_dec M 0) as [Z0|]; [|lia]. exfalso. rewrite Z0 in R. destruct (field_s 8 23 bits); cbn [cond_Zopp Z.opp] in R; rewrite F2R_0 in R;
      apply eq_0_F2R in R; destruct s; discriminate. }
  (* the value is a binary32 number: rounding to 24 bits is exact *)
  pose proof (binary_normalize_correct 24 128 P24 P24lt mode_NE mz e s) as C. cbv zeta in C.
  assert (RR : F2R (Float radix2 mz e) = F2R (Float radix2 (cond_Zopp (field_s 8 23 bits) M) E)) by (rewrite <- R; unfold mz; destruct s; reflexivity).
  rewrite RR in C.
  assert (G : generic_format radix2 (FLT_exp (3 - 128 - 24) 24) (F2R (Float radix2 (cond_Zopp (field_s 8 23 bits) M) E))).
  { apply generic_format_FLT. apply (FLT_spec radix2 (3 - 128 - 24) 24 _ (Float radix2 (cond_Zopp (field_s 8 23 bits) M) E)); cbn [Fnum Fexp]; try reflexivity; try lia.
    rewrite abs_cond_Zopp. rewrite Z.abs_eq by lia. change (Zpower radix2 24) with (2 ^ 24). lia. }
  rewrite round_generic in C; auto with typeclass_instances.
  assert (B : (Rabs (F2R (Float radix2 (cond_Zopp (field_s 8 23 bits) M) E)) < bpow radix2 128)%R).
  { apply Rlt_le_trans with (bpow radix2 (24 + E)).
    - apply F2R_lt_bpow. cbn [Fnum Fexp]. replace (24 + E - E) with 24 by lia. rewrite abs_cond_Zopp, Z.abs_eq by lia. change (Zpower radix2 24) with (2 ^ 24). lia.
    - apply bpow_le. lia. }
  rewrite (Rlt_bool_true _ _ B) in C. destruct C as (C1 & C2 & C3).
  change (binary_normalize 24 128 eq_refl eq_refl mode_NE mz e s) with (binary_normalize 24 128 P24 P24lt mode_NE mz e s).
  remember (binary_normalize 24 128 P24 P24lt mode_NE mz e s) as y eqn:Y. clear Y.
  destruct y as [s'|s'| |s' m' e' Hb']; [|discriminate C2|discriminate C2|].
  - (* a zero: impossible, the value is not zero *)
    exfalso. cbn [B2R] in C1. symmetry in C1. apply eq_0_F2R in C1. cbn [Fnum] in C1. destruct (field_s 8 23 bits); cbn [cond_Zopp] in C1; lia.
  - (* widen again *)
    destruct (bounded32_shape m' e' Hb') as [Hm' He'].
    set (mz' := if s' then Z.neg m' else Z.pos m').
    assert (Emz' : mz' = cond_Zopp s' (Z.pos m')) by (unfold mz'; destruct s'; reflexivity).
    assert (A' : Z.abs mz' < 2 ^ 24) by (unfold mz'; destruct s'; cbn [Z.abs]; lia).
    destruct (normalize_exact mz' e' s' 24 ltac:(lia) A' ltac:(lia) ltac:(lia)) as [R' F'].
    pose proof (normalize64_sign mz' e' s' 24 ltac:(unfold mz'; destruct s'; discriminate) ltac:(lia) A' ltac:(lia) ltac:(lia)) as S'.
    f_equal. apply B2R_Bsign_inj; auto.
    + rewrite R'. cbn [B2R] in C1. cbn [B2R]. rewrite R, <- C1. unfold mz'. destruct s'; reflexivity.
    + rewrite S'. cbn [Bsign]. cbn [Bsign] in C3.
      assert (Hs : s' = s).
      { rewrite C3. destruct (field_s 8 23 bits) eqn:FS; cbn [cond_Zopp].
        - rewrite Rcompare_Lt; [now rewrite <- Sg|]. apply F2R_lt_0. cbn [Fnum]. lia.
        - rewrite Rcompare_Gt; [now rewrite <- Sg|]. apply F2R_gt_0. cbn [Fnum]. lia. }
      unfold mz'. rewrite Hs. destruct s; reflexivity.
Qed.

(* as stored: a float32 column holds every binary32-decoded value unchanged *)
Theorem float32_lossless bits : store DF32 (Model.Values.PFloat (to_bits64 (dec_ieee 8 23 bits))) = Ok (Model.Values.PFloat (to_bits64 (dec_ieee 8 23 bits))).
Proof. cbn [store]. now rewrite round32_exact. Qed.
