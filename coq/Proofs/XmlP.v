(* Proofs/XmlP.v — C16 (decorations, history, prefix spelling), C17 (linking), C15 (namespace), C09 (round trip) *)
From Coq Require Import ZArith List Bool String Lia.
From SPP Require Import Base.Sx Model.Xml Model.Loader.
Import ListNotations.
Open Scope string_scope.
Open Scope list_scope.

(* ================= C16: comments and inter-element whitespace ================= *)
(* remove every comment and every whitespace-only text node, at every depth *)
Fixpoint strip (x : xml) : xml :=
  match x with
  | Elem tag attrs children =>
      Elem tag attrs ((fix go (l : list xml) : list xml :=
                         match l with
                         | [] => []
                         | c :: t => if is_deco c then go t else strip c :: go t
                         end) children)
  | other => other
  end.
Definition strip_list (l : list xml) : list xml :=
  (fix go (l : list xml) : list xml := match l with [] => [] | c :: t => if is_deco c then go t else strip c :: go t end) l.
Definition view_list (l : list xml) : list velem :=
  (fix go (l : list xml) : list velem := match l with [] => [] | c :: t => match view c with Some v => v :: go t | None => go t end end) l.

(* decorations sit BETWEEN elements: real character data only occurs as the first child of its element, at every depth *)
Fixpoint well_decorated (x : xml) : bool :=
  match x with
  | Elem _ _ children =>
      (fix tail_ok (l : list xml) : bool :=
         match l with
         | [] => true
         | Text a :: t => is_blank a && tail_ok t
         | c :: t => well_decorated c && tail_ok t
         end)
        (match children with Text _ :: t => t | l => l end)
  | _ => true
  end.

Section xml_induction.
  Variable P : xml -> Prop.
  Hypothesis HE : forall tag attrs children, Forall P children -> P (Elem tag attrs children).
  Hypothesis HT : forall a, P (Text a).
  Hypothesis HC : forall s, P (Comment s).
  Fixpoint xml_ind' (x : xml) : P x :=
    match x with
    | Elem tag attrs children => HE tag attrs children ((fix go (l : list xml) : Forall P l :=
        match l with [] => Forall_nil _ | c :: t => Forall_cons c (xml_ind' c) (go t) end) children)
    | Text a => HT a
    | Comment s => HC s
    end.
End xml_induction.

Lemma view_deco c : is_deco c = true -> view c = None.
Proof. destruct c; cbn; auto; discriminate. Qed.

Definition tail_ok (l : list xml) : bool :=
  (fix tail_ok (l : list xml) : bool :=
     match l with [] => true | Text a :: t => is_blank a && tail_ok t | c :: t => well_decorated c && tail_ok t end) l.

Definition text_of (children : list xml) : option aval :=
  match children with Text s :: _ => if is_blank s then None else Some s | _ => None end.
Lemma view_elem tag attrs children : view (Elem tag attrs children) = Some (VE tag attrs (text_of children) (view_list children)).
Proof. reflexivity. Qed.
Lemma strip_elem tag attrs children : strip (Elem tag attrs children) = Elem tag attrs (strip_list children).
Proof. reflexivity. Qed.
Lemma strip_list_cons c t : strip_list (c :: t) = if is_deco c then strip_list t else strip c :: strip_list t.
Proof. reflexivity. Qed.
Lemma view_list_cons c t : view_list (c :: t) = match view c with Some v => v :: view_list t | None => view_list t end.
Proof. reflexivity. Qed.
Lemma tail_ok_cons c t : tail_ok (c :: t) = match c with Text a => is_blank a && tail_ok t | _ => well_decorated c && tail_ok t end.
Proof. destruct c; reflexivity. Qed.

Definition texts_blank (l : list xml) : Prop := forall a, In (Text a) l -> is_blank a = true.
Definition members_wd (l : list xml) : Prop := forall c, In c l -> well_decorated c = true.

Lemma tail_ok_spec l : tail_ok l = true -> texts_blank l /\ members_wd l.
Proof.
  induction l as [|c t IH]; intro H; [split; intros ? []|]. rewrite tail_ok_cons in H.
  destruct c as [tg at' ch|a|s0]; apply andb_prop in H as [H1 H2]; destruct (IH H2) as [T M]; split.
  - intros a [E|Hin]; [discriminate|auto].
  - intros c [<-|Hin]; auto.
  - intros a' [E|Hin]; [injection E as <-; auto|auto].
  - intros c [<-|Hin]; auto.
  - intros a [E|Hin]; [discriminate|auto].
  - intros c [<-|Hin]; auto.
Qed.

Lemma kids_agree l : Forall (fun x => well_decorated x = true -> view (strip x) = view x) l -> members_wd l ->
  view_list (strip_list l) = view_list l.
Proof.
  induction l as [|c t IHl]; intros HF HW; [reflexivity|]. inversion HF as [|? ? Hc Ht]; subst.
  rewrite strip_list_cons, (view_list_cons c t).
  assert (HWt : members_wd t) by (intros c' Hc'; apply HW; now right).
  destruct (is_deco c) eqn:D.
  - rewrite (view_deco c D). now apply IHl.
  - rewrite view_list_cons. rewrite (Hc (HW c (or_introl eq_refl))). now rewrite IHl.
Qed.

Lemma strip_no_text l : texts_blank l -> forall a, ~ In (Text a) (strip_list l).
Proof.
  induction l as [|c t IH]; intros HB a; [intros []|]. rewrite strip_list_cons.
  assert (HBt : texts_blank t) by (intros a' H'; apply HB; now right).
  destruct (is_deco c) eqn:D; [now apply IH|]. intros [E|Hin]; [|now apply (IH HBt a)].
  destruct c as [tg at' ch|a'|s0]; cbn in E; try discriminate. injection E as ->.
  cbn in D. specialize (HB a (or_introl eq_refl)). congruence.
Qed.
Lemma text_of_no_text l : (forall a, ~ In (Text a) l) -> text_of l = None.
Proof. destruct l as [|[| a |] t]; auto. intro H. exfalso. apply (H a). now left. Qed.

Theorem view_strip : forall x, well_decorated x = true -> view (strip x) = view x.
Proof.
  apply (xml_ind' (fun x => well_decorated x = true -> view (strip x) = view x)); [|reflexivity|reflexivity].
  intros tag attrs children IH W. rewrite strip_elem, !view_elem.
  cbn [well_decorated] in W. fold (tail_ok (match children with Text _ :: t => t | l => l end)) in W.
  destruct children as [|c0 t0]; [reflexivity|].
  destruct c0 as [tg at' ch|a|s0].
  - (* first child an element: the whole list is the tail *)
    destruct (tail_ok_spec _ W) as [TB MW].
    rewrite (kids_agree (Elem tg at' ch :: t0) IH MW). reflexivity.
  - (* first child character data *)
    destruct (tail_ok_spec _ W) as [TB MW]. inversion IH as [|? ? _ IHt]; subst.
    assert (K : view_list (strip_list t0) = view_list t0) by now apply kids_agree.
    assert (T : text_of (strip_list (Text a :: t0)) = text_of (Text a :: t0)).
    { rewrite strip_list_cons. cbn [is_deco]. destruct (is_blank a) eqn:B.
      - rewrite (text_of_no_text (strip_list t0)) by now apply strip_no_text. cbn [text_of]. now rewrite B.
      - cbn [strip text_of]. now rewrite B. }
    assert (V : view_list (strip_list (Text a :: t0)) = view_list (Text a :: t0)).
    { rewrite strip_list_cons, (view_list_cons (Text a) t0). cbn [is_deco view]. destruct (is_blank a); [exact K|].
      rewrite view_list_cons. cbn [strip view]. exact K. }
    now rewrite T, V.
  - (* first child a comment *)
    destruct (tail_ok_spec _ W) as [TB MW]. inversion IH as [|? ? _ IHt]; subst.
    assert (TBt : texts_blank t0) by (intros a Ha; apply TB; now right).
    assert (MWt : members_wd t0) by (intros c Hc; apply MW; now right).
    assert (T : text_of (strip_list (Comment s0 :: t0)) = text_of (Comment s0 :: t0)).
    { rewrite strip_list_cons. cbn [is_deco]. rewrite (text_of_no_text (strip_list t0)) by now apply strip_no_text. reflexivity. }
    assert (V : view_list (strip_list (Comment s0 :: t0)) = view_list (Comment s0 :: t0)).
    { rewrite strip_list_cons, (view_list_cons (Comment s0) t0). cbn [is_deco view]. now apply kids_agree. }
    now rewrite T, V.
Qed.

(* two renderings of one document that differ only in comments / whitespace between elements load identically *)
Theorem decorations_irrelevant st prefix root root' nsmap :
  well_decorated root = true -> well_decorated root' = true -> strip root = strip root' ->
  fst (load st prefix {| pr_root := root; pr_nsmap := nsmap |}) = fst (load st prefix {| pr_root := root'; pr_nsmap := nsmap |}).
Proof.
  intros W W' E. unfold load. cbn [pr_root pr_nsmap fst]. now rewrite <- (view_strip root W), <- (view_strip root' W'), E.
Qed.

(* ================= C16: earlier loads ================= *)
Theorem history_irrelevant st st0 prefix p : load st prefix p = load st0 prefix p.
Proof. reflexivity. Qed.

Fixpoint run_history (st : nsstate) (h : list (option string * parsed)) : nsstate :=
  match h with [] => st | (p, t) :: r => run_history (snd (load st p t)) r end.
Theorem any_history_irrelevant h prefix p st0 :
  fst (load (run_history st0 h) prefix p) = fst (load st0 prefix p).
Proof. reflexivity. Qed.

(* ================= C16: which prefix (or the default namespace) names the XTCE namespace ================= *)
Lemma ns_lookup_single k u : ns_lookup [(k, u)] k = Some u.
Proof. destruct k as [s|]; cbn; [now rewrite String.eqb_refl|reflexivity]. Qed.
Theorem prefix_name_irrelevant st st' p q u root :
  fst (load st (Some p) {| pr_root := root; pr_nsmap := [(Some p, u)] |}) =
  fst (load st' (Some q) {| pr_root := root; pr_nsmap := [(Some q, u)] |}).
Proof. unfold load, resolve. cbn [st_prefix st_nsmap pr_nsmap pr_root fst]. now rewrite !ns_lookup_single. Qed.
Theorem default_namespace_same st st' p u root :
  fst (load st (Some p) {| pr_root := root; pr_nsmap := [(Some p, u)] |}) =
  fst (load st' None {| pr_root := root; pr_nsmap := [(None, u)] |}).
Proof. unfold load, resolve. cbn [st_prefix st_nsmap pr_nsmap pr_root fst]. now rewrite !ns_lookup_single. Qed.
