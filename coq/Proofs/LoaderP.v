(* Proofs/LoaderP.v — C17: the linked definition is a consistent graph; broken documents are rejected *)
From Coq Require Import ZArith List Bool String Lia.
From SPP Require Import Base.Sx Model.Xml Model.Loader.
Import ListNotations.
Open Scope string_scope.
Open Scope list_scope.

Lemma mem_In n l : mem n l = true <-> In n l.
Proof.
  unfold mem. rewrite existsb_exists. split.
  - intros (x & Hx & E). apply String.eqb_eq in E. now subst.
  - intro H. exists n. split; auto. apply String.eqb_refl.
Qed.
Lemma mem_false n l : mem n l = false <-> ~ In n l.
Proof. rewrite <- mem_In. destruct (mem n l); split; congruence. Qed.

Lemma nodup_snoc (l : list string) x : NoDup l -> ~ In x l -> NoDup (l ++ [x]).
Proof.
  induction l as [|a t IH]; intros Hn Hx; cbn; [constructor; [tauto|constructor]|].
  inversion Hn; subst. constructor.
  - rewrite in_app_iff. cbn. intros [H|[H|[]]]; [contradiction|subst; apply Hx; now left].
  - apply IH; auto. intro; apply Hx; now right.
Qed.

(* ---------- parameter types ---------- *)
Theorem types_unique ts : forall acc l, link_types ts acc = Ok l -> NoDup (map fst acc) ->
  NoDup (map fst l) /\ l = acc ++ map (fun t => (xt_name t, t)) ts.
Proof.
  induction ts as [|t r IH]; intros acc l H Hn; cbn [link_types] in H.
  - injection H as <-. now rewrite app_nil_r.
  - destruct (mem (xt_name t) (map fst acc)) eqn:M; [discriminate|]. apply mem_false in M.
    destruct (IH _ _ H) as [H1 H2].
    + rewrite map_app. cbn. now apply nodup_snoc.
    + split; auto. rewrite H2. cbn [map]. now rewrite <- app_assoc.
Qed.
Theorem types_ok_or_valueerror ts : forall acc, (exists l, link_types ts acc = Ok l) \/ link_types ts acc = Err EValue.
Proof.
  induction ts as [|t r IH]; intro acc; cbn [link_types]; [left; eauto|].
  destruct (mem (xt_name t) (map fst acc)); [now right|apply IH].
Qed.
(* duplicate parameter-type names are rejected *)
Theorem duplicate_type_rejected ts : ~ NoDup (map xt_name ts) -> link_types ts [] = Err EValue.
Proof.
  intro H. destruct (types_ok_or_valueerror ts []) as [[l Hl]|E]; auto. exfalso. apply H.
  destruct (types_unique ts [] l Hl ltac:(constructor)) as [Hn ->]. cbn [app] in Hn. now rewrite map_map in Hn.
Qed.

(* ---------- parameters ---------- *)
Lemma assoc_In {A} (l : list (string * A)) n v : assoc l n = Some v -> In (n, v) l.
Proof.
  induction l as [|[k w] t IH]; cbn; [discriminate|]. destruct (String.eqb k n) eqn:E.
  - intro H. injection H as ->. apply String.eqb_eq in E. subst. now left.
  - intro H. right. auto.
Qed.
Theorem params_resolve types ps : forall acc l, link_params types ps acc = Ok l -> NoDup (map fst acc) ->
  NoDup (map fst l) /\ l = acc ++ map (fun p => (xp_name p, p)) ps /\
  Forall (fun p => exists t, assoc types (xp_type p) = Some t) ps.
Proof.
  induction ps as [|p r IH]; intros acc l H Hn; cbn [link_params] in H.
  - injection H as <-. rewrite app_nil_r. auto.
  - destruct (assoc types (xp_type p)) as [t|] eqn:A; [|discriminate].
    destruct (mem (xp_name p) (map fst acc)) eqn:M; [discriminate|]. apply mem_false in M.
    destruct (IH _ _ H) as (H1 & H2 & H3).
    + rewrite map_app. cbn. now apply nodup_snoc.
    + repeat split; auto.
      * rewrite H2. cbn [map]. now rewrite <- app_assoc.
      * constructor; eauto.
Qed.
(* a parameter whose type reference does not resolve is rejected (KeyError), unless an earlier problem was reported first *)
Theorem dangling_type_rejected types ps p : In p ps -> assoc types (xp_type p) = None ->
  forall acc, exists e, link_params types ps acc = Err e.
Proof.
  induction ps as [|q r IH]; intros Hin Hnone acc; [destruct Hin|]. cbn [link_params].
  destruct Hin as [->|Hin].
  - rewrite Hnone. eauto.
  - destruct (assoc types (xp_type q)); [|eauto]. destruct (mem (xp_name q) (map fst acc)); [eauto|]. now apply IH.
Qed.

(* ---------- inheritors: exactly the containers that name the container as their base, each once, in lookup order ---------- *)
Theorem inheritors_exact lookup b n : In n (inheritors_of lookup b) <-> exists c, In (n, c) lookup /\ xk_base c = Some b.
Proof.
  unfold inheritors_of. rewrite in_map_iff. split.
  - intros ([k c] & <- & H). apply filter_In in H as [H1 H2]. cbn [snd fst] in *. exists c. split; auto.
    destruct (xk_base c) as [b'|]; [|discriminate]. apply String.eqb_eq in H2. now subst.
  - intros (c & H1 & H2). exists (n, c). split; auto. apply filter_In. split; auto. cbn [snd]. rewrite H2. apply String.eqb_refl.
Qed.
Lemma nodup_map_filter {A} (f : string * A -> bool) (l : list (string * A)) : NoDup (map fst l) -> NoDup (map fst (filter f l)).
Proof.
  induction l as [|x t IH]; cbn; intro H; [constructor|]. inversion H; subst. destruct (f x); cbn; auto.
  constructor; auto. intro Hin. apply H2. apply in_map_iff in Hin as (y & E & Hy). apply filter_In in Hy as [Hy _].
  apply in_map_iff. eauto.
Qed.
Theorem inheritors_once lookup b : NoDup (map fst lookup) -> NoDup (inheritors_of lookup b).
Proof. apply nodup_map_filter. Qed.

(* ---------- the linked graph ---------- *)
Theorem link_wf sxc d g : link sxc d = Ok g ->
  (* every base-container reference resolves to a container of the graph *)
  Forall (fun kc => match xk_base (lk (snd kc)) with Some b => In b (map fst (g_containers g)) | None => True end) (g_containers g) /\
  (* every cached parameter and type is the document's own element of that name *)
  Forall (fun np => In (snd np) (xd_params d) /\ xp_name (snd np) = fst np) (g_params g) /\
  Forall (fun nt => In (snd nt) (xd_types d) /\ xt_name (snd nt) = fst nt) (g_types g) /\
  (* inheritor lists are those computed from the base references *)
  Forall (fun kc => forall n, In n (lk_inheritors (snd kc)) <->
                    exists c, In (n, c) (map (fun x => (fst x, lk (snd x))) (g_containers g)) /\ xk_base c = Some (fst kc)) (g_containers g).
Proof.
  unfold link. destruct (link_types (xd_types d) []) as [types|] eqn:T; cbn [bind]; [|discriminate].
  destruct (link_params types (xd_params d) []) as [params|] eqn:P; cbn [bind]; [|discriminate].
  destruct (link_containers sxc _ d params (xd_containers d) []) as [lookup|] eqn:C; cbn [bind]; [|discriminate].
  destruct (forallb _ lookup) eqn:B; [|discriminate]. intro H. injection H as <-. cbn [g_containers g_params g_types].
  destruct (types_unique _ _ _ T ltac:(constructor)) as [_ ->].
  destruct (params_resolve _ _ _ _ P ltac:(constructor)) as (_ & -> & _). cbn [app] in *.
  assert (MF : map fst (map (fun kc : string * xcontainer => (fst kc, {| lk := snd kc; lk_inheritors := inheritors_of lookup (fst kc) |})) lookup)
               = map fst lookup) by (rewrite map_map; apply map_ext; reflexivity).
  repeat split.
  - rewrite Forall_forall. intros kc Hin. apply in_map_iff in Hin as ([k c] & <- & Hkc). cbn [snd lk fst].
    rewrite forallb_forall in B. specialize (B _ Hkc). cbn [snd] in B. destruct (xk_base c) as [b|]; auto.
    rewrite MF. now apply mem_In.
  - rewrite Forall_forall. intros np Hin. apply in_flat_map in Hin as (n & _ & Hn).
    destruct (assoc _ n) as [p|] eqn:A; [|destruct Hn]. destruct Hn as [<-|[]]. cbn [fst snd].
    apply assoc_In in A. apply in_map_iff in A as (p' & E & Hp'). injection E as <- <-. auto.
  - rewrite Forall_forall. intros nt Hin. apply in_flat_map in Hin as (n & _ & Hn).
    destruct (assoc _ n) as [t|] eqn:A; [|destruct Hn]. destruct Hn as [<-|[]]. cbn [fst snd].
    apply assoc_In in A. apply in_map_iff in A as (t' & E & Ht'). injection E as <- <-. auto.
  - rewrite Forall_forall. intros kc Hin. apply in_map_iff in Hin as ([k c] & <- & Hkc). cbn [snd lk_inheritors fst]. intro n.
    rewrite inheritors_exact. rewrite map_map. cbn [fst snd lk].
    assert (E : map (fun x : string * xcontainer => (fst x, snd x)) lookup = lookup) by (rewrite <- (map_id lookup) at 2; apply map_ext; intros []; reflexivity).
    now rewrite E.
Qed.
