(* Proofs/XarrP.v — C18 *)
From Coq Require Import ZArith List Bool String Lia.
From SPP Require Import Base.Bytes Base.Sx Base.Floats Model.Cursor Model.Values Model.Criteria Model.Doc Model.Decode
  Model.Header Model.Generator Model.Xarr.
Import ListNotations.
Open Scope Z_scope.

Fixpoint get_apid (tb : table) (a : Z) : option (list (string * list payload)) :=
  match tb with [] => None | (k, cols) :: t => if k =? a then Some cols else get_apid t a end.

(* one packet: other APIDs untouched; its own APID gets exactly one value appended at the end of every column *)
Theorem add_packet_step tb a e tb' : add_packet tb a e = Ok tb' ->
  (forall b, b <> a -> get_apid tb' b = get_apid tb b) /\
  get_apid tb' a = match get_apid tb a with
                   | Some cols => Some (append_cols cols e)
                   | None => Some (map (fun kv => (fst kv, [snd kv])) e)
                   end /\
  map fst tb' = map fst tb ++ (match get_apid tb a with Some _ => [] | None => [a] end).
Proof.
  revert tb'. induction tb as [|[k cols] t IH]; intros tb' H; cbn [add_packet] in H.
  - injection H as <-. cbn. rewrite Z.eqb_refl. repeat split; auto. intros b Hb. replace (a =? b) with false by (symmetry; apply Z.eqb_neq; lia). reflexivity.
  - destruct (k =? a) eqn:E.
    + apply Z.eqb_eq in E. subst k. destruct (same_keys (map fst cols) (map fst e)); [|discriminate]. injection H as <-.
      cbn [get_apid map fst]. rewrite Z.eqb_refl. repeat split; auto.
      * intros b Hb. replace (a =? b) with false by (symmetry; apply Z.eqb_neq; lia). reflexivity.
      * now rewrite app_nil_r.
    + destruct (add_packet t a e) as [r|] eqn:R; cbn [bind] in H; [|discriminate]. injection H as <-.
      destruct (IH r eq_refl) as (H1 & H2 & H3). cbn [get_apid map fst]. rewrite E. repeat split; auto.
      * intros b Hb. destruct (k =? b); auto.
      * cbn [app]. now rewrite H3.
Qed.

(* a packet whose field set differs from the first packet of its APID: ValueError *)
Theorem fieldset_mismatch tb a e cols : get_apid tb a = Some cols -> same_keys (map fst cols) (map fst e) = false ->
  add_packet tb a e = Err EValue.
Proof.
  induction tb as [|[k c] t IH]; cbn [get_apid add_packet]; [discriminate|]. intros H1 H2.
  destruct (k =? a); [injection H1 as ->; now rewrite H2|]. now rewrite (IH H1 H2).
Qed.

(* appending keeps every earlier value in place: columns only grow at the end, in arrival order *)
Lemma append_cols_grows cols e : map fst (append_cols cols e) = map fst cols /\
  Forall2 (fun old new => snd new = snd old \/ exists v, snd new = snd old ++ [v]) cols (append_cols cols e).
Proof.
  induction cols as [|[k col] t [IH1 IH2]]; cbn [append_cols map]; [split; constructor|]. split; [cbn; now rewrite IH1|].
  constructor; auto. cbn [snd].
  match goal with |- context [match ?X with Some _ => _ | None => _ end] => destruct X end; eauto.
Qed.

(* ---- storage ---- *)
Theorem int_fits n signed v : 1 <= n <= 64 ->
  (signed = true -> - 2 ^ (n - 1) <= v < 2 ^ (n - 1)) -> (signed = false -> 0 <= v < 2 ^ n) ->
  forall o d c, store (min_dtype_enc (ENum {| ne_size := n; ne_kind := KInt signed; ne_order := o; ne_default := d; ne_context := c |})) (PInt v)
  = Ok (PInt v).
Proof.
  intros Hn Hs Hu o d c. cbn [min_dtype_enc ne_kind ne_size]. unfold int_bits.
  assert (Hv : if signed then - 2 ^ (n - 1) <= v < 2 ^ (n - 1) else 0 <= v < 2 ^ n) by (destruct signed; auto).
  clear Hs Hu.
  assert (M : forall a b, 0 <= a <= b -> 2 ^ a <= 2 ^ b) by (intros; apply Z.pow_le_mono_r; lia).
  destruct signed; cbn [store].
  - destruct (n <=? 8) eqn:E8; [apply Z.leb_le in E8|apply Z.leb_gt in E8; destruct (n <=? 16) eqn:E16;
      [apply Z.leb_le in E16|apply Z.leb_gt in E16; destruct (n <=? 32) eqn:E32; [apply Z.leb_le in E32|apply Z.leb_gt in E32]]].
    all: match goal with |- context [2 ^ (?b - 1)] => pose proof (M (n - 1) (b - 1) ltac:(lia)) end.
    all: match goal with |- (if ?x then _ else _) = _ => replace x with true; [reflexivity|] end.
    all: symmetry; apply andb_true_intro; split; [apply Z.leb_le|apply Z.ltb_lt]; lia.
  - destruct (n <=? 8) eqn:E8; [apply Z.leb_le in E8|apply Z.leb_gt in E8; destruct (n <=? 16) eqn:E16;
      [apply Z.leb_le in E16|apply Z.leb_gt in E16; destruct (n <=? 32) eqn:E32; [apply Z.leb_le in E32|apply Z.leb_gt in E32]]].
    all: match goal with |- context [2 ^ ?b] => pose proof (M n b ltac:(lia)) end.
    all: match goal with |- (if ?x then _ else _) = _ => replace x with true; [reflexivity|] end.
    all: symmetry; apply andb_true_intro; split; [apply Z.leb_le|apply Z.ltb_lt]; lia.
Qed.

Lemma strip_nul_id l x : x <> 0 -> strip_nul (l ++ [x]) = l ++ [x].
Proof.
  intro Hx. induction l as [|y t IH]; cbn [app strip_nul].
  - replace (x =? 0) with false by (symmetry; now apply Z.eqb_neq). reflexivity.
  - rewrite IH. destruct (t ++ [x]) eqn:E; [destruct t; discriminate|reflexivity].
Qed.
Theorem bytes_lossless_without_trailing_nul l x : x <> 0 -> store DBytes (PBytes (l ++ [x])) = Ok (PBytes (l ++ [x])) /\
  store DStr (PStr (l ++ [x])) = Ok (PStr (l ++ [x])).
Proof. intro H. cbn [store]. now rewrite strip_nul_id. Qed.
Theorem empty_lossless : store DBytes (PBytes []) = Ok (PBytes []) /\ store DStr (PStr []) = Ok (PStr []).
Proof. split; reflexivity. Qed.
Theorem float64_lossless f : store DF64 (PFloat f) = Ok (PFloat f) /\ store DInfer (PFloat f) = Ok (PFloat f).
Proof. split; reflexivity. Qed.

(* the machine-checked finding: numpy's fixed-width S/U dtypes strip trailing NULs *)
Theorem trailing_nul_refuted : exists bs, store DBytes (PBytes bs) <> Ok (PBytes bs).
Proof. exists [97; 0]. cbn. discriminate. Qed.

(* when every stored value fits losslessly the dataset is exactly the per-APID in-order table *)
Lemma store_col_id dt col : Forall (fun v => store dt v = Ok v) col -> store_col dt col = Ok col.
Proof. induction 1 as [|v t Hv _ IH]; [reflexivity|]. cbn [store_col]. now rewrite Hv, IH. Qed.

Example c18_example :
  store (DUInt 8) (PInt 255) = Ok (PInt 255) /\ store (DUInt 8) (PInt 256) = Err EOverflow /\
  store DF32 (PFloat 4609434218613702656) = Ok (PFloat 4609434218613702656) /\      (* 1.5 *)
  store DF32 (PFloat 4591870180066957722) <> Ok (PFloat 4591870180066957722).         (* 0.1 is not a binary32 *)
Proof. repeat split; try (vm_compute; reflexivity). vm_compute. discriminate. Qed.
