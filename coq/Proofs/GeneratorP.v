(* Proofs/GeneratorP.v — C05 (inheritance walk), C11 (independence), C14 (bit accounting), C01 (composition) *)
From Coq Require Import ZArith List Bool String Lia.
From SPP Require Import Base.Bytes Base.Sx Base.Floats Model.Cursor Model.Values Model.Criteria Model.Doc Model.Decode
  Model.Header Model.Framer Model.Segments Model.Generator Proofs.CursorP Proofs.FramerP Proofs.FramerCCSDS.
Import ListNotations.
Open Scope Z_scope.

(* ================= C05: entry lists, nested containers expanded in place ================= *)
Fixpoint parse_params (ps : list parameter) (s : pstate) : res pstate :=
  match ps with [] => Ok s | p :: t => s' <- parse_parameter p s ;; parse_params t s' end.

Lemma parse_params_app a b s : parse_params (a ++ b) s = (s' <- parse_params a s ;; parse_params b s').
Proof. revert s. induction a as [|p t IH]; intro s; cbn [app parse_params bind]; [reflexivity|].
  destruct (parse_parameter p s); cbn [bind]; auto. Qed.

Fixpoint flatten (fuel : nat) (d : definition) (es : list entry) {struct fuel} : option (list parameter) :=
  match fuel with
  | O => None
  | S f =>
    (fix go (es : list entry) : option (list parameter) :=
       match es with
       | [] => Some []
       | EParam p :: t => option_map (cons p) (go t)
       | EContainer n :: t =>
           match find_container d n with
           | None => None
           | Some c => match flatten f d (k_entries c), go t with Some a, Some b => Some (a ++ b) | _, _ => None end
           end
       end) es
  end.

Theorem entries_flatten : forall fuel d es ps s, flatten fuel d es = Some ps -> parse_entries fuel d es s = parse_params ps s.
Proof.
  induction fuel as [|f IH]; intros d es ps s H; [discriminate|].
  cbn [flatten parse_entries] in *. revert ps s H.
  induction es as [|e t IHes]; intros ps s H.
  - injection H as <-. reflexivity.
  - destruct e as [p|n].
    + destruct ((fix go (es : list entry) : option (list parameter) := _) t) as [r|] eqn:G; [|discriminate].
      cbn [option_map] in H. injection H as <-. cbn [parse_params].
      destruct (parse_parameter p s); cbn [bind]; auto.
    + destruct (find_container d n) as [c|]; [|discriminate].
      destruct (flatten f d (k_entries c)) as [a|] eqn:Fa; [|discriminate].
      destruct ((fix go (es : list entry) : option (list parameter) := _) t) as [b|] eqn:G; [|discriminate].
      injection H as <-. rewrite parse_params_app. rewrite (IH d (k_entries c) a s Fa).
      destruct (parse_params a s); cbn [bind]; auto.
Qed.

(* ================= C05: choosing the child ================= *)
Definition holds (d : definition) (e : env) (n : string) : bool :=
  match find_container d n with
  | Some c => match eval_all e None (k_criteria c) with Ok true => true | _ => false end
  | None => false
  end.

Theorem candidates_filter d e : forall names l, candidates d e names = Ok l -> l = filter (holds d e) names.
Proof.
  induction names as [|n t IH]; intros l H; cbn [candidates] in H.
  - injection H as <-. reflexivity.
  - cbn [filter]. unfold holds at 1. destruct (find_container d n) as [c|]; [|discriminate].
    destruct (eval_all e None (k_criteria c)) as [b|] eqn:E; cbn [bind] in H; [|discriminate].
    destruct (candidates d e t) as [r|]; cbn [bind] in H; [|discriminate]. injection H as <-.
    rewrite (IH r eq_refl). destruct b; reflexivity.
Qed.

Section Walk.
Variables (d : definition) (c : container) (s s' : pstate) (f : nat).
Hypothesis Hentries : parse_entries (S (List.length d)) d (k_entries c) s = Ok s'.

Theorem walk_unique_child n child : candidates d (s_env s') (k_inheritors c) = Ok [n] -> find_container d n = Some child ->
  walk (S f) d c s = walk f d child s'.
Proof. intros H1 H2. cbn [walk]. now rewrite Hentries, H1, H2. Qed.

Theorem walk_dead_end_abstract : candidates d (s_env s') (k_inheritors c) = Ok [] -> k_abstract c = true ->
  walk (S f) d c s = Unrecognized s'.
Proof. intros H1 H2. cbn [walk]. now rewrite Hentries, H1, H2. Qed.

Theorem walk_concrete_stop : candidates d (s_env s') (k_inheritors c) = Ok [] -> k_abstract c = false ->
  walk (S f) d c s = Parsed s'.
Proof. intros H1 H2. cbn [walk]. now rewrite Hentries, H1, H2. Qed.

Theorem walk_ambiguous n1 n2 r : candidates d (s_env s') (k_inheritors c) = Ok (n1 :: n2 :: r) ->
  walk (S f) d c s = Unrecognized s'.
Proof. intros H1. cbn [walk]. now rewrite Hentries, H1. Qed.
End Walk.

(* the path followed and what the packet holds at the end *)
Inductive descends (d : definition) : container -> pstate -> list container -> outcome -> Prop :=
| D_stop c s s' : parse_entries (S (List.length d)) d (k_entries c) s = Ok s' ->
    candidates d (s_env s') (k_inheritors c) = Ok [] -> k_abstract c = false -> descends d c s [c] (Parsed s')
| D_dead c s s' : parse_entries (S (List.length d)) d (k_entries c) s = Ok s' ->
    candidates d (s_env s') (k_inheritors c) = Ok [] -> k_abstract c = true -> descends d c s [c] (Unrecognized s')
| D_ambiguous c s s' n1 n2 r : parse_entries (S (List.length d)) d (k_entries c) s = Ok s' ->
    candidates d (s_env s') (k_inheritors c) = Ok (n1 :: n2 :: r) -> descends d c s [c] (Unrecognized s')
| D_step c s s' n child path o : parse_entries (S (List.length d)) d (k_entries c) s = Ok s' ->
    candidates d (s_env s') (k_inheritors c) = Ok [n] -> find_container d n = Some child ->
    descends d child s' path o -> descends d c s (c :: path) o.

Definition final_state (o : outcome) : option pstate :=
  match o with Parsed s | Unrecognized s => Some s | Failed _ => None end.

Theorem walk_descends d : forall fuel c s o, walk fuel d c s = o -> final_state o <> None -> exists path, descends d c s path o.
Proof.
  induction fuel as [|f IH]; intros c s o H Hne; cbn [walk] in H; [subst; cbn in Hne; congruence|].
  destruct (parse_entries (S (List.length d)) d (k_entries c) s) as [s'|] eqn:E; [|subst; cbn in Hne; congruence].
  destruct (candidates d (s_env s') (k_inheritors c)) as [[|n [|n2 r]]|] eqn:C.
  - destruct (k_abstract c) eqn:A; subst o; eexists; [eapply D_dead|eapply D_stop]; eauto.
  - destruct (find_container d n) as [child|] eqn:Fc; [|subst; cbn in Hne; congruence].
    destruct (IH child s' o H Hne) as [path Hp]. exists (c :: path). eapply D_step; eauto.
  - subst o. eexists. eapply D_ambiguous; eauto.
  - subst; cbn in Hne; congruence.
Qed.

(* along the path the packet is filled by the containers' flattened entry lists, parents before children, in order *)
Theorem descends_items d : forall c s path o, descends d c s path o ->
  forall flats sf, Forall2 (fun k ps => flatten (S (List.length d)) d (k_entries k) = Some ps) path flats ->
  final_state o = Some sf -> parse_params (List.concat flats) s = Ok sf.
Proof.
  induction 1 as [c s s' He Hc Ha|c s s' He Hc Ha|c s s' n1 n2 r He Hc|c s s' n child path o He Hc Hf Hd IH];
    intros flats sf HF Hfin.
  1-3: inversion HF as [|? ps ? ? Hfl Hrest]; subst; inversion Hrest; subst; cbn [List.concat]; rewrite app_nil_r;
       rewrite <- (entries_flatten _ _ _ _ s Hfl), He; cbn in Hfin; congruence.
  inversion HF as [|? ps ? rest Hfl Hrest]; subst. cbn [List.concat]. rewrite parse_params_app.
  rewrite <- (entries_flatten _ _ _ _ s Hfl), He. cbn [bind]. now apply IH.
Qed.

(* ================= C14: bit accounting ================= *)
Lemma read_int_advance c n v c' : read_as_int c n = Ok (v, c') -> 0 <= n /\ c' = {| cdata := cdata c; cpos := cpos c + n |}.
Proof.
  unfold read_as_int. destruct (n <? 0) eqn:E; [discriminate|]. apply Z.ltb_ge in E.
  destruct (extract_bits (cdata c) (cpos c) n); cbn [bind]; [|discriminate]. intro H. injection H as <- <-. auto.
Qed.
Lemma read_bytes_advance c n v c' : read_as_bytes c n = Ok (v, c') ->
  0 <= n /\ c' = {| cdata := cdata c; cpos := cpos c + n |} /\ cpos c + n <= 8 * zlen (cdata c).
Proof.
  unfold read_as_bytes. destruct (n <? 0) eqn:E; [discriminate|]. apply Z.ltb_ge in E.
  destruct (cpos c + n >? zlen (cdata c) * 8) eqn:G; [discriminate|]. rewrite Z.gtb_ltb in G. apply Z.ltb_ge in G.
  destruct ((cpos c mod 8 =? 0) && (n mod 8 =? 0)).
  - intro H. injection H as <- <-. repeat split; auto; lia.
  - destruct (extract_bits (cdata c) (cpos c) n); cbn [bind]; [|discriminate]. intro H. injection H as <- <-. repeat split; auto; lia.
Qed.

Definition advances (c c' : cursor) : Prop := cdata c' = cdata c /\ cpos c <= cpos c'.

Local Opaque dec_ieee dec_mil1750a to_bits64 from_be reverse_bytes twos_complement calibrate float_param decode_text.
Lemma raw_numeric_advances e c x c' : raw_numeric e c = Ok (x, c') -> advances c c'.
Proof.
  unfold raw_numeric. destruct (ne_kind e).
  - destruct (read_as_int c (ne_size e)) as [[v c1]|] eqn:R; cbn [bind]; [|discriminate].
    apply read_int_advance in R as [Hn ->]. destruct (signed && (ne_size e <? 1)); [discriminate|]. intro H. injection H as _ <-. split; cbn; auto; lia.
  - destruct (read_as_bytes c (ne_size e)) as [[v c1]|] eqn:R; cbn [bind]; [|discriminate].
    apply read_bytes_advance in R as (Hn & -> & _).
    destruct fmt.
    + destruct (ne_size e =? 16); [|destruct (ne_size e =? 32); [|destruct (ne_size e =? 64); [|discriminate]]];
        intro H; injection H as _ <-; split; cbn; auto; lia.
    + intro H. injection H as _ <-. split; cbn; auto; lia.
Qed.

Lemma parse_numeric_advances e env c v c' : parse_numeric e env c = Ok (v, c') -> advances c c'.
Proof.
  unfold parse_numeric. destruct (raw_numeric e c) as [[raw c1]|] eqn:R; cbn [bind]; [|discriminate].
  apply raw_numeric_advances in R.
  destruct (match ne_context e with Some ((_ :: _) as cs) => pick_context env (payload_of_num raw) cs | _ => Ok None end) as [ch|];
    cbn [bind]; [|discriminate].
  assert (K : forall cal, (x <- calibrate cal raw ;; p <- float_param x raw ;; Ok (p, c1)) = Ok (v, c') -> c1 = c').
  { intros cal H. destruct (calibrate cal raw); cbn [bind] in H; [|discriminate].
    destruct (float_param a raw); cbn [bind] in H; [|discriminate]. now injection H. }
  destruct ch as [cal|]; [intro H; apply K in H; now subst|].
  destruct (ne_default e) as [cal|]; [intro H; apply K in H; now subst|]. intro H. injection H as _ <-. exact R.
Qed.

Lemma parse_string_advances e env c v c' : parse_string e env c = Ok (v, c') -> advances c c'.
Proof.
  unfold parse_string. destruct (string_size (se_size e) env) as [n|]; cbn [bind]; [|discriminate].
  destruct (read_as_int c n) as [[x c1]|] eqn:R; cbn [bind]; [|discriminate].
  apply read_int_advance in R as [Hn ->].
  match goal with |- (text_bytes <- ?T ;; _) = _ -> _ => destruct T as [tb|] end; cbn [bind]; [|discriminate].
  destruct (decode_text (se_charset e) tb); cbn [bind]; [|discriminate].
  intro H. injection H as _ <-. split; cbn; auto; lia.
Qed.

Lemma parse_binary_advances sz env c v c' : parse_binary sz env c = Ok (v, c') -> advances c c'.
Proof.
  unfold parse_binary. destruct (binary_size sz env) as [n|]; cbn [bind]; [|discriminate].
  destruct (read_as_bytes c n) as [[x c1]|] eqn:R; cbn [bind]; [|discriminate].
  apply read_bytes_advance in R as (Hn & -> & _). intro H. injection H as _ <-. split; cbn; auto; lia.
Qed.

Lemma parse_type_advances t env c v c' : parse_type t env c = Ok (v, c') -> advances c c'.
Proof.
  unfold parse_type. destruct (parse_encoding (pt_enc t) env c) as [[x c1]|] eqn:E; cbn [bind]; [|discriminate].
  assert (A : advances c c1).
  { unfold parse_encoding in E. destruct (pt_enc t); eauto using parse_numeric_advances, parse_string_advances, parse_binary_advances. }
  destruct (pt_kind t); try (intro H; injection H as _ <-; exact A).
  destruct (enum_lookup labels (vraw x)); [|discriminate]. intro H; injection H as _ <-; exact A.
Qed.

Definition s_advances (s s' : pstate) : Prop := advances (s_cur s) (s_cur s').
Lemma s_advances_refl s : s_advances s s. Proof. split; auto; lia. Qed.
Lemma s_advances_trans a b c : s_advances a b -> s_advances b c -> s_advances a c.
Proof. unfold s_advances, advances. intros [H1 H2] [H3 H4]. split; [congruence|lia]. Qed.

Theorem parameter_monotone p s s' : parse_parameter p s = Ok s' -> s_advances s s'.
Proof.
  unfold parse_parameter. destruct (parse_type (p_type p) (s_env s) (s_cur s)) as [[v c']|] eqn:E; cbn [bind]; [|discriminate].
  intro H. injection H as <-. apply parse_type_advances in E. exact E.
Qed.

Theorem params_monotone : forall ps s s', parse_params ps s = Ok s' -> s_advances s s'.
Proof.
  induction ps as [|p t IH]; intros s s' H; cbn [parse_params] in H.
  - injection H as <-. apply s_advances_refl.
  - destruct (parse_parameter p s) as [s1|] eqn:E; cbn [bind] in H; [|discriminate].
    eapply s_advances_trans; [eapply parameter_monotone; eauto|eauto].
Qed.

Theorem entries_monotone : forall fuel d es s s', parse_entries fuel d es s = Ok s' -> s_advances s s'.
Proof.
  induction fuel as [|f IH]; intros d es s s' H; [discriminate|]. cbn [parse_entries] in H. revert s H.
  induction es as [|e t IHes]; intros s H.
  - injection H as <-. apply s_advances_refl.
  - destruct e as [p|n].
    + destruct (parse_parameter p s) as [s1|] eqn:E; cbn [bind] in H; [|discriminate].
      eapply s_advances_trans; [eapply parameter_monotone; eauto|eauto].
    + destruct (find_container d n) as [c|]; [|discriminate].
      destruct (parse_entries f d (k_entries c) s) as [s1|] eqn:E; cbn [bind] in H; [|discriminate].
      eapply s_advances_trans; [eapply IH; eauto|eauto].
Qed.

Theorem walk_monotone d : forall fuel c s o sf, walk fuel d c s = o -> final_state o = Some sf -> s_advances s sf.
Proof.
  induction fuel as [|f IH]; intros c s o sf H Hf; cbn [walk] in H; [subst; discriminate|].
  destruct (parse_entries (S (List.length d)) d (k_entries c) s) as [s'|] eqn:E; [|subst; discriminate].
  apply entries_monotone in E.
  destruct (candidates d (s_env s') (k_inheritors c)) as [[|n [|n2 r]]|]; [| | |subst; discriminate].
  - destruct (k_abstract c); subst o; injection Hf as <-; exact E.
  - destruct (find_container d n) as [child|]; [|subst; discriminate].
    eapply s_advances_trans; [exact E|eapply IH; eauto].
  - subst o; injection Hf as <-; exact E.
Qed.

(* once a field has moved the cursor past the end of the packet, it stays past the end *)
Theorem overread_persists ps1 ps2 s s1 s2 L :
  parse_params ps1 s = Ok s1 -> parse_params (ps1 ++ ps2) s = Ok s2 -> cpos (s_cur s1) > L -> cpos (s_cur s2) > L.
Proof.
  intros H1 H2 HL. rewrite parse_params_app, H1 in H2. cbn [bind] in H2. apply params_monotone in H2. destruct H2 as [_ H2]. lia.
Qed.

(* a packet is delivered without the length warning exactly when all of its bits were consumed *)
Theorem clean_iff_exact d root o raw s : parse_packet d root raw = Parsed s ->
  (parse_one d root o raw = OItems [IPacket (s_env s) (cpos (s_cur s)) raw false] <-> cpos (s_cur s) = 8 * zlen raw).
Proof.
  intro H. unfold parse_one. rewrite H. destruct (Z.eqb_spec (cpos (s_cur s)) (8 * zlen raw)) as [E|E].
  - tauto.
  - split; [|tauto]. destruct (parse_bad_pkts o); intro K; [injection K; discriminate|discriminate].
Qed.
Theorem mismatch_flagged_or_withheld d root o raw s : parse_packet d root raw = Parsed s -> cpos (s_cur s) <> 8 * zlen raw ->
  parse_one d root o raw = if parse_bad_pkts o then OItems [IPacket (s_env s) (cpos (s_cur s)) raw true] else OItems [].
Proof. intros H E. unfold parse_one. rewrite H. apply Z.eqb_neq in E. now rewrite E. Qed.

(* the cursor after a successful parse: at least the start, the data untouched *)
Theorem parsed_cursor d root raw s : parse_packet d root raw = Parsed s -> cdata (s_cur s) = raw /\ 0 <= cpos (s_cur s).
Proof.
  unfold parse_packet. destruct (find_container d root) as [c|]; [|discriminate]. intro H.
  pose proof (walk_monotone d _ _ _ _ s H eq_refl) as [H1 H2]. cbn in H1, H2. auto.
Qed.

(* ================= C11: packets are parsed independently ================= *)
Definition items_of (x : one) : list item := match x with OItems l => l | OFatal _ => [] end.
Definition no_fatal (d : definition) (root : string) (o : options) (r : list Z) : Prop := exists l, parse_one d root o r = OItems l.

Theorem gen_flat_map d root o pkts : Forall (no_fatal d root o) pkts ->
  gen_items d root o pkts = (flat_map (fun r => items_of (parse_one d root o r)) pkts, None).
Proof.
  induction 1 as [|r t [l Hl] _ IH]; [reflexivity|]. cbn [gen_items flat_map]. rewrite Hl, IH. reflexivity.
Qed.

Theorem gen_prefix d root o a b : Forall (no_fatal d root o) a ->
  gen_items d root o (a ++ b) =
  (flat_map (fun r => items_of (parse_one d root o r)) a ++ fst (gen_items d root o b), snd (gen_items d root o b)).
Proof.
  induction 1 as [|r t [l Hl] _ IH]; cbn [app gen_items flat_map].
  - destruct (gen_items d root o b); reflexivity.
  - rewrite Hl, IH. cbn [items_of]. now rewrite app_assoc.
Qed.

(* with reporting on, an unrecognized packet yields exactly one error item, in place, with its partial data *)
Theorem errors_in_place d root o raw p : parse_packet d root raw = Unrecognized p ->
  parse_one d root o raw = OItems (if yield_unrecognized o then [IError (s_env p) raw] else []).
Proof. intro H. unfold parse_one. now rewrite H. Qed.

(* any interleaving of next() calls over several generators: each generator delivers a prefix of its own solo output *)
Fixpoint advance (gs : list (list item)) (i : nat) : option item * list (list item) :=
  match gs, i with
  | [], _ => (None, [])
  | g :: rest, O => match g with [] => (None, [] :: rest) | x :: t => (Some x, t :: rest) end
  | g :: rest, S j => let '(x, rest') := advance rest j in (x, g :: rest')
  end.
Fixpoint run_schedule (gs : list (list item)) (sched : list nat) : list (nat * option item) * list (list item) :=
  match sched with
  | [] => ([], gs)
  | i :: t => let '(x, gs') := advance gs i in let '(tr, gf) := run_schedule gs' t in ((i, x) :: tr, gf)
  end.
Fixpoint delivered (i : nat) (tr : list (nat * option item)) : list item :=
  match tr with
  | [] => []
  | (j, Some x) :: t => if Nat.eqb i j then x :: delivered i t else delivered i t
  | (_, None) :: t => delivered i t
  end.

Lemma advance_nth gs i : nth i (snd (advance gs i)) [] = tl (nth i gs []) /\
  (forall j, j <> i -> nth j (snd (advance gs i)) [] = nth j gs []) /\
  fst (advance gs i) = hd_error (nth i gs []).
Proof.
  revert i. induction gs as [|g rest IH]; intro i.
  - cbn. destruct i; repeat split; auto; intros j _; destruct j; reflexivity.
  - destruct i as [|i].
    + destruct g as [|x t]; cbn; repeat split; auto; intros [|j] Hj; auto; congruence.
    + cbn [advance]. destruct (advance rest i) as [x rest'] eqn:A. specialize (IH i). rewrite A in IH. cbn [fst snd] in *.
      destruct IH as (H1 & H2 & H3). repeat split; auto. intros [|j] Hj; cbn; auto.
Qed.

Theorem schedule_independent : forall sched gs i,
  delivered i (fst (run_schedule gs sched)) ++ nth i (snd (run_schedule gs sched)) [] = nth i gs [].
Proof.
  induction sched as [|j t IH]; intros gs i; [reflexivity|].
  cbn [run_schedule]. destruct (advance gs j) as [x gs'] eqn:A.
  destruct (run_schedule gs' t) as [tr gf] eqn:R. cbn [fst snd].
  pose proof (advance_nth gs j) as (H1 & H2 & H3). rewrite A in *. cbn [fst snd] in *.
  specialize (IH gs' i). rewrite R in IH. cbn [fst snd] in IH.
  destruct (Nat.eq_dec i j) as [->|Hne].
  - cbn [delivered]. destruct x as [x|].
    + rewrite Nat.eqb_refl. cbn [app]. rewrite IH, H1. destruct (nth j gs []); [discriminate|]. cbn in H3. injection H3 as <-. reflexivity.
    + rewrite IH, H1. destruct (nth j gs []); [reflexivity|discriminate].
  - cbn [delivered]. rewrite <- (H2 i Hne). destruct x as [x|]; [|exact IH].
    replace (Nat.eqb i j) with false by (symmetry; now apply Nat.eqb_neq). exact IH.
Qed.

(* ================= C01: the pipeline from a byte stream ================= *)
Theorem pipeline_refines d root o k pps :
  stream_ok k pps -> headers_only o = false ->
  Forall (no_fatal d root o) (to_parse o (map snd pps)) ->
  packet_generator d root o k (encode pps)
  = Some (flat_map (fun r => items_of (parse_one d root o r)) (to_parse o (map snd pps)), None).
Proof.
  intros Hs Hh Hn. unfold packet_generator. unfold frame. rewrite (frame_bytes_exact TRIM k pps Hs). unfold generator. rewrite Hh.
  now rewrite gen_flat_map.
Qed.
