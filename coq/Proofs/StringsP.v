(* Proofs/StringsP.v — C07: string and binary fields, computed lengths *)
From Coq Require Import ZArith List Bool String Lia.
From SPP Require Import Base.Bytes Base.Sx Base.Floats Model.Cursor Model.Values Model.Criteria Model.Doc Model.Decode
  Proofs.CursorP Proofs.FloatExactP.
Import ListNotations.
Open Scope Z_scope.

(* ---------- binary fields ---------- *)
Theorem binary_bits B p s env n : wf B -> 0 <= p -> binary_size s env = Ok n -> 0 <= n -> p + n <= 8 * zlen B ->
  parse_binary s env {| cdata := B; cpos := p |}
  = Ok ({| vcls := CBinary; vval := PBytes (spec_bytes B p n); vraw := PBytes (spec_bytes B p n) |}, {| cdata := B; cpos := p + n |}).
Proof. intros Hwf Hp Hs Hn Hin. unfold parse_binary. rewrite Hs. cbn [bind]. now rewrite read_bytes_spec. Qed.

Theorem binary_overread B p s env n : binary_size s env = Ok n -> 0 <= n -> p + n > 8 * zlen B ->
  parse_binary s env {| cdata := B; cpos := p |} = Err EValue.
Proof. intros Hs Hn H. unfold parse_binary. rewrite Hs. cbn [bind]. now rewrite read_bytes_guard. Qed.

Theorem negative_length_rejected B p s env n : binary_size s env = Ok n -> n < 0 ->
  parse_binary s env {| cdata := B; cpos := p |} = Err EValue.
Proof. intros Hs Hn. unfold parse_binary. rewrite Hs. cbn [bind]. now rewrite (proj2 (read_negative_rejected _ n Hn)). Qed.

(* ---------- the raw string buffer: the field's bits, right-padded with zeros to whole bytes ---------- *)
Definition pad_of (n : Z) : Z := (8 - n mod 8) mod 8.
Definition raw_buffer (B : list Z) (p n : Z) : list Z := to_be (Z.to_nat ((n + pad_of n) / 8)) (Z.shiftl (spec_int B p n) (pad_of n)).

Lemma bits_val_of_bits l : bits (List.length l) (val_of_bits l) = l.
Proof.
  induction l as [|b t IH] using rev_ind; [reflexivity|].
  rewrite app_length. cbn [List.length]. rewrite Nat.add_1_r. rewrite bits_S. rewrite val_of_bits_app.
  unfold zlen. cbn [List.length]. change (2 ^ Z.of_nat 1) with 2.
  assert (V : val_of_bits [b] = if b then 1 else 0) by (unfold val_of_bits; cbn; destruct b; reflexivity).
  rewrite V. set (v := val_of_bits t) in *. f_equal.
  - transitivity (bits (List.length t) v); [f_equal|exact IH]. destruct b.
    + rewrite Z.div_add_l by lia. change (1 / 2) with 0. lia.
    + rewrite Z.add_0_r, Z.div_mul by lia. reflexivity.
  - f_equal. destruct b.
    + rewrite Z.add_comm, (Z.mul_comm v 2), Z.odd_add_mul_2. reflexivity.
    + rewrite Z.add_0_r, Z.odd_mul. cbn. apply andb_false_r.
Qed.

Lemma bits_zero m : bits m 0 = repeat false m.
Proof.
  induction m as [|m IH]; [reflexivity|]. rewrite bits_S. change (0 / 2) with 0. rewrite IH. cbn [Z.odd repeat].
  now rewrite repeat_cons.
Qed.

Lemma pad_props n : 0 <= n -> 0 <= pad_of n < 8 /\ (n + pad_of n) mod 8 = 0.
Proof.
  intro H. unfold pad_of. pose proof (Z.mod_pos_bound n 8 ltac:(lia)). pose proof (Z.mod_pos_bound (8 - n mod 8) 8 ltac:(lia)).
  split; [lia|]. pose proof (Z.div_mod n 8 ltac:(lia)).
  destruct (Z.eq_dec (n mod 8) 0) as [E|E].
  - rewrite E. change ((8 - 0) mod 8) with 0. rewrite Z.add_0_r. exact E.
  - rewrite (Z.mod_small (8 - n mod 8)) by lia. replace (n + (8 - n mod 8)) with (8 * (n / 8 + 1)) by lia.
    rewrite Z.mul_comm. apply Z.mod_mul. lia.
Qed.

Theorem raw_buffer_bits B p n : wf B -> 0 <= p -> 0 <= n -> p + n <= 8 * zlen B ->
  bits_of_bytes (raw_buffer B p n)
  = firstn (Z.to_nat n) (skipn (Z.to_nat p) (bits_of_bytes B)) ++ repeat false (Z.to_nat (pad_of n)).
Proof.
  intros Hwf Hp Hn Hin. unfold raw_buffer.
  destruct (pad_props n Hn) as [Hpad Hmod]. set (pad := pad_of n) in *.
  set (k := (n + pad) / 8). assert (Hk : n + pad = 8 * k) by (unfold k; pose proof (Z.div_mod (n + pad) 8 ltac:(lia)); lia).
  assert (Hk0 : 0 <= k) by lia.
  pose proof (spec_int_range B p n Hn Hwf Hp Hin) as Hu. set (u := spec_int B p n) in *.
  rewrite bits_of_bytes_from_be by apply to_be_wf. rewrite to_be_length.
  rewrite Z.shiftl_mul_pow2 by lia.
  assert (Hv : 0 <= u * 2 ^ pad < 2 ^ (8 * Z.of_nat (Z.to_nat k))).
  { rewrite Z2Nat.id by lia. rewrite <- Hk. rewrite Z.pow_add_r by lia.
    assert (0 < 2 ^ pad) by (apply Z.pow_pos_nonneg; lia). nia. }
  rewrite from_be_to_be by exact Hv.
  replace (8 * Z.to_nat k)%nat with (Z.to_nat n + Z.to_nat pad)%nat by lia.
  rewrite bits_app. f_equal.
  - rewrite Z2Nat.id by lia. rewrite Z.div_mul by (apply Z.pow_nonzero; lia).
    unfold u, spec_int.
    set (l := firstn (Z.to_nat n) (skipn (Z.to_nat p) (bits_of_bytes B))).
    assert (Hl : List.length l = Z.to_nat n).
    { unfold l. rewrite firstn_length, skipn_length.
      pose proof (bits_of_bytes_length B).
      unfold zlen in Hin. lia. }
    rewrite <- Hl. apply bits_val_of_bits.
  - rewrite <- bits_mod. rewrite Z2Nat.id by lia. rewrite Z.mod_mul by (apply Z.pow_nonzero; lia).
    apply bits_zero.
Qed.

Lemma raw_buffer_length B p n : List.length (raw_buffer B p n) = Z.to_nat ((n + pad_of n) / 8).
Proof. unfold raw_buffer. apply to_be_length. Qed.

(* ---------- text delimiting ---------- *)
Definition prefix_at (needle hay : list Z) : bool :=
  (List.length needle <=? List.length hay)%nat && forallb (fun ab => fst ab =? snd ab) (combine needle hay).

Lemma find_sub_spec needle : forall fuel hay i k, find_sub fuel needle hay i = Some k ->
  i <= k /\ prefix_at needle (skipn (Z.to_nat (k - i)) hay) = true /\
  forall j, (j < Z.to_nat (k - i))%nat -> prefix_at needle (skipn j hay) = false.
Proof.
  induction fuel as [|f IH]; intros hay i k H; cbn [find_sub] in H; [discriminate|].
  fold (prefix_at needle hay) in H. destruct (prefix_at needle hay) eqn:P.
  - injection H as <-. rewrite Z.sub_diag. cbn [Z.to_nat skipn]. split; [lia|]. split; [exact P|]. intros j Hj. lia.
  - destruct hay as [|h t]; [discriminate|]. apply IH in H as (H1 & H2 & H3). split; [lia|].
    replace (Z.to_nat (k - i)) with (S (Z.to_nat (k - (i + 1)))) by lia. cbn [skipn]. split; auto.
    intros [|j] Hj; cbn [skipn]; auto. apply H3. lia.
Qed.

(* bytes.index: the first position at which the termination bytes occur *)
Theorem bytes_index_first needle hay k : bytes_index needle hay = Some k ->
  0 <= k /\ prefix_at needle (skipn (Z.to_nat k) hay) = true /\
  forall j, (j < Z.to_nat k)%nat -> prefix_at needle (skipn j hay) = false.
Proof. intro H. apply find_sub_spec in H. now rewrite Z.sub_0_r in H. Qed.

(* the aligned search: the first multiple of the character width at which the termination bytes occur *)
Lemma skipn_skipn_add {A} a b (l : list A) : skipn a (skipn b l) = skipn (b + a) l.
Proof. revert l. induction b as [|b IH]; intro l; cbn [skipn Nat.add]; [reflexivity|]. destruct l; [now rewrite skipn_nil|apply IH]. Qed.
Lemma find_aligned_spec w needle : forall fuel hay i k, find_aligned fuel w needle hay i = Some k ->
  exists q : nat, k = i + Z.of_nat (w * q) /\ prefix_at needle (skipn (w * q) hay) = true /\
  forall j, (j < q)%nat -> prefix_at needle (skipn (w * j) hay) = false.
Proof.
  induction fuel as [|f IH]; intros hay i k H; cbn [find_aligned] in H; [discriminate|].
  fold (prefix_at needle hay) in H. destruct (prefix_at needle hay) eqn:P.
  - injection H as <-. exists 0%nat. rewrite Nat.mul_0_r. cbn [skipn]. repeat split; auto; [lia|]. intros j Hj. lia.
  - destruct hay as [|h t]; [discriminate|]. apply IH in H as (q & H1 & H2 & H3). exists (S q).
    rewrite skipn_skipn_add in H2. replace (w * S q)%nat with (w + w * q)%nat by lia. repeat split; auto; [lia|].
    intros [|j] Hj; [rewrite Nat.mul_0_r; exact P|]. replace (w * S j)%nat with (w + w * j)%nat by lia. rewrite <- skipn_skipn_add. apply H3. lia.
Qed.
Theorem term_index_first cs needle hay k : term_index cs needle hay = Some k ->
  exists q : nat, k = Z.of_nat (char_width cs * q) /\ prefix_at needle (skipn (char_width cs * q) hay) = true /\
  forall j, (j < q)%nat -> prefix_at needle (skipn (char_width cs * j) hay) = false.
Proof. intro H. apply find_aligned_spec in H as (q & H1 & H2 & H3). exists q. repeat split; auto. Qed.
(* single-byte character sets: the plain byte search *)
Lemma find_aligned_1 needle : forall fuel hay i, find_aligned fuel 1 needle hay i = find_sub fuel needle hay i.
Proof.
  induction fuel as [|f IH]; intros hay i; [reflexivity|]. cbn [find_aligned find_sub].
  destruct ((List.length needle <=? List.length hay)%nat && forallb (fun ab => fst ab =? snd ab) (combine needle hay)); [reflexivity|].
  destruct hay as [|h t]; [reflexivity|]. cbn [skipn]. apply IH.
Qed.
Theorem term_index_single_byte cs needle hay : char_width cs = 1%nat -> term_index cs needle hay = bytes_index needle hay.
Proof. intro H. unfold term_index, bytes_index. rewrite H. apply find_aligned_1. Qed.

(* ---------- the whole string field ---------- *)
Definition delimit (e : string_enc) (buf : list Z) : res (list Z) :=
  let by_term := match se_term e with
                 | Some term => match term_index (se_charset e) term buf with
                                | Some i => '(bs, _) <- read_as_bytes {| cdata := buf; cpos := 0 |} (i * 8) ;; Ok bs
                                | None => Err EValue end
                 | None => Ok buf end in
  match se_leading e with
  | Some tag =>
      if tag =? 0 then by_term else
      '(len_bits, cb) <- read_as_int {| cdata := buf; cpos := 0 |} tag ;;
      if len_bits mod 8 =? 0 then '(bs, _) <- read_as_bytes cb len_bits ;; Ok bs else Err EValue
  | None => by_term
  end.

Theorem string_field e env B p n : wf B -> 0 <= p -> string_size (se_size e) env = Ok n -> 0 <= n -> p + n <= 8 * zlen B ->
  parse_string e env {| cdata := B; cpos := p |}
  = (text <- delimit e (raw_buffer B p n) ;; cps <- decode_text (se_charset e) text ;;
     Ok ({| vcls := CStr; vval := PStr cps; vraw := PBytes (raw_buffer B p n) |}, {| cdata := B; cpos := p + n |})).
Proof.
  intros Hwf Hp Hs Hn Hin. unfold parse_string. rewrite Hs. cbn [bind].
  rewrite read_int_spec by (assumption || lia). cbn [bind]. fold (pad_of n). fold (raw_buffer B p n).
  unfold delimit. destruct (se_leading e) as [tag|]; [destruct (tag =? 0)|]; reflexivity.
Qed.

(* whole-buffer text *)
Lemma delimit_whole e buf : se_leading e = None -> se_term e = None -> delimit e buf = Ok buf.
Proof. intros H1 H2. unfold delimit. now rewrite H1, H2. Qed.

(* terminated text: the bytes before the first occurrence of the termination character *)
Lemma delimit_terminated e buf term k : wf buf -> se_leading e = None -> se_term e = Some term ->
  term_index (se_charset e) term buf = Some k -> k <= zlen buf ->
  delimit e buf = Ok (firstn (Z.to_nat k) buf).
Proof.
  intros Hwf H1 H2 H3 Hk. unfold delimit. rewrite H1, H2, H3.
  assert (Hk0 : 0 <= k) by (destruct (term_index_first _ _ _ _ H3) as (q & -> & _); lia).
  rewrite read_bytes_spec by (assumption || lia). cbn [bind]. f_equal.
  unfold spec_bytes. rewrite <- window_spec by (assumption || lia).
  rewrite <- aligned_slice; try (assumption || lia).
  - unfold slice. cbn [Z.div]. change (0 / 8) with 0. cbn [Z.to_nat skipn]. f_equal. rewrite Z.add_0_l, Z.sub_0_r.
    f_equal. pose proof (Z.div_mod (k * 8 + 7) 8 ltac:(lia)). pose proof (Z.mod_pos_bound (k * 8 + 7) 8 ltac:(lia)). lia.
  - reflexivity.
  - apply Z.mod_mul. lia.
Qed.

(* leading size tag: the text is the [len] bits that follow the tag, len being the tag's value *)
Lemma delimit_leading e buf tag : wf buf -> se_leading e = Some tag -> 0 < tag -> tag <= 8 * zlen buf ->
  let len := spec_int buf 0 tag in
  delimit e buf = if len mod 8 =? 0 then
                    (if tag + len >? zlen buf * 8 then Err EValue else Ok (spec_bytes buf tag len))
                  else Err EValue.
Proof.
  intros Hwf H1 Ht Hin len. unfold delimit. rewrite H1.
  replace (tag =? 0) with false by (symmetry; apply Z.eqb_neq; lia).
  rewrite read_int_spec by (assumption || lia). cbn [bind]. fold len. rewrite Z.add_0_l.
  destruct (len mod 8 =? 0); [|reflexivity].
  pose proof (spec_int_range buf 0 tag ltac:(lia) Hwf ltac:(lia) ltac:(lia)) as R. fold len in R.
  destruct (tag + len >? zlen buf * 8) eqn:G.
  - rewrite read_bytes_guard; [reflexivity|lia|]. apply Z.gtb_lt in G. lia.
  - rewrite Z.gtb_ltb in G. apply Z.ltb_ge in G.
    rewrite read_bytes_spec by (assumption || lia). reflexivity.
Qed.

(* ---------- computed lengths ---------- *)
Theorem size_fixed n env : string_size (SFixed n) env = Ok n.
Proof. reflexivity. Qed.

Theorem size_lookup_first env ls pre ks v post z :
  ls = pre ++ (ks, v) :: post ->
  Forall (fun kv => eval_all env None (fst kv) = Ok false) pre -> eval_all env None ks = Ok true ->
  int_of_num (NFloat v) = Ok z -> string_size (SLookup ls) env = Ok z.
Proof.
  intros -> Hpre Hk Hz. cbn [string_size].
  assert (L : lookup_first env (pre ++ (ks, v) :: post) = Ok (Some v)).
  { induction Hpre as [|[ks0 v0] t H0 _ IH]; cbn [app lookup_first]; [now rewrite Hk|cbn [fst] in H0; now rewrite H0]. }
  rewrite L. cbn [bind]. exact Hz.
Qed.

(* referenced value through a linear adjustment: never a wrong length; exactly slope*x+intercept below 2^53 *)
Theorem length_linear slope icpt x :
  Z.abs slope < 2^53 -> Z.abs x < 2^53 -> Z.abs (slope * x) < 2^53 -> Z.abs icpt < 2^53 -> Z.abs (slope * x + icpt) < 2^53 ->
  linear_adjust slope icpt (NInt x) = Ok (slope * x + icpt) \/ linear_adjust slope icpt (NInt x) = Err EValue.
Proof.
  intros Hs Hx Hsx Hi Hr. unfold linear_adjust, to_b64, of_Zb. fold (ofZ x). fold (ofZ slope). fold (ofZ icpt).
  pose proof (ofZ_not_inf x Hx) as Nx. pose proof (ofZ_not_inf slope Hs) as Ns. pose proof (ofZ_not_inf icpt Hi) as Ni.
  assert (Ex : match ofZ x with BinarySingleNaN.B754_infinity _ => Err EOverflow | _ => Ok (ofZ x) end = Ok (ofZ x)) by (destruct (ofZ x); tauto).
  assert (Es : match ofZ slope with BinarySingleNaN.B754_infinity _ => Err EOverflow | _ => Ok (ofZ slope) end = Ok (ofZ slope)) by (destruct (ofZ slope); tauto).
  assert (Ei : match ofZ icpt with BinarySingleNaN.B754_infinity _ => Err EOverflow | _ => Ok (ofZ icpt) end = Ok (ofZ icpt)) by (destruct (ofZ icpt); tauto).
  rewrite Ex, Es, Ei. cbn [bind]. unfold adjusted_value.
  destruct (f_is_integer _); [left|right; reflexivity]. f_equal. now apply linear_exact.
Qed.

Theorem size_dynamic env ref cal adj pv x :
  lookup env ref = Some pv -> num_of_payload (select pv cal) = Ok x ->
  string_size (SDynamic ref cal adj) env = match adj with Some (sl, ic) => linear_adjust sl ic x | None => int_of_num x end.
Proof. intros H1 H2. cbn [string_size]. unfold size_value. rewrite H1, H2. reflexivity. Qed.
