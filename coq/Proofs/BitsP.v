(* Proofs/BitsP.v — the 64-bit pattern is a faithful carrier for Python floats: decoding the pattern of a binary64 value gives
   the value back (every NaN being the one canonical NaN).  All float arithmetic of the models goes through this pair. *)
From Coq Require Import ZArith Reals Lia Lra Bool.
From Flocq Require Import Core.Core IEEE754.BinarySingleNaN IEEE754.Bits.
From SPP Require Import Base.Sx Base.Floats Proofs.IeeeRealP.
Open Scope Z_scope.

Lemma bounded_shape (m : positive) (e : Z) : SpecFloat.bounded 53 1024 m e = true ->
  (Z.pos m < 2 ^ 52 /\ e = -1074) \/ (2 ^ 52 <= Z.pos m < 2 ^ 53 /\ -1074 <= e <= 971).
Proof.
  unfold SpecFloat.bounded, SpecFloat.canonical_mantissa. intro H. apply andb_prop in H as [H1 H2].
  apply Zeq_bool_eq in H1. apply Zle_bool_imp_le in H2. rewrite Zpos_digits2_pos in H1.
  pose proof (Zdigits_correct radix2 (Z.pos m)) as D. set (d := Zdigits radix2 (Z.pos m)) in *.
  change (Zpower radix2 (d - 1)) with (2 ^ (d - 1)) in D. change (Zpower radix2 d) with (2 ^ d) in D. rewrite Z.abs_eq in D by lia.
  unfold SpecFloat.fexp, SpecFloat.emin in H1.
  assert (Hd : 0 < d) by (apply Zdigits_gt_0; lia). clearbody d.
  destruct (Z_lt_le_dec (Z.pos m) (2 ^ 52)) as [Hlt|Hge].
  - left. split; auto.
    assert (d <= 52). { destruct (Z_le_gt_dec d 52); auto. exfalso. assert (2 ^ 52 <= 2 ^ (d - 1)) by (apply Z.pow_le_mono_r; lia). lia. }
    lia.
  - right. assert (d <= 53) by lia.
    assert (53 <= d). { destruct (Z_le_gt_dec 53 d); auto. exfalso. assert (2 ^ d <= 2 ^ 52) by (apply Z.pow_le_mono_r; lia). lia. }
    assert (d = 53) by lia. subst d. change (2 ^ 53) with 9007199254740992 in *. lia.
Qed.

Lemma testbit63 (hi : bool) (lo : Z) : 0 <= lo < 2 ^ 63 -> Z.testbit ((if hi then 2 ^ 63 else 0) + lo) 63 = hi.
Proof.
  intro H. destruct hi.
  - apply Z.testbit_true; [lia|]. change (2 ^ 63) with 9223372036854775808 in *. 
    assert (E : (9223372036854775808 + lo) / 9223372036854775808 = 1) by (symmetry; apply Z.div_unique with lo; lia). rewrite E. reflexivity.
  - apply Z.testbit_false; [lia|]. change (2 ^ 63) with 9223372036854775808 in *. rewrite Z.add_0_l, Z.div_small by lia. reflexivity.
Qed.

Theorem bits_roundtrip (x : b64) : of_bits64 (to_bits64 x) = x.
Proof.
  destruct x as [s|s| |s m e Hb].
  - destruct s; vm_compute; reflexivity.
  - destruct s; vm_compute; reflexivity.
  - vm_compute; reflexivity.
  - unfold of_bits64. rewrite dec_ieee_fields by lia. unfold to_bits64.
    change 9223372036854775808 with (2 ^ 63). change 4503599627370496 with (2 ^ 52).
    set (lo := if Z.pos m <? 2 ^ 52 then Z.pos m else (e + 1075) * 2 ^ 52 + (Z.pos m - 2 ^ 52)).
    pose proof (bounded_shape m e Hb) as Sh.
    assert (Lo : 0 <= lo < 2 ^ 63 /\ lo / 2 ^ 52 = (if Z.pos m <? 2 ^ 52 then 0 else e + 1075) /\
                 lo mod 2 ^ 52 = (if Z.pos m <? 2 ^ 52 then Z.pos m else Z.pos m - 2 ^ 52)).
    { unfold lo. change (2 ^ 63) with 9223372036854775808. change (2 ^ 52) with 4503599627370496 in *. change (2 ^ 53) with 9007199254740992 in *.
      destruct (Z.ltb_spec (Z.pos m) 4503599627370496) as [L|L].
      - rewrite Z.div_small, Z.mod_small by lia. lia.
      - destruct Sh as [[? ?]|[? ?]]; [lia|].
        assert (Q : ((e + 1075) * 4503599627370496 + (Z.pos m - 4503599627370496)) / 4503599627370496 = e + 1075)
          by (symmetry; apply Z.div_unique with (Z.pos m - 4503599627370496); lia).
        assert (R : ((e + 1075) * 4503599627370496 + (Z.pos m - 4503599627370496)) mod 4503599627370496 = Z.pos m - 4503599627370496)
          by (symmetry; apply Z.mod_unique with (e + 1075); lia).
        rewrite Q, R. lia. }
    destruct Lo as (Lo1 & Lo2 & Lo3).
    assert (Fs : field_s 11 52 ((if s then 2 ^ 63 else 0) + lo) = s) by (unfold field_s; now apply testbit63).
    assert (Fm : field_m 52 ((if s then 2 ^ 63 else 0) + lo) = lo mod 2 ^ 52).
    { unfold field_m. destruct s; [|now rewrite Z.add_0_l]. change (2 ^ 63) with (2048 * 2 ^ 52). rewrite Z.add_comm, Z.mod_add; lia. }
    assert (Fe : field_e 11 52 ((if s then 2 ^ 63 else 0) + lo) = lo / 2 ^ 52).
    { unfold field_e. destruct s.
      - change (2 ^ 63) with (2048 * 2 ^ 52). rewrite Z.add_comm, Z.div_add by lia. change (2 ^ 11) with 2048.
        rewrite Z.add_comm. replace (2048 + lo / 2 ^ 52) with (lo / 2 ^ 52 + 1 * 2048) by lia. rewrite Z.mod_add by lia.
        apply Z.mod_small. rewrite Lo2. destruct (Z.pos m <? 2 ^ 52); destruct Sh as [[? ?]|[? ?]]; lia.
      - rewrite Z.add_0_l. apply Z.mod_small. rewrite Lo2. change (2 ^ 11) with 2048. destruct (Z.pos m <? 2 ^ 52); destruct Sh as [[? ?]|[? ?]]; lia. }
    rewrite Fs, Fm, Fe, Lo2, Lo3.
    set (ef := if Z.pos m <? 2 ^ 52 then 0 else e + 1075). set (mf := if Z.pos m <? 2 ^ 52 then Z.pos m else Z.pos m - 2 ^ 52).
    assert (Hef : 0 <= ef < 2 ^ 11 - 1) by (unfold ef; change (2 ^ 11) with 2048; destruct (Z.ltb_spec (Z.pos m) (2 ^ 52)); destruct Sh as [[? ?]|[? ?]]; lia).
    assert (Hmf : 0 <= mf < 2 ^ 52) by (unfold mf; change (2 ^ 53) with (2 * 2 ^ 52) in Sh; destruct (Z.ltb_spec (Z.pos m) (2 ^ 52)); destruct Sh as [[? ?]|[? ?]]; lia).
    destruct (of_parts_finite s ef mf 11 52 ltac:(lia) ltac:(lia) Hef Hmf) as [R F].
    pose proof (of_parts_sign s ef mf 11 52 ltac:(lia) ltac:(lia) Hef Hmf) as Sg.
    apply B2R_Bsign_inj; [exact F|reflexivity| |rewrite Sg; reflexivity].
    rewrite R. cbn [B2R].
    assert (M : ieee_m ef mf 52 = Z.pos m /\ ieee_e ef 11 52 = e).
    { unfold ieee_m, ieee_e, bias, ef, mf. change (2 ^ (11 - 1)) with 1024. destruct (Z.ltb_spec (Z.pos m) (2 ^ 52)) as [L|L].
      - cbn [Z.eqb]. destruct Sh as [[? ?]|[? ?]]; lia.
      - destruct Sh as [[? ?]|[? ?]]; [lia|]. destruct (Z.eqb_spec (e + 1075) 0); lia. }
    destruct M as [-> ->]. reflexivity.
Qed.

(* consequences used by float reasoning: arithmetic on carriers is arithmetic on the values *)
Corollary fadd_value a b : of_bits64 (fadd (to_bits64 a) (to_bits64 b)) = Bplus mode_NE a b.
Proof. unfold fadd, lift2. now rewrite !bits_roundtrip. Qed.
Corollary fsub_value a b : of_bits64 (fsub (to_bits64 a) (to_bits64 b)) = Bminus mode_NE a b.
Proof. unfold fsub, lift2. now rewrite !bits_roundtrip. Qed.
Corollary fmul_value a b : of_bits64 (fmul (to_bits64 a) (to_bits64 b)) = Bmult mode_NE a b.
Proof. unfold fmul, lift2. now rewrite !bits_roundtrip. Qed.
Corollary fdiv_value a b : of_bits64 (fdiv_raw (to_bits64 a) (to_bits64 b)) = Bdiv mode_NE a b.
Proof. unfold fdiv_raw, lift2. now rewrite !bits_roundtrip. Qed.
