(* Proofs/LinkP.v — C17, container level: what a successful [link_containers] guarantees (every name once, every reference
   resolved to the document's own element, references point strictly backwards in insertion order, hence no cycles), and
   which documents it rejects (dangling entry / nested / base references, conflicting duplicates, cycles). *)
From Coq Require Import ZArith List Bool String Lia.
From SPP Require Import Base.Sx Model.Xml Model.Loader Proofs.LoaderP.
Import ListNotations.
Open Scope string_scope.
Open Scope list_scope.

Definition keys {A} (l : list (string * A)) : list string := map fst l.
Definition nested_refs (c : xcontainer) : list string := flat_map (fun e => match e with XEC n => [n] | XEP _ => [] end) (xk_entries c).
Definition param_refs (c : xcontainer) : list string := flat_map (fun e => match e with XEP n => [n] | XEC _ => [] end) (xk_entries c).
(* the containers a container refers to structurally: its base and the containers it nests *)
Definition crefs (c : xcontainer) : list string := (match xk_base c with Some b => [b] | None => [] end) ++ nested_refs c.

(* every entry refers only to names inserted before it *)
Fixpoint ordered_from (seen : list string) (l : list (string * xcontainer)) : Prop :=
  match l with [] => True | (n, c) :: t => incl (crefs c) seen /\ ordered_from (seen ++ [n]) t end.

Lemma ordered_snoc l : forall seen n c, ordered_from seen l -> incl (crefs c) (seen ++ keys l) -> ordered_from seen (l ++ [(n, c)]).
Proof.
  induction l as [|[k w] t IH]; intros seen n c Ho Hi; cbn [app ordered_from keys map] in *.
  - rewrite app_nil_r in Hi. auto.
  - destruct Ho as [H1 H2]. split; auto. apply IH; auto. cbn [fst] in Hi. now rewrite <- app_assoc.
Qed.

(* ---------- dict assignment ---------- *)
Lemma upsert_absent {A} (l : list (string * A)) n v : ~ In n (keys l) -> upsert l n v = l ++ [(n, v)].
Proof.
  induction l as [|[k w] t IH]; intro H; cbn [upsert app]; [reflexivity|].
  destruct (String.eqb_spec k n) as [->|Hne]; [exfalso; apply H; now left|]. rewrite IH; auto. intro; apply H; now right.
Qed.
Lemma upsert_same {A} (l : list (string * A)) n v : assoc l n = Some v -> upsert l n v = l.
Proof.
  induction l as [|[k w] t IH]; cbn [assoc upsert]; [discriminate|]. destruct (String.eqb k n); [now intros [= ->]|]. intro H. now rewrite IH.
Qed.
Lemma assoc_some_of_key {A} (l : list (string * A)) n : In n (keys l) -> exists v, assoc l n = Some v /\ In (n, v) l.
Proof.
  induction l as [|[k w] t IH]; [intros []|]. cbn [keys map fst assoc]. intros [->|H].
  - rewrite String.eqb_refl. exists w. split; auto. now left.
  - destruct (String.eqb_spec k n) as [->|Hne]; [exists w; split; auto; now left|]. destruct (IH H) as (v & H1 & H2). exists v. split; auto. now right.
Qed.
Lemma assoc_none_not_key {A} (l : list (string * A)) n : assoc l n = None -> ~ In n (keys l).
Proof. intros H Hin. destruct (assoc_some_of_key l n Hin) as (v & E & _). congruence. Qed.
Lemma assoc_app_l {A} (l r : list (string * A)) n v : assoc l n = Some v -> assoc (l ++ r) n = Some v.
Proof. induction l as [|[k w] t IH]; cbn [assoc app]; [discriminate|]. destruct (String.eqb k n); auto. Qed.
Lemma assoc_snoc_absent {A} (l : list (string * A)) n v : ~ In n (keys l) -> assoc (l ++ [(n, v)]) n = Some v.
Proof.
  induction l as [|[k w] t IH]; intro H; cbn [assoc app]; [now rewrite String.eqb_refl|].
  destruct (String.eqb_spec k n) as [->|Hne]; [exfalso; apply H; now left|]. apply IH. intro; apply H; now right.
Qed.

Lemma sx_eqb_eq : forall a b, sx_eqb a b = true -> a = b.
Proof.
  fix IH 1. intros [x|xs] [y|ys] H; cbn in H; try discriminate.
  - apply Z.eqb_eq in H. now subst.
  - f_equal. revert ys H. induction xs as [|x xs' IHxs]; intros [|y ys'] H; try discriminate; auto.
    apply andb_prop in H as [H1 H2]. f_equal; [apply IH; exact H1|apply IHxs; exact H2].
Qed.

Section Inv.
Variable d : xdoc.
Variable params : list (string * xparam).

Definition resolves (n : string) : Prop := assoc params n <> None.
Definition own (l : list (string * xcontainer)) : Prop :=
  Forall (fun nc => xk_name (snd nc) = fst nc /\ In (snd nc) (xd_containers d)) l.
Definition resolved (l : list (string * xcontainer)) : Prop := Forall (fun nc => Forall resolves (param_refs (snd nc))) l.
Record good (l : list (string * xcontainer)) : Prop :=
  { g_nodup : NoDup (keys l); g_ord : ordered_from [] l; g_own : own l; g_res : resolved l }.

Lemma good_nil : good [].
Proof. split; cbn; constructor. Qed.

Lemma gce_spec n c : get_container_element d n = Ok c ->
  xk_name c = n /\ In c (xd_containers d) /\ forall w, In w (xd_containers d) -> xk_name w = n -> w = c.
Proof.
  unfold get_container_element, container_elements. intro H.
  destruct (filter _ (xd_containers d)) as [|x [|y r]] eqn:F; try discriminate. injection H as ->.
  assert (Hc : In c (filter (fun c0 => String.eqb (xk_name c0) n) (xd_containers d))) by (rewrite F; now left).
  apply filter_In in Hc as [H1 H2]. apply String.eqb_eq in H2. repeat split; auto.
  intros w Hw Hn. assert (Hf : In w (filter (fun c0 => String.eqb (xk_name c0) n) (xd_containers d))).
  { apply filter_In. split; auto. apply String.eqb_eq. congruence. }
  rewrite F in Hf. destruct Hf as [->|[]]. reflexivity.
Qed.

Lemma good_snoc l n c : good l -> ~ In n (keys l) -> xk_name c = n -> In c (xd_containers d) ->
  incl (crefs c) (keys l) -> Forall resolves (param_refs c) -> good (l ++ [(n, c)]).
Proof.
  intros [G1 G2 G3 G4] Hn Hname Hin Hrefs Hres. split.
  - unfold keys. rewrite map_app. cbn [map fst]. now apply nodup_snoc.
  - apply ordered_snoc; auto.
  - apply Forall_app. split; auto.
  - apply Forall_app. split; auto.
Qed.

(* assigning the document's own (unique) element under its name: the key is new, or the assignment changes nothing *)
Lemma good_upsert l n c : good l -> get_container_element d n = Ok c ->
  incl (crefs c) (keys l) -> Forall resolves (param_refs c) ->
  good (upsert l n c) /\ (exists added, upsert l n c = l ++ added) /\ In n (keys (upsert l n c)).
Proof.
  intros G E Hrefs Hres. destruct (gce_spec n c E) as (Hname & Hin & Huniq).
  destruct (in_dec string_dec n (keys l)) as [Hk|Hk].
  - destruct (assoc_some_of_key l n Hk) as (w & A & Hw).
    assert (w = c).
    { pose proof (g_own l G) as O. unfold own in O. rewrite Forall_forall in O. destruct (O _ Hw) as [O1 O2]. cbn [fst snd] in *. now apply Huniq. }
    subst w. rewrite (upsert_same l n c A). repeat split; auto; try apply G. exists []. now rewrite app_nil_r.
  - rewrite (upsert_absent l n c Hk). split; [now apply good_snoc|split].
    + eauto.
    + unfold keys. rewrite map_app. apply in_or_app. right. now left.
Qed.

(* ---------- the entry loop, with the recursive call abstracted ---------- *)
Definition lookup_t := list (string * xcontainer).
Definition entries_loop (rec : xcontainer -> lookup_t -> res lookup_t) : list xentry -> lookup_t -> res lookup_t :=
  fix entries (es : list xentry) (lookup : lookup_t) : res lookup_t :=
    match es with
    | [] => Ok lookup
    | XEP n :: t => match assoc params n with Some _ => entries t lookup | None => Err EKey end
    | XEC n :: t =>
        if mem n (map fst lookup) then entries t lookup
        else ne <- get_container_element d n ;; l <- rec ne lookup ;; entries t (upsert l (xk_name ne) ne)
    end.

Lemma from_xml_S f c lookup : from_xml (S f) d params c lookup =
  (lookup1 <- match xk_base c with
              | None => Ok lookup
              | Some b =>
                  be <- get_container_element d b ;;
                  if mem b (map fst lookup) then Ok lookup
                  else l <- from_xml f d params be lookup ;; Ok (upsert l (xk_name be) be)
              end ;;
   entries_loop (fun ne lk => from_xml f d params ne lk) (xk_entries c) lookup1).
Proof. reflexivity. Qed.

Definition ne_refs (es : list xentry) : list string := flat_map (fun e => match e with XEC n => [n] | XEP _ => [] end) es.
Definition pe_refs (es : list xentry) : list string := flat_map (fun e => match e with XEP n => [n] | XEC _ => [] end) es.

(* what a successful parse of one container element guarantees *)
Definition parse_ok (rec : xcontainer -> lookup_t -> res lookup_t) : Prop :=
  forall c lookup l, good lookup -> rec c lookup = Ok l ->
    good l /\ (exists added, l = lookup ++ added) /\ incl (crefs c) (keys l) /\ Forall resolves (param_refs c).

Lemma keys_app {A} (a b : list (string * A)) : keys (a ++ b) = keys a ++ keys b.
Proof. unfold keys. apply map_app. Qed.

Ltac split4 := split; [|split; [|split]].
Ltac split3 := split; [|split].

Lemma entries_inv rec : parse_ok rec -> forall es lookup l, good lookup -> entries_loop rec es lookup = Ok l ->
  good l /\ (exists added, l = lookup ++ added) /\ incl (ne_refs es) (keys l) /\ Forall resolves (pe_refs es).
Proof.
  intro HR. induction es as [|[n|n] t IH]; intros lookup l G H; cbn [entries_loop] in H.
  - injection H as <-. split4; auto. + exists []. now rewrite app_nil_r. + intros x []. + constructor.
  - destruct (assoc params n) eqn:A; [|discriminate]. destruct (IH _ _ G H) as (G' & X & I & R). split4; auto.
    cbn [pe_refs flat_map app]. constructor; auto. unfold resolves. congruence.
  - destruct (mem n (map fst lookup)) eqn:M.
    + destruct (IH _ _ G H) as (G' & (added & ->) & I & R). split4; eauto.
      cbn [ne_refs flat_map app]. intros x [<-|Hx]; [|now apply I]. rewrite keys_app. apply in_or_app. left. now apply mem_In.
    + destruct (get_container_element d n) as [ne|] eqn:E; cbn [bind] in H; [|discriminate].
      destruct (rec ne lookup) as [l1|] eqn:R1; cbn [bind] in H; [|discriminate].
      destruct (HR _ _ _ G R1) as (G1 & (a1 & ->) & I1 & P1).
      destruct (gce_spec n ne E) as (Hname & _ & _). rewrite Hname in H.
      destruct (good_upsert _ n ne G1 E I1 P1) as (G2 & (a2 & E2) & K2).
      destruct (IH _ _ G2 H) as (G' & (a3 & ->) & I & R). split4; auto.
      * exists (a1 ++ a2 ++ a3). rewrite E2. now rewrite <- !app_assoc.
      * cbn [ne_refs flat_map app]. intros x [<-|Hx]; [|now apply I]. rewrite keys_app. apply in_or_app. now left.
Qed.

Theorem from_xml_inv : forall fuel, parse_ok (from_xml fuel d params).
Proof.
  induction fuel as [|f IH]; intros c lookup l G H; [discriminate|]. rewrite from_xml_S in H.
  assert (B : exists l1, match xk_base c with
              | None => Ok lookup
              | Some b => be <- get_container_element d b ;;
                          if mem b (map fst lookup) then Ok lookup else l <- from_xml f d params be lookup ;; Ok (upsert l (xk_name be) be)
              end = Ok l1 /\ good l1 /\ (exists added, l1 = lookup ++ added) /\
              incl (match xk_base c with Some b => [b] | None => [] end) (keys l1)).
  { destruct (xk_base c) as [b|].
    - destruct (get_container_element d b) as [be|] eqn:E; cbn [bind] in *; [|discriminate].
      destruct (mem b (map fst lookup)) eqn:M.
      + exists lookup. split4; auto. * exists []. now rewrite app_nil_r. * intros x [<-|[]]. now apply mem_In.
      + destruct (from_xml f d params be lookup) as [l0|] eqn:R0; cbn [bind] in *; [|discriminate].
        destruct (IH _ _ _ G R0) as (G0 & (a0 & ->) & I0 & P0).
        destruct (gce_spec b be E) as (Hname & _ & _). rewrite Hname in *.
        destruct (good_upsert _ b be G0 E I0 P0) as (G2 & (a2 & E2) & K2).
        eexists. split4; eauto. * exists (a0 ++ a2). rewrite E2. now rewrite <- app_assoc. * intros x [<-|[]]. exact K2.
    - exists lookup. split4; auto. + exists []. now rewrite app_nil_r. + intros x []. }
  destruct B as (l1 & E1 & G1 & (a1 & ->) & I1). rewrite E1 in H. cbn [bind] in H.
  destruct (entries_inv _ IH _ _ _ G1 H) as (G' & (a2 & ->) & I2 & R2). split4; auto.
  - exists (a1 ++ a2). now rewrite <- app_assoc.
  - unfold crefs. intros x Hx. apply in_app_or in Hx as [Hx|Hx]; [|now apply I2]. rewrite keys_app. apply in_or_app. left. now apply I1.
Qed.

(* ---------- the container set ---------- *)
Section Set_.
Variable sxc : xcontainer -> sx.

(* every container element of the set is represented under its name by an equal object *)
Definition represented (l : lookup_t) (c : xcontainer) : Prop :=
  exists known, assoc l (xk_name c) = Some known /\ (known = c \/ container_same sxc known c = true).

Theorem link_containers_inv fuel : forall cs lookup l, good lookup -> Forall (fun c => In c (xd_containers d)) cs ->
  link_containers sxc fuel d params cs lookup = Ok l ->
  good l /\ (exists added, l = lookup ++ added) /\ Forall (represented l) cs.
Proof.
  induction cs as [|c r IH]; intros lookup l G Hin H; cbn [link_containers] in H.
  - injection H as <-. split3; auto. exists []. now rewrite app_nil_r.
  - inversion Hin as [|? ? Hc Hr]; subst.
    destruct (from_xml fuel d params c lookup) as [l1|] eqn:R1; cbn [bind] in H; [|discriminate].
    destruct (from_xml_inv fuel _ _ _ G R1) as (G1 & (a1 & ->) & I1 & P1).
    destruct (assoc (lookup ++ a1) (xk_name c)) as [known|] eqn:A.
    + destruct (container_same sxc known c) eqn:S; [|discriminate].
      destruct (IH _ _ G1 Hr H) as (G' & (a2 & ->) & F). split3; auto.
      * exists (a1 ++ a2). now rewrite <- app_assoc.
      * constructor; auto. exists known. split; auto. now apply assoc_app_l.
    + pose proof (assoc_none_not_key _ _ A) as NK.
      assert (G2 : good ((lookup ++ a1) ++ [(xk_name c, c)])) by (apply good_snoc; auto).
      destruct (IH _ _ G2 Hr H) as (G' & (a2 & ->) & F). split3; auto.
      * exists (a1 ++ [(xk_name c, c)] ++ a2). now rewrite <- !app_assoc.
      * constructor; auto. exists c. split; auto. apply assoc_app_l. now apply assoc_snoc_absent.
Qed.
End Set_.

(* ---------- references point strictly backwards: a rank ---------- *)
Fixpoint pos (n : string) (l : lookup_t) : nat :=
  match l with [] => O | (k, _) :: t => if String.eqb k n then O else S (pos n t) end.

Lemma rank_from l : forall seen n c m, NoDup (seen ++ keys l) -> ordered_from seen l -> In (n, c) l -> In m (crefs c) ->
  In m seen \/ (pos m l < pos n l)%nat.
Proof.
  induction l as [|[k w] t IH]; intros seen n c m ND Ho Hin Hm; [destruct Hin|]. cbn [ordered_from] in Ho. destruct Ho as [H1 H2].
  cbn [keys map fst] in ND.
  destruct Hin as [E|Hin].
  - injection E as -> ->. left. now apply H1.
  - assert (ND' : NoDup ((seen ++ [k]) ++ keys t)) by (rewrite <- app_assoc; exact ND).
    destruct (IH _ _ _ _ ND' H2 Hin Hm) as [Hs|Hlt].
    + apply in_app_or in Hs as [Hs|[<-|[]]]; [now left|]. right. cbn [pos]. rewrite String.eqb_refl.
      destruct (String.eqb_spec k n) as [->|Hne]; [|lia].
      exfalso. apply NoDup_remove_2 in ND. apply ND. apply in_or_app. right. unfold keys. apply in_map_iff. exists (n, c). auto.
    + right. cbn [pos]. destruct (String.eqb_spec k n) as [->|Hne].
      * exfalso. apply NoDup_remove_2 in ND. apply ND. apply in_or_app. right. unfold keys. apply in_map_iff. exists (n, c). auto.
      * destruct (String.eqb k m); lia.
Qed.

Theorem rank_decreases l n c m : good l -> In (n, c) l -> In m (crefs c) -> (pos m l < pos n l)%nat.
Proof.
  intros G Hin Hm. destruct (rank_from l [] n c m) as [[]|H]; auto; [cbn [app]|]; apply G.
Qed.

(* a chain of references n0 -> n1 -> ... through containers of the lookup *)
Inductive chain (l : lookup_t) : string -> string -> Prop :=
| chain_one n c m : In (n, c) l -> In m (crefs c) -> chain l n m
| chain_step n c m k : In (n, c) l -> In m (crefs c) -> chain l m k -> chain l n k.

Theorem chain_rank l n m : good l -> chain l n m -> (pos m l < pos n l)%nat.
Proof.
  intros G H. induction H as [n c m Hin Hm|n c m k Hin Hm _ IH].
  - now apply (rank_decreases l n c m).
  - pose proof (rank_decreases l n c m G Hin Hm). lia.
Qed.
Theorem acyclic l n : good l -> ~ chain l n n.
Proof. intros G H. pose proof (chain_rank l n n G H). lia. Qed.

(* every reference of a linked container is itself a key of the lookup *)
Lemma closed_from l : forall seen, ordered_from seen l -> Forall (fun nc => incl (crefs (snd nc)) (seen ++ keys l)) l.
Proof.
  induction l as [|[k w] t IH]; intros seen Ho; constructor; cbn [ordered_from] in Ho; destruct Ho as [H1 H2].
  - cbn [snd]. intros x Hx. apply in_or_app. left. now apply H1.
  - specialize (IH _ H2). eapply Forall_impl; [|exact IH]. intros [k' w'] Hi. cbn [snd keys map fst] in *. now rewrite <- app_assoc in Hi.
Qed.
Theorem closed l : good l -> Forall (fun nc => incl (crefs (snd nc)) (keys l)) l.
Proof. intro G. exact (closed_from l [] (g_ord l G)). Qed.

(* ---------- rejections ---------- *)
(* an entry list naming an unknown parameter *)
Lemma entries_dangling_param rec n : assoc params n = None -> forall es lookup, In (XEP n) es -> exists e, entries_loop rec es lookup = Err e.
Proof.
  intro A. induction es as [|[m|m] t IH]; intros lookup Hin; [destruct Hin| |]; cbn [entries_loop].
  - destruct Hin as [E|Hin]; [injection E as ->; rewrite A; eauto|]. destruct (assoc params m); [now apply IH|eauto].
  - destruct Hin as [E|Hin]; [discriminate|]. destruct (mem m (map fst lookup)); [now apply IH|].
    destruct (get_container_element d m) as [x|]; cbn [bind]; [|eauto]. destruct (rec x lookup); cbn [bind]; [now apply IH|eauto].
Qed.
Theorem dangling_param_rejected fuel c lookup n : In (XEP n) (xk_entries c) -> assoc params n = None ->
  exists e, from_xml fuel d params c lookup = Err e.
Proof.
  intros Hin A. destruct fuel as [|f]; [cbn; eauto|]. rewrite from_xml_S.
  match goal with |- context [bind ?x _] => destruct x as [l1|] end; cbn [bind]; [|eauto]. exact (entries_dangling_param _ n A _ _ Hin).
Qed.

(* a base reference naming no container element (or more than one) *)
Theorem dangling_base_rejected fuel c lookup b : xk_base c = Some b -> (forall e, get_container_element d b <> Ok e) ->
  exists e, from_xml fuel d params c lookup = Err e.
Proof.
  intros Hb Hn. destruct fuel as [|f]; [cbn; eauto|]. rewrite from_xml_S, Hb.
  destruct (get_container_element d b) as [be|] eqn:E; cbn [bind]; [exfalso; now apply (Hn be)|eauto].
Qed.

(* a nested reference naming no container element: rejected as long as the lookup only holds document containers *)
Lemma entries_dangling_nested rec n : (forall e, get_container_element d n <> Ok e) -> (forall c, ~ (In c (xd_containers d) /\ xk_name c = n)) ->
  parse_ok rec -> forall es lookup, good lookup -> In (XEC n) es -> exists e, entries_loop rec es lookup = Err e.
Proof.
  intros Hn Hno HR. induction es as [|[m|m] t IH]; intros lookup G Hin; [destruct Hin| |]; cbn [entries_loop].
  - destruct Hin as [E|Hin]; [discriminate|]. destruct (assoc params m); [now apply IH|eauto].
  - destruct (mem m (map fst lookup)) eqn:M.
    + destruct Hin as [E|Hin]; [|now apply IH]. injection E as ->. exfalso. apply mem_In in M.
      destruct (assoc_some_of_key lookup n M) as (w & _ & Hw). pose proof (g_own _ G) as O. unfold own in O. rewrite Forall_forall in O.
      destruct (O _ Hw) as [O1 O2]. cbn [fst snd] in *. apply (Hno w). auto.
    + destruct (get_container_element d m) as [ne|] eqn:E; cbn [bind]; [|eauto].
      destruct Hin as [E'|Hin]; [injection E' as ->; exfalso; now apply (Hn ne)|].
      destruct (rec ne lookup) as [l1|] eqn:R1; cbn [bind]; [|eauto].
      destruct (HR _ _ _ G R1) as (G1 & _ & I1 & P1). destruct (gce_spec m ne E) as (Hname & _ & _). rewrite Hname.
      destruct (good_upsert _ m ne G1 E I1 P1) as (G2 & _ & _). now apply IH.
Qed.
Theorem dangling_nested_rejected fuel c lookup n : good lookup -> In (XEC n) (xk_entries c) ->
  (forall c', ~ (In c' (xd_containers d) /\ xk_name c' = n)) -> exists e, from_xml fuel d params c lookup = Err e.
Proof.
  intros G Hin Hno. destruct fuel as [|f]; [cbn; eauto|]. rewrite from_xml_S.
  assert (Hn : forall e, get_container_element d n <> Ok e).
  { intros e E. destruct (gce_spec n e E) as (H1 & H2 & _). apply (Hno e). auto. }
  destruct (xk_base c) as [b|].
  - destruct (get_container_element d b) as [be|] eqn:E; cbn [bind]; [|eauto].
    destruct (mem b (map fst lookup)); cbn [bind]; [apply (entries_dangling_nested _ n Hn Hno (from_xml_inv f)); auto|].
    destruct (from_xml f d params be lookup) as [l0|] eqn:R0; cbn [bind]; [|eauto].
    destruct (from_xml_inv f _ _ _ G R0) as (G0 & _ & I0 & P0). destruct (gce_spec b be E) as (Hname & _ & _). rewrite Hname.
    destruct (good_upsert _ b be G0 E I0 P0) as (G2 & _ & _). apply (entries_dangling_nested _ n Hn Hno (from_xml_inv f)); auto.
  - cbn [bind]. apply (entries_dangling_nested _ n Hn Hno (from_xml_inv f)); auto.
Qed.

Section Reject.
Variable sxc : xcontainer -> sx.

(* an error while parsing any container of the set fails the whole load *)
Lemma link_containers_member_error fuel : forall cs lookup c, In c cs ->
  (forall lk, good lk -> exists e, from_xml fuel d params c lk = Err e) ->
  good lookup -> Forall (fun c => In c (xd_containers d)) cs ->
  exists e, link_containers sxc fuel d params cs lookup = Err e.
Proof.
  induction cs as [|c0 r IH]; intros lookup c Hin Hc G Hd; [destruct Hin|]. cbn [link_containers]. inversion Hd as [|? ? Hc0 Hr]; subst.
  destruct Hin as [->|Hin].
  - destruct (Hc lookup G) as [e ->]. cbn [bind]. eauto.
  - destruct (from_xml fuel d params c0 lookup) as [l1|] eqn:R1; cbn [bind]; [|eauto].
    destruct (from_xml_inv fuel _ _ _ G R1) as (G1 & _ & I1 & P1).
    destruct (assoc l1 (xk_name c0)) as [known|] eqn:A.
    + destruct (container_same sxc known c0); [|eauto]. now apply (IH _ c).
    + apply (IH _ c); auto. apply good_snoc; auto. now apply assoc_none_not_key.
Qed.

(* two container elements of one name in a document that loads have the same canonical form: a conflicting duplicate is rejected *)
Theorem conflicting_duplicate_rejected fuel cs l : Forall (fun c => In c (xd_containers d)) cs ->
  link_containers sxc fuel d params cs [] = Ok l ->
  forall c1 c2, In c1 cs -> In c2 cs -> xk_name c1 = xk_name c2 -> sxc c1 = sxc c2.
Proof.
  intros Hd H c1 c2 H1 H2 Hn. destruct (link_containers_inv sxc fuel cs [] l good_nil Hd H) as (_ & _ & F).
  rewrite Forall_forall in F. destruct (F _ H1) as (k1 & A1 & S1). destruct (F _ H2) as (k2 & A2 & S2).
  rewrite Hn in A1. rewrite A1 in A2. injection A2 as <-.
  assert (E1 : sxc k1 = sxc c1) by (destruct S1 as [->|S1]; [reflexivity|now apply sx_eqb_eq]).
  assert (E2 : sxc k1 = sxc c2) by (destruct S2 as [->|S2]; [reflexivity|now apply sx_eqb_eq]).
  congruence.
Qed.

(* cycles: if the document's containers refer to each other in a cycle, loading cannot succeed (it runs out of fuel,
   i.e. the implementation's recursion limit) — provided equal canonical forms mean equal references *)
Hypothesis sxc_refs : forall a b, sxc a = sxc b -> crefs a = crefs b.

Inductive dchain (cs : list xcontainer) : string -> string -> Prop :=
| dchain_one c m : In c cs -> In m (crefs c) -> dchain cs (xk_name c) m
| dchain_step c m k : In c cs -> In m (crefs c) -> dchain cs m k -> dchain cs (xk_name c) k.

Lemma represented_in l c : good l -> represented sxc l c -> exists known, In (xk_name c, known) l /\ crefs known = crefs c.
Proof.
  intros G (known & A & S). exists known. split; [now apply assoc_In|]. destruct S as [->|S]; auto. apply sxc_refs. now apply sx_eqb_eq.
Qed.

Theorem cycle_rejected fuel cs l n : Forall (fun c => In c (xd_containers d)) cs ->
  link_containers sxc fuel d params cs [] = Ok l -> ~ dchain cs n n.
Proof.
  intros Hd H Hc. destruct (link_containers_inv sxc fuel cs [] l good_nil Hd H) as (G & _ & F). rewrite Forall_forall in F.
  assert (T : forall a b, dchain cs a b -> chain l a b).
  { intros a b Hab. induction Hab as [c m Hin Hm|c m k Hin Hm _ IH].
    - destruct (represented_in l c G (F _ Hin)) as (known & Hk & E). apply (chain_one l _ known); auto. now rewrite E.
    - destruct (represented_in l c G (F _ Hin)) as (known & Hk & E). apply (chain_step l _ known m); auto. now rewrite E. }
  exact (acyclic l n G (T _ _ Hc)).
Qed.
End Reject.
End Inv.

(* ================= the whole linker ================= *)
Definition containers_of (g : graph) : list (string * xcontainer) := map (fun kc => (fst kc, lk (snd kc))) (g_containers g).

Lemma link_inv sxc d g : link sxc d = Ok g -> exists types params lookup,
  link_types (xd_types d) [] = Ok types /\ link_params types (xd_params d) [] = Ok params /\
  link_containers sxc (S (List.length (xd_containers d))) d params (xd_containers d) [] = Ok lookup /\
  containers_of g = lookup.
Proof.
  unfold link. destruct (link_types (xd_types d) []) as [types|] eqn:T; cbn [bind]; [|discriminate].
  destruct (link_params types (xd_params d) []) as [params|] eqn:P; cbn [bind]; [|discriminate].
  destruct (link_containers sxc _ d params (xd_containers d) []) as [lookup|] eqn:C; cbn [bind]; [|discriminate].
  destruct (forallb _ lookup); [|discriminate]. intro H. injection H as <-. exists types, params, lookup. repeat split; auto.
  unfold containers_of. cbn [g_containers]. rewrite map_map. cbn [fst snd lk]. rewrite <- (map_id lookup) at 2. apply map_ext. now intros [].
Qed.

Lemma all_in {A} (l : list A) : Forall (fun x => In x l) l.
Proof. rewrite Forall_forall. auto. Qed.

Lemma assoc_map_name ps n : assoc (map (fun p => (xp_name p, p)) ps) n <> None <-> exists p, In p ps /\ xp_name p = n.
Proof.
  induction ps as [|q r IH]; cbn [map assoc].
  - split; [congruence|intros (p & [] & _)].
  - destruct (String.eqb_spec (xp_name q) n) as [E|Hne].
    + split; [intros _; exists q; split; auto; now left|discriminate].
    + rewrite IH. split; intros (p & Hp & E); [exists p; split; auto; now right|]. destruct Hp as [->|Hp]; [contradiction|eauto].
Qed.

(* a loaded definition: every container name once; references (base, nested) only to containers inserted earlier, hence
   resolved and free of cycles; every entry parameter known; every container element of the document represented *)
Theorem link_good sxc d g : link sxc d = Ok g -> exists params,
  (forall n, assoc params n <> None <-> exists p, In p (xd_params d) /\ xp_name p = n) /\
  good d params (containers_of g) /\ Forall (represented sxc (containers_of g)) (xd_containers d).
Proof.
  intro H. destruct (link_inv _ _ _ H) as (types & params & lookup & T & P & C & ->). exists params.
  destruct (params_resolve _ _ _ _ P ltac:(constructor)) as (_ & -> & _). cbn [app] in *.
  destruct (link_containers_inv d _ sxc _ _ _ _ (good_nil d _) (all_in _) C) as (G & _ & F). split; [|split; auto].
  apply assoc_map_name.
Qed.

(* ---- corollaries in the property's words ---- *)
Theorem link_names_once sxc d g : link sxc d = Ok g -> NoDup (map fst (g_containers g)).
Proof.
  intro H. destruct (link_good _ _ _ H) as (params & _ & G & _). pose proof (g_nodup _ _ _ G) as N.
  unfold keys, containers_of in N. rewrite map_map in N. exact N.
Qed.
Theorem link_refs_resolve sxc d g n c m : link sxc d = Ok g -> In (n, c) (containers_of g) -> In m (crefs c) ->
  In m (map fst (containers_of g)) /\ (pos m (containers_of g) < pos n (containers_of g))%nat.
Proof.
  intros H Hin Hm. destruct (link_good _ _ _ H) as (params & _ & G & _). split.
  - pose proof (closed _ _ _ G) as Cl. rewrite Forall_forall in Cl. exact (Cl _ Hin m Hm).
  - exact (rank_decreases _ _ _ _ _ _ G Hin Hm).
Qed.
Theorem link_acyclic sxc d g n : link sxc d = Ok g -> ~ chain (containers_of g) n n.
Proof. intros H. destruct (link_good _ _ _ H) as (params & _ & G & _). exact (acyclic _ _ _ n G). Qed.
Theorem link_entries_resolve sxc d g n c p : link sxc d = Ok g -> In (n, c) (containers_of g) -> In (XEP p) (xk_entries c) ->
  exists q, In q (xd_params d) /\ xp_name q = p.
Proof.
  intros H Hin Hp. destruct (link_good _ _ _ H) as (params & Hpar & G & _). apply Hpar.
  pose proof (g_res _ _ _ G) as R. unfold resolved in R. rewrite Forall_forall in R. specialize (R _ Hin). cbn [snd] in R.
  rewrite Forall_forall in R. apply R. unfold param_refs. apply in_flat_map. exists (XEP p). split; auto. now left.
Qed.
Theorem link_own_elements sxc d g n c : link sxc d = Ok g -> In (n, c) (containers_of g) -> xk_name c = n /\ In c (xd_containers d).
Proof.
  intros H Hin. destruct (link_good _ _ _ H) as (params & _ & G & _). pose proof (g_own _ _ _ G) as O. unfold own in O.
  rewrite Forall_forall in O. exact (O _ Hin).
Qed.

(* ---- rejections, for the whole linker: a document with the defect does not load ---- *)
Lemma not_ok_err {A} (r : res A) : (forall a, r <> Ok a) -> exists e, r = Err e.
Proof. destruct r; [intro H; exfalso; now apply (H a)|eauto]. Qed.

Lemma link_containers_of sxc d g : link sxc d = Ok g -> exists params,
  (forall n, assoc params n <> None <-> exists p, In p (xd_params d) /\ xp_name p = n) /\
  link_containers sxc (S (List.length (xd_containers d))) d params (xd_containers d) [] = Ok (containers_of g).
Proof.
  intro H. destruct (link_inv _ _ _ H) as (types & params & lookup & T & P & C & ->). exists params. split; auto.
  destruct (params_resolve _ _ _ _ P ltac:(constructor)) as (_ & -> & _). cbn [app]. apply assoc_map_name.
Qed.

Theorem link_rejects_dangling_parameter sxc d c p : In c (xd_containers d) -> In (XEP p) (xk_entries c) ->
  (forall q, In q (xd_params d) -> xp_name q <> p) -> exists e, link sxc d = Err e.
Proof.
  intros Hc Hp Hno. apply not_ok_err. intros g H. destruct (link_containers_of _ _ _ H) as (params & Hpar & C).
  assert (A : assoc params p = None).
  { destruct (assoc params p) eqn:A; auto. exfalso. destruct (proj1 (Hpar p)) as (q & Hq & E); [congruence|]. now apply (Hno q). }
  destruct (link_containers_member_error d params sxc (S (List.length (xd_containers d))) (xd_containers d) [] c Hc
              (fun lk _ => dangling_param_rejected d params _ c lk p Hp A) (good_nil d params) (all_in _)) as [e E]. congruence.
Qed.

Lemma no_element d n : (forall c, In c (xd_containers d) -> xk_name c <> n) -> forall e, get_container_element d n <> Ok e.
Proof. intros Hno e E. destruct (gce_spec d n e E) as (H1 & H2 & _). now apply (Hno e). Qed.

Theorem link_rejects_dangling_base sxc d c b : In c (xd_containers d) -> xk_base c = Some b ->
  (forall c', In c' (xd_containers d) -> xk_name c' <> b) -> exists e, link sxc d = Err e.
Proof.
  intros Hc Hb Hno. apply not_ok_err. intros g H. destruct (link_containers_of _ _ _ H) as (params & Hpar & C).
  destruct (link_containers_member_error d params sxc (S (List.length (xd_containers d))) (xd_containers d) [] c Hc
              (fun lk _ => dangling_base_rejected d params _ c lk b Hb (no_element d b Hno)) (good_nil d params) (all_in _)) as [e E]. congruence.
Qed.

Theorem link_rejects_dangling_nested sxc d c n : In c (xd_containers d) -> In (XEC n) (xk_entries c) ->
  (forall c', In c' (xd_containers d) -> xk_name c' <> n) -> exists e, link sxc d = Err e.
Proof.
  intros Hc Hn Hno. apply not_ok_err. intros g H. destruct (link_containers_of _ _ _ H) as (params & Hpar & C).
  assert (Hno' : forall c', ~ (In c' (xd_containers d) /\ xk_name c' = n)) by (intros c' [H1 H2]; now apply (Hno c')).
  destruct (link_containers_member_error d params sxc (S (List.length (xd_containers d))) (xd_containers d) [] c Hc
              (fun lk G => dangling_nested_rejected d params _ c lk n G Hn Hno') (good_nil d params) (all_in _)) as [e E]. congruence.
Qed.

Theorem link_rejects_conflicting_duplicate sxc d c1 c2 : In c1 (xd_containers d) -> In c2 (xd_containers d) ->
  xk_name c1 = xk_name c2 -> sxc c1 <> sxc c2 -> exists e, link sxc d = Err e.
Proof.
  intros H1 H2 Hn Hne. apply not_ok_err. intros g H. destruct (link_containers_of _ _ _ H) as (params & Hpar & C).
  exact (Hne (conflicting_duplicate_rejected d params sxc _ _ _ (all_in _) C c1 c2 H1 H2 Hn)).
Qed.

(* reference cycles (through base and nested references, in any mixture and of any length) *)
Theorem link_rejects_cycle sxc d n : (forall a b, sxc a = sxc b -> crefs a = crefs b) ->
  dchain (xd_containers d) n n -> exists e, link sxc d = Err e.
Proof.
  intros Hs Hc. apply not_ok_err. intros g H. destruct (link_containers_of _ _ _ H) as (params & Hpar & C).
  exact (cycle_rejected d params sxc Hs _ _ _ n (all_in _) C Hc).
Qed.

(* the bound the decoder's walk relies on: following base references upwards from any container ends within as many steps
   as there are containers (the rank strictly decreases) *)
Theorem link_rank_bound sxc d g n c : link sxc d = Ok g -> In (n, c) (containers_of g) -> (pos n (containers_of g) < List.length (g_containers g))%nat.
Proof.
  intros H Hin. unfold containers_of in *. set (l := map _ (g_containers g)) in *. replace (List.length (g_containers g)) with (List.length l) by (unfold l; apply map_length).
  clearbody l. induction l as [|[k w] t IH]; [destruct Hin|]. cbn [pos List.length]. destruct (String.eqb_spec k n) as [->|Hne]; [lia|].
  destruct Hin as [E|Hin]; [injection E as E1 E2; contradiction|]. specialize (IH Hin). lia.
Qed.
