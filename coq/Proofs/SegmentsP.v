(* Proofs/SegmentsP.v — C12 *)
From Coq Require Import ZArith List Lia Bool Arith.
From SPP Require Import Base.Bytes Base.Sx Model.Cursor Model.Header Model.Segments.
Import ListNotations.
Open Scope Z_scope.

Definition emitted (o : out) : list nat := match o with Emit g => map idx g | _ => [] end.
Definition all_emitted (os : list out) : list nat := concat (map emitted os).

Lemma get_set_same m a v : get (set m a v) a = v.
Proof. induction m as [|[k w] t IH]; simpl; [now rewrite Z.eqb_refl|].
  destruct (k =? a) eqn:E; simpl; rewrite E; auto. Qed.
Lemma get_set_other m a b v : a <> b -> get (set m a v) b = get m b.
Proof. intro H. induction m as [|[k w] t IH]; simpl.
  - destruct (a =? b) eqn:E; [apply Z.eqb_eq in E; contradiction|reflexivity].
  - destruct (k =? a) eqn:E; simpl.
    + apply Z.eqb_eq in E; subst k. destruct (a =? b) eqn:E2; [apply Z.eqb_eq in E2; contradiction|reflexivity].
    + destruct (k =? b); auto. Qed.

Definition gi (m : smap) (a : Z) : list nat := map idx (get m a).

Record Inv (m : smap) (n : nat) (E : list nat) : Prop := {
  I_lt   : forall a x, In x (gi m a) -> (x < n)%nat;
  I_nd   : forall a, NoDup (gi m a);
  I_disj : forall a b x, a <> b -> In x (gi m a) -> ~ In x (gi m b);
  E_nd   : NoDup E;
  E_lt   : forall x, In x E -> (x < n)%nat;
  E_disj : forall a x, In x E -> ~ In x (gi m a) }.

Fixpoint increasing (n : nat) (h : list raw) : Prop :=
  match h with [] => True | r :: t => idx r = n /\ increasing (S n) t end.

Lemma gi_set m a v b : gi (set m a v) b = if a =? b then map idx v else gi m b.
Proof. unfold gi. destruct (a =? b) eqn:E.
  - apply Z.eqb_eq in E; subst. now rewrite get_set_same.
  - rewrite get_set_other; auto. intro; subst. now rewrite Z.eqb_refl in E. Qed.

Lemma nodup_app (l1 l2 : list nat) : NoDup l1 -> NoDup l2 -> (forall x, In x l1 -> ~ In x l2) -> NoDup (l1 ++ l2).
Proof. induction l1 as [|a t IH]; simpl; intros H1 H2 H; auto.
  inversion H1; subst. constructor.
  - rewrite in_app_iff. intros [?|?]; [contradiction|]. eapply H; eauto.
  - apply IH; auto. Qed.

Lemma Inv_weaken m n E : Inv m n E -> Inv m (S n) E.
Proof. intros [Ilt Ind Idj End Elt Edj]. constructor; auto.
  - intros a x Hx. apply Ilt in Hx. lia.
  - intros x Hx. apply Elt in Hx. lia. Qed.

Lemma step_inv m r n E : Inv m n E -> idx r = n ->
  Inv (fst (step m r)) (S n) (E ++ emitted (snd (step m r))).
Proof.
  intros HI Hr. pose proof HI as [Ilt Ind Idj End Elt Edj]. unfold step.
  assert (Fresh : forall a, ~ In n (gi m a)) by (intros a Hx; apply Ilt in Hx; lia).
  assert (FreshE : ~ In n E) by (intros Hx; apply Elt in Hx; lia).
  destruct (fl r).
  - (* Cont *) destruct (get m (apid r)) as [|r0 l] eqn:G; cbn [fst snd emitted]; rewrite ?app_nil_r.
    + now apply Inv_weaken.
    + assert (Gi : gi m (apid r) = map idx (r0 :: l)) by (unfold gi; now rewrite G).
      constructor; auto.
      * intros a x. rewrite gi_set. destruct (apid r =? a) eqn:Ea.
        -- rewrite map_app, in_app_iff. intros [Hx|Hx]; [rewrite <- Gi in Hx; apply Ilt in Hx; lia|simpl in Hx; lia].
        -- intro Hx; apply Ilt in Hx; lia.
      * intros a. rewrite gi_set. destruct (apid r =? a) eqn:Ea; auto.
        rewrite map_app. apply nodup_app; [rewrite <- Gi; auto| simpl; constructor; [tauto|constructor] |].
        intros x Hx [<-|[]]. rewrite <- Gi in Hx. subst n. eapply Fresh; eauto.
      * intros a b x Hab. rewrite !gi_set. destruct (apid r =? a) eqn:Ea, (apid r =? b) eqn:Eb.
        -- apply Z.eqb_eq in Ea, Eb; congruence.
        -- apply Z.eqb_eq in Ea. rewrite map_app, in_app_iff. intros [Hx|Hx].
           ++ rewrite <- Gi in Hx. apply (Idj (apid r)); auto. congruence.
           ++ simpl in Hx. destruct Hx as [<-|[]]. subst n. apply Fresh.
        -- apply Z.eqb_eq in Eb. intros Hx. rewrite map_app, in_app_iff. intros [Hy|Hy].
           ++ rewrite <- Gi in Hy. revert Hy. apply (Idj a); auto. congruence.
           ++ simpl in Hy. destruct Hy as [<-|[]]. subst n. eapply Fresh; eauto.
        -- apply Idj; auto.
      * intros x Hx; apply Elt in Hx; lia.
      * intros a x Hx. rewrite gi_set. destruct (apid r =? a); [|apply Edj; auto].
        rewrite map_app, in_app_iff. intros [Hy|Hy]; [rewrite <- Gi in Hy; eapply Edj; eauto|].
        simpl in Hy. destruct Hy as [<-|[]]. subst n. auto.
  - (* First *) cbn [fst snd emitted]. rewrite app_nil_r. constructor; auto.
    + intros a x. rewrite gi_set. destruct (apid r =? a); [simpl; lia|intro Hx; apply Ilt in Hx; lia].
    + intros a. rewrite gi_set. destruct (apid r =? a); auto. simpl. constructor; [tauto|constructor].
    + intros a b x Hab. rewrite !gi_set. destruct (apid r =? a) eqn:Ea, (apid r =? b) eqn:Eb.
      * apply Z.eqb_eq in Ea, Eb; congruence.
      * simpl. intros [<-|[]]. subst n. apply Fresh.
      * simpl. intros Hx [<-|[]]. subst n. eapply Fresh; eauto.
      * apply Idj; auto.
    + intros x Hx; apply Elt in Hx; lia.
    + intros a x Hx. rewrite gi_set. destruct (apid r =? a); [|apply Edj; auto]. simpl. intros [<-|[]]. subst n. auto.
  - (* Last *) destruct (get m (apid r)) as [|r0 l] eqn:G; cbn [fst snd emitted].
    + rewrite app_nil_r. now apply Inv_weaken.
    + assert (Gi : gi m (apid r) = map idx (r0 :: l)) by (unfold gi; now rewrite G).
      set (g' := (r0 :: l) ++ [r]).
      assert (Hg' : forall x, In x (map idx g') -> In x (gi m (apid r)) \/ x = n).
      { intros x. unfold g'. rewrite map_app, in_app_iff, Gi. simpl. intuition. }
      assert (Nd' : NoDup (map idx g')).
      { unfold g'. rewrite map_app. apply nodup_app; [rewrite <- Gi; auto|simpl; constructor; [tauto|constructor]|].
        intros x Hx [<-|[]]. rewrite <- Gi in Hx. subst n. eapply Fresh; eauto. }
      assert (Sub : forall x, In x (emitted (if in_sequence g' then Emit g' else WarnGap)) -> In x (map idx g')).
      { destruct (in_sequence g'); simpl; tauto. }
      assert (NdE : NoDup (emitted (if in_sequence g' then Emit g' else WarnGap))).
      { destruct (in_sequence g'); simpl; auto. constructor. }
      unfold del. constructor.
      * intros a x. rewrite gi_set. destruct (apid r =? a); [simpl; tauto|intro Hx; apply Ilt in Hx; lia].
      * intros a. rewrite gi_set. destruct (apid r =? a); auto. constructor.
      * intros a b x Hab. rewrite !gi_set. destruct (apid r =? a), (apid r =? b); simpl; try tauto. apply Idj; auto.
      * apply nodup_app; auto. intros x Hx Hy. apply Sub, Hg' in Hy as [Hy | ->]; [eapply Edj; eauto|auto].
      * intros x. rewrite in_app_iff. intros [Hx|Hx]; [apply Elt in Hx; lia|].
        apply Sub, Hg' in Hx as [Hx | ->]; [apply Ilt in Hx|]; lia.
      * intros a x. rewrite in_app_iff, gi_set. destruct (apid r =? a) eqn:Ea; [simpl; tauto|].
        intros [Hx|Hx]; [apply Edj; auto|]. apply Sub, Hg' in Hx as [Hx | ->]; [|apply Fresh].
        apply Idj with (a := apid r); auto. intro; subst. now rewrite Z.eqb_refl in Ea.
  - (* Unseg *) cbn [fst snd emitted map]. rewrite Hr. constructor; auto.
    + intros a x Hx; apply Ilt in Hx; lia.
    + apply nodup_app; auto; [constructor; [tauto|constructor]|]. intros x Hx [<-|[]]. auto.
    + intros x. rewrite in_app_iff. simpl. intros [Hx|[<-|[]]]; [apply Elt in Hx|]; lia.
    + intros a x. rewrite in_app_iff. simpl. intros [Hx|[<-|[]]]; [apply Edj; auto|apply Fresh].
Qed.

Lemma run_cons m r t : run m (r :: t) = snd (step m r) :: run (fst (step m r)) t.
Proof. simpl. destruct (step m r); reflexivity. Qed.

Theorem at_most_once_gen h : forall m n E, Inv m n E -> increasing n h -> NoDup (E ++ all_emitted (run m h)).
Proof.
  induction h as [|r t IH]; intros m n E HI Hinc.
  - simpl. rewrite app_nil_r. apply HI.
  - destruct Hinc as [Hr Ht]. rewrite run_cons. unfold all_emitted. cbn [map concat].
    rewrite app_assoc. apply (IH _ (S n)); auto. apply step_inv; auto.
Qed.

Theorem at_most_once h : increasing 0 h -> NoDup (all_emitted (run [] h)).
Proof.
  intro H. apply (at_most_once_gen h [] 0%nat [] ) in H; auto.
  constructor; simpl; try tauto; intros; constructor.
Qed.

(* ---------- per-APID independence ---------- *)
Definition of_apid (a : Z) (r : raw) : bool := apid r =? a.

(* outputs produced by the packets of APID a, in order *)
Fixpoint outs_of (a : Z) (h : list raw) (os : list out) : list out :=
  match h, os with
  | r :: t, o :: os' => if of_apid a r then o :: outs_of a t os' else outs_of a t os'
  | _, _ => []
  end.

Lemma step_get_other m r a : apid r <> a -> get (fst (step m r)) a = get m a.
Proof.
  intro H. unfold step. destruct (fl r); cbn [fst]; auto.
  - destruct (get m (apid r)); cbn [fst]; auto. now rewrite get_set_other.
  - now rewrite get_set_other.
  - destruct (get m (apid r)); cbn [fst]; auto. unfold del. now rewrite get_set_other.
Qed.

Lemma step_same m m' r : get m (apid r) = get m' (apid r) ->
  snd (step m r) = snd (step m' r) /\ get (fst (step m r)) (apid r) = get (fst (step m' r)) (apid r).
Proof.
  intro H. unfold step. destruct (fl r); cbn [fst snd]; auto.
  - rewrite <- H. destruct (get m (apid r)) eqn:G; cbn [fst snd].
    + split; auto. congruence.
    + now rewrite !get_set_same.
  - now rewrite !get_set_same.
  - rewrite <- H. destruct (get m (apid r)) eqn:G; cbn [fst snd].
    + split; auto. congruence.
    + unfold del. now rewrite !get_set_same.
Qed.

Theorem per_apid_independent a : forall h m m', get m a = get m' a ->
  outs_of a h (run m h) = run m' (filter (of_apid a) h).
Proof.
  induction h as [|r t IH]; intros m m' Hg; [reflexivity|].
  rewrite run_cons. cbn [outs_of filter]. destruct (of_apid a r) eqn:E.
  - unfold of_apid in E. apply Z.eqb_eq in E. rewrite run_cons. rewrite <- E in Hg.
    destruct (step_same m m' r Hg) as [Ho Hs]. rewrite Ho. f_equal. apply IH. now rewrite <- E.
  - unfold of_apid in E. apply Z.eqb_neq in E. apply IH. now rewrite step_get_other.
Qed.

(* ---------- single-APID histories follow the specification automaton ---------- *)
Definition abs (m : smap) (a : Z) : astate := match get m a with [] => Idle | g => Open g end.

Lemma step_astep m r :
  snd (step m r) = snd (astep (abs m (apid r)) r) /\
  abs (fst (step m r)) (apid r) = fst (astep (abs m (apid r)) r).
Proof.
  unfold step, astep, abs. destruct (fl r); cbn [fst snd].
  - destruct (get m (apid r)) as [|x l] eqn:G; cbn [fst snd].
    + rewrite G. auto.
    + rewrite get_set_same. cbn [app]. auto.
  - rewrite get_set_same. destruct (get m (apid r)); auto.
  - destruct (get m (apid r)) as [|x l] eqn:G; cbn [fst snd].
    + rewrite G. auto.
    + unfold del. rewrite get_set_same. auto.
  - destruct (get m (apid r)) as [|x l] eqn:G; auto.
Qed.

Theorem group_semantics a : forall h m, Forall (fun r => apid r = a) h ->
  run m h = arun (abs m a) h.
Proof.
  induction h as [|r t IH]; intros m Hall; [reflexivity|].
  inversion Hall as [|? ? Hr Ht]; subst. rewrite run_cons. cbn [arun].
  destruct (step_astep m r) as [Ho Hs].
  destruct (astep (abs m (apid r)) r) as [s' o'] eqn:EA. cbn [fst snd] in *.
  rewrite Ho. f_equal. rewrite <- Hs. apply IH; auto.
Qed.

(* ---------- only complete groups are emitted ---------- *)
Definition group_shape (g : list raw) : Prop :=
  (exists r, g = [r] /\ fl r = Unseg) \/
  (exists f cs l, g = f :: cs ++ [l] /\ fl f = First /\ Forall (fun c => fl c = Cont) cs /\ fl l = Last
                  /\ Forall (fun x => apid x = apid f) (cs ++ [l]) /\ in_sequence g = true).

Definition open_shape (m : smap) : Prop :=
  forall a, get m a = [] \/ exists f cs, get m a = f :: cs /\ fl f = First /\ Forall (fun c => fl c = Cont) cs
                                          /\ apid f = a /\ Forall (fun x => apid x = a) cs.

Lemma step_shape m r : open_shape m ->
  open_shape (fst (step m r)) /\ (forall g, snd (step m r) = Emit g -> group_shape g).
Proof.
  intro HS. unfold step. destruct (fl r) eqn:F.
  - (* Cont *) destruct (get m (apid r)) as [|x l] eqn:G; cbn [fst snd].
    + split; auto. discriminate.
    + split; [|discriminate]. intro a. destruct (Z.eq_dec (apid r) a) as [<-|Hne].
      * rewrite get_set_same. right. destruct (HS (apid r)) as [H|(f & cs & H1 & H2 & H3 & H4 & H5)]; [congruence|].
        rewrite G in H1. injection H1 as -> ->. exists f, (cs ++ [r]). repeat split; auto.
        -- apply Forall_app; split; auto.
        -- apply Forall_app; split; auto.
      * rewrite get_set_other by auto. apply HS.
  - (* First *) cbn [fst snd]. split; [|discriminate]. intro a. destruct (Z.eq_dec (apid r) a) as [<-|Hne].
    + rewrite get_set_same. right. exists r, []. repeat split; auto.
    + rewrite get_set_other by auto. apply HS.
  - (* Last *) destruct (get m (apid r)) as [|x l] eqn:G; cbn [fst snd].
    + split; auto. discriminate.
    + split.
      * intro a. unfold del. destruct (Z.eq_dec (apid r) a) as [<-|Hne].
        -- rewrite get_set_same. now left.
        -- rewrite get_set_other by auto. apply HS.
      * intros g Hg. destruct (in_sequence ((x :: l) ++ [r])) eqn:Seq; [|discriminate]. injection Hg as <-.
        right. destruct (HS (apid r)) as [H|(f & cs & H1 & H2 & H3 & H4 & H5)]; [congruence|].
        rewrite G in H1. injection H1 as -> ->. exists f, cs, r. repeat split; auto.
        apply Forall_app; split.
        -- eapply Forall_impl; [|exact H5]. intros y Hy. cbn beta in Hy. congruence.
        -- constructor; auto.
  - (* Unseg *) cbn [fst snd]. split; auto. intros g Hg. injection Hg as <-. left. exists r. auto.
Qed.

Theorem only_complete : forall h m, open_shape m -> Forall (fun o => forall g, o = Emit g -> group_shape g) (run m h).
Proof.
  induction h as [|r t IH]; intros m HS; [constructor|].
  rewrite run_cons. destruct (step_shape m r HS) as [H1 H2]. constructor; auto.
Qed.

Lemma open_shape_empty : open_shape [].
Proof. intro a. now left. Qed.

(* non-vacuity and the stale-group scenario F7: F(1) L(2) L(3) emits only one group *)
Example f7 :
  let F := {| apid := 5; fl := First; seq := 1; idx := 0; body := [] |} in
  let L2 := {| apid := 5; fl := Last; seq := 2; idx := 1; body := [] |} in
  let L3 := {| apid := 5; fl := Last; seq := 3; idx := 2; body := [] |} in
  run [] [F; L2; L3] = [Nothing; Emit [F; L2]; WarnNoStart] /\ increasing 0 [F; L2; L3].
Proof. cbn. repeat split. Qed.
