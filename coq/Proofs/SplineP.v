(* Proofs/SplineP.v — C08: a first-order spline passes through its points.  At a query equal to the left point x0 of a segment
   the interpolation  ((y1 - y0) / (x1 - x0)) * (q - x0) + y0  returns y0 numerically, whenever the segment's slope is a finite
   float (the only other possibility, an overflowing slope, gives NaN — stated too). *)
From Coq Require Import ZArith Reals Lia Lra Bool List.
From Flocq Require Import Core.Core IEEE754.BinarySingleNaN IEEE754.Bits.
From SPP Require Import Base.Sx Base.Floats Model.Values Model.Criteria Model.Doc Model.Decode Proofs.IeeeRealP Proofs.BitsP Proofs.CalibP.
Import ListNotations.
Open Scope Z_scope.

Notation fexp64 := (SpecFloat.fexp 53 1024).

Lemma finite_minus_self (x : b64) : is_finite x = true ->
  B2R (Bminus mode_NE x x) = 0%R /\ is_finite (Bminus mode_NE x x) = true.
Proof.
  intro F. pose proof (Bminus_correct 53 1024 P53 P53lt mode_NE x x F F) as C.
  replace (B2R x - B2R x)%R with 0%R in C by lra. rewrite round_0 in C by (apply valid_rnd_round_mode).
  rewrite Rabs_R0 in C. rewrite Rlt_bool_true in C by (apply bpow_gt_0). destruct C as (C1 & C2 & _). auto.
Qed.

Lemma mult_by_zero (s z : b64) : is_finite s = true -> is_finite z = true -> B2R z = 0%R ->
  B2R (Bmult mode_NE s z) = 0%R /\ is_finite (Bmult mode_NE s z) = true.
Proof.
  intros Fs Fz Z. pose proof (Bmult_correct 53 1024 P53 P53lt mode_NE s z) as C.
  rewrite Z, Rmult_0_r in C. rewrite round_0 in C by (apply valid_rnd_round_mode).
  rewrite Rabs_R0 in C. rewrite Rlt_bool_true in C by (apply bpow_gt_0). destruct C as (C1 & C2 & _). rewrite Fs, Fz in C2. auto.
Qed.

Lemma zero_plus (z y : b64) : is_finite z = true -> is_finite y = true -> B2R z = 0%R ->
  B2R (Bplus mode_NE z y) = B2R y /\ is_finite (Bplus mode_NE z y) = true.
Proof.
  intros Fz Fy Z. pose proof (Bplus_correct 53 1024 P53 P53lt mode_NE z y Fz Fy) as C.
  rewrite Z, Rplus_0_l in C. rewrite round_generic in C; [|apply valid_rnd_round_mode|apply generic_format_B2R].
  rewrite Rlt_bool_true in C by (apply abs_B2R_lt_emax). destruct C as (C1 & C2 & _). auto.
Qed.

(* all four coordinates floats; carriers written with [to_bits64] (every float carrier has this form: bits_roundtrip) *)
Theorem linear_at_left_knot (x0 x1 y0 y1 : b64) :
  is_finite x0 = true -> is_finite y0 = true ->
  f_is_zero (fsub (to_bits64 x1) (to_bits64 x0)) = false ->
  is_finite (Bdiv mode_NE (Bminus mode_NE y1 y0) (Bminus mode_NE x1 x0)) = true ->
  exists r, linear_func (NFloat (to_bits64 x0)) (NFloat (to_bits64 x0)) (NFloat (to_bits64 x1)) (NFloat (to_bits64 y0)) (NFloat (to_bits64 y1))
            = Ok (NFloat (to_bits64 r)) /\ B2R r = B2R y0 /\ is_finite r = true.
Proof.
  intros Fx Fy NZ Fs. unfold linear_func, num_sub, num_mul, num_add, num_div, num_bin, to_float. cbn [bind].
  unfold fdiv. rewrite NZ. cbn [bind].
  set (slope := fdiv_raw (fsub (to_bits64 y1) (to_bits64 y0)) (fsub (to_bits64 x1) (to_bits64 x0))).
  assert (S : slope = to_bits64 (Bdiv mode_NE (Bminus mode_NE y1 y0) (Bminus mode_NE x1 x0))).
  { unfold slope, fdiv_raw, fsub, lift2. now rewrite !bits_roundtrip. }
  rewrite S. set (sl := Bdiv mode_NE (Bminus mode_NE y1 y0) (Bminus mode_NE x1 x0)) in *.
  destruct (finite_minus_self x0 Fx) as [Z0 FZ0].
  assert (D : fsub (to_bits64 x0) (to_bits64 x0) = to_bits64 (Bminus mode_NE x0 x0)) by (unfold fsub, lift2; now rewrite !bits_roundtrip).
  rewrite D.
  assert (M : fmul (to_bits64 sl) (to_bits64 (Bminus mode_NE x0 x0)) = to_bits64 (Bmult mode_NE sl (Bminus mode_NE x0 x0)))
    by (unfold fmul, lift2; now rewrite !bits_roundtrip).
  rewrite M. destruct (mult_by_zero sl _ Fs FZ0 Z0) as [ZM FM].
  assert (A : fadd (to_bits64 (Bmult mode_NE sl (Bminus mode_NE x0 x0))) (to_bits64 y0) = to_bits64 (Bplus mode_NE (Bmult mode_NE sl (Bminus mode_NE x0 x0)) y0))
    by (unfold fadd, lift2; now rewrite !bits_roundtrip).
  rewrite A. destruct (zero_plus _ y0 FM Fy ZM) as [R F]. eexists. split; [reflexivity|]. auto.
Qed.

(* integer coordinates (the common way spline points are written): float(y0), correctly rounded *)
Definition ofZ64 (n : Z) : b64 := binary_normalize 53 1024 P53 P53lt mode_NE n 0 false.
Lemma Ok_inj {A} (a b : A) : Ok a = Ok b -> a = b.
Proof. intro H. now injection H. Qed.

Lemma of_Z_ok n b : of_Z n = Ok b -> b = to_bits64 (ofZ64 n) /\ is_finite (ofZ64 n) = true.
Proof.
  unfold of_Z. cbv zeta. change (binary_normalize 53 1024 P53 P53lt mode_NE n 0 false) with (ofZ64 n).
  pose proof (is_nan_binary_normalize 53 1024 P53 P53lt mode_NE n 0 false) as NN. change (binary_normalize 53 1024 P53 P53lt mode_NE n 0 false) with (ofZ64 n) in NN.
  revert NN. generalize (ofZ64 n).
  intros x NN H. destruct x as [s|s| |s m e Hb].
  - apply Ok_inj in H. split. symmetry. exact H. reflexivity.
  - discriminate H.
  - discriminate NN.
  - apply Ok_inj in H. split. symmetry. exact H. reflexivity.
Qed.

Theorem linear_at_left_knot_int (x0 x1 y0 y1 : Z) (fy0 : Z) : x1 <> x0 -> of_Z y0 = Ok fy0 ->
  (exists e, linear_func (NInt x0) (NInt x0) (NInt x1) (NInt y0) (NInt y1) = Err e) \/
  (is_finite (Bdiv mode_NE (ofZ64 (y1 - y0)) (ofZ64 (x1 - x0))) = true ->
   exists r, linear_func (NInt x0) (NInt x0) (NInt x1) (NInt y0) (NInt y1) = Ok (NFloat (to_bits64 r)) /\ B2R r = B2R (ofZ64 y0) /\ is_finite r = true).
Proof.
  intros Hne Hy. unfold linear_func, num_sub, num_mul, num_add, num_div, num_bin, to_float. cbn [bind].
  destruct (of_Z (y1 - y0)) as [dy|] eqn:Edy; cbn [bind]; [|left; eauto].
  destruct (of_Z (x1 - x0)) as [dx|] eqn:Edx; cbn [bind]; [|left; eauto].
  unfold fdiv. destruct (f_is_zero dx) eqn:NZ; cbn [bind]; [left; eauto|]. right. intro Fs.
  replace (x0 - x0) with 0 by lia.
  destruct (of_Z_ok _ _ Edy) as [-> Fdy]. destruct (of_Z_ok _ _ Edx) as [-> Fdx]. destruct (of_Z_ok _ _ Hy) as [-> Fy].
  assert (E0 : of_Z 0 = Ok (to_bits64 (B754_zero false))) by reflexivity. rewrite E0. cbn [bind]. rewrite Hy. cbn [bind].
  set (sl := Bdiv mode_NE (ofZ64 (y1 - y0)) (ofZ64 (x1 - x0))) in *.
  assert (S : fdiv_raw (to_bits64 (ofZ64 (y1 - y0))) (to_bits64 (ofZ64 (x1 - x0))) = to_bits64 sl) by (unfold fdiv_raw, lift2; now rewrite !bits_roundtrip).
  rewrite S.
  assert (M : fmul (to_bits64 sl) (to_bits64 (B754_zero false)) = to_bits64 (Bmult mode_NE sl (B754_zero false))) by (unfold fmul, lift2; now rewrite !bits_roundtrip).
  rewrite M. destruct (mult_by_zero sl (B754_zero false) Fs eq_refl eq_refl) as [ZM FM].
  assert (A : fadd (to_bits64 (Bmult mode_NE sl (B754_zero false))) (to_bits64 (ofZ64 y0)) = to_bits64 (Bplus mode_NE (Bmult mode_NE sl (B754_zero false)) (ofZ64 y0)))
    by (unfold fadd, lift2; now rewrite !bits_roundtrip).
  rewrite A. destruct (zero_plus _ (ofZ64 y0) FM Fy ZM) as [R F]. eexists. split; [reflexivity|]. auto.
Qed.

(* a first-order spline passes through its interior and first points: queried at the raw coordinate x0 of the point that
   precedes the first point exceeding the query, it returns that point's calibrated value y0 (numerically: a float r with
   B2R r = B2R y0) whenever the segment's slope is a finite float *)
Theorem spline1_through_knot ex points pts p0 pl i (x0 x1 y0 y1 : b64) :
  sort_points points = pts -> nth_error pts 0 = Some p0 -> nth_pt pts (List.length pts - 1) = pl ->
  let q := NFloat (to_bits64 x0) in
  num_le (fst p0) q = true -> num_le q (fst pl) = true -> num_eq q (fst pl) = false ->
  first_greater pts q 0 = Some i ->
  nth_pt pts (i - 1) = (NFloat (to_bits64 x0), NFloat (to_bits64 y0)) -> nth_pt pts i = (NFloat (to_bits64 x1), NFloat (to_bits64 y1)) ->
  is_finite x0 = true -> is_finite y0 = true ->
  f_is_zero (fsub (to_bits64 x1) (to_bits64 x0)) = false ->
  is_finite (Bdiv mode_NE (Bminus mode_NE y1 y0) (Bminus mode_NE x1 x0)) = true ->
  exists r, spline 1 ex points q = Ok (NFloat (to_bits64 r)) /\ B2R r = B2R y0 /\ is_finite r = true.
Proof.
  intros Hs Hp0 Hpl q H1 H2 H3 Hfg Ha Hb Fx Fy NZ Fs.
  destruct (spline1_in_range 1 ex points pts q p0 pl Hs Hp0 Hpl i eq_refl H1 H2 H3 Hfg) as (E & _ & _).
  rewrite E, Ha, Hb. cbn [fst snd]. now apply linear_at_left_knot.
Qed.

(* non-vacuity: points (0,1) (2,3) (4,10); the query 2.0 is the left point of the second segment *)
Example through_knot_example :
  spline 1 false [(NFloat 0, NFloat 4607182418800017408); (NFloat 4611686018427387904, NFloat 4613937818241073152);
                  (NFloat 4616189618054758400, NFloat 4621819117588971520)] (NFloat 4611686018427387904)
  = Ok (NFloat 4613937818241073152).
Proof. vm_compute. reflexivity. Qed.
