(* Proofs/HeaderFrameP.v — a constructed packet re-frames as itself (C13 with C02) *)
From Coq Require Import ZArith List Lia Bool.
From SPP Require Import Base.Bytes Base.Sx Model.Cursor Model.Header Model.Framer
  Proofs.CursorP Proofs.HeaderP Proofs.FramerP Proofs.FramerCCSDS.
Import ListNotations.
Open Scope Z_scope.
Ltac Zify.zify_post_hook ::= Z.to_euclidean_division_equations.

Lemma packet_is_ccsds v t s a f c data : in_range v t s a f c data -> ccsds_packet (packet v t s a f c data).
Proof.
  intros HR. pose proof HR as [(Hv & Ht & Hs & Ha & Hf & Hc & Hl) Hwf].
  split; [now apply packet_wf|]. split.
  - pose proof (packet_len v t s a f c data) as L. unfold zlen in *. lia.
  - pose proof (header_field v t s a f c data 32 16 HR ltac:(lia) ltac:(lia) ltac:(lia)) as HFld.
    rewrite extract_bits_window in HFld; try lia.
    2:{ now apply packet_wf. }
    2:{ rewrite packet_len. lia. }
    rewrite window_spec in HFld; try lia.
    2:{ now apply packet_wf. }
    2:{ rewrite packet_len. lia. }
    injection HFld as ->. rewrite packet_len. unfold header_sum.
    change (2 ^ (48 - 32 - 16)) with 1. rewrite Z.div_1_r.
    change (2^45) with 35184372088832. change (2^44) with 17592186044416. change (2^43) with 8796093022208.
    change (2^32) with 4294967296. change (2^30) with 1073741824. change (2^16) with 65536. lia.
Qed.

Theorem reframe v t s a f c data : in_range v t s a f c data ->
  frame 0 0 (packet v t s a f c data) [] = Some [packet v t s a f c data].
Proof.
  intro HR. pose proof (frame_bytes_exact TRIM 0 [([], packet v t s a f c data)]) as H. fold frame in H.
  unfold encode in H. cbn [map concat fst snd app] in H. rewrite app_nil_r in H. apply H.
  constructor; [|constructor]. split; [reflexivity|]. now apply packet_is_ccsds.
Qed.
