(* Proofs/MilRealP.v — C04: the real number a MIL-STD-1750A 32-bit pattern decodes to: mantissa (bits 31..8, two's complement)
   times 2^(exponent - 23) (exponent: bits 7..0, two's complement), exactly. *)
From Coq Require Import ZArith Reals Lia Lra Bool.
From Flocq Require Import Core.Core IEEE754.BinarySingleNaN IEEE754.Bits.
From SPP Require Import Base.Sx Base.Floats Proofs.IeeeRealP Proofs.BitsP.
Open Scope Z_scope.

Definition mil_exp (bits : Z) : Z := let ex := Z.land bits 255 in if Z.testbit ex 7 then ex - 256 else ex.
Definition mil_man (bits : Z) : Z := let ma := Z.land (Z.shiftr bits 8) 16777215 in if Z.testbit ma 23 then ma - 16777216 else ma.

Lemma land_ones_range a n : 0 <= n -> 0 <= Z.land a (2 ^ n - 1) < 2 ^ n.
Proof. intro H. replace (2 ^ n - 1) with (Z.ones n) by (rewrite Z.ones_equiv; lia). rewrite Z.land_ones by lia. apply Z.mod_pos_bound. apply Z.pow_pos_nonneg; lia. Qed.

Lemma testbit_top a n : 0 <= n -> 0 <= a < 2 ^ (n + 1) -> Z.testbit a n = (2 ^ n <=? a).
Proof.
  intros Hn Ha. rewrite Z.pow_add_r in Ha by lia. change (2 ^ 1) with 2 in Ha. assert (P : 0 < 2 ^ n) by (apply Z.pow_pos_nonneg; lia).
  destruct (Z.leb_spec (2 ^ n) a) as [L|L].
  - apply Z.testbit_true; [lia|]. assert (E : a / 2 ^ n = 1) by (symmetry; apply Z.div_unique with (a - 2 ^ n); lia). now rewrite E.
  - apply Z.testbit_false; [lia|]. now rewrite Z.div_small by lia.
Qed.

Theorem mil1750a_real bits :
  exists x : b64, dec_mil1750a bits = to_bits64 x /\ is_finite x = true /\
                  B2R x = F2R (Float radix2 (mil_man bits) (mil_exp bits - 23)).
Proof.
  unfold dec_mil1750a. fold (mil_exp bits). fold (mil_man bits).
  set (x := binary_normalize 53 1024 P53 P53lt mode_NE (mil_man bits) (mil_exp bits - 23) false). exists x. split; [reflexivity|].
  assert (He : -128 <= mil_exp bits <= 127).
  { unfold mil_exp. pose proof (land_ones_range bits 8 ltac:(lia)) as R. change (2 ^ 8 - 1) with 255 in R.
    rewrite (testbit_top _ 7 ltac:(lia) R). change (2 ^ 8) with 256 in R. change (2 ^ 7) with 128. destruct (Z.leb_spec 128 (Z.land bits 255)); lia. }
  assert (Hm : Z.abs (mil_man bits) < 2 ^ 24).
  { unfold mil_man. pose proof (land_ones_range (Z.shiftr bits 8) 24 ltac:(lia)) as R. change (2 ^ 24 - 1) with 16777215 in R.
    rewrite (testbit_top _ 23 ltac:(lia) R). change (2 ^ 24) with 16777216 in *. change (2 ^ 23) with 8388608.
    destruct (Z.leb_spec 8388608 (Z.land (Z.shiftr bits 8) 16777215)); lia. }
  destruct (normalize_exact (mil_man bits) (mil_exp bits - 23) false 24 ltac:(lia) Hm ltac:(lia) ltac:(lia)) as [R F]. split; assumption.
Qed.

(* non-vacuity: 0x40000001 is mantissa 0x400000 = 2^22, exponent 1: 2^22 * 2^(1-23) = 1.0 *)
Example mil_one : dec_mil1750a 1073741825 = 4607182418800017408.
Proof. vm_compute. reflexivity. Qed.
