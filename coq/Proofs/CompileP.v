(* Proofs/CompileP.v — a definition compiled from a linked document is ranked (Proofs/FuelP.v), so the decoder's recursion fuel
   is irrelevant on every definition that comes out of loading an XTCE document: the link between C17 (the loaded graph) and
   C05 / C01 (the walk over it). *)
From Coq Require Import ZArith List Bool String Lia.
From SPP Require Import Base.Bytes Base.Sx Model.Cursor Model.Values Model.Criteria Model.Doc Model.Decode Model.Generator
  Model.Xml Model.Loader Model.Compile Model.Framer Proofs.LoaderP Proofs.LinkP Proofs.FuelP Proofs.FramerCCSDS Proofs.GeneratorP.
Import ListNotations.
Open Scope string_scope.
Open Scope list_scope.

Lemma mapM_Forall2 {A B} (f : A -> res B) : forall l l', mapM f l = Ok l' -> Forall2 (fun x y => f x = Ok y) l l'.
Proof.
  induction l as [|x t IH]; intros l' H; cbn [mapM] in H; [injection H as <-; constructor|].
  destruct (f x) as [y|] eqn:E; cbn [bind] in H; [|discriminate]. destruct (mapM f t) as [r|] eqn:M; cbn [bind] in H; [|discriminate].
  injection H as <-. constructor; auto.
Qed.

Lemma Forall2_impl_in {A B} (P Q : A -> B -> Prop) l l' :
  (forall a b, In a l -> In b l' -> P a b -> Q a b) -> Forall2 P l l' -> Forall2 Q l l'.
Proof.
  intros H F. induction F as [|a b l l' Hab _ IH]; constructor.
  - apply H; auto; now left.
  - apply IH. intros a' b' Ha Hb. apply H; now right.
Qed.
Lemma Forall2_in_r {A B} (P : A -> B -> Prop) l l' : Forall2 P l l' -> forall b, In b l' -> exists a, In a l /\ P a b.
Proof.
  induction 1 as [|a b l l' Hab _ IH]; intros b' Hb; [destruct Hb|]. destruct Hb as [<-|Hb].
  - exists a. split; auto. now left.
  - destruct (IH b' Hb) as (a' & Ha & Hp). exists a'. split; auto. now right.
Qed.

Section CP.
Variable lits : list (string * lit).

(* what [c_container] keeps of a linked container *)
Lemma c_container_shape params kc c' : c_container lits params kc = Ok c' ->
  k_name c' = xk_name (lk (snd kc)) /\ k_inheritors c' = lk_inheritors (snd kc) /\ k_base c' = xk_base (lk (snd kc)) /\
  k_abstract c' = xk_abstract (lk (snd kc)) /\ nested_of (k_entries c') = nested_refs (lk (snd kc)).
Proof.
  unfold c_container. destruct (mapM (c_entry params) (xk_entries (lk (snd kc)))) as [es|] eqn:E; cbn [bind]; [|discriminate].
  destruct (c_criteria lits (xk_criteria (lk (snd kc)))) as [ks|]; cbn [bind]; [|discriminate]. intro H. injection H as <-.
  cbn [k_name k_inheritors k_base k_abstract k_entries]. repeat split; auto.
  apply mapM_Forall2 in E. unfold nested_refs, nested_of. induction E as [|x y l l' Hxy _ IH]; [reflexivity|]. cbn [flat_map].
  rewrite IH. unfold c_entry in Hxy. destruct x as [n|n].
  - destruct (assoc params n); [|discriminate]. injection Hxy as <-. reflexivity.
  - injection Hxy as <-. reflexivity.
Qed.

Lemma posd_pos : forall (gc : list (string * lcontainer)) (d : definition),
  Forall2 (fun kc c' => k_name c' = fst kc) gc d -> forall n, posd n d = pos n (map (fun kc => (fst kc, lk (snd kc))) gc).
Proof.
  induction 1 as [|kc c' gc d Hn _ IH]; intro n; [reflexivity|]. cbn [posd pos map fst]. rewrite Hn, IH. reflexivity.
Qed.

Theorem compiled_ranked sxc x g d : link sxc x = Ok g -> compile lits g = Ok d -> ranked d.
Proof.
  intros HL HC. unfold compile in HC.
  destruct (c_types lits g) as [types|]; cbn [bind] in HC; [|discriminate].
  destruct (c_params types g) as [params|]; cbn [bind] in HC; [|discriminate].
  apply mapM_Forall2 in HC.
  (* names line up with the keys of the graph *)
  assert (Names : Forall2 (fun kc c' => k_name c' = fst kc) (g_containers g) d).
  { eapply Forall2_impl_in; [|exact HC]. intros kc c' Hkc _ Hc. destruct (c_container_shape _ _ _ Hc) as (-> & _).
    destruct (link_own_elements sxc x g (fst kc) (lk (snd kc)) HL) as [E _]; auto.
    unfold containers_of. apply in_map_iff. exists kc. auto. }
  pose proof (posd_pos _ _ Names) as PP. fold (containers_of g) in PP.
  destruct (link_wf sxc x g HL) as (_ & _ & _ & Inh). rewrite Forall_forall in Inh.
  intros c' Hc'. destruct (Forall2_in_r _ _ _ HC c' Hc') as (kc & Hkc & Hcc).
  destruct (c_container_shape _ _ _ Hcc) as (Hname & Hinh & _ & _ & Hnest).
  assert (Hkey : fst kc = xk_name (lk (snd kc))).
  { destruct (link_own_elements sxc x g (fst kc) (lk (snd kc)) HL) as [E _]; auto. unfold containers_of. apply in_map_iff. exists kc. auto. }
  assert (HinG : In (fst kc, lk (snd kc)) (containers_of g)) by (unfold containers_of; apply in_map_iff; exists kc; auto).
  split.
  - intros m cm Hm _. rewrite !PP, Hname, <- Hkey. rewrite Hnest in Hm.
    apply (link_refs_resolve sxc x g (fst kc) (lk (snd kc)) m HL HinG). unfold crefs. apply in_or_app. now right.
  - intros m cm Hm _. rewrite !PP, Hname, <- Hkey. rewrite Hinh in Hm.
    destruct (proj1 (Inh kc Hkc m) Hm) as (c0 & Hc0 & Hb).
    apply (link_refs_resolve sxc x g m c0 (fst kc) HL Hc0). unfold crefs. rewrite Hb. now left.
Qed.

Theorem from_document sxc st prefix p x g d root o k pps :
  fst (load st prefix p) = Ok x -> link sxc x = Ok g -> compile lits g = Ok d ->
  stream_ok k pps -> headers_only o = false ->
  Forall (no_fatal d root o) (to_parse o (map snd pps)) ->
  packet_generator d root o k (encode pps)
  = Some (flat_map (fun r => items_of (parse_one d root o r)) (to_parse o (map snd pps)), None) /\ ranked d.
Proof.
  intros _ HL HC Hs Hh Hn. split; [now apply pipeline_refines|exact (compiled_ranked sxc x g d HL HC)].
Qed.
End CP.
