(* Proofs/CodecFuelP.v — C07: the fuel of the text codecs and of the terminator search is not a restriction either: these loops
   consume input on every step, and every amount of fuel above the input length gives the same result (the models are run
   with length + 1). *)
From Coq Require Import ZArith List Bool Lia.
From SPP Require Import Base.Bytes Base.Sx Model.Cursor Model.Values Model.Criteria Model.Doc Model.Decode.
Import ListNotations.
Open Scope Z_scope.

Lemma units_fuel w big : (1 <= w)%nat -> forall f1 f2 l, (List.length l < f1)%nat -> (List.length l < f2)%nat ->
  units w big f1 l = units w big f2 l.
Proof.
  intro Hw. induction f1 as [|f1 IH]; intros f2 l H1 H2; [lia|]. destruct f2 as [|f2]; [lia|]. cbn [units].
  destruct l as [|x t]; [reflexivity|]. destruct (List.length (x :: t) <? w)%nat eqn:L; [reflexivity|].
  apply Nat.ltb_ge in L. rewrite (IH f2 (skipn w (x :: t))); [reflexivity| |]; rewrite skipn_length; lia.
Qed.

Lemma utf8_fuel : forall f1 f2 l, (List.length l < f1)%nat -> (List.length l < f2)%nat -> utf8 f1 l = utf8 f2 l.
Proof.
  induction f1 as [|f1 IH]; intros f2 l H1 H2; [lia|]. destruct f2 as [|f2]; [lia|]. cbn [utf8].
  destruct l as [|b0 t]; [reflexivity|]. cbn [List.length] in *.
  destruct (b0 <? 128); [rewrite (IH f2 t) by lia; reflexivity|].
  destruct ((194 <=? b0) && (b0 <? 224)).
  { destruct t as [|b1 t']; [reflexivity|]. cbn [List.length] in *. destruct ((128 <=? b1) && (b1 <? 192)); [|reflexivity].
    rewrite (IH f2 t') by lia. reflexivity. }
  destruct ((224 <=? b0) && (b0 <? 240)).
  { destruct t as [|b1 [|b2 t']]; try reflexivity. cbn [List.length] in *.
    match goal with |- (if ?c then _ else _) = _ => destruct c end; [|reflexivity]. rewrite (IH f2 t') by lia. reflexivity. }
  destruct ((240 <=? b0) && (b0 <? 245)); [|reflexivity].
  destruct t as [|b1 [|b2 [|b3 t']]]; try reflexivity. cbn [List.length] in *.
  match goal with |- (if ?c then _ else _) = _ => destruct c end; [|reflexivity]. rewrite (IH f2 t') by lia. reflexivity.
Qed.

Lemma find_sub_fuel needle : forall f1 f2 hay i, (List.length hay < f1)%nat -> (List.length hay < f2)%nat ->
  find_sub f1 needle hay i = find_sub f2 needle hay i.
Proof.
  induction f1 as [|f1 IH]; intros f2 hay i H1 H2; [lia|]. destruct f2 as [|f2]; [lia|]. cbn [find_sub].
  match goal with |- (if ?c then _ else _) = _ => destruct c end; [reflexivity|].
  destruct hay as [|x t]; [reflexivity|]. cbn [List.length] in *. apply IH; lia.
Qed.

Lemma find_aligned_fuel w needle : (1 <= w)%nat -> forall f1 f2 hay i, (List.length hay < f1)%nat -> (List.length hay < f2)%nat ->
  find_aligned f1 w needle hay i = find_aligned f2 w needle hay i.
Proof.
  intro Hw. induction f1 as [|f1 IH]; intros f2 hay i H1 H2; [lia|]. destruct f2 as [|f2]; [lia|]. cbn [find_aligned].
  match goal with |- (if ?c then _ else _) = _ => destruct c end; [reflexivity|].
  destruct hay as [|x t]; [reflexivity|]. apply IH; rewrite skipn_length; cbn [List.length] in *; lia.
Qed.
Lemma char_width_pos cs : (1 <= char_width cs)%nat.
Proof. destruct cs; cbn; lia. Qed.

(* as the models are run *)
Theorem decode_text_fuel_irrelevant cs bs k :
  match cs with
  | Utf8 => utf8 (S (List.length bs) + k) bs = utf8 (S (List.length bs)) bs
  | Utf16 (Some o) => units 2 (match o with MSB => true | LSB => false end) (S (List.length bs) + k) bs
                      = units 2 (match o with MSB => true | LSB => false end) (S (List.length bs)) bs
  | Utf32 (Some o) => units 4 (match o with MSB => true | LSB => false end) (S (List.length bs) + k) bs
                      = units 4 (match o with MSB => true | LSB => false end) (S (List.length bs)) bs
  | _ => True
  end.
Proof. destruct cs as [| | | |[o|]|[o|]]; auto; [apply utf8_fuel|apply units_fuel|apply units_fuel]; lia. Qed.
Theorem bytes_index_fuel_irrelevant needle hay k : find_sub (S (List.length hay) + k) needle hay 0 = bytes_index needle hay.
Proof. unfold bytes_index. apply find_sub_fuel; lia. Qed.
Theorem term_index_fuel_irrelevant cs needle hay k :
  find_aligned (S (List.length hay) + k) (char_width cs) needle hay 0 = term_index cs needle hay.
Proof. unfold term_index. apply find_aligned_fuel; [apply char_width_pos|lia|lia]. Qed.
