(* Proofs/NsP.v — C16: which namespace the XTCE elements are in does not matter, including none at all.
   The readers look at a tag only through [is_tag U] (is the element in the XTCE namespace U, and what is its local name), so
   re-labelling every tag — elements in namespace U move to namespace U', all others to a namespace different from U' — and
   reading with U' instead of U gives the same document.  Proved reader by reader, up to [read_doc] and [load]. *)
From Coq Require Import ZArith List Bool String Lia.
From SPP Require Import Base.Sx Model.Xml.
Import ListNotations.
Open Scope string_scope.
Open Scope list_scope.

Definition other (U' : option string) : option string := match U' with None => Some "" | Some _ => None end.
Lemma other_neq U' : ns_eqb (other U') U' = false.
Proof. destruct U'; reflexivity. Qed.
Lemma ns_eqb_refl a : ns_eqb a a = true.
Proof. destruct a; cbn; [apply String.eqb_refl|reflexivity]. Qed.

(* the size part of a string encoding, named so that it can be rewritten *)
Definition size_holder (U : option string) (v : velem) : res (xsize * velem) :=
  match find U "SizeInBits" v with
  | Some sz => match find_path U ["Fixed"; "FixedValue"] sz with
               | Some fv => n <- text_z fv ;; Ok (XFixed n, sz)
               | None => Err EAttr end
  | None =>
    match find U "Variable" v with
    | Some var =>
        match find U "DynamicValue" var with
        | Some dyn => s <- read_dynamic U dyn ;; Ok (s, var)
        | None => match find U "DiscreteLookupList" var with
                  | Some l => ls <- mapM (read_lookup U) (vkids l) ;; Ok (XLookup ls, var)
                  | None => Err EValue end
        end
    | None => Err EValue
    end
  end.
Lemma read_string_unfold U v : read_string U v =
  (cs <- (o <- opt_s v "encoding" ;; Ok (match o with Some s => s | None => "UTF-8" end)) ;;
   order <- (if single_byte cs then Ok None
             else if String.eqb cs "UTF-16LE" || String.eqb cs "UTF-32LE" then Ok (Some "leastSignificantByteFirst")
             else if String.eqb cs "UTF-16BE" || String.eqb cs "UTF-32BE" then Ok (Some "mostSignificantByteFirst")
             else o <- opt_s v "byteOrder" ;; match o with Some s => Ok (Some s) | None => Err EValue end) ;;
   '(size, holder) <- size_holder U v ;;
   term <- match find U "TerminationChar" holder with Some t => s <- text_s t ;; Ok (Some s) | None => Ok None end ;;
   lead <- match find U "LeadingSize" holder with Some l => z <- req_z l "sizeInBitsOfSizeTag" ;; Ok (Some z) | None => Ok None end ;;
   Ok {| xs_charset := cs; xs_order := order; xs_size := size; xs_term := term; xs_leading := lead |}).
Proof. reflexivity. Qed.

Section Rename.
Variables U U' : option string.

Fixpoint rn (v : velem) : velem :=
  match v with VE (ns, n) a t k => VE (if ns_eqb ns U then U' else other U', n) a t (map rn k) end.

Lemma is_tag_rn n v : is_tag U' n (rn v) = is_tag U n v.
Proof.
  destruct v as [[ns m] a t k]. unfold is_tag. cbn [rn vtag fst snd]. destruct (ns_eqb ns U); [now rewrite ns_eqb_refl|now rewrite other_neq].
Qed.
Lemma kids_rn v : vkids (rn v) = map rn (vkids v). Proof. destruct v as [[ns m] a t k]. reflexivity. Qed.
Lemma attrs_rn v : vattrs (rn v) = vattrs v. Proof. destruct v as [[ns m] a t k]. reflexivity. Qed.
Lemma text_rn v : vtext (rn v) = vtext v. Proof. destruct v as [[ns m] a t k]. reflexivity. Qed.
Lemma localname_rn v : localname (rn v) = localname v. Proof. destruct v as [[ns m] a t k]. reflexivity. Qed.
Lemma get_rn v n : get (rn v) n = get v n. Proof. unfold get. now rewrite attrs_rn. Qed.

Lemma vdepth_rn : forall v, vdepth (rn v) = vdepth v.
Proof.
  fix IH 1. intros [[ns m] a t k]. cbn [rn vdepth]. f_equal. induction k as [|x r IHr]; [reflexivity|]. cbn [map fold_right]. now rewrite IH, IHr.
Qed.

Lemma find_map {A B} (p : B -> bool) (q : A -> bool) (f : A -> B) l : (forall x, p (f x) = q x) ->
  List.find p (map f l) = option_map f (List.find q l).
Proof. intro H. induction l as [|x t IH]; [reflexivity|]. cbn [map List.find]. rewrite H. destruct (q x); [reflexivity|exact IH]. Qed.
Lemma filter_map {A B} (p : B -> bool) (q : A -> bool) (f : A -> B) l : (forall x, p (f x) = q x) ->
  List.filter p (map f l) = map f (List.filter q l).
Proof. intro H. induction l as [|x t IH]; [reflexivity|]. cbn [map List.filter]. rewrite H. destruct (q x); cbn [map]; now rewrite IH. Qed.

Lemma find_rn n v : find U' n (rn v) = option_map rn (find U n v).
Proof. unfold find. rewrite kids_rn. apply find_map. intro x. apply is_tag_rn. Qed.
Lemma findall_rn n v : findall U' n (rn v) = map rn (findall U n v).
Proof. unfold findall. rewrite kids_rn. apply filter_map. intro x. apply is_tag_rn. Qed.
Lemma find_path_rn path : forall v, find_path U' path (rn v) = option_map rn (find_path U path v).
Proof. induction path as [|n t IH]; intro v; cbn [find_path]; [reflexivity|]. rewrite find_rn. destruct (find U n v); cbn [option_map]; auto. Qed.
Lemma descendants_rn : forall f v, descendants f (rn v) = map rn (descendants f v).
Proof.
  induction f as [|f IH]; intro v; [reflexivity|]. cbn [descendants]. rewrite kids_rn.
  induction (vkids v) as [|x r IHr]; [reflexivity|]. cbn [map flat_map]. rewrite IH, IHr. now rewrite map_app.
Qed.
Lemma find_desc_rn n v : find_desc U' n (rn v) = option_map rn (find_desc U n v).
Proof. unfold find_desc. rewrite vdepth_rn, descendants_rn. apply find_map. intro x. apply is_tag_rn. Qed.

Lemma req_s_rn v n : req_s (rn v) n = req_s v n. Proof. unfold req_s. now rewrite get_rn. Qed.
Lemma req_z_rn v n : req_z (rn v) n = req_z v n. Proof. unfold req_z. now rewrite get_rn. Qed.
Lemma req_f_rn v n : req_f (rn v) n = req_f v n. Proof. unfold req_f. now rewrite get_rn. Qed.
Lemma opt_s_rn v n : opt_s (rn v) n = opt_s v n. Proof. unfold opt_s. now rewrite get_rn. Qed.
Lemma opt_b_rn v n b : opt_b (rn v) n b = opt_b v n b. Proof. unfold opt_b. now rewrite get_rn. Qed.
Lemma text_s_rn v : text_s (rn v) = text_s v. Proof. unfold text_s. now rewrite text_rn. Qed.
Lemma text_z_rn v : text_z (rn v) = text_z v. Proof. unfold text_z. now rewrite text_rn. Qed.

Lemma mapM_rn {B} (f' f : velem -> res B) l : (forall x, f' (rn x) = f x) -> mapM f' (map rn l) = mapM f l.
Proof. intro H. induction l as [|x t IH]; [reflexivity|]. cbn [map mapM]. now rewrite H, IH. Qed.

Hint Rewrite find_rn findall_rn find_path_rn find_desc_rn kids_rn get_rn text_rn localname_rn vdepth_rn
  req_s_rn req_z_rn req_f_rn opt_s_rn opt_b_rn text_s_rn text_z_rn : rn.
Ltac om := repeat match goal with |- context [option_map rn ?o] => destruct o; cbn [option_map] end.
Ltac bd := match goal with
  | |- bind ?r _ = bind ?r _ => destruct r; cbn [bind]
  | |- (let (_, _) := ?r in _) = (let (_, _) := ?r in _) => destruct r
  end.
Ltac go := repeat (autorewrite with rn; om; try reflexivity; try bd).

Lemma read_comparison_rn v : read_comparison (rn v) = read_comparison v.
Proof. unfold read_comparison. go. Qed.
Lemma read_instance_ref_rn v : read_instance_ref (rn v) = read_instance_ref v.
Proof. unfold read_instance_ref. go. Qed.
Lemma read_condition_rn v : read_condition U' (rn v) = read_condition U v.
Proof.
  unfold read_condition. rewrite find_rn. destruct (find U "ComparisonOperator" v) as [opel|]; cbn [option_map]; [|reflexivity].
  rewrite text_s_rn. destruct (text_s opel) as [op|]; cbn [bind]; [|reflexivity].
  rewrite findall_rn, find_rn. destruct (findall U "ParameterInstanceRef" v) as [|l [|r [|x y]]]; cbn [map]; try reflexivity.
  - rewrite read_instance_ref_rn. destruct (read_instance_ref l) as [[ln lc]|]; cbn [bind]; [|reflexivity].
    destruct (find U "Value" v); cbn [option_map]; [|reflexivity]. now rewrite text_s_rn.
  - rewrite !read_instance_ref_rn. reflexivity.
Qed.
Lemma read_bx_rn : forall fuel v, read_anded U' fuel (rn v) = read_anded U fuel v /\ read_ored U' fuel (rn v) = read_ored U fuel v.
Proof.
  induction fuel as [|f IH]; intro v; [split; reflexivity|]. cbn [read_anded read_ored]. autorewrite with rn.
  rewrite !(mapM_rn (read_condition U') (read_condition U)) by apply read_condition_rn.
  rewrite (mapM_rn (read_ored U' f) (read_ored U f)) by (intro x; apply IH).
  rewrite (mapM_rn (read_anded U' f) (read_anded U f)) by (intro x; apply IH). split; reflexivity.
Qed.
Lemma read_bexpr_rn v : read_bexpr U' (rn v) = read_bexpr U v.
Proof.
  unfold read_bexpr. go; rewrite ?read_condition_rn; autorewrite with rn; try reflexivity.
  - now rewrite (proj1 (read_bx_rn _ _)).
  - now rewrite (proj2 (read_bx_rn _ _)).
Qed.
Lemma read_match_rn a b v : read_match U' a b (rn v) = read_match U a b v.
Proof.
  unfold read_match. go.
  - destruct a; autorewrite with rn; now rewrite (mapM_rn read_comparison read_comparison) by apply read_comparison_rn.
  - now rewrite read_comparison_rn.
  - destruct b; [|reflexivity]. go. now rewrite read_bexpr_rn.
Qed.
Lemma read_poly_rn v : read_poly (rn v) = read_poly v.
Proof. unfold read_poly. autorewrite with rn. rewrite (mapM_rn _ (fun t => c <- req_f t "coefficient" ;; e <- req_z t "exponent" ;; Ok (c, e))); [reflexivity|]. intro x. now autorewrite with rn. Qed.
Lemma read_spline_rn v : read_spline (rn v) = read_spline v.
Proof. unfold read_spline. autorewrite with rn. rewrite (mapM_rn _ (fun p => r <- req_f p "raw" ;; c <- req_f p "calibrated" ;; Ok (r, c))); [reflexivity|]. intro x. now autorewrite with rn. Qed.
Lemma read_default_cal_rn v : read_default_cal U' (rn v) = read_default_cal U v.
Proof. unfold read_default_cal. go; rewrite ?read_spline_rn, ?read_poly_rn; reflexivity. Qed.
Lemma read_context_rn v : read_context U' (rn v) = read_context U v.
Proof.
  unfold read_context. rewrite find_rn. destruct (find U "ContextMatch" v) as [m|]; cbn [option_map]; [|reflexivity].
  rewrite read_match_rn. destruct (read_match U false true m) as [[ks|]|]; cbn [bind]; try reflexivity.
  rewrite !find_path_rn. destruct (find_path U ["Calibrator"; "SplineCalibrator"] v); cbn [option_map]; [now rewrite read_spline_rn|].
  destruct (find_path U ["Calibrator"; "PolynomialCalibrator"] v); cbn [option_map]; [now rewrite read_poly_rn|reflexivity].
Qed.
Lemma read_context_list_rn v : read_context_list U' (rn v) = read_context_list U v.
Proof. unfold read_context_list. go. now rewrite (mapM_rn (read_context U') (read_context U)) by apply read_context_rn. Qed.
Lemma read_lookup_rn v : read_lookup U' (rn v) = read_lookup U v.
Proof. unfold read_lookup. autorewrite with rn. now rewrite read_match_rn. Qed.
Lemma read_adjust_rn v : read_adjust U' (rn v) = read_adjust U v.
Proof. unfold read_adjust. go. Qed.
Lemma read_dynamic_rn v : read_dynamic U' (rn v) = read_dynamic U v.
Proof. unfold read_dynamic. go. now rewrite read_adjust_rn. Qed.
Lemma read_numeric_rn f v : read_numeric U' f (rn v) = read_numeric U f v.
Proof. unfold read_numeric. autorewrite with rn. now rewrite read_default_cal_rn, read_context_list_rn. Qed.
Lemma size_holder_rn v : size_holder U' (rn v) = match size_holder U v with Ok (s, h) => Ok (s, rn h) | Err e => Err e end.
Proof.
  unfold size_holder. rewrite find_rn. destruct (find U "SizeInBits" v) as [sz|]; cbn [option_map].
  - rewrite find_path_rn. destruct (find_path U ["Fixed"; "FixedValue"] sz) as [fv|]; cbn [option_map]; [|reflexivity].
    rewrite text_z_rn. destruct (text_z fv); reflexivity.
  - rewrite find_rn. destruct (find U "Variable" v) as [var|]; cbn [option_map]; [|reflexivity].
    rewrite find_rn. destruct (find U "DynamicValue" var) as [dyn|]; cbn [option_map].
    + rewrite read_dynamic_rn. destruct (read_dynamic U dyn); reflexivity.
    + rewrite find_rn. destruct (find U "DiscreteLookupList" var) as [l|]; cbn [option_map]; [|reflexivity].
      rewrite kids_rn, (mapM_rn (read_lookup U') (read_lookup U)) by apply read_lookup_rn. destruct (mapM (read_lookup U) (vkids l)); reflexivity.
Qed.
Lemma read_string_rn v : read_string U' (rn v) = read_string U v.
Proof.
  rewrite !read_string_unfold. rewrite !opt_s_rn.
  destruct (opt_s v "encoding") as [o|]; cbn [bind]; [|reflexivity].
  match goal with |- bind ?r _ = bind ?r _ => destruct r as [order|]; cbn [bind]; [|reflexivity] end.
  rewrite size_holder_rn. destruct (size_holder U v) as [[s h]|]; cbn [bind]; [|reflexivity].
  rewrite !find_rn. destruct (find U "TerminationChar" h) as [t|]; cbn [option_map].
  - rewrite text_s_rn. destruct (text_s t); cbn [bind]; [|reflexivity].
    destruct (find U "LeadingSize" h) as [l|]; cbn [option_map]; [now rewrite req_z_rn|reflexivity].
  - cbn [bind]. destruct (find U "LeadingSize" h) as [l|]; cbn [option_map]; [now rewrite req_z_rn|reflexivity].
Qed.
Lemma read_binary_rn v : read_binary U' (rn v) = read_binary U v.
Proof.
  unfold read_binary. rewrite !find_path_rn.
  destruct (find_path U ["SizeInBits"; "FixedValue"] v) as [fv|]; cbn [option_map]; [now rewrite text_z_rn|].
  destruct (find_path U ["SizeInBits"; "DynamicValue"] v) as [dyn|]; cbn [option_map]; [apply read_dynamic_rn|].
  destruct (find_path U ["SizeInBits"; "DiscreteLookupList"] v) as [l|]; cbn [option_map]; [|reflexivity].
  now rewrite kids_rn, (mapM_rn (read_lookup U') (read_lookup U)) by apply read_lookup_rn.
Qed.
Lemma read_encoding_rn v : read_encoding U' (rn v) = read_encoding U v.
Proof.
  unfold read_encoding. rewrite !find_desc_rn.
  destruct (find_desc U "StringDataEncoding" v); cbn [option_map]; [now rewrite read_string_rn|].
  destruct (find_desc U "IntegerDataEncoding" v); cbn [option_map]; [now rewrite read_numeric_rn|].
  destruct (find_desc U "FloatDataEncoding" v); cbn [option_map]; [now rewrite read_numeric_rn|].
  destruct (find_desc U "BinaryDataEncoding" v); cbn [option_map]; [now rewrite read_binary_rn|reflexivity].
Qed.
Lemma read_units_rn v : read_units U' (rn v) = read_units U v.
Proof.
  unfold read_units. rewrite find_rn. destruct (find U "UnitSet" v) as [us|]; cbn [option_map]; [|reflexivity].
  rewrite findall_rn. destruct (findall U "Unit" us) as [|u [|u2 r]]; cbn [map]; try reflexivity. now rewrite text_s_rn.
Qed.
Lemma read_enum_labels_rn v : read_enum_labels U' (rn v) = read_enum_labels U v.
Proof.
  unfold read_enum_labels. rewrite find_rn. destruct (find U "EnumerationList" v) as [l|]; cbn [option_map]; [|reflexivity].
  rewrite kids_rn. apply mapM_rn. intro x. now rewrite get_rn, req_s_rn.
Qed.
Lemma read_ptype_rn v : read_ptype U' (rn v) = read_ptype U v.
Proof.
  unfold read_ptype. rewrite !localname_rn, !req_s_rn, !find_rn, !find_path_rn, !read_encoding_rn, !get_rn, !read_units_rn, !read_enum_labels_rn.
  destruct (String.eqb (localname v) "AbsoluteTimeParameterType" || String.eqb (localname v) "RelativeTimeParameterType")%bool; [|reflexivity].
  destruct (req_s v "name"); cbn [bind]; [|reflexivity].
  destruct (find U "Encoding" v) as [e|]; cbn [option_map].
  - rewrite opt_s_rn, !get_rn. destruct (opt_s e "units"); cbn [bind]; [|reflexivity]. destruct (read_encoding U v); cbn [bind]; [|reflexivity].
    match goal with |- bind ?r _ = bind ?r _ => destruct r; cbn [bind]; [|reflexivity] end.
    destruct (find_path U ["ReferenceTime"; "Epoch"] v) as [ep|]; cbn [option_map]; rewrite ?text_s_rn;
      (match goal with |- bind ?r _ = bind ?r _ => destruct r; cbn [bind]; [|reflexivity] end);
      (destruct (find_path U ["ReferenceTime"; "OffsetFrom"] v) as [ofr|]; cbn [option_map]; rewrite ?req_s_rn; reflexivity).
  - cbn [bind]. destruct (read_encoding U v); reflexivity.
Qed.
Lemma read_param_rn v : read_param U' (rn v) = read_param U v.
Proof.
  unfold read_param. rewrite !req_s_rn, opt_s_rn, find_rn. destruct (find U "LongDescription" v) as [l|]; cbn [option_map]; [now rewrite text_rn|reflexivity].
Qed.
Lemma read_container_rn v : read_container U' (rn v) = read_container U v.
Proof.
  unfold read_container. rewrite !find_rn, !req_s_rn, !opt_s_rn, !opt_b_rn.
  assert (B : match option_map rn (find U "BaseContainer" v) with
     | None => Ok (None, [])
     | Some b => ref <- req_s b "containerRef" ;;
         match find U' "RestrictionCriteria" b with
         | None => Ok (Some ref, [])
         | Some rc => m <- read_match U' true true rc ;;
             match m with
             | Some ks => Ok (Some ref, ks)
             | None => match find U' "CustomAlgorithm" rc with Some _ => Err ENotImpl | None => Err EValue end
             end
         end
     end = match find U "BaseContainer" v with
     | None => Ok (None, [])
     | Some b => ref <- req_s b "containerRef" ;;
         match find U "RestrictionCriteria" b with
         | None => Ok (Some ref, [])
         | Some rc => m <- read_match U true true rc ;;
             match m with
             | Some ks => Ok (Some ref, ks)
             | None => match find U "CustomAlgorithm" rc with Some _ => Err ENotImpl | None => Err EValue end
             end
         end
     end).
  { destruct (find U "BaseContainer" v) as [b|]; cbn [option_map]; [|reflexivity]. rewrite req_s_rn, find_rn.
    destruct (req_s b "containerRef"); cbn [bind]; [|reflexivity].
    destruct (find U "RestrictionCriteria" b) as [rc|]; cbn [option_map]; [|reflexivity]. rewrite read_match_rn, find_rn.
    destruct (read_match U true true rc) as [[ks|]|]; cbn [bind]; try reflexivity. destruct (find U "CustomAlgorithm" rc); reflexivity. }
  rewrite B. clear B.
  match goal with |- bind ?r _ = bind ?r _ => destruct r as [[base crit]|]; cbn [bind]; [|reflexivity] end.
  assert (E : match option_map rn (find U "EntryList" v) with
     | None => Err EAttr
     | Some el => mapM (fun e => if String.eqb (localname e) "ParameterRefEntry" then n <- req_s e "parameterRef" ;; Ok [XEP n]
                                  else if String.eqb (localname e) "ContainerRefEntry" then n <- req_s e "containerRef" ;; Ok [XEC n]
                                  else Ok []) (vkids el)
     end = match find U "EntryList" v with
     | None => Err EAttr
     | Some el => mapM (fun e => if String.eqb (localname e) "ParameterRefEntry" then n <- req_s e "parameterRef" ;; Ok [XEP n]
                                  else if String.eqb (localname e) "ContainerRefEntry" then n <- req_s e "containerRef" ;; Ok [XEC n]
                                  else Ok []) (vkids el)
     end).
  { destruct (find U "EntryList" v) as [el|]; cbn [option_map]; [|reflexivity]. rewrite kids_rn. apply mapM_rn. intro x.
    now rewrite localname_rn, !req_s_rn. }
  rewrite E. clear E.
  match goal with |- bind ?r _ = bind ?r _ => destruct r; cbn [bind]; [|reflexivity] end.
  destruct (opt_s v "shortDescription"); cbn [bind]; [|reflexivity].
  destruct (find U "LongDescription" v) as [l|]; cbn [option_map]; [now rewrite text_rn|reflexivity].
Qed.
Theorem read_doc_rn v : read_doc U' (rn v) = read_doc U v.
Proof.
  unfold read_doc. rewrite !find_rn, !find_path_rn, opt_s_rn.
  destruct (find U "Header" v) as [h|]; cbn [option_map]; rewrite ?opt_s_rn;
    (match goal with |- bind ?r _ = bind ?r _ => destruct r; cbn [bind]; [|reflexivity] end);
    (destruct (find_path U ["TelemetryMetaData"; "ParameterTypeSet"] v) as [s1|]; cbn [option_map]; [|reflexivity]);
    rewrite kids_rn, (mapM_rn (read_ptype U') (read_ptype U)) by apply read_ptype_rn;
    (destruct (mapM (read_ptype U) (vkids s1)); cbn [bind]; [|reflexivity]);
    (destruct (find_path U ["TelemetryMetaData"; "ParameterSet"] v) as [s2|]; cbn [option_map]; [|reflexivity]);
    rewrite kids_rn, (mapM_rn (read_param U') (read_param U)) by apply read_param_rn;
    (destruct (mapM (read_param U) (vkids s2)); cbn [bind]; [|reflexivity]);
    (destruct (find_path U ["TelemetryMetaData"; "ContainerSet"] v) as [s3|]; cbn [option_map]; [|reflexivity]);
    rewrite kids_rn, (mapM_rn (read_container U') (read_container U)) by apply read_container_rn; reflexivity.
Qed.
End Rename.


(* ---------------- on raw trees, and for [load] ---------------- *)
From SPP Require Import Model.Loader Proofs.XmlP.

Section RenameXml.
Variables U U' : option string.

Fixpoint rnx (x : xml) : xml :=
  match x with
  | Elem (ns, n) a ch => Elem (if ns_eqb ns U then U' else other U', n) a (map rnx ch)
  | o => o
  end.

Lemma text_of_rnx ch : text_of (map rnx ch) = text_of ch.
Proof. destruct ch as [|[[ns n] a c|s|s] t]; reflexivity. Qed.

Lemma view_rnx : forall x, view (rnx x) = option_map (rn U U') (view x).
Proof.
  apply (xml_ind' (fun x => view (rnx x) = option_map (rn U U') (view x))); [|reflexivity|reflexivity].
  intros [ns n] attrs children IH. cbn [rnx]. rewrite !view_elem. cbn [option_map rn]. f_equal. f_equal; [apply text_of_rnx|].
  induction IH as [|c t Hc _ IHt]; [reflexivity|]. cbn [map]. rewrite !view_list_cons, Hc.
  destruct (view c); cbn [option_map map]; now rewrite IHt.
Qed.

(* reading the re-labelled tree with U' = reading the tree with U *)
Theorem load_relabelled st st' prefix prefix' root nsmap nsmap' :
  resolve {| st_prefix := prefix; st_nsmap := nsmap |} = Ok U ->
  resolve {| st_prefix := prefix'; st_nsmap := nsmap' |} = Ok U' ->
  fst (load st' prefix' {| pr_root := rnx root; pr_nsmap := nsmap' |}) = fst (load st prefix {| pr_root := root; pr_nsmap := nsmap |}).
Proof.
  intros R R'. unfold load. cbn [fst pr_root pr_nsmap]. rewrite R, R'. cbn [bind]. rewrite view_rnx.
  destruct (view root); cbn [option_map]; [apply read_doc_rn|reflexivity].
Qed.
End RenameXml.

(* the document written with no namespace at all (loaded with no prefix and an empty namespace map) is the document written
   with prefix p bound to u, every element of namespace u having lost its namespace *)
Theorem no_namespace_spelling st st' p u root :
  fst (load st' None {| pr_root := rnx (Some u) None root; pr_nsmap := [] |})
  = fst (load st (Some p) {| pr_root := root; pr_nsmap := [(Some p, u)] |}).
Proof.
  apply (load_relabelled (Some u) None).
  - unfold resolve. cbn [st_prefix st_nsmap]. now rewrite ns_lookup_single.
  - reflexivity.
Qed.
