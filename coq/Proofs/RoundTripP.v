(* Proofs/RoundTripP.v — C09 (write then read) and C15 (namespace of the written tree) *)
From Coq Require Import ZArith List Bool String Lia.
From SPP Require Import Base.Sx Model.Xml.
Import ListNotations.
Open Scope string_scope.
Open Scope list_scope.

Section RT.
Variable U : option string.

Lemma ns_eqb_refl a : ns_eqb a a = true.
Proof. destruct a; cbn; auto. apply String.eqb_refl. Qed.
Lemma is_tag_VE n m a t k : is_tag U n (VE (U, m) a t k) = String.eqb m n.
Proof. unfold is_tag. cbn [vtag fst snd]. now rewrite ns_eqb_refl. Qed.

Lemma is_tag_E n m a k : is_tag U n (E U m a k) = String.eqb m n.
Proof. apply is_tag_VE. Qed.
Lemma is_tag_ET n m t : is_tag U n (ET U m t) = String.eqb m n.
Proof. apply is_tag_VE. Qed.
Lemma E_kids m a k : vkids (E U m a k) = k. Proof. reflexivity. Qed.
Lemma E_attrs m a k : vattrs (E U m a k) = a. Proof. reflexivity. Qed.
Lemma ET_text m t : vtext (ET U m t) = Some t. Proof. reflexivity. Qed.

Ltac step := repeat (progress (
  unfold find, findall, get, req_s, req_z, req_f, opt_s, opt_b, text_s, text_z, localname;
  rewrite ?E_kids, ?E_attrs, ?ET_text;
  cbn [List.find filter attr bind fst snd app map find_path];
  rewrite ?is_tag_E, ?is_tag_ET, ?is_tag_VE;
  cbn [String.eqb Ascii.eqb Bool.eqb])).

Theorem rt_comparison c : read_comparison (write_comparison U c) = Ok c.
Proof. destruct c. unfold read_comparison, write_comparison. step. reflexivity. Qed.

Theorem rt_condition d : read_condition U (write_condition U d) = Ok d.
Proof.
  destruct d as [l lc op [n c|s]]; unfold read_condition, write_condition, read_instance_ref; cbn [xd_left xd_lcal xd_op xd_right]; step; reflexivity.
Qed.

Lemma mapM_map_rt {A} (r : velem -> res A) (w : A -> velem) (l : list A) :
  Forall (fun x => r (w x) = Ok x) l -> mapM r (map w l) = Ok l.
Proof. induction 1 as [|x t Hx _ IH]; [reflexivity|]. cbn [map mapM]. now rewrite Hx, IH. Qed.
Lemma mapM_conditions cs : mapM (read_condition U) (map (write_condition U) cs) = Ok cs.
Proof. apply mapM_map_rt. rewrite Forall_forall. intros; apply rt_condition. Qed.

(* filtering the written children by tag *)
Lemma filter_tag_app n (a b : list velem) : filter (is_tag U n) (a ++ b) = filter (is_tag U n) a ++ filter (is_tag U n) b.
Proof. apply filter_app. Qed.
Lemma filter_conditions_all cs : filter (is_tag U "Condition") (map (write_condition U) cs) = map (write_condition U) cs.
Proof. induction cs as [|c t IH]; [reflexivity|]. cbn [map filter]. unfold write_condition at 1. unfold E. rewrite is_tag_VE. cbn. now rewrite IH. Qed.
Lemma filter_conditions_none n cs : String.eqb "Condition" n = false -> filter (is_tag U n) (map (write_condition U) cs) = [].
Proof. intro H. induction cs as [|c t IH]; [reflexivity|]. cbn [map filter]. unfold write_condition at 1. unfold E. rewrite is_tag_VE, H. exact IH. Qed.

Definition bx_tag (t : xbx) : string := match t with XAnd _ _ => "ANDedConditions" | XOr _ _ => "ORedConditions" end.
Lemma write_bx_tag t : exists a k, write_bx U t = VE (U, bx_tag t) a None k.
Proof. destruct t; cbn; unfold E; eauto. Qed.

(* the trees the library builds alternate: ANDed groups contain ORed groups and vice versa *)
Fixpoint alternating (t : xbx) : Prop :=
  match t with
  | XAnd _ subs => (fix all (l : list xbx) : Prop := match l with [] => True | s :: r => (match s with XOr _ _ => True | _ => False end) /\ alternating s /\ all r end) subs
  | XOr _ subs => (fix all (l : list xbx) : Prop := match l with [] => True | s :: r => (match s with XAnd _ _ => True | _ => False end) /\ alternating s /\ all r end) subs
  end.

Fixpoint bx_depth (t : xbx) : nat :=
  match t with XAnd _ subs | XOr _ subs => S (fold_right (fun k acc => Nat.max (bx_depth k) acc) O subs) end.

Section bx_ind.
  Variable P : xbx -> Prop.
  Hypothesis HA : forall cs subs, Forall P subs -> P (XAnd cs subs).
  Hypothesis HO : forall cs subs, Forall P subs -> P (XOr cs subs).
  Fixpoint xbx_ind' (t : xbx) : P t :=
    match t with
    | XAnd cs subs => HA cs subs ((fix go (l : list xbx) : Forall P l := match l with [] => Forall_nil _ | x :: r => Forall_cons x (xbx_ind' x) (go r) end) subs)
    | XOr cs subs => HO cs subs ((fix go (l : list xbx) : Forall P l := match l with [] => Forall_nil _ | x :: r => Forall_cons x (xbx_ind' x) (go r) end) subs)
    end.
End bx_ind.

Lemma filter_subs_keep tag subs : Forall (fun s => bx_tag s = tag) subs -> filter (is_tag U tag) (map (write_bx U) subs) = map (write_bx U) subs.
Proof.
  induction 1 as [|s r Hs _ IH]; [reflexivity|]. cbn [map filter]. destruct (write_bx_tag s) as (a & k & ->).
  rewrite is_tag_VE, Hs, String.eqb_refl. now rewrite IH.
Qed.
Lemma filter_subs_drop tag subs : Forall (fun s => String.eqb (bx_tag s) tag = false) subs -> filter (is_tag U tag) (map (write_bx U) subs) = [].
Proof.
  induction 1 as [|s r Hs _ IH]; [reflexivity|]. cbn [map filter]. destruct (write_bx_tag s) as (a & k & ->).
  now rewrite is_tag_VE, Hs.
Qed.

Lemma read_anded_S f v : read_anded U (S f) v =
  (cs <- mapM (read_condition U) (findall U "Condition" v) ;; subs <- mapM (read_ored U f) (findall U "ORedConditions" v) ;; Ok (XAnd cs subs)).
Proof. reflexivity. Qed.
Lemma read_ored_S f v : read_ored U (S f) v =
  (cs <- mapM (read_condition U) (findall U "Condition" v) ;; subs <- mapM (read_anded U f) (findall U "ANDedConditions" v) ;; Ok (XOr cs subs)).
Proof. reflexivity. Qed.
Lemma write_and cs subs : write_bx U (XAnd cs subs) = E U "ANDedConditions" [] (map (write_condition U) cs ++ map (write_bx U) subs).
Proof. reflexivity. Qed.
Lemma write_or cs subs : write_bx U (XOr cs subs) = E U "ORedConditions" [] (map (write_condition U) cs ++ map (write_bx U) subs).
Proof. reflexivity. Qed.

Theorem rt_bx : forall t, alternating t -> forall fuel, (bx_depth t <= fuel)%nat ->
  (match t with XAnd _ _ => read_anded U fuel (write_bx U t) | XOr _ _ => read_ored U fuel (write_bx U t) end) = Ok t.
Proof.
  apply (xbx_ind' (fun t => alternating t -> forall fuel, (bx_depth t <= fuel)%nat ->
          (match t with XAnd _ _ => read_anded U fuel (write_bx U t) | XOr _ _ => read_ored U fuel (write_bx U t) end) = Ok t)).
  - intros cs subs IH Alt fuel Hf. destruct fuel as [|f]; [cbn in Hf; lia|].
    rewrite write_and, read_anded_S. unfold findall. rewrite E_kids. rewrite !filter_tag_app.
    rewrite filter_conditions_all. rewrite (filter_conditions_none "ORedConditions") by reflexivity.
    assert (Tags : Forall (fun s => bx_tag s = "ORedConditions") subs /\ Forall (fun s => String.eqb (bx_tag s) "Condition" = false) subs).
    { clear - Alt. cbn [alternating] in Alt. induction subs as [|s r IHr]; [split; constructor|]. destruct Alt as (A1 & A2 & A3).
      destruct (IHr A3) as [I1 I2]. destruct s; try contradiction. split; constructor; auto. }
    destruct Tags as [T1 T2]. rewrite (filter_subs_drop "Condition") by exact T2. rewrite (filter_subs_keep "ORedConditions") by exact T1.
    rewrite app_nil_r. cbn [app]. rewrite mapM_conditions. cbn [bind].
    assert (M : mapM (read_ored U f) (map (write_bx U) subs) = Ok subs).
    { clear T1 T2. cbn [alternating] in Alt. cbn [bx_depth] in Hf.
      induction subs as [|s r IHr]; [reflexivity|]. inversion IH as [|? ? Hs Hr]; subst. destruct Alt as (A1 & A2 & A3).
      cbn [fold_right] in Hf. cbn [map mapM]. destruct s; try contradiction.
      rewrite (Hs A2 f) by lia. cbn [bind]. rewrite IHr; auto. lia. }
    now rewrite M.
  - intros cs subs IH Alt fuel Hf. destruct fuel as [|f]; [cbn in Hf; lia|].
    rewrite write_or, read_ored_S. unfold findall. rewrite E_kids. rewrite !filter_tag_app.
    rewrite filter_conditions_all. rewrite (filter_conditions_none "ANDedConditions") by reflexivity.
    assert (Tags : Forall (fun s => bx_tag s = "ANDedConditions") subs /\ Forall (fun s => String.eqb (bx_tag s) "Condition" = false) subs).
    { clear - Alt. cbn [alternating] in Alt. induction subs as [|s r IHr]; [split; constructor|]. destruct Alt as (A1 & A2 & A3).
      destruct (IHr A3) as [I1 I2]. destruct s; try contradiction. split; constructor; auto. }
    destruct Tags as [T1 T2]. rewrite (filter_subs_drop "Condition") by exact T2. rewrite (filter_subs_keep "ANDedConditions") by exact T1.
    rewrite app_nil_r. cbn [app]. rewrite mapM_conditions. cbn [bind].
    assert (M : mapM (read_anded U f) (map (write_bx U) subs) = Ok subs).
    { clear T1 T2. cbn [alternating] in Alt. cbn [bx_depth] in Hf.
      induction subs as [|s r IHr]; [reflexivity|]. inversion IH as [|? ? Hs Hr]; subst. destruct Alt as (A1 & A2 & A3).
      cbn [fold_right] in Hf. cbn [map mapM]. destruct s; try contradiction.
      rewrite (Hs A2 f) by lia. cbn [bind]. rewrite IHr; auto. lia. }
    now rewrite M.
Qed.

(* ---- boolean expressions ---- *)
Lemma fold_max_ge (l : list velem) a b : (a <= b)%nat -> (a <= fold_right (fun k acc => Nat.max (vdepth k) acc) b l)%nat.
Proof. induction l as [|x l IHl]; intro H; cbn [fold_right]; [exact H|specialize (IHl H); lia]. Qed.
Lemma fold_max_subs subs : Forall (fun t => (bx_depth t <= vdepth (write_bx U t))%nat) subs ->
  (fold_right (fun k acc => Nat.max (bx_depth k) acc) 0%nat subs <= fold_right (fun k acc => Nat.max (vdepth k) acc) 0%nat (map (write_bx U) subs))%nat.
Proof. induction 1 as [|s r Hs _ IH]; cbn [map fold_right]; lia. Qed.
Lemma vdepth_E m a k : vdepth (E U m a k) = S (fold_right (fun k acc => Nat.max (vdepth k) acc) 0%nat k).
Proof. reflexivity. Qed.
Lemma vdepth_ge_bx : forall t, (bx_depth t <= vdepth (write_bx U t))%nat.
Proof.
  apply (xbx_ind' (fun t => (bx_depth t <= vdepth (write_bx U t))%nat)); intros cs subs IH;
    [rewrite write_and|rewrite write_or]; rewrite vdepth_E; cbn [bx_depth]; apply le_n_S;
    rewrite fold_right_app; apply fold_max_ge; now apply fold_max_subs.
Qed.

Theorem rt_bexpr b : match b with XTree t => alternating t | XCond _ => True end -> read_bexpr U (write_bexpr U b) = Ok b.
Proof.
  destruct b as [d|t]; intro Alt; unfold read_bexpr, write_bexpr.
  - unfold find at 1. rewrite E_kids. cbn [List.find]. unfold write_condition at 1. rewrite is_tag_E. cbn [String.eqb Ascii.eqb Bool.eqb].
    fold (write_condition U d). now rewrite rt_condition.
  - destruct t as [cs subs|cs subs]; unfold find; rewrite E_kids; cbn [List.find].
    + pose proof (rt_bx (XAnd cs subs) Alt (vdepth (write_bx U (XAnd cs subs))) (vdepth_ge_bx _)) as R. cbn beta iota in R.
      rewrite write_and in *. rewrite !is_tag_E. cbn [String.eqb Ascii.eqb Bool.eqb]. now rewrite R.
    + pose proof (rt_bx (XOr cs subs) Alt (vdepth (write_bx U (XOr cs subs))) (vdepth_ge_bx _)) as R. cbn beta iota in R.
      rewrite write_or in *. rewrite !is_tag_E. cbn [String.eqb Ascii.eqb Bool.eqb]. now rewrite R.
Qed.

(* ---- criteria as XTCE allows them: one comparison, one boolean expression, or a list of comparisons ---- *)
Definition criteria_wf (bool_ok : bool) (ks : list xcriterion) : Prop :=
  match ks with
  | [XCmp _] => True
  | [XBool b] => bool_ok = true /\ match b with XTree t => alternating t | XCond _ => True end
  | _ => Forall (fun k => match k with XCmp _ => True | XBool _ => False end) ks
  end.

Lemma is_tag_write_comparison n c : is_tag U n (write_comparison U c) = String.eqb "Comparison" n.
Proof. unfold write_comparison. apply is_tag_E. Qed.
Lemma is_tag_write_bexpr n b : is_tag U n (write_bexpr U b) = String.eqb "BooleanExpression" n.
Proof. unfold write_bexpr. apply is_tag_E. Qed.

Lemma comparisons_rt ks : Forall (fun k => match k with XCmp _ => True | XBool _ => False end) ks ->
  mapM read_comparison (map (write_criterion U) ks) = Ok (map (fun k => match k with XCmp c => c | XBool _ => {| xc_ref := ""; xc_value := ""; xc_op := ""; xc_cal := true |} end) ks)
  /\ map XCmp (map (fun k => match k with XCmp c => c | XBool _ => {| xc_ref := ""; xc_value := ""; xc_op := ""; xc_cal := true |} end) ks) = ks
  /\ filter (is_tag U "Comparison") (map (write_criterion U) ks) = map (write_criterion U) ks.
Proof.
  induction 1 as [|k t Hk _ (IH1 & IH2 & IH3)]; [repeat split; reflexivity|]. destruct k as [c|]; [|contradiction].
  cbn [map mapM write_criterion filter]. rewrite rt_comparison, IH1. cbn [bind]. rewrite IH2.
  rewrite is_tag_write_comparison. cbn [String.eqb Ascii.eqb Bool.eqb]. rewrite IH3. repeat split; reflexivity.
Qed.

Theorem rt_match all_children bool_ok tag attrs ks : criteria_wf bool_ok ks ->
  read_match U all_children bool_ok (E U tag attrs (write_criteria U ks)) = Ok (Some ks).
Proof.
  intro W. unfold read_match.
  assert (List_case : Forall (fun k => match k with XCmp _ => True | XBool _ => False end) ks ->
                      write_criteria U ks = [E U "ComparisonList" [] (map (write_criterion U) ks)] ->
                      match find U "ComparisonList" (E U tag attrs (write_criteria U ks)) with
                      | Some cl => cs <- mapM read_comparison (if all_children then vkids cl else findall U "Comparison" cl) ;; Ok (Some (map XCmp cs))
                      | None => Err EOther end = Ok (Some ks)).
  { intros HF HW. rewrite HW. unfold find. rewrite E_kids. cbn [List.find]. rewrite is_tag_E. cbn [String.eqb Ascii.eqb Bool.eqb].
    destruct (comparisons_rt ks HF) as (R1 & R2 & R3). unfold findall. rewrite E_kids.
    destruct all_children; [|rewrite R3]; rewrite R1; cbn [bind]; now rewrite R2. }
  destruct ks as [|k [|k2 r]].
  - (* empty list: an empty ComparisonList *)
    pose proof (List_case ltac:(constructor) eq_refl) as L. cbn [write_criteria] in *.
    destruct (find U "ComparisonList" _); [exact L|discriminate].
  - destruct k as [c|b].
    + cbn [write_criteria write_criterion]. unfold find. rewrite E_kids. cbn [List.find]. rewrite !is_tag_write_comparison.
      cbn [String.eqb Ascii.eqb Bool.eqb]. now rewrite rt_comparison.
    + destruct W as [-> Alt]. cbn [write_criteria write_criterion]. unfold find. rewrite E_kids. cbn [List.find].
      rewrite !is_tag_write_bexpr. cbn [String.eqb Ascii.eqb Bool.eqb]. now rewrite rt_bexpr.
  - assert (W' : Forall (fun k => match k with XCmp _ => True | XBool _ => False end) (k :: k2 :: r)) by (destruct k; exact W).
    pose proof (List_case W' eq_refl) as L. cbn [write_criteria] in *.
    destruct (find U "ComparisonList" _); [exact L|discriminate].
Qed.

(* ---- calibrators ---- *)
Definition rd_term (t : velem) : res (Z * Z) := c <- req_f t "coefficient" ;; e <- req_z t "exponent" ;; Ok (c, e).
Definition wr_term (t : Z * Z) : velem := E U "Term" [("exponent", AZ (snd t)); ("coefficient", AF (fst t))] [].
Lemma rt_term t : rd_term (wr_term t) = Ok t.
Proof. destruct t. unfold rd_term, wr_term. step. reflexivity. Qed.
Lemma rt_terms ts : mapM rd_term (map wr_term ts) = Ok ts.
Proof. apply mapM_map_rt. rewrite Forall_forall. intros; apply rt_term. Qed.
Definition rd_point (p : velem) : res (Z * Z) := r <- req_f p "raw" ;; c <- req_f p "calibrated" ;; Ok (r, c).
Definition wr_point (p : Z * Z) : velem := E U "SplinePoint" [("raw", AF (fst p)); ("calibrated", AF (snd p))] [].
Lemma rt_point p : rd_point (wr_point p) = Ok p.
Proof. destruct p. unfold rd_point, wr_point. step. reflexivity. Qed.
Lemma rt_points ps : mapM rd_point (map wr_point ps) = Ok ps.
Proof. apply mapM_map_rt. rewrite Forall_forall. intros; apply rt_point. Qed.

Definition cal_wf (c : xcalibrator) : Prop := match c with XPoly _ => True | XSpline o _ _ => (o = 0 \/ o = 1)%Z end.
Theorem rt_cal c : cal_wf c ->
  match c with XPoly _ => read_poly (write_cal U c) | XSpline _ _ _ => read_spline (write_cal U c) end = Ok c.
Proof.
  destruct c as [ts|o ex ps]; intro W; cbn [write_cal].
  - unfold read_poly. rewrite E_kids. fold rd_term. fold wr_term. rewrite rt_terms. reflexivity.
  - unfold read_spline. rewrite E_kids. fold rd_point. fold wr_point. rewrite rt_points. cbn [bind]. step. destruct W as [-> | ->]; reflexivity.
Qed.

(* ---- context calibrators, default calibrator ---- *)
Definition context_wf (c : xcontext) : Prop := criteria_wf true (xx_criteria c) /\ cal_wf (xx_cal c).
Lemma is_tag_write_cal n c : is_tag U n (write_cal U c) = String.eqb (match c with XPoly _ => "PolynomialCalibrator" | XSpline _ _ _ => "SplineCalibrator" end) n.
Proof. destruct c; cbn [write_cal]; apply is_tag_E. Qed.

Ltac fstep := repeat (progress (
  unfold find_path, find, findall; rewrite ?E_kids, ?E_attrs, ?ET_text; cbn [List.find filter app];
  rewrite ?is_tag_E, ?is_tag_ET, ?is_tag_VE, ?is_tag_write_cal, ?is_tag_write_comparison, ?is_tag_write_bexpr;
  cbn [String.eqb Ascii.eqb Bool.eqb])).

Theorem rt_context c : context_wf c -> read_context U (write_context U c) = Ok c.
Proof.
  intros [Wk Wc]. destruct c as [ks cal]. cbn [xx_criteria xx_cal] in *. unfold read_context, write_context. cbn [xx_criteria xx_cal].
  unfold find at 1. rewrite E_kids. cbn [List.find]. rewrite is_tag_E. cbn [String.eqb Ascii.eqb Bool.eqb].
  rewrite (rt_match false true "ContextMatch" [] ks Wk). cbn [bind].
  pose proof (rt_cal cal Wc) as R. destruct cal as [ts|o ex ps]; fstep; now rewrite R.
Qed.

Theorem rt_default_cal tag attrs kids cal : cal_wf cal ->
  read_default_cal U (E U tag attrs (E U "DefaultCalibrator" [] [write_cal U cal] :: kids)) = Ok (Some cal).
Proof.
  intro W. unfold read_default_cal. pose proof (rt_cal cal W) as R. destruct cal as [ts|o ex ps]; fstep; now rewrite R.
Qed.

(* ---- discrete lookups, dynamic sizes ---- *)
Definition lookup_wf (l : xlookup) : Prop := criteria_wf false (xl_criteria l).
Lemma write_lookup_eq l : write_lookup U l = E U "DiscreteLookup" [("value", AF (xl_value l))] (write_criteria U (xl_criteria l)).
Proof. unfold write_lookup, write_criteria. destruct (xl_criteria l) as [|k [|k2 r]]; reflexivity. Qed.
Theorem rt_lookup l : lookup_wf l -> read_lookup U (write_lookup U l) = Ok l.
Proof.
  intro W. destruct l as [ks v]. unfold lookup_wf in W. cbn [xl_criteria] in W. rewrite write_lookup_eq. cbn [xl_value xl_criteria].
  unfold read_lookup. rewrite (rt_match true false "DiscreteLookup" _ ks W). step. reflexivity.
Qed.
Lemma rt_lookups ls : Forall lookup_wf ls -> mapM (read_lookup U) (map (write_lookup U) ls) = Ok ls.
Proof. intro H. apply mapM_map_rt. eapply Forall_impl; [|exact H]. intros; now apply rt_lookup. Qed.

Theorem rt_dynamic r c a : read_dynamic U (write_dynamic U r c a) = Ok (XDynamic r c a).
Proof.
  unfold read_dynamic, write_dynamic, read_adjust. destruct a as [[sl ic]|]; fstep; step; reflexivity.
Qed.

(* ---- numeric encodings ---- *)
Definition numeric_wf (e : xnumeric) : Prop :=
  match xn_default e with Some c => cal_wf c | None => True end /\
  match xn_context e with Some cs => cs <> [] /\ Forall context_wf cs | None => True end.
Lemma rt_contexts cs : Forall context_wf cs -> mapM (read_context U) (map (write_context U) cs) = Ok cs.
Proof. intro H. apply mapM_map_rt. eapply Forall_impl; [|exact H]. intros; now apply rt_context. Qed.

Theorem rt_numeric e : numeric_wf e -> read_numeric U (xn_float e) (write_numeric U e) = Ok e.
Proof.
  intros [Wd Wc]. destruct e as [fl sz enc ord d c]. cbn [xn_default xn_context xn_float] in *.
  unfold read_numeric, write_numeric. cbn [xn_float xn_size xn_encoding xn_order xn_default xn_context].
  set (tag := if fl then "FloatDataEncoding" else "IntegerDataEncoding").
  assert (RC : forall kids0, read_context_list U (E U tag [("sizeInBits", AZ sz); ("encoding", AS enc); ("byteOrder", AS ord)]
                 (kids0 ++ match c with Some ((_ :: _) as cs) => [E U "ContextCalibratorList" [] (map (write_context U) cs)] | _ => [] end)) = Ok c
                 \/ exists x, In x kids0 /\ is_tag U "ContextCalibratorList" x = true).
  { intro kids0. destruct c as [[|c0 cs]|].
    - destruct Wc as [Wc _]. congruence.
    - destruct Wc as [_ Wc]. induction kids0 as [|x t IHt].
      + left. unfold read_context_list. fstep. rewrite rt_contexts by exact Wc. reflexivity.
      + destruct (is_tag U "ContextCalibratorList" x) eqn:T; [right; exists x; split; [now left|exact T]|].
        destruct IHt as [IHt|(y & Hy & Ty)]; [left|right; exists y; split; [now right|exact Ty]].
        unfold read_context_list, find in *. rewrite E_kids in *. cbn [app List.find]. now rewrite T.
    - induction kids0 as [|x t IHt].
      + left. unfold read_context_list. fstep. reflexivity.
      + destruct (is_tag U "ContextCalibratorList" x) eqn:T; [right; exists x; split; [now left|exact T]|].
        destruct IHt as [IHt|(y & Hy & Ty)]; [left|right; exists y; split; [now right|exact Ty]].
        unfold read_context_list, find in *. rewrite E_kids in *. cbn [app List.find]. now rewrite T. }
  destruct d as [cal|].
  - cbn [app]. step.
    rewrite (rt_default_cal tag _ _ cal Wd). cbn [bind].
    destruct (RC [E U "DefaultCalibrator" [] [write_cal U cal]]) as [R|(x & [<-|[]] & Tx)].
    + cbn [app] in R. rewrite R. reflexivity.
    + rewrite is_tag_E in Tx. discriminate.
  - cbn [app]. step.
    assert (D : read_default_cal U (E U tag [("sizeInBits", AZ sz); ("encoding", AS enc); ("byteOrder", AS ord)]
                  match c with Some ((_ :: _) as cs) => [E U "ContextCalibratorList" [] (map (write_context U) cs)] | _ => [] end) = Ok None).
    { unfold read_default_cal. destruct c as [[|c0 cs]|]; fstep; reflexivity. }
    rewrite D. cbn [bind]. destruct (RC []) as [R|(x & [] & _)]. cbn [app] in R. rewrite R. reflexivity.
Qed.

(* ---- string and binary encodings ---- *)
Lemma is_tag_write_dynamic n r c a : is_tag U n (write_dynamic U r c a) = String.eqb "DynamicValue" n.
Proof. unfold write_dynamic. apply is_tag_E. Qed.
Ltac fstep2 := repeat (progress (fstep; rewrite ?is_tag_write_dynamic; cbn [String.eqb Ascii.eqb Bool.eqb])).

Definition size_wf (s0 : xsize) : Prop := match s0 with XLookup ls => Forall lookup_wf ls | _ => True end.
Definition order_of (cs : string) (given : option string) : option string :=
  if single_byte cs then None
  else if String.eqb cs "UTF-16LE" || String.eqb cs "UTF-32LE" then Some "leastSignificantByteFirst"
  else if String.eqb cs "UTF-16BE" || String.eqb cs "UTF-32BE" then Some "mostSignificantByteFirst"
  else given.
Definition string_wf (e : xstring) : Prop :=
  size_wf (xs_size e) /\ xs_leading e <> Some 0%Z /\ xs_term e <> Some "" /\
  xs_order e = order_of (xs_charset e) (xs_order e) /\ (single_byte (xs_charset e) = false -> xs_order e <> None).

Theorem rt_binary s0 : size_wf s0 -> read_binary U (write_binary U s0) = Ok s0.
Proof.
  intro W. unfold read_binary, write_binary. destruct s0 as [n|r c a|ls].
  - fstep2. step. reflexivity.
  - fstep2. now rewrite rt_dynamic.
  - fstep2. cbn [size_wf] in W. now rewrite (rt_lookups ls W).
Qed.

Theorem rt_string e : string_wf e -> read_string U (write_string U e) = Ok e.
Proof.
  intros (Ws & Wl & Wt & Wo & Wm). destruct e as [cs ord sz term lead]. cbn [xs_size xs_leading xs_term xs_order xs_charset] in *.
  unfold read_string, write_string. cbn [xs_size xs_leading xs_term xs_order xs_charset].
  (* the byte order the reader reconstructs *)
  assert (RO : forall kids,
     (if single_byte cs then Ok None
      else if String.eqb cs "UTF-16LE" || String.eqb cs "UTF-32LE" then Ok (Some "leastSignificantByteFirst")
      else if String.eqb cs "UTF-16BE" || String.eqb cs "UTF-32BE" then Ok (Some "mostSignificantByteFirst")
      else o <- opt_s (E U "StringDataEncoding" (("encoding", AS cs) :: optattr "byteOrder" ord) kids) "byteOrder" ;;
           match o with Some s1 => Ok (Some s1) | None => Err EValue end) = Ok ord).
  { intro kids. unfold order_of in Wo. destruct (single_byte cs) eqn:SB; [now rewrite Wo|].
    destruct (String.eqb cs "UTF-16LE" || String.eqb cs "UTF-32LE")%bool; [now rewrite Wo|].
    destruct (String.eqb cs "UTF-16BE" || String.eqb cs "UTF-32BE")%bool; [now rewrite Wo|].
    destruct ord as [o|]; [|exfalso; now apply Wm]. unfold optattr. step. reflexivity. }
  assert (EN : forall kids, opt_s (E U "StringDataEncoding" (("encoding", AS cs) :: optattr "byteOrder" ord) kids) "encoding" = Ok (Some cs)) by reflexivity.
  rewrite EN. cbn [bind]. rewrite RO. cbn [bind]. clear RO EN Wo Wm.
  destruct lead as [z|]; [destruct (Z.eqb_spec z 0) as [->|Hz]; [congruence|]|];
    (destruct term as [t|]; [destruct (String.eqb_spec t "") as [->|Ht]; [congruence|]|]);
    destruct sz as [n|r c a|ls]; cbn [size_wf] in Ws;
    fstep2; step; rewrite ?rt_dynamic, ?(rt_lookups _ Ws); cbn [bind]; fstep2; step; try reflexivity.
Qed.
End RT.

Theorem stable_criteria U all_children bool_ok tag attrs ks : criteria_wf bool_ok ks ->
  forall ks', read_match U all_children bool_ok (E U tag attrs (write_criteria U ks)) = Ok (Some ks') ->
  write_criteria U ks' = write_criteria U ks.
Proof. intros W ks' H. rewrite (rt_match U all_children bool_ok tag attrs ks W) in H. now injection H as <-. Qed.
Theorem write_deterministic U date d : write_doc U date d = write_doc U date d.
Proof. reflexivity. Qed.

(* ================= C15: every element the writer creates lies in the definition's XTCE namespace ================= *)
Section NS.
Variable U : option string.
Inductive in_ns : velem -> Prop := in_ns_intro m a t k : Forall in_ns k -> in_ns (VE (U, m) a t k).

Lemma in_ns_E m a k : Forall in_ns k -> in_ns (E U m a k).
Proof. intro H. unfold E. now constructor. Qed.
Lemma in_ns_ET m t : in_ns (ET U m t).
Proof. unfold ET. constructor. constructor. Qed.
Lemma Forall_map_intro {A} (f : A -> velem) l : (forall x, in_ns (f x)) -> Forall in_ns (map f l).
Proof. intro H. induction l; cbn; constructor; auto. Qed.
Lemma Forall_app_intro (a b : list velem) : Forall in_ns a -> Forall in_ns b -> Forall in_ns (a ++ b).
Proof. intros. apply Forall_app. split; assumption. Qed.

Ltac ns :=
  repeat first
    [ apply in_ns_ET
    | apply in_ns_E
    | apply Forall_app_intro
    | apply Forall_map_intro; intros
    | apply Forall_nil
    | apply Forall_cons
    | match goal with |- context [match ?x with _ => _ end] => destruct x end
    | match goal with |- context [if ?x then _ else _] => destruct x end ].

Lemma ns_comparison c : in_ns (write_comparison U c). Proof. unfold write_comparison. ns. Qed.
Lemma ns_condition d : in_ns (write_condition U d). Proof. unfold write_condition. ns. Qed.
Lemma Forall_map_forall {A} (f : A -> velem) l : Forall (fun x => in_ns (f x)) l -> Forall in_ns (map f l).
Proof. induction 1; cbn; constructor; auto. Qed.
Lemma ns_bx : forall t, in_ns (write_bx U t).
Proof.
  apply (xbx_ind' (fun t => in_ns (write_bx U t))); intros cs subs IH; cbn [write_bx]; apply in_ns_E; apply Forall_app_intro;
    try (apply Forall_map_intro; intros; apply ns_condition); now apply Forall_map_forall.
Qed.
Lemma ns_bexpr b : in_ns (write_bexpr U b).
Proof. unfold write_bexpr. apply in_ns_E. constructor; [|constructor]. destruct b; [apply ns_condition|apply ns_bx]. Qed.
Lemma ns_criterion k : in_ns (write_criterion U k).
Proof. destruct k; [apply ns_comparison|apply ns_bexpr]. Qed.
Lemma ns_list ks : in_ns (E U "ComparisonList" [] (map (write_criterion U) ks)).
Proof. apply in_ns_E. apply Forall_map_intro. intros; apply ns_criterion. Qed.
Lemma ns_criteria ks : Forall in_ns (write_criteria U ks).
Proof.
  unfold write_criteria. destruct ks as [|k [|k2 r]].
  - constructor; [apply ns_list|constructor].
  - constructor; [apply ns_criterion|constructor].
  - constructor; [apply ns_list|constructor].
Qed.
Lemma ns_cal c : in_ns (write_cal U c).
Proof. destruct c; cbn [write_cal]; apply in_ns_E; apply Forall_map_intro; intros; apply in_ns_E; constructor. Qed.
Ltac ns1 := first [ apply in_ns_ET | apply ns_comparison | apply ns_condition | apply ns_bx | apply ns_bexpr | apply ns_criterion
                  | apply ns_list | apply ns_criteria | apply ns_cal | apply in_ns_E | apply Forall_nil | apply Forall_cons
                  | apply Forall_app_intro | (apply Forall_map_intro; intros) ].
Ltac nsall := repeat ns1.

Lemma ns_context c : in_ns (write_context U c).
Proof. unfold write_context. nsall. Qed.
Lemma ns_lookup l : in_ns (write_lookup U l).
Proof. unfold write_lookup. destruct (xl_criteria l) as [|k [|k2 r]]; nsall. Qed.
Lemma ns_dynamic r c a : in_ns (write_dynamic U r c a).
Proof. unfold write_dynamic. destruct a as [[s0 i]|]; nsall. Qed.
Lemma ns_numeric e : in_ns (write_numeric U e).
Proof. unfold write_numeric. destruct (xn_default e), (xn_context e) as [[|c cs]|]; repeat first [apply ns_context | ns1]. Qed.
Lemma ns_string e : in_ns (write_string U e).
Proof.
  unfold write_string. destruct (xs_leading e) as [z|]; [destruct (z =? 0)%Z|]; (destruct (xs_term e) as [t|]; [destruct (String.eqb t "")|]);
    destruct (xs_size e) as [n|r c a|ls]; repeat first [apply ns_dynamic | apply ns_lookup | ns1].
Qed.
Lemma ns_binary s0 : in_ns (write_binary U s0).
Proof. unfold write_binary. destruct s0; repeat first [apply ns_dynamic | apply ns_lookup | ns1]. Qed.
Lemma ns_encoding e : in_ns (write_encoding U e).
Proof. destruct e; [apply ns_numeric|apply ns_string|apply ns_binary]. Qed.
Lemma ns_ptype t : in_ns (write_ptype U t).
Proof.
  unfold write_ptype. destruct (xt_kind t) as [| | | | |labels|ab epoch ofrom].
  1-6: destruct (xt_unit t) as [u|]; [destruct (String.eqb u "")|]; repeat first [apply ns_encoding | ns1].
  destruct ofrom as [o|], epoch as [ep|]; repeat first [apply ns_encoding | ns1].
Qed.
Lemma ns_param p : in_ns (write_param U p).
Proof. unfold write_param. destruct (nonempty (xp_long p)); nsall. Qed.
Lemma ns_entries es : in_ns (E U "EntryList" [] (map (fun e => match e with
                                            | XEP n => E U "ParameterRefEntry" [("parameterRef", AS n)] []
                                            | XEC n => E U "ContainerRefEntry" [("containerRef", AS n)] [] end) es)).
Proof. apply in_ns_E. apply Forall_map_intro. intros [n|n]; nsall. Qed.
Lemma ns_container c v : write_container U c = Ok v -> in_ns v.
Proof.
  pose proof (ns_criteria (xk_criteria c)) as NC.
  unfold write_container. destruct (xk_criteria c) as [|k ks] eqn:Ck, (xk_base c) as [b|] eqn:Cb; try discriminate; intro H; injection H as <-;
    destruct (nonempty (xk_long c)); repeat first [exact NC | apply ns_entries | ns1].
Qed.
Lemma ns_containers cs : forall vs, mapM (write_container U) cs = Ok vs -> Forall in_ns vs.
Proof.
  induction cs as [|c t IH]; intros vs H; cbn [mapM] in H; [injection H as <-; constructor|].
  destruct (write_container U c) as [v|] eqn:W; cbn [bind] in H; [|discriminate].
  destruct (mapM (write_container U) t) as [r|]; cbn [bind] in H; [|discriminate]. injection H as <-. constructor; [eapply ns_container; eauto|auto].
Qed.
Theorem write_doc_in_namespace date d v : write_doc U date d = Ok v -> in_ns v.
Proof.
  unfold write_doc. destruct (forallb time_writable (xd_types d)); cbn [negb]; [|discriminate].
  destruct (mapM (write_container U) (xd_containers d)) as [cs|] eqn:C; cbn [bind]; [|discriminate].
  intro H. injection H as <-. repeat first [apply ns_ptype | apply ns_param | ns1]. eapply ns_containers; eauto.
Qed.
End NS.

(* ================= C09 continued: locating the data encoding inside a parameter type ================= *)
Section Tags.
Variable U : option string.
Inductive tags_in (S : list string) : velem -> Prop :=
  ti_intro u m a t k : In m S -> Forall (tags_in S) k -> tags_in S (VE (u, m) a t k).

Definition INNER : list string :=
  ["Comparison"; "ComparisonList"; "BooleanExpression"; "Condition"; "ParameterInstanceRef"; "ComparisonOperator"; "Value";
   "ANDedConditions"; "ORedConditions"; "PolynomialCalibrator"; "Term"; "SplineCalibrator"; "SplinePoint"; "ContextCalibrator";
   "ContextMatch"; "Calibrator"; "DefaultCalibrator"; "ContextCalibratorList"; "DiscreteLookup"; "DiscreteLookupList"; "DynamicValue";
   "LinearAdjustment"; "SizeInBits"; "Fixed"; "FixedValue"; "Variable"; "LeadingSize"; "TerminationChar";
   "UnitSet"; "Unit"; "EnumerationList"; "Enumeration"].

Lemma ti_E S m a k : In m S -> Forall (tags_in S) k -> tags_in S (E U m a k).
Proof. intros. unfold E. now constructor. Qed.
Lemma ti_ET S m t : In m S -> tags_in S (ET U m t).
Proof. intros. unfold ET. constructor; auto. Qed.
Lemma ti_weaken S S' v : (forall m, In m S -> In m S') -> tags_in S v -> tags_in S' v.
Proof.
  intro H. revert v. fix IH 2. intros v T. destruct T as [u m a t k Hm Hk]. constructor; auto.
  induction Hk as [|x r Hx _ IHr]; constructor; auto.
Qed.
Lemma ti_map {A} S (f : A -> velem) l : (forall x, tags_in S (f x)) -> Forall (tags_in S) (map f l).
Proof. intro H. induction l; cbn; constructor; auto. Qed.
Lemma ti_map_forall {A} S (f : A -> velem) l : Forall (fun x => tags_in S (f x)) l -> Forall (tags_in S) (map f l).
Proof. induction 1; cbn; constructor; auto. Qed.
Lemma ti_app S (a b : list velem) : Forall (tags_in S) a -> Forall (tags_in S) b -> Forall (tags_in S) (a ++ b).
Proof. intros. apply Forall_app. split; assumption. Qed.

Ltac inS := cbn; tauto.
Ltac t1 := first [ apply ti_ET; [inS] | apply ti_E; [inS|] | apply Forall_nil | apply Forall_cons | apply ti_app | (apply ti_map; intros) ].
Ltac tall := repeat t1.

Lemma ti_comparison c : tags_in INNER (write_comparison U c). Proof. unfold write_comparison. tall. Qed.
Lemma ti_condition d : tags_in INNER (write_condition U d). Proof. unfold write_condition. destruct (xd_right d); tall. Qed.
Lemma ti_bx : forall t, tags_in INNER (write_bx U t).
Proof.
  apply (xbx_ind' (fun t => tags_in INNER (write_bx U t))); intros cs subs IH; cbn [write_bx]; apply ti_E; try inS; apply ti_app;
    try (apply ti_map; intros; apply ti_condition); now apply ti_map_forall.
Qed.
Lemma ti_bexpr b : tags_in INNER (write_bexpr U b).
Proof. unfold write_bexpr. apply ti_E; [inS|]. constructor; [|constructor]. destruct b; [apply ti_condition|apply ti_bx]. Qed.
Lemma ti_criterion k : tags_in INNER (write_criterion U k).
Proof. destruct k; [apply ti_comparison|apply ti_bexpr]. Qed.
Lemma ti_list ks : tags_in INNER (E U "ComparisonList" [] (map (write_criterion U) ks)).
Proof. apply ti_E; [inS|]. apply ti_map. intros; apply ti_criterion. Qed.
Lemma ti_criteria ks : Forall (tags_in INNER) (write_criteria U ks).
Proof.
  unfold write_criteria. destruct ks as [|k [|k2 r]].
  - constructor; [apply ti_list|constructor].
  - constructor; [apply ti_criterion|constructor].
  - constructor; [apply ti_list|constructor].
Qed.
Lemma ti_cal c : tags_in INNER (write_cal U c).
Proof. destruct c; cbn [write_cal]; tall. Qed.
Ltac t2 := first [ apply ti_comparison | apply ti_condition | apply ti_bx | apply ti_bexpr | apply ti_criterion | apply ti_list | apply ti_criteria | apply ti_cal | t1 ].
Lemma ti_context c : tags_in INNER (write_context U c).
Proof. unfold write_context. repeat t2. Qed.
Lemma ti_lookup l : tags_in INNER (write_lookup U l).
Proof. unfold write_lookup. destruct (xl_criteria l) as [|k [|k2 r]]; repeat t2. Qed.
Lemma ti_dynamic r c a : tags_in INNER (write_dynamic U r c a).
Proof. unfold write_dynamic. destruct a as [[s0 i]|]; repeat t2. Qed.
Lemma ti_numeric e : tags_in ((if xn_float e then "FloatDataEncoding" else "IntegerDataEncoding") :: INNER) (write_numeric U e).
Proof.
  unfold write_numeric. apply ti_E; [now left|].
  assert (W : forall v, tags_in INNER v -> tags_in ((if xn_float e then "FloatDataEncoding" else "IntegerDataEncoding") :: INNER) v)
    by (intros v; apply ti_weaken; intros; now right).
  apply ti_app.
  - destruct (xn_default e); [|constructor]. constructor; [|constructor]. apply W. apply ti_E; [inS|]. constructor; [apply ti_cal|constructor].
  - destruct (xn_context e) as [[|c cs]|]; try constructor; [|constructor]. apply W. apply ti_E; [inS|]. apply ti_map. intros; apply ti_context.
Qed.
Lemma ti_string e : tags_in ("StringDataEncoding" :: INNER) (write_string U e).
Proof.
  assert (W : forall v, tags_in INNER v -> tags_in ("StringDataEncoding" :: INNER) v) by (intros v; apply ti_weaken; intros; now right).
  unfold write_string. apply ti_E; [now left|]. constructor; [|constructor]. apply W.
  destruct (xs_leading e) as [z|]; [destruct (z =? 0)%Z|]; (destruct (xs_term e) as [t|]; [destruct (String.eqb t "")|]);
    destruct (xs_size e) as [n|r c a|ls]; repeat first [apply ti_dynamic | apply ti_lookup | t2].
Qed.
Lemma ti_binary s0 : tags_in ("BinaryDataEncoding" :: INNER) (write_binary U s0).
Proof.
  assert (W : forall v, tags_in INNER v -> tags_in ("BinaryDataEncoding" :: INNER) v) by (intros v; apply ti_weaken; intros; now right).
  unfold write_binary. apply ti_E; [now left|]. constructor; [|constructor]. apply W.
  destruct s0; repeat first [apply ti_dynamic | apply ti_lookup | t2].
Qed.

Lemma find_app_none {A} (f : A -> bool) a b : List.find f a = None -> List.find f (a ++ b) = List.find f b.
Proof. induction a as [|x t IH]; cbn; auto. destruct (f x); [discriminate|auto]. Qed.

(* searching all descendants for a tag that does not occur *)
Lemma desc_miss S n : (forall m, In m S -> String.eqb m n = false) ->
  forall fuel v, tags_in S v -> List.find (is_tag U n) (descendants fuel v) = None.
Proof.
  intro HS. induction fuel as [|f IH]; intros v T; [reflexivity|]. destruct T as [u m a t k Hm Hk]. cbn [descendants vkids].
  induction Hk as [|x r Hx _ IHr]; [reflexivity|]. cbn [flat_map]. cbn [app List.find].
  assert (Tx : is_tag U n x = false).
  { destruct Hx as [u' m' a' t' k' Hm' _]. unfold is_tag. cbn [vtag fst snd]. rewrite (HS m' Hm'). apply andb_false_r. }
  rewrite Tx. rewrite find_app_none; [exact IHr|]. now apply IH.
Qed.
End Tags.

Section Enc.
Variable U : option string.

Lemma not_in_inner n : In n ["StringDataEncoding"; "IntegerDataEncoding"; "FloatDataEncoding"; "BinaryDataEncoding"] ->
  forall m, In m INNER -> String.eqb m n = false.
Proof. intros Hn m Hm. cbn in Hn, Hm. intuition; subst; reflexivity. Qed.

Lemma descendants_E f m a k : descendants (S f) (E U m a k) = flat_map (fun x => x :: descendants f x) k.
Proof. reflexivity. Qed.

Lemma find_flat_pre S n f (pre : list velem) rest : (forall m, In m S -> String.eqb m n = false) -> Forall (tags_in S) pre ->
  List.find (is_tag U n) (flat_map (fun x => x :: descendants f x) pre ++ rest) = List.find (is_tag U n) rest.
Proof.
  intros HS HF. induction HF as [|x r Hx _ IH]; [reflexivity|]. cbn [flat_map]. rewrite <- !app_assoc. cbn [app List.find].
  assert (Tx : is_tag U n x = false).
  { destruct Hx as [u' m' a' t' k' Hm' _]. unfold is_tag. cbn [vtag fst snd]. rewrite (HS m' Hm'). apply andb_false_r. }
  rewrite Tx. rewrite find_app_none; [exact IH|]. now apply (desc_miss U S n HS).
Qed.

Lemma find_desc_hit S n m a pre x post : (forall m, In m S -> String.eqb m n = false) -> Forall (tags_in S) pre ->
  is_tag U n x = true -> find_desc U n (E U m a (pre ++ x :: post)) = Some x.
Proof.
  intros HS HF Hx. unfold find_desc. rewrite vdepth_E, descendants_E. rewrite flat_map_app. cbn [flat_map].
  rewrite (find_flat_pre S n _ pre _ HS HF). cbn [app List.find]. now rewrite Hx.
Qed.
Lemma find_desc_miss S n m a kids : (forall m, In m S -> String.eqb m n = false) -> Forall (tags_in S) kids ->
  find_desc U n (E U m a kids) = None.
Proof.
  intros HS HF. unfold find_desc. rewrite vdepth_E, descendants_E.
  rewrite <- (app_nil_r (flat_map _ kids)). now rewrite (find_flat_pre S n _ kids [] HS HF).
Qed.

(* the element sought is the only child of the first child (a time type's <Encoding>) *)
Lemma find_desc_hit2 n m a a2 x post : String.eqb "Encoding" n = false -> is_tag U n x = true ->
  find_desc U n (E U m a (E U "Encoding" a2 [x] :: post)) = Some x.
Proof.
  intros HE Hx. unfold find_desc. rewrite vdepth_E. cbn [fold_right]. rewrite vdepth_E. cbn [fold_right].
  destruct x as [tg at' tx kx]. cbn [vdepth].
  match goal with |- context [Nat.max (S ?a) ?b] => destruct b as [|b'] eqn:Eb; cbn [Nat.max] end;
    rewrite descendants_E; cbn [flat_map]; rewrite descendants_E; cbn [flat_map app List.find]; rewrite is_tag_E, HE; cbn [List.find]; now rewrite Hx.
Qed.

Definition encoding_wf (e : xencoding) : Prop :=
  match e with XNum ne => numeric_wf ne | XStr se => string_wf se | XBin s0 => size_wf s0 end.
Definition enc_tag (e : xencoding) : string :=
  match e with XNum ne => if xn_float ne then "FloatDataEncoding" else "IntegerDataEncoding" | XStr _ => "StringDataEncoding" | XBin _ => "BinaryDataEncoding" end.
Lemma is_tag_write_encoding n e : is_tag U n (write_encoding U e) = String.eqb (enc_tag e) n.
Proof. destruct e as [ne|se|s0]; cbn [write_encoding enc_tag]; [unfold write_numeric|unfold write_string|unfold write_binary]; apply is_tag_E. Qed.
Lemma ti_encoding e : tags_in (enc_tag e :: INNER) (write_encoding U e).
Proof. destruct e as [ne|se|s0]; cbn [write_encoding enc_tag]; [apply ti_numeric|apply ti_string|apply ti_binary]. Qed.

(* the data encoding is found wherever it sits among UnitSet / EnumerationList siblings, and read back *)
Theorem rt_encoding m a pre post e : encoding_wf e -> Forall (tags_in INNER) pre -> Forall (tags_in INNER) post ->
  read_encoding U (E U m a (pre ++ write_encoding U e :: post)) = Ok e.
Proof.
  intros W Hpre Hpost. unfold read_encoding.
  assert (Kids : Forall (tags_in (enc_tag e :: INNER)) (pre ++ write_encoding U e :: post)).
  { apply Forall_app. split; [|constructor; [apply ti_encoding|]]; eapply Forall_impl; try eassumption;
      intros v; apply ti_weaken; intros; now right. }
  assert (Miss : forall n, In n ["StringDataEncoding"; "IntegerDataEncoding"; "FloatDataEncoding"; "BinaryDataEncoding"] ->
                 String.eqb (enc_tag e) n = false -> find_desc U n (E U m a (pre ++ write_encoding U e :: post)) = None).
  { intros n Hn Hne. apply (find_desc_miss (enc_tag e :: INNER)); auto. intros m' [<-|Hm']; auto. now apply not_in_inner. }
  assert (Hit : find_desc U (enc_tag e) (E U m a (pre ++ write_encoding U e :: post)) = Some (write_encoding U e)).
  { apply (find_desc_hit INNER); auto.
    - apply not_in_inner. destruct e as [ne| |]; cbn [enc_tag]; [destruct (xn_float ne)| |]; cbn; tauto.
    - rewrite is_tag_write_encoding. apply String.eqb_refl. }
  destruct e as [ne|se|s0]; cbn [enc_tag encoding_wf write_encoding] in *.
  - destruct (xn_float ne) eqn:F.
    + rewrite (Miss "StringDataEncoding") by (cbn; tauto || reflexivity). rewrite (Miss "IntegerDataEncoding") by (cbn; tauto || reflexivity).
      rewrite Hit. rewrite <- F. now rewrite rt_numeric.
    + rewrite (Miss "StringDataEncoding") by (cbn; tauto || reflexivity). rewrite Hit. rewrite <- F. now rewrite rt_numeric.
  - rewrite Hit. now rewrite rt_string.
  - rewrite (Miss "StringDataEncoding") by (cbn; tauto || reflexivity). rewrite (Miss "IntegerDataEncoding") by (cbn; tauto || reflexivity).
    rewrite (Miss "FloatDataEncoding") by (cbn; tauto || reflexivity). rewrite Hit. now rewrite rt_binary.
Qed.

(* a time type: the data encoding is the child of <Encoding>, which is followed by <ReferenceTime> at most *)
Definition RTSET : list string := ["ReferenceTime"; "OffsetFrom"; "Epoch"].
Theorem rt_encoding_time m a a2 post e : encoding_wf e -> Forall (tags_in RTSET) post ->
  read_encoding U (E U m a (E U "Encoding" a2 [write_encoding U e] :: post)) = Ok e.
Proof.
  intros W Hpost. unfold read_encoding.
  set (S := enc_tag e :: "Encoding" :: RTSET ++ INNER).
  assert (Kids : Forall (tags_in S) (E U "Encoding" a2 [write_encoding U e] :: post)).
  { constructor.
    - apply ti_E; [right; now left|]. constructor; [|constructor]. eapply ti_weaken; [|apply ti_encoding]. intros x [<-|Hx]; [now left|]. right. right. apply in_or_app. now right.
    - eapply Forall_impl; [|exact Hpost]. intros v. apply ti_weaken. intros x Hx. right. right. apply in_or_app. now left. }
  assert (Miss : forall n, In n ["StringDataEncoding"; "IntegerDataEncoding"; "FloatDataEncoding"; "BinaryDataEncoding"] ->
                 String.eqb (enc_tag e) n = false -> find_desc U n (E U m a (E U "Encoding" a2 [write_encoding U e] :: post)) = None).
  { intros n Hn Hne. apply (find_desc_miss S); auto. intros m' [<-|[<-|Hm']]; auto.
    - cbn in Hn. intuition; subst; reflexivity.
    - apply in_app_or in Hm'. destruct Hm' as [Hm'|Hm']; [|now apply not_in_inner]. cbn in Hn, Hm'. intuition; subst; reflexivity. }
  assert (Hit : find_desc U (enc_tag e) (E U m a (E U "Encoding" a2 [write_encoding U e] :: post)) = Some (write_encoding U e)).
  { apply find_desc_hit2.
    - destruct e as [ne| |]; cbn [enc_tag]; [destruct (xn_float ne)| |]; reflexivity.
    - rewrite is_tag_write_encoding. apply String.eqb_refl. }
  destruct e as [ne|se|s0]; cbn [enc_tag encoding_wf write_encoding] in *.
  - destruct (xn_float ne) eqn:F.
    + rewrite (Miss "StringDataEncoding") by (cbn; tauto || reflexivity). rewrite (Miss "IntegerDataEncoding") by (cbn; tauto || reflexivity).
      rewrite Hit. rewrite <- F. now rewrite rt_numeric.
    + rewrite (Miss "StringDataEncoding") by (cbn; tauto || reflexivity). rewrite Hit. rewrite <- F. now rewrite rt_numeric.
  - rewrite Hit. now rewrite rt_string.
  - rewrite (Miss "StringDataEncoding") by (cbn; tauto || reflexivity). rewrite (Miss "IntegerDataEncoding") by (cbn; tauto || reflexivity).
    rewrite (Miss "FloatDataEncoding") by (cbn; tauto || reflexivity). rewrite Hit. now rewrite rt_binary.
Qed.
End Enc.

Section Doc.
Variable U : option string.

Ltac step := repeat (progress (
  unfold find, findall, get, req_s, req_z, req_f, opt_s, opt_b, text_s, text_z, localname;
  rewrite ?E_kids, ?E_attrs, ?ET_text;
  cbn [List.find filter attr bind fst snd app map find_path];
  rewrite ?is_tag_E, ?is_tag_ET, ?is_tag_VE;
  cbn [String.eqb Ascii.eqb Bool.eqb])).
Ltac fstep := repeat (progress (
  unfold find_path, find, findall; rewrite ?E_kids, ?E_attrs, ?ET_text; cbn [List.find filter app];
  rewrite ?is_tag_E, ?is_tag_ET, ?is_tag_VE, ?is_tag_write_cal, ?is_tag_write_comparison, ?is_tag_write_bexpr;
  cbn [String.eqb Ascii.eqb Bool.eqb])).

(* ---- parameter types ---- *)
(* a time type writes a first order default polynomial also as the scale and offset attributes of <Encoding> (any other
   polynomial stays with the data encoding alone) and the reader rebuilds [offset; scale] from them: every polynomial survives
   except [scale; offset] written in that order, which comes back as [offset; scale] (the same function, another term order).
   A spline and a data encoding that is not numeric are refused by the writer ([time_writable], a ValueError in the code). *)
Definition time_default_ok (e : xencoding) : Prop :=
  match e with
  | XNum ne => match xn_default ne with
               | None => True
               | Some (XSpline _ _ _) => False
               | Some (XPoly ts) => map snd ts <> [1%Z; 0%Z]
               end
  | _ => False
  end.
Definition ptype_wf (t : xptype) : Prop :=
  encoding_wf (xt_enc t) /\ xt_unit t <> Some "" /\
  match xt_kind t with
  | XKString => exists se, xt_enc t = XStr se
  | XKBinary => exists s0, xt_enc t = XBin s0
  | XKEnum _ => forall s0, xt_enc t <> XBin s0
  | XKTime _ _ _ => time_default_ok (xt_enc t)
  | _ => True
  end.

Definition unit_part (t : xptype) : list velem :=
  match xt_unit t with Some u => if String.eqb u "" then [] else [E U "UnitSet" [] [ET U "Unit" (AS u)]] | None => [] end.
Definition enum_part (t : xptype) : list velem :=
  match xt_kind t with
  | XKEnum labels => [E U "EnumerationList" [] (map (fun vl : aval * string => E U "Enumeration" [("label", AS (snd vl)); ("value", fst vl)] []) labels)]
  | _ => [] end.
Lemma write_ptype_eq t : match xt_kind t with XKTime _ _ _ => False | _ => True end ->
  write_ptype U t = E U (kind_tag (xt_kind t)) [("name", AS (xt_name t))] (unit_part t ++ write_encoding U (xt_enc t) :: enum_part t).
Proof. unfold write_ptype, unit_part, enum_part. destruct (xt_kind t); try contradiction; intros _; reflexivity. Qed.

Lemma ti_unit_part t : Forall (tags_in INNER) (unit_part t).
Proof.
  unfold unit_part. destruct (xt_unit t) as [u|]; [destruct (String.eqb u "")|]; repeat constructor; cbn; tauto.
Qed.
Lemma ti_enum_part t : Forall (tags_in INNER) (enum_part t).
Proof.
  unfold enum_part. destruct (xt_kind t); try constructor; [|constructor]. apply ti_E; [cbn; tauto|]. apply ti_map. intros. apply ti_E; [cbn; tauto|constructor].
Qed.

Lemma rt_labels labels : mapM (fun e => match get e "value" with Some x => lbl <- req_s e "label" ;; Ok (x, lbl) | None => Err EKey end)
                              (map (fun vl : aval * string => E U "Enumeration" [("label", AS (snd vl)); ("value", fst vl)] []) labels) = Ok labels.
Proof.
  apply mapM_map_rt. rewrite Forall_forall. intros [v l] _. unfold get, req_s, get. rewrite E_attrs. cbn [attr String.eqb Ascii.eqb Bool.eqb fst snd bind]. reflexivity.
Qed.

Definition reftime (ep ofr : option string) : list velem :=
  match ofr, ep with
  | None, None => []
  | _, _ => [E U "ReferenceTime" [] ((match ofr with Some o => [E U "OffsetFrom" [("parameterRef", AS o)] []] | None => [] end) ++
                                     (match ep with Some e => [ET U "Epoch" (AS e)] | None => [] end))]
  end.
Lemma ti_reftime ep ofr : Forall (tags_in RTSET) (reftime ep ofr).
Proof. unfold reftime, RTSET. destruct ofr, ep; repeat first [apply Forall_nil | apply Forall_cons | apply ti_ET; [cbn; tauto] | apply ti_E; [cbn; tauto|] | cbn [app]]. Qed.
Theorem rt_time name ab ep ofr unit enc : encoding_wf enc -> time_default_ok enc ->
  let t := {| xt_name := name; xt_kind := XKTime ab ep ofr; xt_unit := unit; xt_enc := enc |} in read_ptype U (write_ptype U t) = Ok t.
Proof.
  intros We Wt t. unfold t, write_ptype. cbn [xt_kind xt_enc xt_name xt_unit].
  fold (reftime ep ofr).
  match goal with |- context [optattr "units" unit ++ ?s] => set (so := s) end.
  unfold read_ptype, localname. cbn [E vtag snd].
  assert (Tag : (String.eqb (kind_tag (XKTime ab ep ofr)) "AbsoluteTimeParameterType" || String.eqb (kind_tag (XKTime ab ep ofr)) "RelativeTimeParameterType")%bool = true)
    by (destruct ab; reflexivity).
  rewrite Tag.
  assert (Ab : String.eqb (kind_tag (XKTime ab ep ofr)) "AbsoluteTimeParameterType" = ab) by (destruct ab; reflexivity). rewrite Ab.
  fold (E U (kind_tag (XKTime ab ep ofr)) [("name", AS name)] (E U "Encoding" (optattr "units" unit ++ so) [write_encoding U enc] :: reftime ep ofr)).
  rewrite (rt_encoding_time U _ _ _ _ enc We (ti_reftime ep ofr)).
  set (EN := E U "Encoding" (optattr "units" unit ++ so) [write_encoding U enc]).
  assert (FE : find U "Encoding" (E U (kind_tag (XKTime ab ep ofr)) [("name", AS name)] (EN :: reftime ep ofr)) = Some EN).
  { unfold find. rewrite E_kids. cbn [List.find]. unfold EN. rewrite is_tag_E. reflexivity. }
  rewrite FE.
  assert (So : forall n, String.eqb "units" n = false -> get EN n = attr so n).
  { intros n Hn. unfold get, EN. rewrite E_attrs. destruct unit; cbn [optattr app attr]; [now rewrite Hn|reflexivity]. }
  assert (Un : opt_s EN "units" = Ok unit).
  { unfold opt_s, get, EN. rewrite E_attrs. destruct unit; cbn [optattr app attr String.eqb Ascii.eqb Bool.eqb]; [reflexivity|].
    unfold so. destruct enc as [ne| |]; try reflexivity. destruct (xn_default ne) as [[ts|? ? ?]|]; try reflexivity.
    destruct (negb (linear_exps ts)); [reflexivity|]. destruct (List.find _ ts); destruct (List.find _ ts); reflexivity. }
  rewrite Un. rewrite (So "offset" eq_refl), (So "scale" eq_refl).
  set (PT := E U (kind_tag (XKTime ab ep ofr)) [("name", AS name)] (EN :: reftime ep ofr)).
  assert (NM : req_s PT "name" = Ok name) by reflexivity. rewrite NM. cbn [bind].
  (* reference time *)
  assert (RT : find U "ReferenceTime" PT = List.find (is_tag U "ReferenceTime") (reftime ep ofr)).
  { unfold find, PT. rewrite E_kids. cbn [List.find]. unfold EN. rewrite is_tag_E. reflexivity. }
  assert (EP : match find_path U ["ReferenceTime"; "Epoch"] PT with Some e => s <- text_s e ;; Ok (Some s) | None => Ok None end = Ok ep).
  { cbn [find_path]. rewrite RT. unfold reftime. destruct ofr as [o|], ep as [e|]; cbn [List.find app]; rewrite ?is_tag_E; cbn [String.eqb Ascii.eqb Bool.eqb];
      fstep; step; reflexivity. }
  assert (OF : match find_path U ["ReferenceTime"; "OffsetFrom"] PT with Some e => s <- req_s e "parameterRef" ;; Ok (Some s) | None => Ok None end = Ok ofr).
  { cbn [find_path]. rewrite RT. unfold reftime. destruct ofr as [o|], ep as [e|]; cbn [List.find app]; rewrite ?is_tag_E; cbn [String.eqb Ascii.eqb Bool.eqb];
      fstep; step; reflexivity. }
  rewrite EP, OF. clear EP OF RT FE Un So. clearbody PT EN.
  (* scale / offset *)
  unfold so. destruct enc as [ne|se|s0]; [|destruct Wt|destruct Wt]. cbn [time_default_ok] in Wt. destruct ne as [fl sz en od df cx]. cbn [xn_default] in *.
  destruct df as [[ts|o1 o2 pts]|]; [|destruct Wt|reflexivity].
  destruct (linear_exps ts) eqn:L; cbn [negb]; [|reflexivity].
  unfold linear_exps in L.
  destruct ts as [|[c1 e1] [|[c2 e2] [|ce3 ts]]]; cbn [map snd] in L, Wt; try discriminate L.
  - destruct e1 as [|[p|p|]|p]; try discriminate L. reflexivity.
  - destruct e1 as [|[p|p|]|p]; try discriminate L; destruct e2 as [|[q|q|]|q]; try discriminate L; [reflexivity|now destruct Wt].
  - destruct e1 as [|[p|p|]|p]; try discriminate L; destruct e2 as [|[q|q|]|q]; discriminate L.
Qed.

Theorem rt_ptype t : ptype_wf t -> read_ptype U (write_ptype U t) = Ok t.
Proof.
  intros (We & Wu & Wk). destruct t as [name kind unit enc]. cbn [xt_enc xt_unit xt_kind xt_name] in *.
  assert (TK : (exists ab ep ofr, kind = XKTime ab ep ofr) \/ match kind with XKTime _ _ _ => False | _ => True end)
    by (destruct kind; eauto).
  destruct TK as [(ab & ep & ofr & ->)|NT]; [exact (rt_time name ab ep ofr unit enc We Wk)|].
  rewrite (write_ptype_eq {| xt_name := name; xt_kind := kind; xt_unit := unit; xt_enc := enc |} NT). cbn [xt_name xt_kind xt_enc].
  set (t := {| xt_name := name; xt_kind := kind; xt_unit := unit; xt_enc := enc |}).
  unfold read_ptype. unfold localname. cbn [E vtag snd].
  assert (Tag : (String.eqb (kind_tag kind) "AbsoluteTimeParameterType" || String.eqb (kind_tag kind) "RelativeTimeParameterType")%bool = false)
    by (destruct kind; try contradiction; reflexivity).
  rewrite Tag. unfold get. rewrite E_attrs. cbn [attr String.eqb Ascii.eqb Bool.eqb bind].
  (* units *)
  assert (RU : read_units U (E U (kind_tag kind) [("name", AS name)] (unit_part t ++ write_encoding U enc :: enum_part t)) = Ok unit).
  { unfold read_units, unit_part, t. cbn [xt_unit]. destruct unit as [u|].
    - destruct (String.eqb_spec u "") as [->|Hu]; [congruence|]. fstep. step. reflexivity.
    - cbn [app]. unfold find. rewrite E_kids. cbn [List.find]. rewrite is_tag_write_encoding.
      assert (E1 : String.eqb (enc_tag enc) "UnitSet" = false) by (destruct enc as [ne| |]; cbn [enc_tag]; [destruct (xn_float ne)| |]; reflexivity).
      rewrite E1. unfold enum_part. cbn [xt_kind]. destruct kind; cbn [List.find]; rewrite ?is_tag_E; reflexivity. }
  rewrite RU. cbn [bind].
  rewrite (rt_encoding U _ _ (unit_part t) (enum_part t) enc We (ti_unit_part t) (ti_enum_part t)). cbn [bind].
  (* the kind, decided by the tag *)
  destruct kind as [| | | | |labels|ab ep ofr]; try contradiction; cbn [kind_tag String.eqb Ascii.eqb Bool.eqb orb].
  - reflexivity.
  - reflexivity.
  - destruct Wk as [se ->]. reflexivity.
  - destruct Wk as [s0 ->]. reflexivity.
  - reflexivity.
  - assert (RL : read_enum_labels U (E U "EnumeratedParameterType" [("name", AS name)] (unit_part t ++ write_encoding U enc :: enum_part t)) = Ok labels).
    { unfold read_enum_labels, find. rewrite E_kids.
      assert (F : List.find (is_tag U "EnumerationList") (unit_part t ++ write_encoding U enc :: enum_part t)
                  = Some (E U "EnumerationList" [] (map (fun vl : aval * string => E U "Enumeration" [("label", AS (snd vl)); ("value", fst vl)] []) labels))).
      { unfold unit_part, t. cbn [xt_unit]. destruct unit as [u|]; [destruct (String.eqb u "")|]; cbn [app List.find]; rewrite ?is_tag_E, ?is_tag_write_encoding;
          cbn [String.eqb Ascii.eqb Bool.eqb];
          (assert (E1 : String.eqb (enc_tag enc) "EnumerationList" = false) by (destruct enc as [ne| |]; cbn [enc_tag]; [destruct (xn_float ne)| |]; reflexivity));
          rewrite E1; unfold enum_part; cbn [xt_kind List.find]; rewrite is_tag_E; reflexivity. }
      rewrite F. rewrite E_kids. apply rt_labels. }
    destruct enc as [ne|se|s0]; [| |exfalso; now apply (Wk s0)]; rewrite RL; reflexivity.
Qed.

(* ---- parameters ---- *)
Definition param_wf (p : xparam) : Prop := xp_short p <> Some "" /\ xp_long p <> Some "".
Theorem rt_param p : param_wf p -> read_param U (write_param U p) = Ok p.
Proof.
  intros [Ws Wl]. destruct p as [name ty short long]. cbn [xp_short xp_long] in *. unfold read_param, write_param. cbn [xp_name xp_type xp_short xp_long].
  unfold nonempty. destruct short as [s0|]; [destruct (String.eqb_spec s0 "") as [->|Hs]; [congruence|]|];
    (destruct long as [l|]; [destruct (String.eqb_spec l "") as [->|Hl]; [congruence|]|]); unfold optattr; fstep; step; reflexivity.
Qed.

(* ---- containers ---- *)
Definition container_wf (c : xcontainer) : Prop :=
  xk_short c <> Some "" /\ xk_long c <> Some "" /\
  match xk_base c with
  | None => xk_criteria c = []
  | Some _ => xk_criteria c = [] \/ criteria_wf true (xk_criteria c)      (* an unconditional child, or criteria in normal form *)
  end.
Definition wr_entry (e : xentry) : velem :=
  match e with XEP n => E U "ParameterRefEntry" [("parameterRef", AS n)] [] | XEC n => E U "ContainerRefEntry" [("containerRef", AS n)] [] end.
Definition rd_entry (e : velem) : res (list xentry) :=
  if String.eqb (localname e) "ParameterRefEntry" then n <- req_s e "parameterRef" ;; Ok [XEP n]
  else if String.eqb (localname e) "ContainerRefEntry" then n <- req_s e "containerRef" ;; Ok [XEC n] else Ok [].
Lemma rt_entries es : mapM rd_entry (map wr_entry es) = Ok (map (fun e => [e]) es).
Proof. induction es as [|[n|n] t IH]; [reflexivity| |]; cbn [map mapM]; unfold rd_entry at 1, wr_entry at 1; step; now rewrite IH. Qed.
Lemma concat_singletons {A} (l : list A) : List.concat (map (fun e => [e]) l) = l.
Proof. induction l; cbn; congruence. Qed.

Theorem rt_container c v : container_wf c -> write_container U c = Ok v -> read_container U v = Ok c.
Proof.
  intros (Ws & Wl & Wb) H. destruct c as [name ab short long entries base crit]. cbn [xk_short xk_long xk_base xk_criteria] in *.
  unfold write_container in H. cbn [xk_name xk_abstract xk_short xk_long xk_entries xk_base xk_criteria] in H.
  assert (EL : forall tag attrs pre, Forall (fun x => is_tag U "EntryList" x = false) pre ->
     match find U "EntryList" (E U tag attrs (pre ++ [E U "EntryList" [] (map wr_entry entries)])) with
     | None => Err EAttr
     | Some el => mapM rd_entry (vkids el) end = Ok (map (fun e => [e]) entries)).
  { intros tag attrs pre HF. unfold find. rewrite E_kids.
    assert (F : List.find (is_tag U "EntryList") (pre ++ [E U "EntryList" [] (map wr_entry entries)]) = Some (E U "EntryList" [] (map wr_entry entries))).
    { induction HF as [|x r Hx _ IH]; cbn [app List.find]; [now rewrite is_tag_E|now rewrite Hx]. }
    rewrite F, E_kids. apply rt_entries. }
  unfold nonempty in H.
  destruct base as [b|].
  - destruct crit as [|k ks].
    { (* unconditional child: <BaseContainer containerRef=b/> with no RestrictionCriteria *)
      injection H as <-. unfold read_container.
      destruct short as [s0|]; [destruct (String.eqb_spec s0 "") as [->|Hs]; [congruence|]|];
        (destruct long as [l|]; [destruct (String.eqb_spec l "") as [->|Hl]; [congruence|]|]); unfold optattr; cbn [app];
        fstep; step; fold wr_entry; fold rd_entry; fstep; step; fold wr_entry; rewrite rt_entries; cbn [bind]; rewrite concat_singletons; reflexivity. }
    destruct Wb as [Wne|Wk]; [discriminate|]. injection H as <-.
    pose proof (rt_match U true true "RestrictionCriteria" [] (k :: ks) Wk) as R. unfold write_criteria in R. cbn [map] in R.
    unfold read_container.
    destruct short as [s0|]; [destruct (String.eqb_spec s0 "") as [->|Hs]; [congruence|]|];
      (destruct long as [l|]; [destruct (String.eqb_spec l "") as [->|Hl]; [congruence|]|]); unfold optattr; cbn [app];
      fstep; step; rewrite R; cbn [bind];
      fold wr_entry; fold rd_entry; fstep; step; fold wr_entry; rewrite rt_entries; cbn [bind]; rewrite concat_singletons; reflexivity.
  - subst crit. injection H as <-. unfold read_container.
    destruct short as [s0|]; [destruct (String.eqb_spec s0 "") as [->|Hs]; [congruence|]|];
      (destruct long as [l|]; [destruct (String.eqb_spec l "") as [->|Hl]; [congruence|]|]); unfold optattr; cbn [app];
      fstep; step; fold wr_entry; rewrite rt_entries; cbn [bind]; rewrite concat_singletons; reflexivity.
Qed.

(* ---- the whole document ---- *)
Definition doc_wf (d : xdoc) : Prop :=
  Forall ptype_wf (xd_types d) /\ Forall param_wf (xd_params d) /\ Forall container_wf (xd_containers d) /\
  xd_name d <> Some "" /\ xd_date d <> Some "".

Lemma rt_containers cs : Forall container_wf cs -> forall vs, mapM (write_container U) cs = Ok vs -> mapM (read_container U) vs = Ok cs.
Proof.
  induction 1 as [|c t Hc _ IH]; intros vs H; cbn [mapM] in H; [injection H as <-; reflexivity|].
  destruct (write_container U c) as [v|] eqn:W; cbn [bind] in H; [|discriminate].
  destruct (mapM (write_container U) t) as [r|]; cbn [bind] in H; [|discriminate]. injection H as <-.
  cbn [mapM]. rewrite (rt_container c v Hc W). cbn [bind]. now rewrite (IH r eq_refl).
Qed.

Definition with_date (d : xdoc) (date : string) : xdoc :=
  {| xd_types := xd_types d; xd_params := xd_params d; xd_containers := xd_containers d; xd_name := xd_name d;
     xd_date := Some (match xd_date d with Some x => x | None => date end) |}.

Theorem rt_doc date d v : doc_wf d -> write_doc U date d = Ok v -> read_doc U v = Ok (with_date d date).
Proof.
  intros (Wt & Wp & Wc & Wn & Wd) H. unfold write_doc in H.
  destruct (forallb time_writable (xd_types d)); cbn [negb] in H; [|discriminate].
  destruct (mapM (write_container U) (xd_containers d)) as [cs|] eqn:C; cbn [bind] in H; [|discriminate]. injection H as <-.
  unfold read_doc.
  assert (RT : mapM (read_ptype U) (map (write_ptype U) (xd_types d)) = Ok (xd_types d)).
  { apply mapM_map_rt. eapply Forall_impl; [|exact Wt]. intros; now apply rt_ptype. }
  assert (RP : mapM (read_param U) (map (write_param U) (xd_params d)) = Ok (xd_params d)).
  { apply mapM_map_rt. eapply Forall_impl; [|exact Wp]. intros; now apply rt_param. }
  pose proof (rt_containers _ Wc cs C) as RC.
  assert (Dt : match nonempty (xd_date d) with Some x => x | None => date end = match xd_date d with Some x => x | None => date end).
  { unfold nonempty. destruct (xd_date d) as [x|]; [|reflexivity]. destruct (String.eqb_spec x "") as [->|]; [congruence|reflexivity]. }
  unfold with_date. rewrite <- Dt.
  assert (Nn : nonempty (xd_name d) = xd_name d).
  { unfold nonempty. destruct (xd_name d) as [n|]; [|reflexivity]. destruct (String.eqb_spec n "") as [->|]; [congruence|reflexivity]. }
  rewrite Nn. destruct (xd_name d) as [n|] eqn:N; unfold optattr;
    fstep; step; rewrite RT; cbn [bind]; fstep; step; rewrite RP; cbn [bind]; fstep; step; rewrite RC; cbn [bind]; reflexivity.
Qed.

(* a second write of what was read back produces the same tree: stability under repeated cycles *)
Theorem write_read_write date d v : doc_wf d -> write_doc U date d = Ok v ->
  exists d', read_doc U v = Ok d' /\ write_doc U date d' = Ok v.
Proof.
  intros W H. exists (with_date d date). split; [now apply rt_doc|].
  unfold write_doc in *. cbn [with_date xd_containers xd_types xd_params xd_name xd_date].
  destruct (forallb time_writable (xd_types d)); cbn [negb] in *; [|discriminate].
  destruct (mapM (write_container U) (xd_containers d)) as [cs|]; cbn [bind] in *; [|discriminate]. injection H as <-.
  do 6 f_equal. destruct W as (_ & _ & _ & _ & Wd). unfold nonempty.
  destruct (xd_date d) as [x|].
  - destruct (String.eqb_spec x "") as [->|Hx]; [congruence|reflexivity].
  - destruct (String.eqb date ""); reflexivity.
Qed.

(* every well-formed document IS written: the refusals of the writer (a time type it cannot express, restriction criteria
   without a base container) lie outside [doc_wf], so the round-trip theorems are about every well-formed document *)
Lemma wf_time_writable t : ptype_wf t -> time_writable t = true.
Proof.
  intros (_ & _ & Wk). unfold time_writable. destruct (xt_kind t); try reflexivity. unfold time_default_ok in Wk.
  destruct (xt_enc t) as [ne| |]; try contradiction. destruct (xn_default ne) as [[ts|? ? ?]|]; try contradiction; reflexivity.
Qed.
Lemma wf_containers_written cs : Forall container_wf cs -> exists vs, mapM (write_container U) cs = Ok vs.
Proof.
  induction 1 as [|c t (_ & _ & Hc) _ (vs & IH)]; [now exists []|]. cbn [mapM]. unfold write_container at 1.
  destruct (xk_base c) as [b|].
  - destruct (xk_criteria c); cbn [bind]; rewrite IH; cbn [bind]; eauto.
  - rewrite Hc. cbn [bind]. rewrite IH. cbn [bind]. eauto.
Qed.
Theorem wf_doc_written date d : doc_wf d -> exists v, write_doc U date d = Ok v.
Proof.
  intros (Wt & _ & Wc & _). unfold write_doc.
  assert (T : forallb time_writable (xd_types d) = true) by (apply forallb_forall; rewrite Forall_forall in Wt; intros t Ht; apply wf_time_writable; auto).
  rewrite T. cbn [negb]. destruct (wf_containers_written _ Wc) as (vs & ->). cbn [bind]. eauto.
Qed.
End Doc.

(* non-vacuity: a concrete document with an enumerated type, a calibrated integer, a string, inheritance with a boolean
   expression; it is well formed and round-trips by computation *)
Definition example_doc : xdoc :=
  let cmp := {| xc_ref := "PKT_APID"; xc_value := "11"; xc_op := "=="; xc_cal := true |} in
  let cond := {| xd_left := "MODE"; xd_lcal := false; xd_op := ">="; xd_right := XParam "PKT_APID" true |} in
  {| xd_types :=
       [ {| xt_name := "U11"; xt_kind := XKInteger; xt_unit := None;
            xt_enc := XNum {| xn_float := false; xn_size := 11; xn_encoding := "unsigned"; xn_order := "mostSignificantByteFirst";
                              xn_default := Some (XPoly [(4602678819172646912, 1)]);
                              xn_context := Some [ {| xx_criteria := [XCmp cmp]; xx_cal := XSpline 1 true [(0, 0); (4607182418800017408, 4611686018427387904)] |} ] |} |};
         {| xt_name := "MODE_T"; xt_kind := XKEnum [(AZ 0, "OFF"); (AZ 1, "ON")]; xt_unit := Some "state";
            xt_enc := XNum {| xn_float := false; xn_size := 2; xn_encoding := "unsigned"; xn_order := "mostSignificantByteFirst";
                              xn_default := None; xn_context := None |} |};
         {| xt_name := "TXT"; xt_kind := XKString; xt_unit := None;
            xt_enc := XStr {| xs_charset := "UTF-16BE"; xs_order := Some "mostSignificantByteFirst";
                              xs_size := XDynamic "PKT_APID" false (Some (8, 0)); xs_term := Some "0058"; xs_leading := None |} |};
         {| xt_name := "MET_T"; xt_kind := XKTime true (Some "TAI") (Some "MODE"); xt_unit := Some "seconds";
            xt_enc := XNum {| xn_float := false; xn_size := 32; xn_encoding := "unsigned"; xn_order := "mostSignificantByteFirst";
                              xn_default := Some (XPoly [(4621819117588971520, 0); (4602678819172646912, 1)]); xn_context := None |} |} ];
     xd_params := [ {| xp_name := "PKT_APID"; xp_type := "U11"; xp_short := Some "apid"; xp_long := None |};
                    {| xp_name := "MODE"; xp_type := "MODE_T"; xp_short := None; xp_long := Some "mode of operation" |};
                    {| xp_name := "NOTE"; xp_type := "TXT"; xp_short := None; xp_long := None |};
                    {| xp_name := "MET"; xp_type := "MET_T"; xp_short := None; xp_long := None |} ];
     xd_containers :=
       [ {| xk_name := "ROOT"; xk_abstract := true; xk_short := None; xk_long := None; xk_entries := [XEP "PKT_APID"; XEP "MODE"];
            xk_base := None; xk_criteria := [] |};
         {| xk_name := "CHILD"; xk_abstract := false; xk_short := Some "child"; xk_long := None; xk_entries := [XEP "NOTE"; XEC "ROOT"];
            xk_base := Some "ROOT"; xk_criteria := [XBool (XTree (XAnd [cond] [XOr [cond] []]))] |} ];
     xd_name := Some "EXAMPLE"; xd_date := None |}.

Example example_doc_wf : doc_wf example_doc.
Proof.
  unfold doc_wf, example_doc. cbn [xd_types xd_params xd_containers xd_name xd_date].
  repeat first [ split | apply Forall_cons | apply Forall_nil | discriminate | exact I | reflexivity | (right; reflexivity) | (left; reflexivity)
               | (eexists; reflexivity) | (cbn; right; do 2 eexists; reflexivity) | (intros; discriminate) | (cbn; tauto) ].
Qed.
Example example_roundtrip :
  exists v, write_doc (Some "urn:x") "2024-01-01" example_doc = Ok v /\ read_doc (Some "urn:x") v = Ok (with_date example_doc "2024-01-01").
Proof. eexists. split; [vm_compute; reflexivity|vm_compute; reflexivity]. Qed.
