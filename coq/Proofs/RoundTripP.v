(* Proofs/RoundTripP.v — C09 (write then read) and C15 (namespace of the written tree) *)
From Coq Require Import ZArith List Bool String Lia.
From SPP Require Import Base.Sx Model.Xml.
Import ListNotations.
Open Scope string_scope.
Open Scope list_scope.

Section RT.
Variable U : option string.

Lemma ns_eqb_refl a : ns_eqb a a = true.
Proof. destruct a; cbn; auto. apply String.eqb_refl. Qed.
Lemma is_tag_VE n m a t k : is_tag U n (VE (U, m) a t k) = String.eqb m n.
Proof. unfold is_tag. cbn [vtag fst snd]. now rewrite ns_eqb_refl. Qed.

Lemma is_tag_E n m a k : is_tag U n (E U m a k) = String.eqb m n.
Proof. apply is_tag_VE. Qed.
Lemma is_tag_ET n m t : is_tag U n (ET U m t) = String.eqb m n.
Proof. apply is_tag_VE. Qed.
Lemma E_kids m a k : vkids (E U m a k) = k. Proof. reflexivity. Qed.
Lemma E_attrs m a k : vattrs (E U m a k) = a. Proof. reflexivity. Qed.
Lemma ET_text m t : vtext (ET U m t) = Some t. Proof. reflexivity. Qed.

Ltac step := repeat (progress (
  unfold find, findall, get, req_s, req_z, req_f, opt_s, opt_b, text_s, text_z, localname;
  rewrite ?E_kids, ?E_attrs, ?ET_text;
  cbn [List.find filter attr bind fst snd app map find_path];
  rewrite ?is_tag_E, ?is_tag_ET, ?is_tag_VE;
  cbn [String.eqb Ascii.eqb Bool.eqb])).

Theorem rt_comparison c : read_comparison (write_comparison U c) = Ok c.
Proof. destruct c. unfold read_comparison, write_comparison. step. reflexivity. Qed.

Theorem rt_condition d : read_condition U (write_condition U d) = Ok d.
Proof.
  destruct d as [l lc op [n c|s]]; unfold read_condition, write_condition, read_instance_ref; cbn [xd_left xd_lcal xd_op xd_right]; step; reflexivity.
Qed.

Lemma mapM_map_rt {A} (r : velem -> res A) (w : A -> velem) (l : list A) :
  Forall (fun x => r (w x) = Ok x) l -> mapM r (map w l) = Ok l.
Proof. induction 1 as [|x t Hx _ IH]; [reflexivity|]. cbn [map mapM]. now rewrite Hx, IH. Qed.
Lemma mapM_conditions cs : mapM (read_condition U) (map (write_condition U) cs) = Ok cs.
Proof. apply mapM_map_rt. rewrite Forall_forall. intros; apply rt_condition. Qed.

(* filtering the written children by tag *)
Lemma filter_tag_app n (a b : list velem) : filter (is_tag U n) (a ++ b) = filter (is_tag U n) a ++ filter (is_tag U n) b.
Proof. apply filter_app. Qed.
Lemma filter_conditions_all cs : filter (is_tag U "Condition") (map (write_condition U) cs) = map (write_condition U) cs.
Proof. induction cs as [|c t IH]; [reflexivity|]. cbn [map filter]. unfold write_condition at 1. unfold E. rewrite is_tag_VE. cbn. now rewrite IH. Qed.
Lemma filter_conditions_none n cs : String.eqb "Condition" n = false -> filter (is_tag U n) (map (write_condition U) cs) = [].
Proof. intro H. induction cs as [|c t IH]; [reflexivity|]. cbn [map filter]. unfold write_condition at 1. unfold E. rewrite is_tag_VE, H. exact IH. Qed.

Definition bx_tag (t : xbx) : string := match t with XAnd _ _ => "ANDedConditions" | XOr _ _ => "ORedConditions" end.
Lemma write_bx_tag t : exists a k, write_bx U t = VE (U, bx_tag t) a None k.
Proof. destruct t; cbn; unfold E; eauto. Qed.

(* the trees the library builds alternate: ANDed groups contain ORed groups and vice versa *)
Fixpoint alternating (t : xbx) : Prop :=
  match t with
  | XAnd _ subs => (fix all (l : list xbx) : Prop := match l with [] => True | s :: r => (match s with XOr _ _ => True | _ => False end) /\ alternating s /\ all r end) subs
  | XOr _ subs => (fix all (l : list xbx) : Prop := match l with [] => True | s :: r => (match s with XAnd _ _ => True | _ => False end) /\ alternating s /\ all r end) subs
  end.

Fixpoint bx_depth (t : xbx) : nat :=
  match t with XAnd _ subs | XOr _ subs => S (fold_right (fun k acc => Nat.max (bx_depth k) acc) O subs) end.

Section bx_ind.
  Variable P : xbx -> Prop.
  Hypothesis HA : forall cs subs, Forall P subs -> P (XAnd cs subs).
  Hypothesis HO : forall cs subs, Forall P subs -> P (XOr cs subs).
  Fixpoint xbx_ind' (t : xbx) : P t :=
    match t with
    | XAnd cs subs => HA cs subs ((fix go (l : list xbx) : Forall P l := match l with [] => Forall_nil _ | x :: r => Forall_cons x (xbx_ind' x) (go r) end) subs)
    | XOr cs subs => HO cs subs ((fix go (l : list xbx) : Forall P l := match l with [] => Forall_nil _ | x :: r => Forall_cons x (xbx_ind' x) (go r) end) subs)
    end.
End bx_ind.

Lemma filter_subs_keep tag subs : Forall (fun s => bx_tag s = tag) subs -> filter (is_tag U tag) (map (write_bx U) subs) = map (write_bx U) subs.
Proof.
  induction 1 as [|s r Hs _ IH]; [reflexivity|]. cbn [map filter]. destruct (write_bx_tag s) as (a & k & ->).
  rewrite is_tag_VE, Hs, String.eqb_refl. now rewrite IH.
Qed.
Lemma filter_subs_drop tag subs : Forall (fun s => String.eqb (bx_tag s) tag = false) subs -> filter (is_tag U tag) (map (write_bx U) subs) = [].
Proof.
  induction 1 as [|s r Hs _ IH]; [reflexivity|]. cbn [map filter]. destruct (write_bx_tag s) as (a & k & ->).
  now rewrite is_tag_VE, Hs.
Qed.

Lemma read_anded_S f v : read_anded U (S f) v =
  (cs <- mapM (read_condition U) (findall U "Condition" v) ;; subs <- mapM (read_ored U f) (findall U "ORedConditions" v) ;; Ok (XAnd cs subs)).
Proof. reflexivity. Qed.
Lemma read_ored_S f v : read_ored U (S f) v =
  (cs <- mapM (read_condition U) (findall U "Condition" v) ;; subs <- mapM (read_anded U f) (findall U "ANDedConditions" v) ;; Ok (XOr cs subs)).
Proof. reflexivity. Qed.
Lemma write_and cs subs : write_bx U (XAnd cs subs) = E U "ANDedConditions" [] (map (write_condition U) cs ++ map (write_bx U) subs).
Proof. reflexivity. Qed.
Lemma write_or cs subs : write_bx U (XOr cs subs) = E U "ORedConditions" [] (map (write_condition U) cs ++ map (write_bx U) subs).
Proof. reflexivity. Qed.

Theorem rt_bx : forall t, alternating t -> forall fuel, (bx_depth t <= fuel)%nat ->
  (match t with XAnd _ _ => read_anded U fuel (write_bx U t) | XOr _ _ => read_ored U fuel (write_bx U t) end) = Ok t.
Proof.
  apply (xbx_ind' (fun t => alternating t -> forall fuel, (bx_depth t <= fuel)%nat ->
          (match t with XAnd _ _ => read_anded U fuel (write_bx U t) | XOr _ _ => read_ored U fuel (write_bx U t) end) = Ok t)).
  - intros cs subs IH Alt fuel Hf. destruct fuel as [|f]; [cbn in Hf; lia|].
    rewrite write_and, read_anded_S. unfold findall. rewrite E_kids. rewrite !filter_tag_app.
    rewrite filter_conditions_all. rewrite (filter_conditions_none "ORedConditions") by reflexivity.
    assert (Tags : Forall (fun s => bx_tag s = "ORedConditions") subs /\ Forall (fun s => String.eqb (bx_tag s) "Condition" = false) subs).
    { clear - Alt. cbn [alternating] in Alt. induction subs as [|s r IHr]; [split; constructor|]. destruct Alt as (A1 & A2 & A3).
      destruct (IHr A3) as [I1 I2]. destruct s; try contradiction. split; constructor; auto. }
    destruct Tags as [T1 T2]. rewrite (filter_subs_drop "Condition") by exact T2. rewrite (filter_subs_keep "ORedConditions") by exact T1.
    rewrite app_nil_r. cbn [app]. rewrite mapM_conditions. cbn [bind].
    assert (M : mapM (read_ored U f) (map (write_bx U) subs) = Ok subs).
    { clear T1 T2. cbn [alternating] in Alt. cbn [bx_depth] in Hf.
      induction subs as [|s r IHr]; [reflexivity|]. inversion IH as [|? ? Hs Hr]; subst. destruct Alt as (A1 & A2 & A3).
      cbn [fold_right] in Hf. cbn [map mapM]. destruct s; try contradiction.
      rewrite (Hs A2 f) by lia. cbn [bind]. rewrite IHr; auto. lia. }
    now rewrite M.
  - intros cs subs IH Alt fuel Hf. destruct fuel as [|f]; [cbn in Hf; lia|].
    rewrite write_or, read_ored_S. unfold findall. rewrite E_kids. rewrite !filter_tag_app.
    rewrite filter_conditions_all. rewrite (filter_conditions_none "ANDedConditions") by reflexivity.
    assert (Tags : Forall (fun s => bx_tag s = "ANDedConditions") subs /\ Forall (fun s => String.eqb (bx_tag s) "Condition" = false) subs).
    { clear - Alt. cbn [alternating] in Alt. induction subs as [|s r IHr]; [split; constructor|]. destruct Alt as (A1 & A2 & A3).
      destruct (IHr A3) as [I1 I2]. destruct s; try contradiction. split; constructor; auto. }
    destruct Tags as [T1 T2]. rewrite (filter_subs_drop "Condition") by exact T2. rewrite (filter_subs_keep "ANDedConditions") by exact T1.
    rewrite app_nil_r. cbn [app]. rewrite mapM_conditions. cbn [bind].
    assert (M : mapM (read_anded U f) (map (write_bx U) subs) = Ok subs).
    { clear T1 T2. cbn [alternating] in Alt. cbn [bx_depth] in Hf.
      induction subs as [|s r IHr]; [reflexivity|]. inversion IH as [|? ? Hs Hr]; subst. destruct Alt as (A1 & A2 & A3).
      cbn [fold_right] in Hf. cbn [map mapM]. destruct s; try contradiction.
      rewrite (Hs A2 f) by lia. cbn [bind]. rewrite IHr; auto. lia. }
    now rewrite M.
Qed.

(* ---- boolean expressions ---- *)
Lemma fold_max_ge (l : list velem) a b : (a <= b)%nat -> (a <= fold_right (fun k acc => Nat.max (vdepth k) acc) b l)%nat.
Proof. induction l as [|x l IHl]; intro H; cbn [fold_right]; [exact H|specialize (IHl H); lia]. Qed.
Lemma fold_max_subs subs : Forall (fun t => (bx_depth t <= vdepth (write_bx U t))%nat) subs ->
  (fold_right (fun k acc => Nat.max (bx_depth k) acc) 0%nat subs <= fold_right (fun k acc => Nat.max (vdepth k) acc) 0%nat (map (write_bx U) subs))%nat.
Proof. induction 1 as [|s r Hs _ IH]; cbn [map fold_right]; lia. Qed.
Lemma vdepth_E m a k : vdepth (E U m a k) = S (fold_right (fun k acc => Nat.max (vdepth k) acc) 0%nat k).
Proof. reflexivity. Qed.
Lemma vdepth_ge_bx : forall t, (bx_depth t <= vdepth (write_bx U t))%nat.
Proof.
  apply (xbx_ind' (fun t => (bx_depth t <= vdepth (write_bx U t))%nat)); intros cs subs IH;
    [rewrite write_and|rewrite write_or]; rewrite vdepth_E; cbn [bx_depth]; apply le_n_S;
    rewrite fold_right_app; apply fold_max_ge; now apply fold_max_subs.
Qed.

Theorem rt_bexpr b : match b with XTree t => alternating t | XCond _ => True end -> read_bexpr U (write_bexpr U b) = Ok b.
Proof.
  destruct b as [d|t]; intro Alt; unfold read_bexpr, write_bexpr.
  - unfold find at 1. rewrite E_kids. cbn [List.find]. unfold write_condition at 1. rewrite is_tag_E. cbn [String.eqb Ascii.eqb Bool.eqb].
    fold (write_condition U d). now rewrite rt_condition.
  - destruct t as [cs subs|cs subs]; unfold find; rewrite E_kids; cbn [List.find].
    + pose proof (rt_bx (XAnd cs subs) Alt (vdepth (write_bx U (XAnd cs subs))) (vdepth_ge_bx _)) as R. cbn beta iota in R.
      rewrite write_and in *. rewrite !is_tag_E. cbn [String.eqb Ascii.eqb Bool.eqb]. now rewrite R.
    + pose proof (rt_bx (XOr cs subs) Alt (vdepth (write_bx U (XOr cs subs))) (vdepth_ge_bx _)) as R. cbn beta iota in R.
      rewrite write_or in *. rewrite !is_tag_E. cbn [String.eqb Ascii.eqb Bool.eqb]. now rewrite R.
Qed.

(* ---- criteria as XTCE allows them: one comparison, one boolean expression, or a list of comparisons ---- *)
Definition criteria_wf (bool_ok : bool) (ks : list xcriterion) : Prop :=
  match ks with
  | [XCmp _] => True
  | [XBool b] => bool_ok = true /\ match b with XTree t => alternating t | XCond _ => True end
  | _ => Forall (fun k => match k with XCmp _ => True | XBool _ => False end) ks
  end.

Lemma is_tag_write_comparison n c : is_tag U n (write_comparison U c) = String.eqb "Comparison" n.
Proof. unfold write_comparison. apply is_tag_E. Qed.
Lemma is_tag_write_bexpr n b : is_tag U n (write_bexpr U b) = String.eqb "BooleanExpression" n.
Proof. unfold write_bexpr. apply is_tag_E. Qed.

Lemma comparisons_rt ks : Forall (fun k => match k with XCmp _ => True | XBool _ => False end) ks ->
  mapM read_comparison (map (write_criterion U) ks) = Ok (map (fun k => match k with XCmp c => c | XBool _ => {| xc_ref := ""; xc_value := ""; xc_op := ""; xc_cal := true |} end) ks)
  /\ map XCmp (map (fun k => match k with XCmp c => c | XBool _ => {| xc_ref := ""; xc_value := ""; xc_op := ""; xc_cal := true |} end) ks) = ks
  /\ filter (is_tag U "Comparison") (map (write_criterion U) ks) = map (write_criterion U) ks.
Proof.
  induction 1 as [|k t Hk _ (IH1 & IH2 & IH3)]; [repeat split; reflexivity|]. destruct k as [c|]; [|contradiction].
  cbn [map mapM write_criterion filter]. rewrite rt_comparison, IH1. cbn [bind]. rewrite IH2.
  rewrite is_tag_write_comparison. cbn [String.eqb Ascii.eqb Bool.eqb]. rewrite IH3. repeat split; reflexivity.
Qed.

Theorem rt_match all_children bool_ok tag attrs ks : criteria_wf bool_ok ks ->
  read_match U all_children bool_ok (E U tag attrs (write_criteria U ks)) = Ok (Some ks).
Proof.
  intro W. unfold read_match.
  assert (List_case : Forall (fun k => match k with XCmp _ => True | XBool _ => False end) ks ->
                      write_criteria U ks = [E U "ComparisonList" [] (map (write_criterion U) ks)] ->
                      match find U "ComparisonList" (E U tag attrs (write_criteria U ks)) with
                      | Some cl => cs <- mapM read_comparison (if all_children then vkids cl else findall U "Comparison" cl) ;; Ok (Some (map XCmp cs))
                      | None => Err EOther end = Ok (Some ks)).
  { intros HF HW. rewrite HW. unfold find. rewrite E_kids. cbn [List.find]. rewrite is_tag_E. cbn [String.eqb Ascii.eqb Bool.eqb].
    destruct (comparisons_rt ks HF) as (R1 & R2 & R3). unfold findall. rewrite E_kids.
    destruct all_children; [|rewrite R3]; rewrite R1; cbn [bind]; now rewrite R2. }
  destruct ks as [|k [|k2 r]].
  - (* empty list: an empty ComparisonList *)
    pose proof (List_case ltac:(constructor) eq_refl) as L. cbn [write_criteria] in *.
    destruct (find U "ComparisonList" _); [exact L|discriminate].
  - destruct k as [c|b].
    + cbn [write_criteria write_criterion]. unfold find. rewrite E_kids. cbn [List.find]. rewrite !is_tag_write_comparison.
      cbn [String.eqb Ascii.eqb Bool.eqb]. now rewrite rt_comparison.
    + destruct W as [-> Alt]. cbn [write_criteria write_criterion]. unfold find. rewrite E_kids. cbn [List.find].
      rewrite !is_tag_write_bexpr. cbn [String.eqb Ascii.eqb Bool.eqb]. now rewrite rt_bexpr.
  - assert (W' : Forall (fun k => match k with XCmp _ => True | XBool _ => False end) (k :: k2 :: r)) by (destruct k; exact W).
    pose proof (List_case W' eq_refl) as L. cbn [write_criteria] in *.
    destruct (find U "ComparisonList" _); [exact L|discriminate].
Qed.

(* ---- calibrators ---- *)
Definition rd_term (t : velem) : res (Z * Z) := c <- req_f t "coefficient" ;; e <- req_z t "exponent" ;; Ok (c, e).
Definition wr_term (t : Z * Z) : velem := E U "Term" [("exponent", AZ (snd t)); ("coefficient", AF (fst t))] [].
Lemma rt_term t : rd_term (wr_term t) = Ok t.
Proof. destruct t. unfold rd_term, wr_term. step. reflexivity. Qed.
Lemma rt_terms ts : mapM rd_term (map wr_term ts) = Ok ts.
Proof. apply mapM_map_rt. rewrite Forall_forall. intros; apply rt_term. Qed.
Definition rd_point (p : velem) : res (Z * Z) := r <- req_f p "raw" ;; c <- req_f p "calibrated" ;; Ok (r, c).
Definition wr_point (p : Z * Z) : velem := E U "SplinePoint" [("raw", AF (fst p)); ("calibrated", AF (snd p))] [].
Lemma rt_point p : rd_point (wr_point p) = Ok p.
Proof. destruct p. unfold rd_point, wr_point. step. reflexivity. Qed.
Lemma rt_points ps : mapM rd_point (map wr_point ps) = Ok ps.
Proof. apply mapM_map_rt. rewrite Forall_forall. intros; apply rt_point. Qed.

Definition cal_wf (c : xcalibrator) : Prop := match c with XPoly _ => True | XSpline o _ _ => (o = 0 \/ o = 1)%Z end.
Theorem rt_cal c : cal_wf c ->
  match c with XPoly _ => read_poly (write_cal U c) | XSpline _ _ _ => read_spline (write_cal U c) end = Ok c.
Proof.
  destruct c as [ts|o ex ps]; intro W; cbn [write_cal].
  - unfold read_poly. rewrite E_kids. fold rd_term. fold wr_term. rewrite rt_terms. reflexivity.
  - unfold read_spline. rewrite E_kids. fold rd_point. fold wr_point. rewrite rt_points. cbn [bind]. step. destruct W as [-> | ->]; reflexivity.
Qed.

(* ---- context calibrators, default calibrator ---- *)
Definition context_wf (c : xcontext) : Prop := criteria_wf true (xx_criteria c) /\ cal_wf (xx_cal c).
Lemma is_tag_write_cal n c : is_tag U n (write_cal U c) = String.eqb (match c with XPoly _ => "PolynomialCalibrator" | XSpline _ _ _ => "SplineCalibrator" end) n.
Proof. destruct c; cbn [write_cal]; apply is_tag_E. Qed.

Ltac fstep := repeat (progress (
  unfold find_path, find, findall; rewrite ?E_kids, ?E_attrs, ?ET_text; cbn [List.find filter app];
  rewrite ?is_tag_E, ?is_tag_ET, ?is_tag_VE, ?is_tag_write_cal, ?is_tag_write_comparison, ?is_tag_write_bexpr;
  cbn [String.eqb Ascii.eqb Bool.eqb])).

Theorem rt_context c : context_wf c -> read_context U (write_context U c) = Ok c.
Proof.
  intros [Wk Wc]. destruct c as [ks cal]. cbn [xx_criteria xx_cal] in *. unfold read_context, write_context. cbn [xx_criteria xx_cal].
  unfold find at 1. rewrite E_kids. cbn [List.find]. rewrite is_tag_E. cbn [String.eqb Ascii.eqb Bool.eqb].
  rewrite (rt_match false true "ContextMatch" [] ks Wk). cbn [bind].
  pose proof (rt_cal cal Wc) as R. destruct cal as [ts|o ex ps]; fstep; now rewrite R.
Qed.

Theorem rt_default_cal tag attrs kids cal : cal_wf cal ->
  read_default_cal U (E U tag attrs (E U "DefaultCalibrator" [] [write_cal U cal] :: kids)) = Ok (Some cal).
Proof.
  intro W. unfold read_default_cal. pose proof (rt_cal cal W) as R. destruct cal as [ts|o ex ps]; fstep; now rewrite R.
Qed.

(* ---- discrete lookups, dynamic sizes ---- *)
Definition lookup_wf (l : xlookup) : Prop := criteria_wf false (xl_criteria l).
Lemma write_lookup_eq l : write_lookup U l = E U "DiscreteLookup" [("value", AF (xl_value l))] (write_criteria U (xl_criteria l)).
Proof. unfold write_lookup, write_criteria. destruct (xl_criteria l) as [|k [|k2 r]]; reflexivity. Qed.
Theorem rt_lookup l : lookup_wf l -> read_lookup U (write_lookup U l) = Ok l.
Proof.
  intro W. destruct l as [ks v]. unfold lookup_wf in W. cbn [xl_criteria] in W. rewrite write_lookup_eq. cbn [xl_value xl_criteria].
  unfold read_lookup. rewrite (rt_match true false "DiscreteLookup" _ ks W). step. reflexivity.
Qed.
Lemma rt_lookups ls : Forall lookup_wf ls -> mapM (read_lookup U) (map (write_lookup U) ls) = Ok ls.
Proof. intro H. apply mapM_map_rt. eapply Forall_impl; [|exact H]. intros; now apply rt_lookup. Qed.

Theorem rt_dynamic r c a : read_dynamic U (write_dynamic U r c a) = Ok (XDynamic r c a).
Proof.
  unfold read_dynamic, write_dynamic, read_adjust. destruct a as [[sl ic]|]; fstep; step; reflexivity.
Qed.

(* ---- numeric encodings ---- *)
Definition numeric_wf (e : xnumeric) : Prop :=
  match xn_default e with Some c => cal_wf c | None => True end /\
  match xn_context e with Some cs => cs <> [] /\ Forall context_wf cs | None => True end.
Lemma rt_contexts cs : Forall context_wf cs -> mapM (read_context U) (map (write_context U) cs) = Ok cs.
Proof. intro H. apply mapM_map_rt. eapply Forall_impl; [|exact H]. intros; now apply rt_context. Qed.

Theorem rt_numeric e : numeric_wf e -> read_numeric U (xn_float e) (write_numeric U e) = Ok e.
Proof.
  intros [Wd Wc]. destruct e as [fl sz enc ord d c]. cbn [xn_default xn_context xn_float] in *.
  unfold read_numeric, write_numeric. cbn [xn_float xn_size xn_encoding xn_order xn_default xn_context].
  set (tag := if fl then "FloatDataEncoding" else "IntegerDataEncoding").
  assert (RC : forall kids0, read_context_list U (E U tag [("sizeInBits", AZ sz); ("encoding", AS enc); ("byteOrder", AS ord)]
                 (kids0 ++ match c with Some ((_ :: _) as cs) => [E U "ContextCalibratorList" [] (map (write_context U) cs)] | _ => [] end)) = Ok c
                 \/ exists x, In x kids0 /\ is_tag U "ContextCalibratorList" x = true).
  { intro kids0. destruct c as [[|c0 cs]|].
    - destruct Wc as [Wc _]. congruence.
    - destruct Wc as [_ Wc]. induction kids0 as [|x t IHt].
      + left. unfold read_context_list. fstep. rewrite rt_contexts by exact Wc. reflexivity.
      + destruct (is_tag U "ContextCalibratorList" x) eqn:T; [right; exists x; split; [now left|exact T]|].
        destruct IHt as [IHt|(y & Hy & Ty)]; [left|right; exists y; split; [now right|exact Ty]].
        unfold read_context_list, find in *. rewrite E_kids in *. cbn [app List.find]. now rewrite T.
    - induction kids0 as [|x t IHt].
      + left. unfold read_context_list. fstep. reflexivity.
      + destruct (is_tag U "ContextCalibratorList" x) eqn:T; [right; exists x; split; [now left|exact T]|].
        destruct IHt as [IHt|(y & Hy & Ty)]; [left|right; exists y; split; [now right|exact Ty]].
        unfold read_context_list, find in *. rewrite E_kids in *. cbn [app List.find]. now rewrite T. }
  destruct d as [cal|].
  - cbn [app]. step.
    rewrite (rt_default_cal tag _ _ cal Wd). cbn [bind].
    destruct (RC [E U "DefaultCalibrator" [] [write_cal U cal]]) as [R|(x & [<-|[]] & Tx)].
    + cbn [app] in R. rewrite R. reflexivity.
    + rewrite is_tag_E in Tx. discriminate.
  - cbn [app]. step.
    assert (D : read_default_cal U (E U tag [("sizeInBits", AZ sz); ("encoding", AS enc); ("byteOrder", AS ord)]
                  match c with Some ((_ :: _) as cs) => [E U "ContextCalibratorList" [] (map (write_context U) cs)] | _ => [] end) = Ok None).
    { unfold read_default_cal. destruct c as [[|c0 cs]|]; fstep; reflexivity. }
    rewrite D. cbn [bind]. destruct (RC []) as [R|(x & [] & _)]. cbn [app] in R. rewrite R. reflexivity.
Qed.
End RT.

Theorem stable_criteria U all_children bool_ok tag attrs ks : criteria_wf bool_ok ks ->
  forall ks', read_match U all_children bool_ok (E U tag attrs (write_criteria U ks)) = Ok (Some ks') ->
  write_criteria U ks' = write_criteria U ks.
Proof. intros W ks' H. rewrite (rt_match U all_children bool_ok tag attrs ks W) in H. now injection H as <-. Qed.
Theorem write_deterministic U date d : write_doc U date d = write_doc U date d.
Proof. reflexivity. Qed.

(* ================= C15: every element the writer creates lies in the definition's XTCE namespace ================= *)
Section NS.
Variable U : option string.
Inductive in_ns : velem -> Prop := in_ns_intro m a t k : Forall in_ns k -> in_ns (VE (U, m) a t k).

Lemma in_ns_E m a k : Forall in_ns k -> in_ns (E U m a k).
Proof. intro H. unfold E. now constructor. Qed.
Lemma in_ns_ET m t : in_ns (ET U m t).
Proof. unfold ET. constructor. constructor. Qed.
Lemma Forall_map_intro {A} (f : A -> velem) l : (forall x, in_ns (f x)) -> Forall in_ns (map f l).
Proof. intro H. induction l; cbn; constructor; auto. Qed.
Lemma Forall_app_intro (a b : list velem) : Forall in_ns a -> Forall in_ns b -> Forall in_ns (a ++ b).
Proof. intros. apply Forall_app. split; assumption. Qed.

Ltac ns :=
  repeat first
    [ apply in_ns_ET
    | apply in_ns_E
    | apply Forall_app_intro
    | apply Forall_map_intro; intros
    | apply Forall_nil
    | apply Forall_cons
    | match goal with |- context [match ?x with _ => _ end] => destruct x end
    | match goal with |- context [if ?x then _ else _] => destruct x end ].

Lemma ns_comparison c : in_ns (write_comparison U c). Proof. unfold write_comparison. ns. Qed.
Lemma ns_condition d : in_ns (write_condition U d). Proof. unfold write_condition. ns. Qed.
Lemma Forall_map_forall {A} (f : A -> velem) l : Forall (fun x => in_ns (f x)) l -> Forall in_ns (map f l).
Proof. induction 1; cbn; constructor; auto. Qed.
Lemma ns_bx : forall t, in_ns (write_bx U t).
Proof.
  apply (xbx_ind' (fun t => in_ns (write_bx U t))); intros cs subs IH; cbn [write_bx]; apply in_ns_E; apply Forall_app_intro;
    try (apply Forall_map_intro; intros; apply ns_condition); now apply Forall_map_forall.
Qed.
Lemma ns_bexpr b : in_ns (write_bexpr U b).
Proof. unfold write_bexpr. apply in_ns_E. constructor; [|constructor]. destruct b; [apply ns_condition|apply ns_bx]. Qed.
Lemma ns_criterion k : in_ns (write_criterion U k).
Proof. destruct k; [apply ns_comparison|apply ns_bexpr]. Qed.
Lemma ns_list ks : in_ns (E U "ComparisonList" [] (map (write_criterion U) ks)).
Proof. apply in_ns_E. apply Forall_map_intro. intros; apply ns_criterion. Qed.
Lemma ns_criteria ks : Forall in_ns (write_criteria U ks).
Proof.
  unfold write_criteria. destruct ks as [|k [|k2 r]].
  - constructor; [apply ns_list|constructor].
  - constructor; [apply ns_criterion|constructor].
  - constructor; [apply ns_list|constructor].
Qed.
Lemma ns_cal c : in_ns (write_cal U c).
Proof. destruct c; cbn [write_cal]; apply in_ns_E; apply Forall_map_intro; intros; apply in_ns_E; constructor. Qed.
Ltac ns1 := first [ apply in_ns_ET | apply ns_comparison | apply ns_condition | apply ns_bx | apply ns_bexpr | apply ns_criterion
                  | apply ns_list | apply ns_criteria | apply ns_cal | apply in_ns_E | apply Forall_nil | apply Forall_cons
                  | apply Forall_app_intro | (apply Forall_map_intro; intros) ].
Ltac nsall := repeat ns1.

Lemma ns_context c : in_ns (write_context U c).
Proof. unfold write_context. nsall. Qed.
Lemma ns_lookup l : in_ns (write_lookup U l).
Proof. unfold write_lookup. destruct (xl_criteria l) as [|k [|k2 r]]; nsall. Qed.
Lemma ns_dynamic r c a : in_ns (write_dynamic U r c a).
Proof. unfold write_dynamic. destruct a as [[s0 i]|]; nsall. Qed.
Lemma ns_numeric e : in_ns (write_numeric U e).
Proof. unfold write_numeric. destruct (xn_default e), (xn_context e) as [[|c cs]|]; repeat first [apply ns_context | ns1]. Qed.
Lemma ns_string e : in_ns (write_string U e).
Proof.
  unfold write_string. destruct (xs_leading e) as [z|]; [destruct (z =? 0)%Z|]; (destruct (xs_term e) as [t|]; [destruct (String.eqb t "")|]);
    destruct (xs_size e) as [n|r c a|ls]; repeat first [apply ns_dynamic | apply ns_lookup | ns1].
Qed.
Lemma ns_binary s0 : in_ns (write_binary U s0).
Proof. unfold write_binary. destruct s0; repeat first [apply ns_dynamic | apply ns_lookup | ns1]. Qed.
Lemma ns_encoding e : in_ns (write_encoding U e).
Proof. destruct e; [apply ns_numeric|apply ns_string|apply ns_binary]. Qed.
Lemma ns_ptype t : in_ns (write_ptype U t).
Proof.
  unfold write_ptype. destruct (xt_kind t) as [| | | | |labels|ab epoch ofrom].
  1-6: destruct (xt_unit t) as [u|]; [destruct (String.eqb u "")|]; repeat first [apply ns_encoding | ns1].
  destruct ofrom as [o|], epoch as [ep|]; repeat first [apply ns_encoding | ns1].
Qed.
Lemma ns_param p : in_ns (write_param U p).
Proof. unfold write_param. destruct (nonempty (xp_long p)); nsall. Qed.
Lemma ns_entries es : in_ns (E U "EntryList" [] (map (fun e => match e with
                                            | XEP n => E U "ParameterRefEntry" [("parameterRef", AS n)] []
                                            | XEC n => E U "ContainerRefEntry" [("containerRef", AS n)] [] end) es)).
Proof. apply in_ns_E. apply Forall_map_intro. intros [n|n]; nsall. Qed.
Lemma ns_container c v : write_container U c = Ok v -> in_ns v.
Proof.
  pose proof (ns_criteria (xk_criteria c)) as NC.
  unfold write_container. destruct (xk_criteria c) as [|k ks] eqn:Ck, (xk_base c) as [b|] eqn:Cb; try discriminate; intro H; injection H as <-;
    destruct (nonempty (xk_long c)); repeat first [exact NC | apply ns_entries | ns1].
Qed.
Lemma ns_containers cs : forall vs, mapM (write_container U) cs = Ok vs -> Forall in_ns vs.
Proof.
  induction cs as [|c t IH]; intros vs H; cbn [mapM] in H; [injection H as <-; constructor|].
  destruct (write_container U c) as [v|] eqn:W; cbn [bind] in H; [|discriminate].
  destruct (mapM (write_container U) t) as [r|]; cbn [bind] in H; [|discriminate]. injection H as <-. constructor; [eapply ns_container; eauto|auto].
Qed.
Theorem write_doc_in_namespace date d v : write_doc U date d = Ok v -> in_ns v.
Proof.
  unfold write_doc. destruct (mapM (write_container U) (xd_containers d)) as [cs|] eqn:C; cbn [bind]; [|discriminate].
  intro H. injection H as <-. repeat first [apply ns_ptype | apply ns_param | ns1]. eapply ns_containers; eauto.
Qed.
End NS.
