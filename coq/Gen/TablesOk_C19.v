(* the constants of cli.py, re-extracted from the source on every run, equal the model's *)
From Coq Require Import ZArith List.
From SPP Require Import Model.Cli.
From SPP Require Import Gen.Tables.
Lemma max_rows_ok : g_MAX_ROWS = MAX_ROWS. Proof. reflexivity. Qed.
Lemma head_rows_ok : g_HEAD_ROWS = HEAD_ROWS. Proof. reflexivity. Qed.
