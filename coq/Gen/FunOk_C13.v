(* Gen/FunOk_C13.v — the header word: the expression assigned to `header` in the current source of packets.create_ccsds_packet,
   turned into Gallina by the translator, is the model's [header_word] (Model/Header.v) of the seven fields.
   Compiled on every C13 run against the freshly generated Gen/Fun_C13.v. *)
From Coq Require Import ZArith List Bool Lia.
From SPP Require Import Base.Bytes Base.Sx Base.PyEval Model.Header Gen.Fun_C13.
Import ListNotations.
Open Scope Z_scope.

Theorem gen_header_word_is_model v t s a f c data :
  gen_header_word (VInt v) (VInt t) (VInt s) (VInt a) (VInt f) (VInt c) (VBytes data)
  = Ok (VInt (header_word v t s a f c (zlen data - 1))).
Proof.
  unfold gen_header_word, header_word.
  cbn [py_sub py_lshift py_bitor py_len as_int arith bind].
  change (48 - 3) with 45. change (48 - 4) with 44. change (48 - 5) with 43. change (48 - 16) with 32. change (48 - 18) with 30. change (48 - 32) with 16.
  cbn [Z.ltb Z.compare bind as_int]. reflexivity.
Qed.
Print Assumptions gen_header_word_is_model.
