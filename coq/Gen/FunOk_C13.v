(* Gen/FunOk_C13.v — create_ccsds_packet, whole (second theorem), and its header word: the expression assigned to `header` in the current source of packets.create_ccsds_packet,
   turned into Gallina by the translator, is the model's [header_word] (Model/Header.v) of the seven fields.
   Compiled on every C13 run against the freshly generated Gen/Fun_C13.v. *)
From Coq Require Import ZArith List Bool Lia.
From SPP Require Import Base.Bytes Base.Sx Base.PyEval Model.Header Gen.Fun_C13.
Import ListNotations.
Open Scope Z_scope.

Theorem gen_header_word_is_model v t s a f c data :
  gen_header_word (VInt v) (VInt t) (VInt s) (VInt a) (VInt f) (VInt c) (VBytes data)
  = Ok (VInt (header_word v t s a f c (zlen data - 1))).
Proof.
  unfold gen_header_word, header_word.
  cbn [py_sub py_lshift py_bitor py_len as_int arith bind].
  change (48 - 3) with 45. change (48 - 4) with 44. change (48 - 5) with 43. change (48 - 16) with 32. change (48 - 18) with 30. change (48 - 32) with 16.
  cbn [Z.ltb Z.compare bind as_int]. reflexivity.
Qed.
Print Assumptions gen_header_word_is_model.

(* ---- the whole of create_ccsds_packet: the seven range checks, the header word, its six bytes, the data appended ---- *)
From SPP Require Import Proofs.HeaderP.
From Coq Require Import Lia Bool.

Ltac range_check x lo hi :=
  let A := fresh "A" in let B := fresh "B" in
  destruct (Z.ltb_spec x lo) as [A|A]; cbn [bind PyEval.truthy orb]; [reflexivity|];
  rewrite (Z.gtb_ltb x hi); destruct (Z.ltb_spec hi x) as [B|B]; cbn [bind PyEval.truthy orb]; [reflexivity|].

Theorem gen_create_packet_is_model data v t s a f c :
  gen_create_packet (VBytes data) (VInt v) (VInt t) (VInt s) (VInt a) (VInt f) (VInt c)
  = match create_packet v t s a f c data with Ok p => Ok (VBytes p) | Err e => Err e end.
Proof.
  unfold gen_create_packet, create_packet, out_of.
  cbn [py_lt py_gt py_len as_int bind].
  range_check v 0 7. range_check t 0 1. range_check s 0 1. range_check a 0 2047. range_check f 0 3. range_check c 0 16383.
  range_check (zlen data) 1 65536.
  cbn [py_sub py_lshift py_bitor py_len arith as_int bind].
  change (48 - 3) with 45. change (48 - 4) with 44. change (48 - 5) with 43. change (48 - 16) with 32. change (48 - 18) with 30. change (48 - 32) with 16.
  cbn [Z.ltb Z.compare bind as_int py_bitor].
  fold (header_word v t s a f c (zlen data - 1)).
  assert (FO : fields_ok v t s a f c (zlen data - 1)) by (unfold fields_ok; lia).
  pose proof (header_sum_bound _ _ _ _ _ _ _ FO) as Bd. rewrite <- (header_word_sum _ _ _ _ _ _ _ FO) in Bd.
  set (hw := header_word v t s a f c (zlen data - 1)) in *.
  cbn [py_to_bytes_big as_int Z.ltb Z.compare].
  destruct (Z.ltb_spec hw 0) as [?|_]; [lia|]. change (8 * 6) with 48. destruct (Z.leb_spec (2 ^ 48) hw) as [?|_]; [lia|].
  cbn [bind py_add]. reflexivity.
Qed.
Print Assumptions gen_create_packet_is_model.

(* ================= the property C13, stated of the function generated from the source =================
   inside the ranges the code's create_ccsds_packet (as translated) returns the packet whose bit string is the seven header
   fields at their CCSDS positions followed by the data, and outside them it raises ValueError and constructs nothing *)
Theorem generated_create_packet_meets_C13 v t s a f c data : in_range v t s a f c data ->
  exists p, gen_create_packet (VBytes data) (VInt v) (VInt t) (VInt s) (VInt a) (VInt f) (VInt c) = Ok (VBytes p) /\
            bits_of_bytes p = header_bits v t s a f c (zlen data - 1) ++ bits_of_bytes data /\
            header_values p = [v; t; s; a; f; c; zlen data - 1].
Proof.
  intro R. exists (packet v t s a f c data). rewrite gen_create_packet_is_model, (create_ok _ _ _ _ _ _ _ R).
  split; [reflexivity|]. split; [now apply layout|now apply accessors_inverse].
Qed.
Print Assumptions generated_create_packet_meets_C13.
Theorem generated_create_packet_rejects v t s a f c data :
  ~ (0 <= v <= 7 /\ 0 <= t <= 1 /\ 0 <= s <= 1 /\ 0 <= a <= 2047 /\ 0 <= f <= 3 /\ 0 <= c <= 16383 /\ 1 <= zlen data <= 65536) ->
  gen_create_packet (VBytes data) (VInt v) (VInt t) (VInt s) (VInt a) (VInt f) (VInt c) = Err EValue.
Proof. intro H. now rewrite gen_create_packet_is_model, (create_rejects _ _ _ _ _ _ _ H). Qed.
Print Assumptions generated_create_packet_rejects.
