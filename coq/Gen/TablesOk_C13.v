(* header constants of packets.py, re-extracted from the source on every run, equal the model's *)
From Coq Require Import ZArith List.
From SPP Require Import Model.Header Model.Framer.
From SPP Require Import Gen.Tables.
Import ListNotations. Open Scope Z_scope.
Lemma limits_ok : g_LIMITS = [(0, 7); (0, 1); (0, 1); (0, 2047); (0, 3); (0, 16383); (1, 65536)]. Proof. reflexivity. Qed.
Lemma shifts_ok : g_SHIFTS = [45; 44; 43; 32; 30; 16]. Proof. reflexivity. Qed.
Lemma accessors_ok : g_ACCESSORS = [(0, 3); (3, 1); (4, 1); (5, 11); (16, 2); (18, 14)]. Proof. reflexivity. Qed.
Lemma header_len_ok : g_HEADER_LENGTH_BYTES = 6. Proof. reflexivity. Qed.
Lemma len_field_ok : g_LEN_FIELD = [32; 16]. Proof. reflexivity. Qed.
Lemma trim_ok : g_TRIM = TRIM. Proof. reflexivity. Qed.
