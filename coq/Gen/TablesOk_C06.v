(* MatchCriteria._valid_operators, re-extracted from comparisons.py on every run, is the model's table *)
From Coq Require Import ZArith List String.
From SPP Require Import Base.Sx Model.Values Model.Criteria.
From SPP Require Import Gen.Tables.
Lemma operators_ok : g_OPERATORS = map (fun so => (fst so, dunder (snd so))) operator_table. Proof. reflexivity. Qed.
