(* Gen/FunOk_C04.v — the function the translator generates from the current source of NumericDataEncoding._twos_complement is
   the model's [twos_complement] (Model/Decode.v), for every value and every width >= 1.  Compiled on every C04 run against the
   freshly generated Gen/Fun_C04.v. *)
From Coq Require Import ZArith List Bool Lia.
From SPP Require Import Base.Bytes Base.Sx Base.PyEval Model.Decode Gen.Fun_C04.
Import ListNotations.
Open Scope Z_scope.

Lemma land_pow2 v k : 0 <= k -> Z.land v (2 ^ k) = if Z.testbit v k then 2 ^ k else 0.
Proof.
  intro Hk. apply Z.bits_inj'. intros i Hi. rewrite Z.land_spec, Z.pow2_bits_eqb by lia.
  destruct (Z.eqb_spec k i) as [->|Hne].
  - destruct (Z.testbit v i) eqn:T; [now rewrite Z.pow2_bits_true by lia|now rewrite Z.bits_0].
  - rewrite andb_false_r. destruct (Z.testbit v k); [rewrite Z.pow2_bits_false by lia; reflexivity|now rewrite Z.bits_0].
Qed.

Theorem gen_twos_complement_is_model v w : 1 <= w ->
  gen_twos_complement (VInt v) (VInt w) = Ok (VInt (twos_complement v w)).
Proof.
  intro Hw. unfold gen_twos_complement, twos_complement.
  cbn [py_sub py_lshift py_bitand py_ne as_int arith bind].
  destruct (Z.ltb_spec (w - 1) 0) as [?|_]; [lia|]. cbn [bind as_int py_ne]. rewrite Z.shiftl_1_l, land_pow2 by lia.
  assert (P : 0 < 2 ^ (w - 1)) by (apply Z.pow_pos_nonneg; lia).
  destruct (Z.testbit v (w - 1)).
  - destruct (Z.eqb_spec (2 ^ (w - 1)) 0) as [?|_]; [lia|]. cbn [negb PyEval.truthy bind].
    destruct (Z.ltb_spec w 0) as [?|_]; [lia|]. cbn [bind as_int]. now rewrite Z.shiftl_1_l.
  - cbn [Z.eqb negb PyEval.truthy bind]. reflexivity.
Qed.
Print Assumptions gen_twos_complement_is_model.
