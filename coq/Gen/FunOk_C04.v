(* Gen/FunOk_C04.v — the function the translator generates from the current source of NumericDataEncoding._twos_complement is
   the model's [twos_complement] (Model/Decode.v), for every value and every width >= 1.  Compiled on every C04 run against the
   freshly generated Gen/Fun_C04.v. *)
From Coq Require Import ZArith List Bool Lia.
From SPP Require Import Base.Bytes Base.Sx Base.PyEval Model.Cursor Model.Values Model.Doc Model.Decode Gen.Fun_C03 Gen.FunOk_C03 Gen.Fun_C04.
Import ListNotations.
Open Scope Z_scope.

Lemma land_pow2 v k : 0 <= k -> Z.land v (2 ^ k) = if Z.testbit v k then 2 ^ k else 0.
Proof.
  intro Hk. apply Z.bits_inj'. intros i Hi. rewrite Z.land_spec, Z.pow2_bits_eqb by lia.
  destruct (Z.eqb_spec k i) as [->|Hne].
  - destruct (Z.testbit v i) eqn:T; [now rewrite Z.pow2_bits_true by lia|now rewrite Z.bits_0].
  - rewrite andb_false_r. destruct (Z.testbit v k); [rewrite Z.pow2_bits_false by lia; reflexivity|now rewrite Z.bits_0].
Qed.

Theorem gen_twos_complement_is_model v w : 1 <= w ->
  gen_twos_complement (VInt v) (VInt w) = Ok (VInt (twos_complement v w)).
Proof.
  intro Hw. unfold gen_twos_complement, twos_complement.
  cbn [py_sub py_lshift py_bitand py_ne as_int arith bind].
  destruct (Z.ltb_spec (w - 1) 0) as [?|_]; [lia|]. cbn [bind as_int py_ne]. rewrite Z.shiftl_1_l, land_pow2 by lia.
  assert (P : 0 < 2 ^ (w - 1)) by (apply Z.pow_pos_nonneg; lia).
  destruct (Z.testbit v (w - 1)).
  - destruct (Z.eqb_spec (2 ^ (w - 1)) 0) as [?|_]; [lia|]. cbn [negb PyEval.truthy bind].
    destruct (Z.ltb_spec w 0) as [?|_]; [lia|]. cbn [bind as_int]. now rewrite Z.shiftl_1_l.
  - cbn [Z.eqb negb PyEval.truthy bind]. reflexivity.
Qed.
Print Assumptions gen_twos_complement_is_model.

(* ---- IntegerDataEncoding._get_raw_value: read, byte reversal for least-significant-byte-first, sign ---- *)
Lemma slice_short a b (l : list Z) : a <= b -> zlen (slice a b l) <= b - a.
Proof. intro H. unfold slice, zlen. pose proof (firstn_le_length (Z.to_nat (b - a)) (skipn (Z.to_nat a) l)). lia. Qed.

Lemma extract_bits_fits data p n v : wf data -> 0 <= p -> 0 <= n -> extract_bits data p n = Ok v -> 0 <= v < 2 ^ (8 * ((n + 7) / 8)).
Proof.
  intros W Hp Hn. unfold extract_bits.
  assert (Q : 0 <= (p mod 8 + n + 7) / 8) by (apply Z.div_pos; [pose proof (Z.mod_pos_bound p 8 ltac:(lia)); lia|lia]).
  assert (P8 : 0 <= p / 8) by (apply Z.div_pos; lia).
  destruct (Z.ltb_spec (p / 8 + (p mod 8 + n + 7) / 8) 0) as [?|_]; [lia|].
  destruct (p mod 8 =? 0) eqn:A; cbn [andb].
  - destruct (n mod 8 =? 0) eqn:B.
    + intro H. injection H as <-. apply Z.eqb_eq in A. rewrite A in *. cbn [Z.add] in *.
      set (d := slice (p / 8) (p / 8 + (n + 7) / 8) data).
      pose proof (from_be_bound d (wf_slice _ _ _ W)) as Bd. pose proof (slice_short (p / 8) (p / 8 + (n + 7) / 8) data ltac:(lia)) as Sd. fold d in Sd.
      assert (2 ^ (8 * zlen d) <= 2 ^ (8 * ((n + 7) / 8))) by (apply Z.pow_le_mono_r; lia). lia.
    + match goal with |- context [if ?c then Err EValue else _] => destruct c end; [discriminate|].
      destruct (n <? 0); [discriminate|]. intro H. injection H as <-. apply masked_fits; lia.
  - match goal with |- context [if ?c then Err EValue else _] => destruct c end; [discriminate|].
    destruct (n <? 0); [discriminate|]. intro H. injection H as <-. apply masked_fits; lia.
Qed.

Definition int_enc (size : Z) (lsb unsigned : bool) : numeric_enc :=
  {| ne_size := size; ne_kind := KInt (negb unsigned); ne_order := if lsb then LSB else MSB; ne_default := None; ne_context := None |}.
Definition out_raw (r : res (num * cursor)) : res (pv * pv) :=
  match r with Ok (NInt v, c') => Ok (VInt v, VInt (cpos c')) | Ok (NFloat _, _) => Err EOther | Err e => Err e end.

Theorem gen_int_raw_is_model data pos size lsb unsigned : wf data -> 0 <= pos ->
  gen_int_raw (VBytes data) (VInt pos) (VInt size) (VBool lsb) (VBool unsigned) =
  out_raw (raw_numeric (int_enc size lsb unsigned) {| cdata := data; cpos := pos |}).
Proof.
  intros W Hp. unfold gen_int_raw, raw_numeric, int_enc, out_raw. cbn [ne_kind ne_size ne_order].
  rewrite (gen_read_as_int_is_model data pos size Hp). unfold out_int, read_as_int. cbn [cdata cpos].
  destruct (Z.ltb_spec size 0) as [?|Hs]; [reflexivity|].
  destruct (extract_bits data pos size) as [v|e] eqn:X; cbn [bind]; [|reflexivity].
  pose proof (extract_bits_fits data pos size v W Hp Hs X) as F.
  assert (Q : 0 <= (size + 7) / 8) by (apply Z.div_pos; lia).
  assert (V : (if PyEval.truthy (VBool lsb)
               then (t5 <- py_add (VInt size) (VInt 7) ;; t4 <- py_floordiv t5 (VInt 8) ;; t3 <- py_to_bytes_little (VInt v) t4 ;; t2 <- py_from_bytes_big t3 ;; Ok t2)
               else Ok (VInt v))
              = Ok (VInt (match (if lsb then LSB else MSB) with LSB => reverse_bytes v (Z.to_nat ((size + 7) / 8)) | MSB => v end))).
  { destruct lsb; cbn [PyEval.truthy]; [|reflexivity].
    cbn [py_add arith as_int bind py_floordiv Z.eqb py_to_bytes_little].
    destruct (Z.ltb_spec ((size + 7) / 8) 0) as [?|_]; [lia|]. destruct (Z.ltb_spec v 0) as [?|_]; [lia|].
    destruct (Z.leb_spec (2 ^ (8 * ((size + 7) / 8))) v) as [?|_]; [lia|]. reflexivity. }
  cbn [cpos] in *. rewrite V. cbn [bind].
  set (v' := match (if lsb then LSB else MSB) with LSB => _ | MSB => v end).
  destruct unsigned; cbn [PyEval.truthy negb andb]; [reflexivity|].
  destruct (Z.ltb_spec size 1) as [H0|H1].
  - assert (size = 0) by lia. subst size. unfold gen_twos_complement. cbn [py_sub py_lshift arith as_int bind Z.sub Z.ltb Z.compare Z.opp Z.add Z.pos_sub]. reflexivity.
  - rewrite gen_twos_complement_is_model by lia. reflexivity.
Qed.
Print Assumptions gen_int_raw_is_model.

(* ================= the property C04 (integers), stated of the function generated from the source =================
   for every well-formed buffer and every field of n >= 1 bits inside it, the code's IntegerDataEncoding._get_raw_value (as translated)
   returns the unsigned / two's-complement value of the addressed bits — of the field's bytes in reverse order when the encoding is
   least-significant-byte-first over whole bytes — and moves the cursor by exactly n *)
From SPP Require Import Proofs.CursorP Proofs.NumericP.
Theorem generated_int_raw_meets_C04 B p n unsigned : wf B -> 0 <= p -> 1 <= n -> p + n <= 8 * zlen B ->
  gen_int_raw (VBytes B) (VInt p) (VInt n) (VBool false) (VBool unsigned)
  = Ok (VInt (if unsigned then spec_int B p n else signed_of n (spec_int B p n)), VInt (p + n)).
Proof.
  intros W Hp Hn Hin. rewrite gen_int_raw_is_model by assumption. unfold raw_numeric, int_enc, out_raw. cbn [ne_kind ne_size ne_order].
  rewrite read_int_spec by (assumption || lia). cbn [bind cpos].
  destruct (Z.ltb_spec n 1) as [?|_]; [lia|]. rewrite andb_false_r.
  destruct unsigned; cbn [negb]; [reflexivity|]. rewrite twos_complement_spec; [reflexivity|lia|]. apply spec_int_range; (assumption || lia).
Qed.
Print Assumptions generated_int_raw_meets_C04.
Theorem generated_int_raw_lsb_meets_C04 B p n : wf B -> 0 <= p -> 1 <= n -> p + n <= 8 * zlen B ->
  gen_int_raw (VBytes B) (VInt p) (VInt n) (VBool true) (VBool true)
  = Ok (VInt (from_be (rev (spec_bytes B p n))), VInt (p + n)).
Proof.
  intros W Hp Hn Hin. rewrite gen_int_raw_is_model by assumption. unfold raw_numeric, int_enc, out_raw. cbn [ne_kind ne_size ne_order].
  rewrite read_int_spec by (assumption || lia). cbn [bind cpos negb andb]. reflexivity.
Qed.
Print Assumptions generated_int_raw_lsb_meets_C04.

(* the generated _twos_complement inverts the two's complement encoding: every integer of the n-bit signed range comes back
   from its own n-bit pattern, through the code as translated from the current source *)
Theorem generated_twos_complement_inverse n x : 1 <= n -> - 2 ^ (n - 1) <= x < 2 ^ (n - 1) ->
  gen_twos_complement (VInt (x mod 2 ^ n)) (VInt n) = Ok (VInt x).
Proof.
  intros Hn Hx. rewrite gen_twos_complement_is_model by assumption.
  destruct (signed_of_inverse n x Hn Hx) as (_ & _ & E). now rewrite E.
Qed.
Print Assumptions generated_twos_complement_inverse.
