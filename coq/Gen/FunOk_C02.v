(* Gen/FunOk_C02.v — the packet length ccsds_generator computes from a primary header: the expressions assigned to n_bytes_data and
   n_bytes_packet in the current source of packets.ccsds_generator, turned into Gallina by the translator, give the model's
   [plen_ccsds] (Model/Framer.v), for every header of well-formed bytes.  Compiled on every C02 / C10 run against the freshly
   generated Gen/Fun_C02.v (and Gen/Fun_C03.v for _extract_bits). *)
From Coq Require Import ZArith List Bool Lia.
From SPP Require Import Base.Bytes Base.Sx Base.PyEval Model.Cursor Model.Framer Proofs.CursorP Gen.Fun_C03 Gen.FunOk_C03 Gen.Fun_C02.
Import ListNotations.
Open Scope Z_scope.

Theorem gen_packet_length_is_model hdr : wf hdr -> 6 <= zlen hdr ->
  (n <- gen_n_bytes_data (VBytes hdr) ;; gen_n_bytes_packet n) = Ok (VInt (Z.of_nat (plen_ccsds hdr))).
Proof.
  intros W L. unfold gen_n_bytes_data, gen_n_bytes_packet, plen_ccsds.
  rewrite gen_extract_bits_is_model by lia. rewrite (extract_bits_window hdr 32 16) by (auto; lia).
  pose proof (window_range hdr 32 16 ltac:(lia)) as R.
  cbn [bind py_add arith as_int]. do 2 f_equal. rewrite Nat2Z.inj_add, Z2Nat.id by lia. change (Z.of_nat 7) with 7. lia.
Qed.
Print Assumptions gen_packet_length_is_model.
