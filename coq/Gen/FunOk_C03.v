(* Gen/FunOk_C03.v — the function the translator generates from the current source of packets._extract_bits is the
   hand-written model's [extract_bits] (Model/Cursor.v), for every buffer, every start bit >= 0 and every width, including
   the exceptions.  Compiled on every run against the freshly generated Gen/Fun_C03.v. *)
From Coq Require Import ZArith List Bool Lia.
From SPP Require Import Base.Bytes Base.Sx Base.PyEval Model.Cursor Gen.Fun_C03.
Import ListNotations.
Open Scope Z_scope.

Lemma slice_past_end a b (l : list Z) : zlen l <= a -> slice a b l = [].
Proof.
  intro H. unfold slice, zlen in *. rewrite skipn_all2 by lia. now rewrite firstn_nil.
Qed.
Lemma slice_python a b (l : list Z) : 0 <= a ->
  slice (norm_index (zlen l) a) (norm_index (zlen l) b) l = (if b <? 0 then slice a (Z.max 0 (zlen l + b)) l else slice a b l).
Proof.
  intro Ha. unfold norm_index. destruct (Z.ltb_spec a 0) as [?|_]; [lia|].
  destruct (Z_le_gt_dec (zlen l) a) as [Hge|Hlt].
  - rewrite Z.min_r by lia. rewrite (slice_past_end (zlen l)) by lia. destruct (b <? 0); now rewrite slice_past_end by lia.
  - rewrite Z.min_l by lia. destruct (Z.ltb_spec b 0) as [Hb|Hb]; [reflexivity|].
    destruct (Z_le_gt_dec b (zlen l)) as [Hbn|Hbn]; [now rewrite Z.min_l by lia|]. rewrite Z.min_r by lia.
    unfold slice, zlen in *. rewrite !firstn_all2; auto; rewrite skipn_length; lia.
Qed.

Theorem gen_extract_bits_is_model data start nbits : 0 <= start ->
  gen_extract_bits (VBytes data) (VInt start) (VInt nbits) =
  match extract_bits data start nbits with Ok z => Ok (VInt z) | Err e => Err e end.
Proof.
  intro Hs. unfold gen_extract_bits, extract_bits.
  cbn [py_floordiv py_mod py_add py_sub py_mul py_pow py_rshift py_bitand py_eq py_slice py_len py_from_bytes_big as_int arith bind truthy Z.eqb].
  assert (H8 : 0 <= start / 8) by (apply Z.div_pos; lia).
  rewrite (slice_python (start / 8) (start / 8 + (start mod 8 + nbits + 7) / 8) data H8).
  set (S := if start / 8 + (start mod 8 + nbits + 7) / 8 <? 0 then _ else _).
  destruct (start mod 8 =? 0); cbn [bind truthy andb].
  - destruct (nbits mod 8 =? 0); cbn [bind truthy]; [reflexivity|].
    destruct (zlen S * 8 - start mod 8 - nbits <? 0); cbn [bind]; [reflexivity|].
    destruct (nbits <? 0); cbn [bind py_sub arith as_int py_bitand]; reflexivity.
  - destruct (zlen S * 8 - start mod 8 - nbits <? 0); cbn [bind]; [reflexivity|].
    destruct (nbits <? 0); cbn [bind py_sub arith as_int py_bitand]; reflexivity.
Qed.
Print Assumptions gen_extract_bits_is_model.
