(* Gen/FunOk_C03.v — the function the translator generates from the current source of packets._extract_bits is the
   hand-written model's [extract_bits] (Model/Cursor.v), for every buffer, every start bit >= 0 and every width, including
   the exceptions.  Compiled on every run against the freshly generated Gen/Fun_C03.v. *)
From Coq Require Import ZArith List Bool Lia.
From SPP Require Import Base.Bytes Base.Sx Base.PyEval Model.Cursor Model.Header Proofs.CursorP Gen.Fun_C03.
Import ListNotations.
Open Scope Z_scope.

Lemma slice_past_end a b (l : list Z) : zlen l <= a -> slice a b l = [].
Proof.
  intro H. unfold slice, zlen in *. rewrite skipn_all2 by lia. now rewrite firstn_nil.
Qed.
Lemma slice_python a b (l : list Z) : 0 <= a ->
  slice (norm_index (zlen l) a) (norm_index (zlen l) b) l = (if b <? 0 then slice a (Z.max 0 (zlen l + b)) l else slice a b l).
Proof.
  intro Ha. unfold norm_index. destruct (Z.ltb_spec a 0) as [?|_]; [lia|].
  destruct (Z_le_gt_dec (zlen l) a) as [Hge|Hlt].
  - rewrite Z.min_r by lia. rewrite (slice_past_end (zlen l)) by lia. destruct (b <? 0); now rewrite slice_past_end by lia.
  - rewrite Z.min_l by lia. destruct (Z.ltb_spec b 0) as [Hb|Hb]; [reflexivity|].
    destruct (Z_le_gt_dec b (zlen l)) as [Hbn|Hbn]; [now rewrite Z.min_l by lia|]. rewrite Z.min_r by lia.
    unfold slice, zlen in *. rewrite !firstn_all2; auto; rewrite skipn_length; lia.
Qed.

Theorem gen_extract_bits_is_model data start nbits : 0 <= start ->
  gen_extract_bits (VBytes data) (VInt start) (VInt nbits) =
  match extract_bits data start nbits with Ok z => Ok (VInt z) | Err e => Err e end.
Proof.
  intro Hs. unfold gen_extract_bits, extract_bits.
  cbn [py_floordiv py_mod py_add py_sub py_mul py_pow py_rshift py_bitand py_eq py_slice py_len py_from_bytes_big as_int arith bind truthy Z.eqb].
  assert (H8 : 0 <= start / 8) by (apply Z.div_pos; lia).
  rewrite (slice_python (start / 8) (start / 8 + (start mod 8 + nbits + 7) / 8) data H8).
  set (S := if start / 8 + (start mod 8 + nbits + 7) / 8 <? 0 then _ else _).
  destruct (start mod 8 =? 0); cbn [bind truthy andb].
  - destruct (nbits mod 8 =? 0); cbn [bind truthy]; [reflexivity|].
    destruct (zlen S * 8 - start mod 8 - nbits <? 0); cbn [bind]; [reflexivity|].
    destruct (nbits <? 0); cbn [bind py_sub arith as_int py_bitand]; reflexivity.
  - destruct (zlen S * 8 - start mod 8 - nbits <? 0); cbn [bind]; [reflexivity|].
    destruct (nbits <? 0); cbn [bind py_sub arith as_int py_bitand]; reflexivity.
Qed.
Print Assumptions gen_extract_bits_is_model.

(* ---- the cursor methods: RawPacketData.read_as_int / read_as_bytes, the cursor threaded through as a value ---- *)
Definition out_int (r : res (Z * cursor)) : res (pv * pv) :=
  match r with Ok (v, c') => Ok (VInt v, VInt (cpos c')) | Err e => Err e end.
Definition out_bytes (r : res (list Z * cursor)) : res (pv * pv) :=
  match r with Ok (v, c') => Ok (VBytes v, VInt (cpos c')) | Err e => Err e end.

Theorem gen_read_as_int_is_model data pos nbits : 0 <= pos ->
  gen_read_as_int (VBytes data) (VInt pos) (VInt nbits) = out_int (read_as_int {| cdata := data; cpos := pos |} nbits).
Proof.
  intro Hp. unfold gen_read_as_int, read_as_int, out_int. cbn [py_lt as_int bind PyEval.truthy cdata cpos].
  destruct (nbits <? 0); [reflexivity|].
  rewrite (gen_extract_bits_is_model data pos nbits Hp). destruct (extract_bits data pos nbits) as [v|e]; cbn [bind py_add arith as_int cpos]; reflexivity.
Qed.
Print Assumptions gen_read_as_int_is_model.

Lemma masked_fits v sh n : 0 <= n -> 0 <= Z.land (Z.shiftr v sh) (2 ^ n - 1) < 2 ^ (8 * ((n + 7) / 8)).
Proof.
  intro Hn. replace (2 ^ n - 1) with (Z.ones n) by (rewrite Z.ones_equiv; lia). rewrite Z.land_ones by lia.
  pose proof (Z.mod_pos_bound (Z.shiftr v sh) (2 ^ n) ltac:(apply Z.pow_pos_nonneg; lia)) as B.
  assert (2 ^ n <= 2 ^ (8 * ((n + 7) / 8))) by (apply Z.pow_le_mono_r; [lia|]; pose proof (Z.div_mod (n + 7) 8 ltac:(lia)); pose proof (Z.mod_pos_bound (n + 7) 8 ltac:(lia)); lia).
  lia.
Qed.

Theorem gen_read_as_bytes_is_model data pos nbits : 0 <= pos ->
  gen_read_as_bytes (VBytes data) (VInt pos) (VInt nbits) = out_bytes (read_as_bytes {| cdata := data; cpos := pos |} nbits).
Proof.
  intro Hp. unfold gen_read_as_bytes, read_as_bytes, out_bytes.
  cbn [py_lt py_gt py_add py_mul py_mod py_eq py_len py_floordiv arith as_int bind PyEval.truthy cdata cpos Z.eqb].
  destruct (Z.ltb_spec nbits 0) as [?|Hn]; [reflexivity|].
  destruct (pos + nbits >? zlen data * 8); [reflexivity|].
  destruct (pos mod 8 =? 0) eqn:A; cbn [bind PyEval.truthy andb].
  - destruct (nbits mod 8 =? 0) eqn:B; cbn [bind PyEval.truthy].
    + cbn [py_slice as_int bind py_add arith cpos].
      assert (H8 : 0 <= pos / 8) by (apply Z.div_pos; lia).
      rewrite (slice_python (pos / 8) (pos / 8 + (nbits + 7) / 8) data H8).
      assert (Q : 0 <= (nbits + 7) / 8) by (apply Z.div_pos; lia).
      destruct (Z.ltb_spec (pos / 8 + (nbits + 7) / 8) 0) as [?|_]; [lia|]. reflexivity.
    + rewrite (gen_extract_bits_is_model data pos nbits Hp). unfold extract_bits. rewrite A, B. cbn [andb].
      match goal with |- context [if ?c then Err EValue else _] => destruct c end; [reflexivity|].
      destruct (Z.ltb_spec nbits 0) as [?|_]; [lia|]. cbn [bind py_add arith as_int py_floordiv Z.eqb py_to_bytes_big cpos].
      assert (Q : 0 <= (nbits + 7) / 8) by (apply Z.div_pos; lia).
      destruct (Z.ltb_spec ((nbits + 7) / 8) 0) as [?|_]; [lia|].
      match goal with |- context [Z.land (Z.shiftr ?v ?sh) _] => pose proof (masked_fits v sh nbits Hn) as F end.
      match goal with |- context [if ?x <? 0 then Err EOverflow else _] => destruct (Z.ltb_spec x 0) as [?|_]; [lia|] end.
      match goal with |- context [if ?x <=? ?y then Err EOverflow else _] => destruct (Z.leb_spec x y) as [?|_]; [lia|] end.
      reflexivity.
  - rewrite (gen_extract_bits_is_model data pos nbits Hp). unfold extract_bits. rewrite A. cbn [andb].
    match goal with |- context [if ?c then Err EValue else _] => destruct c end; [reflexivity|].
    destruct (Z.ltb_spec nbits 0) as [?|_]; [lia|]. cbn [bind py_add arith as_int py_floordiv Z.eqb py_to_bytes_big cpos].
    assert (Q : 0 <= (nbits + 7) / 8) by (apply Z.div_pos; lia).
    destruct (Z.ltb_spec ((nbits + 7) / 8) 0) as [?|_]; [lia|].
    match goal with |- context [Z.land (Z.shiftr ?v ?sh) _] => pose proof (masked_fits v sh nbits Hn) as F end.
    match goal with |- context [if ?x <? 0 then Err EOverflow else _] => destruct (Z.ltb_spec x 0) as [?|_]; [lia|] end.
    match goal with |- context [if ?x <=? ?y then Err EOverflow else _] => destruct (Z.leb_spec x y) as [?|_]; [lia|] end.
    reflexivity.
Qed.
Print Assumptions gen_read_as_bytes_is_model.

(* ---- the header accessors of RawPacketData (bit positions and widths from the current source) ---- *)
Definition out_field (p : list Z) (s n : Z) : res pv := match extract_bits p s n with Ok z => Ok (VInt z) | Err e => Err e end.
Lemma acc_version p : gen_version_number (VBytes p) = out_field p 0 3.
Proof. unfold gen_version_number, out_field. rewrite gen_extract_bits_is_model by lia. now destruct (extract_bits p 0 3). Qed.
Lemma acc_type p : gen_type (VBytes p) = out_field p 3 1.
Proof. unfold gen_type, out_field. rewrite gen_extract_bits_is_model by lia. now destruct (extract_bits p 3 1). Qed.
Lemma acc_shf p : gen_secondary_header_flag (VBytes p) = out_field p 4 1.
Proof. unfold gen_secondary_header_flag, out_field. rewrite gen_extract_bits_is_model by lia. now destruct (extract_bits p 4 1). Qed.
Lemma acc_apid p : gen_apid (VBytes p) = out_field p 5 11.
Proof. unfold gen_apid, out_field. rewrite gen_extract_bits_is_model by lia. now destruct (extract_bits p 5 11). Qed.
Lemma acc_flags p : gen_sequence_flags (VBytes p) = out_field p 16 2.
Proof. unfold gen_sequence_flags, out_field. rewrite gen_extract_bits_is_model by lia. now destruct (extract_bits p 16 2). Qed.
Lemma acc_count p : gen_sequence_count (VBytes p) = out_field p 18 14.
Proof. unfold gen_sequence_count, out_field. rewrite gen_extract_bits_is_model by lia. now destruct (extract_bits p 18 14). Qed.
Lemma acc_length p : gen_data_length (VBytes p) = Ok (VInt (zlen p - 7)).
Proof. unfold gen_data_length. cbn [py_len bind py_sub arith as_int]. do 2 f_equal. lia. Qed.

(* whenever the accessors succeed (the code raises on a packet shorter than its header), the tuple is the model's header_values *)
Theorem gen_header_values_is_model p vs : gen_header_values (VBytes p) = Ok vs -> vs = map VInt (header_values p).
Proof.
  unfold gen_header_values, header_values, field.
  rewrite acc_version, acc_type, acc_shf, acc_apid, acc_flags, acc_count, acc_length. unfold out_field.
  destruct (extract_bits p 0 3); cbn [bind]; [|discriminate]. destruct (extract_bits p 3 1); cbn [bind]; [|discriminate].
  destruct (extract_bits p 4 1); cbn [bind]; [|discriminate]. destruct (extract_bits p 5 11); cbn [bind]; [|discriminate].
  destruct (extract_bits p 16 2); cbn [bind]; [|discriminate]. destruct (extract_bits p 18 14); cbn [bind]; [|discriminate].
  intro H. injection H as <-. reflexivity.
Qed.
Print Assumptions gen_header_values_is_model.

(* ... and on every buffer of bytes that holds a primary header they do succeed *)
Theorem gen_header_values_total p : wf p -> 6 <= zlen p -> gen_header_values (VBytes p) = Ok (map VInt (header_values p)).
Proof.
  intros W L. unfold gen_header_values, header_values, field.
  rewrite acc_version, acc_type, acc_shf, acc_apid, acc_flags, acc_count, acc_length. unfold out_field.
  rewrite !(extract_bits_window p) by (auto; lia). reflexivity.
Qed.
Print Assumptions gen_header_values_total.

(* ================= the property C03, stated of the functions generated from the source =================
   for every well-formed buffer and every read inside it, the code's read_as_int / read_as_bytes (as translated) return the value of
   the addressed bits of the buffer's bit string (right-aligned bytes for read_as_bytes) and move the cursor by exactly n *)
Theorem generated_read_as_int_meets_C03 B p n : wf B -> 0 <= p -> 0 <= n -> p + n <= 8 * zlen B ->
  gen_read_as_int (VBytes B) (VInt p) (VInt n) = Ok (VInt (spec_int B p n), VInt (p + n)).
Proof. intros W Hp Hn Hin. rewrite gen_read_as_int_is_model by assumption. now rewrite read_int_spec by assumption. Qed.
Print Assumptions generated_read_as_int_meets_C03.
Theorem generated_read_as_bytes_meets_C03 B p n : wf B -> 0 <= p -> 0 <= n -> p + n <= 8 * zlen B ->
  gen_read_as_bytes (VBytes B) (VInt p) (VInt n) = Ok (VBytes (spec_bytes B p n), VInt (p + n)).
Proof. intros W Hp Hn Hin. rewrite gen_read_as_bytes_is_model by assumption. now rewrite read_bytes_spec by assumption. Qed.
Print Assumptions generated_read_as_bytes_meets_C03.

(* consecutive reads of the generated read_as_int compose: the second read, started at the cursor the first
   returned, and one read of the joint width see the same bits and end at the same cursor *)
Theorem generated_reads_compose_C03 B p n m : wf B -> 0 <= p -> 0 <= n -> 0 <= m -> p + n + m <= 8 * zlen B ->
  gen_read_as_int (VBytes B) (VInt p) (VInt n) = Ok (VInt (spec_int B p n), VInt (p + n)) /\
  gen_read_as_int (VBytes B) (VInt (p + n)) (VInt m) = Ok (VInt (spec_int B (p + n) m), VInt (p + n + m)) /\
  gen_read_as_int (VBytes B) (VInt p) (VInt (n + m))
  = Ok (VInt (spec_int B p n * 2 ^ m + spec_int B (p + n) m), VInt (p + n + m)).
Proof.
  intros W Hp Hn Hm Hin.
  split; [apply generated_read_as_int_meets_C03; assumption || lia|].
  split; [apply generated_read_as_int_meets_C03; assumption || lia|].
  rewrite generated_read_as_int_meets_C03 by (assumption || lia).
  rewrite spec_int_split by (assumption || lia). now rewrite Z.add_assoc.
Qed.
Print Assumptions generated_reads_compose_C03.

(* the generated read_as_bytes returns whole bytes read at a byte boundary unchanged *)
Theorem generated_read_as_bytes_aligned_C03 B a k : wf B -> 0 <= a -> 0 <= k -> a + k <= zlen B ->
  gen_read_as_bytes (VBytes B) (VInt (8 * a)) (VInt (8 * k)) = Ok (VBytes (slice a (a + k) B), VInt (8 * a + 8 * k)).
Proof.
  intros W Ha Hk Hin. rewrite gen_read_as_bytes_is_model by lia. now rewrite read_bytes_aligned by (assumption || lia).
Qed.
Print Assumptions generated_read_as_bytes_aligned_C03.
