From Coq Require Import ZArith List String.
From SPP Require Import Base.Sx Model.Values.
From SPP Require Import Gen.Tables.
Lemma mro_ok : g_CLASS_MRO = class_mro. Proof. reflexivity. Qed.
Lemma owned_ok : g_CLASS_OWNED = class_owned. Proof. reflexivity. Qed.
